// Package verif embeds the monitor library so that vcheck can copy it into scratch modules.
package verif

import "embed"

// MonFS holds the sources of package mon (copied into every E-harness module as scratch/mon).
//
//go:embed mon/*.go
var MonFS embed.FS
