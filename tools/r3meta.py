#!/usr/bin/env python3
"""Writes seeded/<id>/meta.json for the third round of seeded faults from the regression output.
usage: r3meta.py /tmp/seedout   (the directory tools/seedtest.sh wrote to)"""
import json, os, re, sys

R3 = {
 "C01e": ("typesMap gets an index of exact registrations keyed by TypeStringBypass (package name, not path)", "two imported packages with the same name each declaring a same-named type, both reaching one plugin"),
 "C01f": ("second generation pass reloads with conf.Import instead of ImportWithTests", "a package needing a second pass (nested derive call) that also has a derive call only in an in-package _test.go file"),
 "C02e": ("canEqual fast path moved above the lookup of a component's own Equal method", "a named ==-comparable component that declares Equal, held by value"),
 "C02f": ("outer parentheses of the []byte comparison dropped, so not() negates only the first operand", "a []byte that is an element of a slice, array or map"),
 "C03e": ("nil checks removed from the map case of compare", "a nil map against an empty non-nil map"),
 "C03f": ("int8/int16/uint8/uint16 components ordered by inline int(a)-int(b)", "two values that differ by more than 1 in such a field or element (result outside -1/0/+1, sign still right)"),
 "C04e": ("hash of a map sorts the keys only when there are more than 2", "a map with exactly two entries"),
 "C04f": ("imported struct without any exported field hashed by its address", "two Equal values of such a type at different addresses"),
 "C05e": ("deepcopy canCopy memoised per named type, keyed by package NAME.Type", "two packages with the same name declaring a same-named type, a flat one asked about before one with slice/map/pointer fields"),
 "C05f": ("deriveClone returns the source slice when its length is 0", "an empty slice with spare capacity (buf[:0])"),
 "C06e": ("nested struct go string concatenated into the Fprintf FORMAT string", "a struct held by value whose content includes a string with %"),
 "C06f": ("byte slices printed as []byte(%q)", "a named byte slice with a String() method as a direct struct field or top-level argument"),
 "C07e": ("upToDate check skips a package whose derived.gen.go is newer than its own files", "a type declared in ANOTHER package changes while the deriving package is untouched"),
 "C07f": ("reload between passes drops the in-package _test.go files", "nested derive call + a derive call only in a _test.go file + a prior file that does not define the inner function"),
 "C08e": ("calls of all files of a package sorted once by token.Pos (file bases depend on parse scheduling)", "derive calls in two or more files of one package; shows in a fraction of runs"),
 "C08f": ("import aliases remembered process-wide", "a package importing only v2/model processed after one importing v1/model and v2/model"),
 "C09e": ("flip rejects variadic functions only when they have exactly two parameters", "deriveFlip of a function with three or more parameters, the last variadic"),
 "C09f": ("IsComparable skips blank struct fields", "deriveMem / deriveUnique over a struct made non-comparable by `_ [0]func()`"),
 "C10e": ("rewritten user file printed with go/printer + os.WriteFile instead of format.Node", "a renamed call in a file with an unsorted import block or number literals like 0XFF / 1E3"),
 "C10f": ("renames that keep the name's length are written in place with WriteAt", "-dedup with an equal-length rename in a file that is not gofmt-formatted"),
 "C11e": ("nameOf fast path through a string index keyed by package NAME", "same-named types from two imported packages that share their package name under one function name (conflict undetected) or two names (false duplicate)"),
 "C11f": ("only calls to *types.Func objects reserve their name", "-autoname minting deriveEqual_ while the user has `var deriveEqual_ = func..` or `type deriveEqual_ int` used in a conversion"),
 "C12e": ("plugins sorted before the prefix overrides are applied", "nested overrides such as contains=Has,any=HasAny,all=HasAll"),
 "C12f": ("plugin dispatch by binary search over prefix-sorted plugins", "nested overrides and a shorter-prefix call whose name sorts after a longer prefix (HasItem > HasAny)"),
 "C13e": ("sort orders elements with their own Compare method when they have one", "[]T where T.Compare orders differently from the derived field-by-field compare"),
 "C13f": ("min / max test the compare result against == -1 / == 1", "a field whose type has a Compare method returning a difference rather than -1/0/+1"),
 "C14e": ("unique records the input index instead of the compacted index in its bucket table", "non-comparable elements: an early duplicate, two new elements, then a repeat"),
 "C14f": ("intersect swaps so that it ranges over the shorter list", "a shorter second list with a different order, a duplicate, or Equal-but-not-identical pointers"),
 "C15e": ("apply names the pre-bound argument `last` without reserving the name", "a non-final parameter called `last` of the same type as the final one"),
 "C15f": ("rename of user parameters called param_N only when that exact name is about to be handed out", "three or more parameters such as func(param_1 int, _ string, param_0 bool)"),
 "C16e": ("toerror returns zero values next to err instead of f's other results", "an f that reports false while returning non-zero other results"),
 "C16f": ("last compose stage emitted as a tail call `return fN(..)`", "the last stage fails while also returning non-zero values"),
 "C17e": ("join appends the other lists onto the first when it has spare capacity for the total", "inner lists that are windows of one buffer joined out of buffer order"),
 "C17f": ("fmap over a string runs ToValidUTF8 first and sizes the output by rune count", "a run of two or more ill-formed bytes"),
 "C18e": ("mem does not store a result whose trailing error is non-nil", "a repeated argument for which f fails"),
 "C18f": ("mem appends to the bucket slice it read BEFORE calling f", "f recursing through the memoized function with an inner argument in the same hash bucket"),
 "C19e": ("fmap over a channel starts max(1, cap(in)) workers", "an input channel of capacity >= 2: order lost, f runs concurrently"),
 "C19f": ("dup puts a forwarding queue in front of c1 and sends directly when it is full", "c1's reader at least cap(c)+2 items behind: items overtake each other"),
 "C20e": ("do limits running functions with a semaphore of GOMAXPROCS slots", "more rendezvousing functions than GOMAXPROCS (invisible on 16 CPUs at the default)"),
 "C20f": ("do joins all errors with errors.Join", "two or more failing functions: the returned error is none of the errors the functions returned"),
}

R4 = {
 "C01g": ("reserved user function names only collected from files that contain derive calls", "a hand-written deriveEqual defined and called only in a file without derive calls, and a nested helper needed elsewhere"),
 "C01h": ("argument types taken from the signature of the function the call already resolves to", "multi-pass generation where a late call carries the bare name an earlier pass gave to a transitive helper"),
 "C02g": ("unexported fields of imported structs read by index among the kept fields", "an imported struct with a blank field before its unexported fields"),
 "C02h": ("pointer case of equal's field() turned into a switch that lost the value-parameter dereference", "a *T field where T declares Equal(T) bool"),
 "C03g": ("compare returns 0 for slices that start at the same element", "two views of one backing array with different lengths"),
 "C03h": ("curried compare of a map sorts the keys of `this` once, when the closure is made", "the map's key set changes between currying and calling"),
 "C04g": ("map hash collects keys into a package-level buffer reused between calls", "a map type reachable from its own values, hashed more than once in a process"),
 "C04h": ("slice hash seeded with cap instead of len", "two Equal slices with different spare capacity"),
 "C05g": ("pointer fields keep the destination's allocation + map key scratch declared once", "map[*int]V or map[[2]*int]V with at least two entries"),
 "C05h": ("imported struct without exported fields copied by assignment", "such a struct holding a private pointer/slice/map, kept by value"),
 "C06g": ("string leaves printed with %q", "a named string type with a String() or Error() method"),
 "C06h": ("nil elements skipped, also in map loops", "a map entry whose value is a nil pointer, slice or map"),
 "C07g": ("unresolved argument types detected structurally, but not below function types", "nested derive calls whose intermediate result is a function type + an old file mentioning a renamed type"),
 "C07h": ("reload loop stops after two reloads without raising the pending error", "a four-deep chain of derive calls from an absent file"),
 "C08g": ("imports sorted by (stdlib, last path element) without tie-break", "two imports ending in the same element"),
 "C08h": ("Generate skips a package it considers done under another spelling (same name, one path a suffix of the other)", "./codec and ./internal/codec in one invocation"),
 "C09g": ("untyped nil only rejected in the first argument position", "deriveTuple(a, nil)"),
 "C09h": ("takewhile accepts a predicate over any type the elements are assignable to", "func(Namer) bool over []ID, func(Row) bool over [][]int"),
 "C10g": ("file infos built over a filtered list with a shifted AST index", "a derived.gen.go present at load and a rename in a file sorting after it"),
 "C10h": ("O_TRUNC only when the summed name-length delta is negative", "a rename that does not shorten the name in a file gofmt shrinks"),
 "C11g": ("-autoname / -dedup honoured only in the first pass", "a clash visible only after a reload (arguments that are results of deriveKeys)"),
 "C11h": ("join's Add drops the name returned by SetFuncName", "a deriveJoin clash under -autoname / -dedup"),
 "C12g": ("with any -pluginprefix override the global -prefix is skipped", "both flags plus a call to a plugin not listed in -pluginprefix"),
 "C12h": ("a call refused by the longest-prefix plugin is offered to plugins with shorter prefixes", "nested override prefixes and arguments the longer plugin refuses but the shorter accepts"),
 "C13g": ("list-form Min exits early on the 'least value', len==0 for slices and maps", "an empty non-nil element followed by a nil one"),
 "C13h": ("nil pointers swapped to the front, then sort.Slice on the sub-slice with a less over the whole list", "pointer elements with nils"),
 "C14g": ("unique chooses the set path with types.Comparable", "pointer elements that are Equal but not identical"),
 "C14h": ("union's set fast path never adds the appended items to the set", "a second list repeating an item the first lacks"),
 "C15g": ("curry passes the zero value for blank parameters", "a function value whose type spells a parameter as _ but whose body reads it"),
 "C15h": ("reserved names become a per-plugin argument; apply reserves nothing", "Apply over a function with a parameter called f"),
 "C16g": ("ZeroValue spells slices and maps as empty composite literals", "a failing compose / join / fmap whose result is a slice or map (nil vs empty)"),
 "C16h": ("Join swallows f's own error when it has two or more values", "Join over a function with >= 2 non-error results, nil incoming error, f fails"),
 "C17g": ("hand decoder treats a correctly encoded U+FFFD as an error", "a string containing the replacement character itself"),
 "C17h": ("rune results produced with strings.Map", "f returning a negative value or a non-code-point"),
 "C18g": ("zero-argument form uses res == nil as the 'not computed' sentinel", "an f whose nilable result is nil"),
 "C18h": ("a mutex held while f runs in the hash/Equal form", "f recursing through its own memoized form"),
 "C19g": ("join over a slice of channels closes through an atomic last-forwarder counter", "an empty or nil slice of channels: output never closed"),
 "C19h": ("pipeline drains each g(b) channel in turn", "second-stage producers that rendezvous with each other"),
 "C20g": ("values assigned only when the function's error is nil", "a function returning a non-zero value together with an error"),
 "C20h": ("goroutines write a shared err variable guarded by err == nil", "two or more failing functions: data race"),
}

R5 = {
 "C01i": ("sort fast paths (sort.Strings / Float64s / Ints) also fire for named element types", "deriveSort on []NamedString etc., or compare / hash of a map keyed by such a type"),
 "C01j": ("IsComparable skips blank fields", "deriveUnique / deriveMem on a struct with a blank field of a non-comparable type"),
 "C02i": ("interface case of the folded Equal-method helper ignores isPointer", "a type with Equal(that interface{}) bool reached through a pointer"),
 "C02j": ("float leaves compared through Float64bits", "+0 against -0"),
 "C03i": ("unexported fields of imported structs read by a shifted position", "an imported struct with a blank field before an unexported one"),
 "C03j": ("maps of different size ordered by len(this) - len(that)", "two maps whose sizes differ by two or more"),
 "C04i": ("float map keys hashed without the -0 to +0 normalisation", "equal maps holding the key -0 and +0"),
 "C04j": ("complex map keys sorted with a broken less", "keys such as 1+2i and 2+1i"),
 "C05i": ("nil map values handled before the key is copied", "a pointer-bearing key whose value is nil"),
 "C05j": ("destination slice grown with append(dst, src[len(dst):]...)", "slice of slices with a shorter non-nil prior destination"),
 "C06i": ("pointer-free nested struct values printed with %#v", "a plain struct with a blank field used as a value field"),
 "C06j": ("sorted output for maps with non-basic keys through their key strings", "two keys whose pointers have equal targets"),
 "C07i": ("only the first call per function name among calls resolving into the old file is registered", "an old file defining deriveEqual for *A, a later call for *B, -autoname"),
 "C07j": ("calls sorted by the LINE of their parenthesis, ties in undefined-then-derived order", "two calls of one plugin on one source line, the left one defined in the old file"),
 "C08i": ("reload fix-point state kept in the program, not reset between packages", "two packages with the textually identical pending call"),
 "C08j": ("guard for packages without files returns instead of continuing", "a directory that holds only an external test package"),
 "C09i": ("err reassigned per package in program.Generate", "a multi-package run where the failing package is not the last"),
 "C09j": ("FieldStrings no longer goes through gofmt", "an undeclared type inside an unnamed non-comparable struct field"),
 "C10i": ("rewrite buffer declared outside the file loop and never reset", "two files of one package with a renamed call each"),
 "C10j": ("comment map filtered without updating the replaced identifier", "a comment attached to the renamed identifier"),
 "C11i": ("argument types taken from the declared parameters of an already generated callee", "stale derived.gen.go + a new conflicting call, no flags"),
 "C11j": ("O_TRUNC lost in the buffer refactor", "a rename that makes the file shorter"),
 "C12i": ("prefix substitution skipped when the plugin prefix already starts with the global prefix", "-prefix=d / de / der / deri / deriv"),
 "C12j": ("an override equal to the plugin's default is not treated as an override", "-prefix=gen -pluginprefix=equal=deriveEqual"),
 "C13i": ("two-value Max rewritten with the derived-compare branch not flipped", "two-value deriveMax over non-plain types"),
 "C13j": ("list Min over pointers to ordered basics with an inline test that orders nil last", "[]*int mixing nil and non-nil"),
 "C14i": ("intersect capacity hint used as a quota", "first list repeating a common item before another common one"),
 "C14j": ("All restyled to a single exit", "empty or nil list"),
 "C15i": ("named results renamed with the param_<index> scheme", "named result err + an unusable parameter at the same index"),
 "C15j": ("Uncurry flattens every level", "innermost result is itself a function"),
 "C16i": ("Zero forgets complex kinds", "a complex result next to a failure"),
 "C16j": ("fmap error form returns g's value for endomorphisms", "f: A -> A and a failing g with a non-zero partial value"),
 "C17i": ("join of strings through unsafe.String(&buf[0], ..)", "a non-empty list of empty strings"),
 "C17j": ("join of slices copies listOfLists[0] first", "an empty non-nil outer list"),
 "C18i": ("byte-sized parameter memoized in a table indexed by the raw argument", "an int8 parameter called with a negative value"),
 "C18j": ("hash recomputed only when length or first element address changes", "a slice overwritten in place between two calls"),
 "C19i": ("Fmap drains the buffered part of the input on the caller's goroutine", "a buffered input whose producer is ahead when Fmap is called"),
 "C19j": ("one WaitGroup shared by all invocations of a composed pipeline", "two overlapping runs consumed one after the other"),
 "C20i": ("first error kept in an atomic.Value", "two failing functions with errors of different dynamic types"),
 "C20j": ("goroutines started in a range loop over closures", "a module declaring go 1.21"),
}

R6 = {
 "C02k": ("canEqual's struct case recurses on the field type's Underlying(), losing the 'has its own Equal method' guard", "a type with its own Equal method two struct levels below an otherwise ==-comparable, array-free named struct held by value"),
 "C03k": ("complex slices sorted with an inlined real<real || imag<imag instead of the derived compare", "compare of maps keyed by complex numbers whose real and imaginary parts order in opposite directions"),
 "C06k": ("gostring assigns a map field only when len(f) > 0", "a struct field holding an empty non-nil map: it reads back nil"),
 "C13k": ("signed integer elements sorted with list[i]-list[j] < 0", "two elements that differ by more than half the type's range"),
 "C14k": ("contains canEqual array case returns types.Comparable(elem)", "a list of arrays of pointers / interfaces and an item that is Equal but not identical"),
 "C17k": ("join returns nil when the total length is 0", "a non-nil outer list whose inner lists are all empty"),
 "C05k": ("deepcopy gives a map key a fresh deep copy only when the key type is nullable (was: whenever it cannot be copied by assignment)", "a map keyed by a struct or array that contains a pointer: the copied key shares its pointer target with the source"),
 "C07k": ("derived.gen.go opened with O_WRONLY|O_CREATE instead of os.Create (no truncation)", "a previous derived.gen.go longer than the new output"),
 "C09k": ("toerror folds the 'at least one result' and 'last result is bool' checks into one condition", "deriveToError(err, f) where f has no results: goderive panics (index -1)"),
 "C11k": ("per-file changed flag assigned `name != call.Name` on every call instead of set once", "a call renamed by -autoname / -dedup followed in the same file by a call that keeps its name: the file is not rewritten, exit 0, package does not type-check"),
 "C16k": ("compose calls a nullary first stage once, when the composition is built", "a first stage without parameters: call log at compose time, a second call of the composed function, or a failure that changes between calls"),
 "C18k": ("complex128 hash no longer adds + 0 to the imaginary part", "a non-comparable Mem argument holding complex numbers that differ only in the sign of a zero imaginary part: f evaluated twice for one Equal class"),
 "C19k": ("select form of join drains 'already buffered' items using cap(c) instead of len(c)", "a buffered input closed while holding fewer items than its capacity: zero values appear on the output"),
 "C20k": ("do signals completion on a package-level channel made once", "two overlapping calls of the same derived Do (two goroutines, or nested): the calls steal each other's signals"),
}

out = sys.argv[1] if len(sys.argv) > 1 else "/tmp/seedout"
ROUND = {k: 3 for k in R3}
ROUND.update({k: 4 for k in R4})
ROUND.update({k: 5 for k in R5})
R3.update(R4)
R3.update(R5)
ROUND.update({k: 6 for k in R6})
R3.update(R6)
only = os.environ.get("ONLY_ROUND")
for sid, (change, needs) in sorted(R3.items()):
    if only and str(ROUND[sid]) != only:
        continue
    prop = sid[:3]
    d = os.path.join(out, "verif_seeded_" + sid)
    chk = os.path.join(d, "check_%s.txt" % prop)
    keys, nviol = [], 0
    if os.path.exists(chk):
        for ln in open(chk, errors="replace"):
            if ln.startswith("VIOLATION"):
                nviol += 1
            m = re.match(r"\s+key=(.*)", ln)
            if m and m.group(1) not in keys:
                keys.append(m.group(1).strip())
    demo = lambda f: open(os.path.join(d, f), errors="replace").read() if os.path.exists(os.path.join(d, f)) else ""
    meta = {
        "id": sid, "round": ROUND[sid], "property": prop, "change": change, "needs_to_manifest": needs,
        "origin": "written by a sub-agent of round %d that saw the property text, its own scratch worktree of /repo HEAD (with the fix: commits up to then) and one line per earlier change to avoid; nothing from /verif" % ROUND[sid],
        "patch": "patch.diff applies to /repo HEAD",
        "confirmed": "tools/seedtest.sh: scratch worktree of /repo HEAD, git apply, go build, pinned suite unchanged, demo/run.sh exits non-zero with the change and 0 on /repo",
        "caught_by": prop if nviol else "",
        "how": "; ".join(keys[:3]),
        "ran": "VERIF_REPO=<worktree> VERIF_OUT=/tmp/seedout/<id> bin/vcheck %s --tier quick -> %d VIOLATION lines" % (prop, nviol),
    }
    if sid in ("C09j", "C15i"):
        meta["patch"] = "superseded on /repo HEAD: a fix: commit made after the change was written repairs the code path it relies on (C09j: the structural undeclared-type check in HasUndefined rejects its trigger; C15i: its 'fix' of named results is what HEAD now does, without the renaming fault)"
        meta["caught_by"] = ""
    if sid == "C02e":
        meta["patch"] = "patch.diff applies to /repo HEAD but is neutralised there: fix f2c59aa makes canEqual itself refuse types with an Equal method; on 918ab17 + patch the demo fails"
        meta["confirmed"] = "worktree at 918ab17 + patch: demo/run.sh exits 1; at HEAD + patch: demo exits 0 (no longer a fault)"
        meta["caught_by"] = "C02 (on 918ab17 + patch: leaf-string-case|custom-method classes; the unpatched 918ab17 also fails there, that is the defect f2c59aa repairs)"
    json.dump(meta, open(os.path.join("/verif/seeded", sid, "meta.json"), "w"), indent=1)
    print(sid, "caught" if nviol else "MISSED", keys[:1])
