#!/bin/bash
# usage: seedtest.sh <dir containing patch.diff and demo/run.sh> <property> [more properties...]
# Validates a seeded fault on a scratch worktree of /repo HEAD and runs the given checks against it.
set -u
SEED=$1; shift
ID=$(echo "$SEED" | tr '/' '_' | sed 's/^_//')
OUT=/tmp/seedout/$ID
rm -rf "$OUT"; mkdir -p "$OUT"
cd /verif && . ./env.sh
WT=/tmp/wtv/$ID
git -C /repo worktree remove --force "$WT" >/dev/null 2>&1
mkdir -p /tmp/wtv
git -C /repo worktree add --detach "$WT" HEAD >/dev/null 2>&1 || { echo "$ID: worktree failed"; exit 2; }
cleanup() { git -C /repo worktree remove --force "$WT" >/dev/null 2>&1; rm -rf "$WT"; }
trap cleanup EXIT
( cd "$WT" && ( git apply "$SEED/patch.diff" 2>"$OUT/apply.err" || git apply -3 "$SEED/patch.diff" 2>>"$OUT/apply.err" ) ) || { echo "$ID: PATCH DOES NOT APPLY"; cat "$OUT/apply.err" | head -5; exit 3; }
( cd "$WT" && GOFLAGS= go build . ./derive/... ./plugin/... ) > "$OUT/build.txt" 2>&1 || { echo "$ID: BUILD FAILS"; head -5 "$OUT/build.txt"; exit 4; }
if [ -z "${SKIP_SUITE:-}" ]; then
( cd "$WT" && GOFLAGS=-mod=mod go test -vet=off -count=1 ./... 2>&1 | grep -v "no test files" | grep -v "^ok" | grep -v "gopath2\|^FAIL$\|package1 is not in std" ) > "$OUT/suite.txt"
if [ -s "$OUT/suite.txt" ]; then echo "$ID: SUITE FAILS"; head -5 "$OUT/suite.txt"; fi
fi
DEMO=skip
if [ -x "$SEED/demo/run.sh" ] || [ -f "$SEED/demo/run.sh" ]; then
  ( unset GOFLAGS; bash "$SEED/demo/run.sh" "$WT" ) > "$OUT/demo_mut.txt" 2>&1; M=$?
  ( unset GOFLAGS; bash "$SEED/demo/run.sh" /repo ) > "$OUT/demo_clean.txt" 2>&1; C=$?
  DEMO="mutant=$M clean=$C"
fi
RES=""
for P in "$@"; do
  VERIF_REPO=$WT VERIF_OUT=$OUT ./bin/vcheck $P --tier ${TIER:-quick} > "$OUT/check_$P.txt" 2>&1; E=$?
  RES="$RES $P=$E"
done
echo "$ID: demo[$DEMO] checks[$RES]"
