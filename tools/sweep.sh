#!/bin/bash
# usage: tools/sweep.sh <seed> <tier> <outdir> [check ids...]   (run from the /verif root, after ./setup.sh)
. ./env.sh
S=$1; T=$2; O=$3; shift 3; mkdir -p $O
IDS=${@:-01 02 03 04 05 06 07 08 09 10 11 12 13 14 15 16 17 18 19 20}
for i in $IDS; do
  st=$(date +%s)
  VERIF_SEED=$S VERIF_OUT=$O bin/vcheck C$i --tier $T > $O/C$i.$T.s$S.txt 2>&1; e=$?
  echo "seed=$S C$i $T exit=$e $(( $(date +%s)-st ))s $(tail -n 1 $O/C$i.$T.s$S.txt | cut -c1-160)"
  grep "^  key=" $O/C$i.$T.s$S.txt | sort | uniq -c | head -8
done
df -h / | tail -n 1
