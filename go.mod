module verif

go 1.24

require github.com/anishathalye/porcupine v1.3.0
