package pgen

import (
	"fmt"
	"sort"
	"strings"
)

// plainGlue renders a call site for op on type T in the given call form.
// Forms: "body" (function body), "var" (package-level var), "closure", "test" (in-package _test.go),
// "nested" (derive call nested in another derive call; only some ops).
func plainGlue(op, id, T, form string) (src string, ok bool) {
	L := "[]" + T
	S := "map[" + T + "]struct{}"
	var params, call, res string
	switch op {
	case "equal":
		params, call, res = "a, b "+T, fmt.Sprintf("deriveEqual%s(a, b)", id), "bool"
	case "equalc":
		params, call, res = "a, b "+T, fmt.Sprintf("deriveEqualC%s(a)(b)", id), "bool"
	case "compare":
		params, call, res = "a, b "+T, fmt.Sprintf("deriveCompare%s(a, b)", id), "int"
	case "comparec":
		params, call, res = "a, b "+T, fmt.Sprintf("deriveCompareC%s(a)(b)", id), "int"
	case "hash":
		params, call, res = "a "+T, fmt.Sprintf("deriveHash%s(a)", id), "uint64"
	case "deepcopy":
		params, call, res = "a, b "+T, fmt.Sprintf("deriveDeepCopy%s(a, b)", id), ""
	case "clone":
		params, call, res = "a "+T, fmt.Sprintf("deriveClone%s(a)", id), T
	case "gostring":
		params, call, res = "a "+T, fmt.Sprintf("deriveGoString%s(a)", id), "string"
	case "sort":
		params, call, res = "l "+L, fmt.Sprintf("deriveSort%s(l)", id), L
	case "min":
		params, call, res = "l "+L+", d "+T, fmt.Sprintf("deriveMin%s(l, d)", id), T
	case "max":
		params, call, res = "l "+L+", d "+T, fmt.Sprintf("deriveMax%s(l, d)", id), T
	case "min2":
		params, call, res = "a, b "+T, fmt.Sprintf("deriveMinB%s(a, b)", id), T
	case "max2":
		params, call, res = "a, b "+T, fmt.Sprintf("deriveMaxB%s(a, b)", id), T
	case "keys":
		params, call, res = "m "+T, fmt.Sprintf("len(deriveKeys%s(m))", id), "int"
	case "sortkeys": // nested: the inner call's result type is only known after a first pass
		params, call, res = "m "+T, fmt.Sprintf("len(deriveSort%s(deriveKeys%s(m)))", id, id), "int"
	case "fmapkeys": // nested: a functional plugin fed by another derive call
		params, call, res = "m "+T, fmt.Sprintf("len(deriveFmap%s(func(k %s) bool { return true }, deriveKeys%s(m)))", id, mapKeyExpr(T), id), "int"
	case "equalclone": // nested
		params, call, res = "a "+T, fmt.Sprintf("deriveEqual%s(deriveClone%s(a), a)", id, id), "bool"
	case "contains":
		params, call, res = "l "+L+", x "+T, fmt.Sprintf("deriveContains%s(l, x)", id), "bool"
	case "unique":
		params, call, res = "l "+L, fmt.Sprintf("deriveUnique%s(l)", id), L
	case "set":
		params, call, res = "l "+L, fmt.Sprintf("deriveSet%s(l)", id), S
	case "union":
		params, call, res = "a, b "+L, fmt.Sprintf("deriveUnion%s(a, b)", id), L
	case "intersect":
		params, call, res = "a, b "+L, fmt.Sprintf("deriveIntersect%s(a, b)", id), L
	case "unionmap":
		params, call, res = "a, b "+S, fmt.Sprintf("deriveUnionM%s(a, b)", id), S
	case "intermap":
		params, call, res = "a, b "+S, fmt.Sprintf("deriveIntersectM%s(a, b)", id), S
	case "filter":
		params, call, res = "p func("+T+") bool, l "+L, fmt.Sprintf("deriveFilter%s(p, l)", id), L
	case "takewhile":
		params, call, res = "p func("+T+") bool, l "+L, fmt.Sprintf("deriveTakeWhile%s(p, l)", id), L
	case "all":
		params, call, res = "p func("+T+") bool, l "+L, fmt.Sprintf("deriveAll%s(p, l)", id), "bool"
	case "any":
		params, call, res = "p func("+T+") bool, l "+L, fmt.Sprintf("deriveAny%s(p, l)", id), "bool"
	default:
		return "", false
	}
	name := fmt.Sprintf("use_%s_%s", id, op)
	ret := "return "
	if res == "" {
		ret = ""
	}
	switch form {
	case "conv":
		// the derive call sits inside a conversion to a predeclared type
		switch res {
		case "uint64":
			return fmt.Sprintf("func %s(%s) int { return int(%s %% 7) }\n", name, params, call), true
		case "int":
			return fmt.Sprintf("func %s(%s) float64 { return float64(%s) }\n", name, params, call), true
		case "string":
			return fmt.Sprintf("func %s(%s) []byte { return []byte(%s) }\n", name, params, call), true
		case "bool", "":
			return fmt.Sprintf("func %s(%s) %s { %s%s }\n", name, params, res, ret, call), true
		}
		if strings.HasPrefix(res, "[]") || strings.HasPrefix(res, "map[") {
			return fmt.Sprintf("func %s(%s) float64 { return float64(len(%s)) }\n", name, params, call), true
		}
		return fmt.Sprintf("func %s(%s) %s { %s%s }\n", name, params, res, ret, call), true
	case "body", "test":
		return fmt.Sprintf("func %s(%s) %s { %s%s }\n", name, params, res, ret, call), true
	case "closure":
		return fmt.Sprintf("var %s = func(%s) %s { %s%s }\n", name, params, res, ret, call), true
	case "var":
		// package-level variable initialised by the derive call on zero-valued arguments
		var decls []string
		for _, grp := range splitParams(params) {
			decls = append(decls, fmt.Sprintf("var %s_%s %s", name, grp[0], grp[1]))
			call = replaceIdent(call, grp[0], name+"_"+grp[0])
		}
		if res == "" {
			return strings.Join(decls, "\n") + fmt.Sprintf("\nfunc init() { %s }\n", call), true
		}
		return strings.Join(decls, "\n") + fmt.Sprintf("\nvar %s_v = %s\n", name, call), true
	}
	return "", false
}

// splitParams turns "a, b T, l []T" style parameter lists (as produced above) into (name, type) pairs.
func splitParams(params string) [][2]string {
	var out [][2]string
	// groups are separated by ", " only between a type and the next name; our own lists are of the
	// forms "a, b T" | "a T" | "l L, d T" | "p func(T) bool, l L"
	depth := 0
	var parts []string
	cur := ""
	for _, r := range params {
		switch r {
		case '(', '[', '{':
			depth++
		case ')', ']', '}':
			depth--
		}
		if r == ',' && depth == 0 {
			parts = append(parts, strings.TrimSpace(cur))
			cur = ""
			continue
		}
		cur += string(r)
	}
	parts = append(parts, strings.TrimSpace(cur))
	var pending []string
	for _, p := range parts {
		if i := strings.IndexByte(p, ' '); i > 0 {
			name, typ := p[:i], strings.TrimSpace(p[i+1:])
			for _, n := range pending {
				out = append(out, [2]string{n, typ})
			}
			pending = nil
			out = append(out, [2]string{name, typ})
		} else {
			pending = append(pending, p)
		}
	}
	return out
}

func replaceIdent(s, old, new string) string {
	// identifiers in our calls are single letters delimited by '(' ',' ' ' ')'
	var sb strings.Builder
	for i := 0; i < len(s); i++ {
		if strings.HasPrefix(s[i:], old) {
			prevOK := i == 0 || strings.ContainsRune("(, ", rune(s[i-1]))
			j := i + len(old)
			nextOK := j >= len(s) || strings.ContainsRune("), ", rune(s[j]))
			if prevOK && nextOK {
				sb.WriteString(new)
				i = j - 1
				continue
			}
		}
		sb.WriteByte(s[i])
	}
	return sb.String()
}

// PItem is an item of a plain (harness-free) package: type, ops and the call form.
type PItem struct {
	TItem
	Form string
}

// RenderPlainPackage renders a module whose package p contains only declarations and derive call
// sites in the requested forms (no monitor library): used by the compile-level checks.
func RenderPlainPackage(u *Universe, items []PItem) map[string]string {
	files := map[string]string{"go.mod": GoMod}
	for k, v := range u.ExtFiles() {
		files[k] = v
	}
	var allOps []string
	for _, it := range items {
		allOps = append(allOps, it.Ops...)
	}
	need := opNeeds(allOps)
	body, imps := u.DeclSource("")
	msrc, mimps := u.MethodSource(need)
	mergeImps(imps, mimps)
	files["p/types.go"] = "package p\n\n" + ImportBlock(imps) + "\n" + body + msrc

	uimps, timps := map[string]bool{}, map[string]bool{"testing": true}
	var use, test strings.Builder
	hasTest := false
	for _, it := range items {
		ops := append([]string{}, it.Ops...)
		sort.Strings(ops)
		for _, op := range ops {
			if it.Form == "test" {
				T := it.T.Expr("", timps)
				if s, ok := plainGlue(op, it.ID, T, "test"); ok {
					test.WriteString(s)
					hasTest = true
				}
				continue
			}
			T := it.T.Expr("", uimps)
			if s, ok := plainGlue(op, it.ID, T, it.Form); ok {
				use.WriteString(s)
			}
		}
	}
	files["p/use.go"] = "package p\n\n" + ImportBlock(uimps) + "\n" + use.String()
	if hasTest {
		files["p/use_test.go"] = "package p\n\n" + ImportBlock(timps) + "\nfunc TestNothing(t *testing.T) {}\n\n" + test.String()
	}
	return files
}

// mapKeyExpr extracts K from a "map[K]V" type expression (K may contain brackets).
func mapKeyExpr(t string) string {
	depth := 0
	for i := 3; i < len(t); i++ {
		switch t[i] {
		case '[':
			depth++
		case ']':
			depth--
			if depth == 0 {
				return t[4:i]
			}
		}
	}
	return "int"
}
