package pgen

import (
	"fmt"
	"math/rand"
	"strings"
)

// FSig is a function signature over type expressions valid in package p.
type FSig struct {
	P    []string
	R    []string
	Mode string // named | blank | unnamed | reserved : how the parameters of the PRESENTED function type are named
	// NamedResults: the presented function type names its results (used for ToError)
	NamedResults bool
	// ZeroResults: the instrumented function returns the zero value of every result (nil for pointers,
	// slices, maps, interfaces): a result like any other (used for Mem)
	ZeroResults bool
}

// FItem is one functional item: source text (declarations + registration) and classification.
type FItem struct {
	ID    string
	Kind  string
	Shape string
	Tags  []string
	Src   string
}

// FuncTypesDecl declares the named types the functional items use.
const FuncTypesDecl = `type NInt int64

type NStr string

type SV struct {
	A int
	B string
}

type SP struct {
	P *int
	L []string
}

type Arr [2]int

type NCx complex64

type NI8 int8
`

var reservedNames = []string{"f", "err", "v", "g", "in", "out", "this", "list", "success", "p", "m", "h"}

func (s FSig) pname(i int, mode string) string {
	if strings.HasPrefix(mode, "names:") {
		// explicit names: "names:last,x,y"; positions beyond the list are called q<i>
		ns := strings.Split(strings.TrimPrefix(mode, "names:"), ",")
		if i < len(ns) && ns[i] != "" {
			return ns[i]
		}
		return fmt.Sprintf("q%d", i)
	}
	switch mode {
	case "blank":
		return "_"
	case "reserved":
		return reservedNames[i%len(reservedNames)]
	case "unnamed":
		return ""
	case "paramlike2":
		// descending generator-like names with blanks in between: func(param_2 T, _ U, param_0 V)
		if i%2 == 1 {
			return "_"
		}
		return fmt.Sprintf("param_%d", (7-i)%3)
	case "paramlike":
		// user names that look like the names the generator mints for renamed parameters, shifted by one
		return fmt.Sprintf("param_%d", i+1)
	}
	return fmt.Sprintf("a%d", i)
}

// namedResNames: result names a generator is likely to use itself.
var namedResNames = []string{"err", "f", "success", "res3", "res4", "res5"}

// withNamedResults rewrites "func(...) (T0, T1)" into "func(...) (err T0, f T1)".
func withNamedResults(ftype string, r []string) string {
	if len(r) == 0 {
		return ftype
	}
	var rn []string
	for i, t := range r {
		rn = append(rn, namedResNames[i%len(namedResNames)]+" "+t)
	}
	return strings.TrimSuffix(ftype, resList(r)) + " (" + strings.Join(rn, ", ") + ")"
}

func resList(r []string) string {
	switch len(r) {
	case 0:
		return ""
	case 1:
		return " " + r[0]
	}
	return " (" + strings.Join(r, ", ") + ")"
}

// ftype renders the presented function type for params p[from:] and results r.
func ftypeOf(p []string, offset int, r []string, mode string) string {
	var ps []string
	s := FSig{}
	for i, t := range p {
		n := s.pname(offset+i, mode)
		if n == "" {
			ps = append(ps, t)
		} else {
			ps = append(ps, n+" "+t)
		}
	}
	return "func(" + strings.Join(ps, ", ") + ")" + resList(r)
}

func namedParams(p []string, prefix string, offset int) string {
	var ps []string
	for i, t := range p {
		ps = append(ps, fmt.Sprintf("%s%d %s", prefix, offset+i, t))
	}
	return strings.Join(ps, ", ")
}

func vars(prefix string, from, n int) []string {
	out := make([]string, n)
	for i := range out {
		out[i] = fmt.Sprintf("%s%d", prefix, from+i)
	}
	return out
}

func join(xs []string) string { return strings.Join(xs, ", ") }

// implDecl declares an instrumented function impl<name>(a0..) (R...) that logs its call and returns
// deterministic results derived from its arguments. With withErr the function has a trailing error
// result and fails when the monitor injected a failure for it (returning non-zero garbage values).
func implDecl(name string, p, r []string, withErr bool) string {
	as := vars("a", 0, len(p))
	var sb strings.Builder
	rr := append([]string{}, r...)
	if withErr {
		rr = append(rr, "error")
	}
	fmt.Fprintf(&sb, "func impl%s(%s)%s {\n", name, namedParams(p, "a", 0), resList(rr))
	fmt.Fprintf(&sb, "\tmon.Log(%q%s)\n", name, prefixComma(as))
	var rets []string
	for i, t := range r {
		rets = append(rets, fmt.Sprintf("mon.Ret[%s](%q, %d%s)", t, name, i, prefixComma(as)))
	}
	if withErr {
		fmt.Fprintf(&sb, "\tif e := mon.Fail(%q); e != nil {\n\t\treturn %s\n\t}\n", name, join(append(append([]string{}, rets...), "e")))
		rets = append(rets, "nil")
	}
	if len(rets) > 0 {
		fmt.Fprintf(&sb, "\treturn %s\n", join(rets))
	}
	sb.WriteString("}\n\n")
	return sb.String()
}

func prefixComma(xs []string) string {
	if len(xs) == 0 {
		return ""
	}
	return ", " + join(xs)
}

func argDecls(p []string, ind string) string {
	var sb strings.Builder
	for i, t := range p {
		fmt.Fprintf(&sb, "%sa%d := mon.Arg[%s](t, %d, i)\n", ind, i, t, i)
	}
	return sb.String()
}

func assign(lhs []string) string {
	if len(lhs) == 0 {
		return ""
	}
	return join(lhs) + " := "
}

func sameAll(class string, got, want []string, ind string) string {
	var sb strings.Builder
	for i := range got {
		fmt.Fprintf(&sb, "%smon.Same(t, %q, %s, %s)\n", ind, fmt.Sprintf("%s/result%d", class, i), got[i], want[i])
	}
	return sb.String()
}

func shapeOf(kind string, s FSig) string {
	return fmt.Sprintf("%s/%dp%dr/%s", kind, len(s.P), len(s.R), s.Mode)
}

func reg(id, shape string, tags []string, body string) string {
	var ts []string
	for _, t := range tags {
		ts = append(ts, fmt.Sprintf("%q", t))
	}
	return fmt.Sprintf("func init() {\n\tmon.RegFunc(%q, %q, []string{%s}, func(t *mon.FT) {\n%s\t})\n}\n\n", id, shape, join(ts), body)
}

// ---- C15 --------------------------------------------------------------------------------------

// PlumbItem renders a curry / uncurry / flip / apply / uncurrycurry item for signature s.
func PlumbItem(id, kind string, s FSig) FItem {
	n := len(s.P)
	as := vars("a", 0, n)
	rs, ds := vars("r", 0, len(s.R)), vars("d", 0, len(s.R))
	var sb strings.Builder
	sb.WriteString(implDecl(id, s.P, s.R, false))
	ref := fmt.Sprintf("\t\t\tt.Pause()\n\t\t\t%simpl%s(%s)\n\t\t\tt.Resume()\n", assign(ds), id, join(as))
	var body strings.Builder
	switch kind {
	case "curry", "flip", "apply", "uncurrycurry":
		ft := ftypeOf(s.P, 0, s.R, s.Mode)
		if s.NamedResults {
			ft = withNamedResults(ft, s.R)
		}
		fmt.Fprintf(&sb, "var F%s %s = impl%s\n\n", id, ft, id)
	}
	switch kind {
	case "curry":
		// an older partial application is kept alive and called after a newer one was made: the
		// first argument it was given must still be the one it passes on
		hs := vars("h", 0, len(s.R))
		fmt.Fprintf(&body, "\t\tw := deriveCurry%s(F%s)\n\t\theldA0 := mon.Arg[%s](t, 0, t.N)\n\t\theld := w(heldA0)\n\t\tfor i := 0; i < t.N; i++ {\n%s\t\t\tpart := w(a0)\n\t\t\tt.Reset()\n\t\t\t%sheld(%s)\n\t\t\tt.Expect(\"curry/older-partial-application\", mon.C(%q%s))\n",
			id, id, s.P[0], argDecls(s.P, "\t\t\t"), assign(hs), join(as[1:]), id, prefixComma(append([]string{"heldA0"}, as[1:]...)))
		for _, h := range hs {
			fmt.Fprintf(&body, "\t\t\t_ = %s\n", h)
		}
		fmt.Fprintf(&body, "\t\t\theld, heldA0 = part, a0\n\t\t\tt.Reset()\n\t\t\t%spart(%s)\n", assign(rs), join(as[1:]))
	case "uncurrycurry":
		fmt.Fprintf(&body, "\t\tw := deriveUncurry%s(deriveCurry%s(F%s))\n\t\tfor i := 0; i < t.N; i++ {\n%s\t\t\tt.Reset()\n\t\t\t%sw(%s)\n", id, id, id, argDecls(s.P, "\t\t\t"), assign(rs), join(as))
	case "flip":
		fl := append([]string{as[1], as[0]}, as[2:]...)
		fmt.Fprintf(&body, "\t\tw := deriveFlip%s(F%s)\n\t\tfor i := 0; i < t.N; i++ {\n%s\t\t\tt.Reset()\n\t\t\t%sw(%s)\n", id, id, argDecls(s.P, "\t\t\t"), assign(rs), join(fl))
	case "apply":
		hs := vars("h", 0, len(s.R))
		fmt.Fprintf(&body, "\t\theldLast := mon.Arg[%s](t, %d, t.N)\n\t\theld := deriveApply%s(F%s, heldLast)\n\t\tfor i := 0; i < t.N; i++ {\n%s\t\t\tw := deriveApply%s(F%s, %s)\n\t\t\tt.Reset()\n\t\t\t%sheld(%s)\n\t\t\tt.Expect(\"apply/older-application\", mon.C(%q%s))\n",
			s.P[n-1], n-1, id, id, argDecls(s.P, "\t\t\t"), id, id, as[n-1], assign(hs), join(as[:n-1]), id, prefixComma(append(append([]string{}, as[:n-1]...), "heldLast")))
		for _, h := range hs {
			fmt.Fprintf(&body, "\t\t\t_ = %s\n", h)
		}
		fmt.Fprintf(&body, "\t\t\theld, heldLast = w, %s\n\t\t\tt.Reset()\n\t\t\t%sw(%s)\n", as[n-1], assign(rs), join(as[:n-1]))
	case "uncurry":
		innerMode := s.Mode
		if strings.HasPrefix(innerMode, "paramlike") {
			innerMode = "unnamed" // outer parameter called param_1, inner parameters need renaming
		}
		inner := ftypeOf(s.P[1:], 1, s.R, innerMode)
		if s.NamedResults {
			inner = withNamedResults(inner, s.R)
		}
		outer := "func(" + strings.TrimPrefix(strings.TrimSuffix(ftypeOf(s.P[:1], 0, nil, s.Mode), ")"), "func(") + ") " + inner
		retkw := "return "
		if len(s.R) == 0 {
			retkw = ""
		}
		fmt.Fprintf(&sb, "var G%s %s = func(%s) func(%s)%s {\n\treturn func(%s)%s {\n\t\t%simpl%s(%s)\n\t}\n}\n\n", id, outer,
			namedParams(s.P[:1], "a", 0), join(s.P[1:]), resList(s.R), namedParams(s.P[1:], "a", 1), resList(s.R), retkw, id, join(as))
		fmt.Fprintf(&body, "\t\tw := deriveUncurry%s(G%s)\n\t\tfor i := 0; i < t.N; i++ {\n%s\t\t\tt.Reset()\n\t\t\t%sw(%s)\n", id, id, argDecls(s.P, "\t\t\t"), assign(rs), join(as))
	}
	fmt.Fprintf(&body, "\t\t\tt.Expect(%q, mon.C(%q%s))\n%s%s\t\t}\n", kind, id, prefixComma(as), ref, sameAll(kind, rs, ds, "\t\t\t"))
	sb.WriteString(reg(id, shapeOf(kind, s), []string{"kind:" + kind, "mode:" + s.Mode, fmt.Sprintf("results:%d", len(s.R))}, body.String()))
	return FItem{ID: id, Kind: kind, Shape: shapeOf(kind, s), Tags: []string{"kind:" + kind, "mode:" + s.Mode, fmt.Sprintf("results:%d", len(s.R)), fmt.Sprintf("params:%d", len(s.P))}, Src: sb.String()}
}

// TupleItem renders deriveTuple over the given value types.
func TupleItem(id string, ts []string) FItem {
	as, rs := vars("a", 0, len(ts)), vars("r", 0, len(ts))
	var body strings.Builder
	fmt.Fprintf(&body, "\t\tfor i := 0; i < t.N; i++ {\n%s\t\t\ttp := deriveTuple%s(%s)\n\t\t\t%stp()\n%s\t\t\t%stp()\n%s\t\t}\n", argDecls(ts, "\t\t\t"), id, join(as), assign(rs), sameAll("tuple", rs, as, "\t\t\t"),
		strings.Replace(assign(rs), ":=", "=", 1), sameAll("tuple/second-call", rs, as, "\t\t\t"))
	shape := fmt.Sprintf("tuple/%d", len(ts))
	return FItem{ID: id, Kind: "tuple", Shape: shape, Tags: []string{"kind:tuple", fmt.Sprintf("params:%d", len(ts))}, Src: reg(id, shape, []string{"kind:tuple"}, body.String())}
}

// ---- C16 --------------------------------------------------------------------------------------

// ComposeItem renders a compose chain. ins is the parameter list of stage 0, outs[j] the non-error
// results of stage j (= parameters of stage j+1).
func ComposeItem(id string, ins []string, outs [][]string) FItem {
	k := len(outs)
	var sb strings.Builder
	stageIn := func(j int) []string {
		if j == 0 {
			return ins
		}
		return outs[j-1]
	}
	var fnames []string
	for j := 0; j < k; j++ {
		name := fmt.Sprintf("%ss%d", id, j)
		sb.WriteString(implDecl(name, stageIn(j), outs[j], true))
		fnames = append(fnames, "impl"+name)
	}
	as := vars("a", 0, len(ins))
	rs := vars("r", 0, len(outs[k-1]))
	var body strings.Builder
	fmt.Fprintf(&body, "\t\tc := deriveCompose%s(%s)\n\t\tfor fail := -1; fail < %d; fail++ {\n\t\t\tfor i := 0; i < t.N; i++ {\n%s\t\t\t\tt.Reset()\n\t\t\t\tt.Pause()\n", id, join(fnames), k, argDecls(ins, "\t\t\t\t"))
	cur := as
	var expLines []string
	for j := 0; j < k; j++ {
		name := fmt.Sprintf("%ss%d", id, j)
		o := vars(fmt.Sprintf("o%d_", j), 0, len(outs[j]))
		op := ":="
		if len(o) == 0 {
			op = "="
		}
		fmt.Fprintf(&body, "\t\t\t\t%s %s impl%s(%s)\n", join(append(append([]string{}, o...), "_")), op, name, join(cur))
		for _, v := range o {
			fmt.Fprintf(&body, "\t\t\t\t_ = %s\n", v)
		}
		expLines = append(expLines, fmt.Sprintf("\t\t\t\tif fail == -1 || fail >= %d {\n\t\t\t\t\texp = append(exp, mon.C(%q%s))\n\t\t\t\t}\n", j, name, prefixComma(cur)))
		cur = o
	}
	fmt.Fprintf(&body, "\t\t\t\tt.Resume()\n\t\t\t\tvar want error\n\t\t\t\tif fail >= 0 {\n\t\t\t\t\twant = t.FailAt(fmt.Sprintf(\"%ss%%d\", fail))\n\t\t\t\t}\n", id)
	fmt.Fprintf(&body, "\t\t\t\t%s := c(%s)\n", join(append(append([]string{}, rs...), "err")), join(as))
	body.WriteString("\t\t\t\tvar exp []mon.Call\n" + strings.Join(expLines, ""))
	fmt.Fprintf(&body, "\t\t\t\tcl := \"compose/ok\"\n\t\t\t\tif fail >= 0 {\n\t\t\t\t\tcl = fmt.Sprintf(\"compose/fail-at-%%d-of-%d\", fail)\n\t\t\t\t}\n\t\t\t\tt.Expect(cl, exp...)\n\t\t\t\tmon.SameErr(t, cl+\"/error\", err, want)\n", k)
	body.WriteString("\t\t\t\tif fail >= 0 {\n")
	for _, r := range rs {
		fmt.Fprintf(&body, "\t\t\t\t\tmon.IsZero(t, cl+\"/zero\", %s)\n", r)
	}
	body.WriteString("\t\t\t\t} else {\n")
	for i, r := range rs {
		fmt.Fprintf(&body, "\t\t\t\t\tmon.Same(t, cl+\"/result\", %s, %s)\n", r, cur[i])
	}
	body.WriteString("\t\t\t\t}\n\t\t\t}\n\t\t}\n")
	var sh []string
	for _, o := range outs {
		sh = append(sh, fmt.Sprint(len(o)))
	}
	shape := fmt.Sprintf("compose/%dstages/in%d/outs%s", k, len(ins), strings.Join(sh, "-"))
	tags := []string{"kind:compose", fmt.Sprintf("stages:%d", k)}
	for j, o := range outs {
		if len(o) == 0 {
			tags = append(tags, fmt.Sprintf("stage%d-returns-only-error", j))
		}
		for _, t := range o {
			tags = append(tags, "result:"+t)
		}
	}
	sb.WriteString(reg(id, shape, tags, body.String()))
	return FItem{ID: id, Kind: "compose", Shape: shape, Tags: tags, Src: sb.String()}
}

// FmapErrItem: deriveFmap(f, g) with g func() (A, error) and f func(A) R...
func FmapErrItem(id string, a string, r []string) FItem {
	var sb strings.Builder
	sb.WriteString(implDecl(id+"g", nil, []string{a}, true))
	sb.WriteString(implDecl(id+"f", []string{a}, r, false))
	var body strings.Builder
	body.WriteString("\t\tfor _, gfails := range []bool{false, true} {\n\t\t\tt.Reset()\n\t\t\tt.Pause()\n")
	fmt.Fprintf(&body, "\t\t\tv, _ := impl%sg()\n", id)
	ds := vars("d", 0, len(r))
	fmt.Fprintf(&body, "\t\t\t%simpl%sf(v)\n\t\t\tt.Resume()\n", assign(ds), id)
	for _, d := range ds {
		fmt.Fprintf(&body, "\t\t\t_ = %s\n", d)
	}
	fmt.Fprintf(&body, "\t\t\tvar want error\n\t\t\tcl := \"fmap-error/ok\"\n\t\t\tif gfails {\n\t\t\t\twant = t.FailAt(%q)\n\t\t\t\tcl = \"fmap-error/g-fails\"\n\t\t\t}\n", id+"g")
	exp := fmt.Sprintf("\t\t\texp := []mon.Call{mon.C(%q)}\n\t\t\tif !gfails {\n\t\t\t\texp = append(exp, mon.C(%q, v))\n\t\t\t}\n\t\t\tt.Expect(cl, exp...)\n", id+"g", id+"f")
	switch len(r) {
	case 0:
		fmt.Fprintf(&body, "\t\t\terr := deriveFmap%s(impl%sf, impl%sg)\n%s\t\t\tmon.SameErr(t, cl+\"/error\", err, want)\n", id, id, id, exp)
	case 1:
		fmt.Fprintf(&body, "\t\t\tr0, err := deriveFmap%s(impl%sf, impl%sg)\n%s\t\t\tmon.SameErr(t, cl+\"/error\", err, want)\n\t\t\tif gfails {\n\t\t\t\tmon.IsZero(t, cl+\"/zero\", r0)\n\t\t\t} else {\n\t\t\t\tmon.Same(t, cl+\"/result\", r0, d0)\n\t\t\t}\n", id, id, id, exp)
	default:
		rs := vars("r", 0, len(r))
		fmt.Fprintf(&body, "\t\t\tfn, err := deriveFmap%s(impl%sf, impl%sg)\n%s\t\t\tmon.SameErr(t, cl+\"/error\", err, want)\n\t\t\tif gfails {\n\t\t\t\tif fn != nil {\n\t\t\t\t\tt.Bad(cl+\"/zero\", \"a non-nil function was returned next to the error\")\n\t\t\t\t} else {\n\t\t\t\t\tt.Ok(cl + \"/zero\")\n\t\t\t\t}\n\t\t\t} else if fn == nil {\n\t\t\t\tt.Bad(cl+\"/result\", \"nil function returned without error\")\n\t\t\t} else {\n\t\t\t\tfor rep := 0; rep < 2; rep++ {\n\t\t\t\t\t%sfn()\n%s\t\t\t\t}\n\t\t\t\tt.Expect(cl+\"/after-use\", exp...)\n\t\t\t}\n",
			id, id, id, exp, assign(rs), sameAll("fmap-error/result", rs, ds, "\t\t\t\t\t"))
	}
	body.WriteString("\t\t}\n")
	shape := fmt.Sprintf("fmap-error/%dresults", len(r))
	tags := []string{"kind:fmap-error", "in:" + a}
	for _, t := range r {
		tags = append(tags, "result:"+t)
	}
	sb.WriteString(reg(id, shape, tags, body.String()))
	return FItem{ID: id, Kind: "fmap-error", Shape: shape, Tags: tags, Src: sb.String()}
}

// JoinErrItem: deriveJoin(f func() (R..., error), err error); tuple=true uses the form deriveJoin(h()).
func JoinErrItem(id string, r []string, tuple bool) FItem {
	var sb strings.Builder
	sb.WriteString(implDecl(id+"f", nil, r, true))
	rr := append(append([]string{}, r...), "error")
	ft := "func()" + resList(rr)
	fmt.Fprintf(&sb, "func h%s() (%s, error) {\n\tmon.Log(%q)\n\tif e := mon.Fail(%q); e != nil {\n\t\treturn impl%sf, e\n\t}\n\treturn impl%sf, nil\n}\n\n", id, ft, id+"h", id+"h", id, id)
	rs := vars("r", 0, len(r))
	ds := vars("d", 0, len(r))
	var body strings.Builder
	body.WriteString("\t\tfor mode := 0; mode < 3; mode++ { // 0 ok, 1 outer error, 2 inner function fails\n\t\t\tt.Reset()\n\t\t\tt.Pause()\n")
	jop := ":="
	if len(ds) == 0 {
		jop = "="
	}
	fmt.Fprintf(&body, "\t\t\t%s %s impl%sf()\n\t\t\tt.Resume()\n", join(append(append([]string{}, ds...), "_")), jop, id)
	for _, d := range ds {
		fmt.Fprintf(&body, "\t\t\t_ = %s\n", d)
	}
	body.WriteString("\t\t\tvar want, outer error\n\t\t\tcl := \"join-error/ok\"\n")
	if tuple {
		fmt.Fprintf(&body, "\t\t\tif mode == 1 {\n\t\t\t\tcl = \"join-error/outer-error\"\n\t\t\t\twant = t.FailAt(%q)\n\t\t\t}\n\t\t\t_ = outer\n", id+"h")
	} else {
		body.WriteString("\t\t\tif mode == 1 {\n\t\t\t\tcl = \"join-error/outer-error\"\n\t\t\t\touter = errors.New(\"outer error\")\n\t\t\t\twant = outer\n\t\t\t}\n")
	}
	fmt.Fprintf(&body, "\t\t\tif mode == 2 {\n\t\t\t\tcl = \"join-error/inner-fails\"\n\t\t\t\twant = t.FailAt(%q)\n\t\t\t}\n", id+"f")
	call := fmt.Sprintf("deriveJoin%s(impl%sf, outer)", id, id)
	if tuple {
		call = fmt.Sprintf("deriveJoin%s(h%s())", id, id)
	}
	fmt.Fprintf(&body, "\t\t\t%s := %s\n", join(append(append([]string{}, rs...), "err")), call)
	if tuple {
		fmt.Fprintf(&body, "\t\t\texp := []mon.Call{mon.C(%q)}\n", id+"h")
	} else {
		body.WriteString("\t\t\tvar exp []mon.Call\n")
	}
	fmt.Fprintf(&body, "\t\t\tif mode != 1 {\n\t\t\t\texp = append(exp, mon.C(%q))\n\t\t\t}\n\t\t\tt.Expect(cl, exp...)\n\t\t\tmon.SameErr(t, cl+\"/error\", err, want)\n", id+"f")
	body.WriteString("\t\t\tif mode == 1 {\n")
	for _, r := range rs {
		fmt.Fprintf(&body, "\t\t\t\tmon.IsZero(t, cl+\"/zero\", %s)\n", r)
	}
	body.WriteString("\t\t\t} else if mode == 0 {\n")
	for i, r := range rs {
		fmt.Fprintf(&body, "\t\t\t\tmon.Same(t, cl+\"/result\", %s, %s)\n", r, ds[i])
	}
	body.WriteString("\t\t\t}\n\t\t}\n")
	shape := fmt.Sprintf("join-error/%dresults/tuple=%v", len(r), tuple)
	tags := []string{"kind:join-error", fmt.Sprintf("tuple:%v", tuple)}
	for _, t := range r {
		tags = append(tags, "result:"+t)
	}
	sb.WriteString(reg(id, shape, tags, body.String()))
	return FItem{ID: id, Kind: "join-error", Shape: shape, Tags: tags, Src: sb.String()}
}

// TraverseItem: deriveTraverse(f func(A) (B, error), []A) ([]B, error)
func TraverseItem(id, a, b string) FItem {
	var sb strings.Builder
	fmt.Fprintf(&sb, "var cnt%s, failAt%s int\n\nfunc impl%s(a0 %s) (%s, error) {\n\tmon.Log(%q, a0)\n\tcnt%s++\n\tif cnt%s-1 == failAt%s {\n\t\tif e := mon.Fail(%q); e != nil {\n\t\t\treturn mon.Ret[%s](%q, 0, a0), e\n\t\t}\n\t}\n\treturn mon.Ret[%s](%q, 0, a0), nil\n}\n\n",
		id, id, id, a, b, id, id, id, id, id, b, id, b, id)
	var body strings.Builder
	fmt.Fprintf(&body, "\t\tfor n := 0; n <= 6; n++ {\n\t\t\tfor fail := -1; fail < n; fail++ {\n\t\t\t\tfor _, nilList := range []bool{false, true} {\n\t\t\t\t\tif nilList && n > 0 {\n\t\t\t\t\t\tcontinue\n\t\t\t\t\t}\n\t\t\t\t\tvar list []%s\n\t\t\t\t\tif !nilList {\n\t\t\t\t\t\tlist = make([]%s, n)\n\t\t\t\t\t}\n\t\t\t\t\tfor i := range list {\n\t\t\t\t\t\tlist[i] = mon.Arg[%s](t, 0, i+n)\n\t\t\t\t\t}\n", a, a, a)
	fmt.Fprintf(&body, "\t\t\t\t\tt.Reset()\n\t\t\t\t\tt.Pause()\n\t\t\t\t\tcnt%s, failAt%s = 0, -1\n\t\t\t\t\twantOut := make([]%s, n)\n\t\t\t\t\tfor i := range list {\n\t\t\t\t\t\twantOut[i], _ = impl%s(list[i])\n\t\t\t\t\t}\n\t\t\t\t\tt.Resume()\n\t\t\t\t\tcnt%s, failAt%s = 0, fail\n\t\t\t\t\tvar want error\n\t\t\t\t\tcl := fmt.Sprintf(\"traverse/len%%d/ok\", n)\n\t\t\t\t\tif fail >= 0 {\n\t\t\t\t\t\twant = t.FailAt(%q)\n\t\t\t\t\t\tcl = fmt.Sprintf(\"traverse/len%%d/fail-at-%%d\", n, fail)\n\t\t\t\t\t}\n", id, id, b, id, id, id, id)
	fmt.Fprintf(&body, "\t\t\t\t\tout, err := deriveTraverse%s(impl%s, list)\n\t\t\t\t\tvar exp []mon.Call\n\t\t\t\t\tfor i := range list {\n\t\t\t\t\t\tif fail == -1 || i <= fail {\n\t\t\t\t\t\t\texp = append(exp, mon.C(%q, list[i]))\n\t\t\t\t\t\t}\n\t\t\t\t\t}\n\t\t\t\t\tt.Expect(cl, exp...)\n\t\t\t\t\tmon.SameErr(t, cl+\"/error\", err, want)\n\t\t\t\t\tif fail >= 0 {\n\t\t\t\t\t\tif out != nil {\n\t\t\t\t\t\t\tt.Bad(cl+\"/nil-slice\", \"a non-nil slice of length %%d was returned next to the error\", len(out))\n\t\t\t\t\t\t} else {\n\t\t\t\t\t\t\tt.Ok(cl + \"/nil-slice\")\n\t\t\t\t\t\t}\n\t\t\t\t\t} else {\n\t\t\t\t\t\tmon.Same(t, cl+\"/len\", len(out), n)\n\t\t\t\t\t\tfor i := 0; i < len(out) && i < n; i++ {\n\t\t\t\t\t\t\tmon.Same(t, cl+\"/element\", out[i], wantOut[i])\n\t\t\t\t\t\t}\n\t\t\t\t\t}\n\t\t\t\t}\n\t\t\t}\n\t\t}\n", id, id, id)
	shape := "traverse/" + a + "->" + b
	tags := []string{"kind:traverse", "in:" + a, "result:" + b}
	sb.WriteString(reg(id, shape, tags, body.String()))
	return FItem{ID: id, Kind: "traverse", Shape: shape, Tags: tags, Src: sb.String()}
}

// ToErrorItem: deriveToError(e error, f func(A...) (B..., bool)) func(A...) (B..., error)
func ToErrorItem(id string, s FSig) FItem {
	var sb strings.Builder
	as := vars("a", 0, len(s.P))
	rr := append(append([]string{}, s.R...), "bool")
	fmt.Fprintf(&sb, "func impl%s(%s)%s {\n\tmon.Log(%q%s)\n\treturn ", id, namedParams(s.P, "a", 0), resList(rr), id, prefixComma(as))
	var rets []string
	for i, t := range s.R {
		rets = append(rets, fmt.Sprintf("mon.Ret[%s](%q, %d%s)", t, id, i, prefixComma(as)))
	}
	rets = append(rets, fmt.Sprintf("mon.RetBool(%q%s)", id, prefixComma(as)))
	sb.WriteString(join(rets) + "\n}\n\n")
	ft := ftypeOf(s.P, 0, rr, s.Mode)
	if s.NamedResults {
		// the presented function type names its results (value, ..., ok)
		var rn []string
		for i, t := range s.R {
			rn = append(rn, fmt.Sprintf("value%d %s", i, t))
		}
		rn = append(rn, "ok bool")
		ft = ftypeOf(s.P, 0, nil, s.Mode) + " (" + strings.Join(rn, ", ") + ")"
	}
	fmt.Fprintf(&sb, "var F%s %s = impl%s\n\n", id, ft, id)
	rs, ds := vars("r", 0, len(s.R)), vars("d", 0, len(s.R))
	var body strings.Builder
	fmt.Fprintf(&body, "\t\te := errors.New(\"supplied error\")\n\t\tw := deriveToError%s(e, F%s)\n\t\tseenT, seenF := false, false\n\t\tfor i := 0; i < t.N*2; i++ {\n%s\t\t\tt.Reset()\n\t\t\t%s := w(%s)\n\t\t\tt.Expect(\"toerror\", mon.C(%q%s))\n\t\t\tt.Pause()\n\t\t\t%s := impl%s(%s)\n\t\t\tt.Resume()\n%s",
		id, id, argDecls(s.P, "\t\t\t"), join(append(append([]string{}, rs...), "err")), join(as), id, prefixComma(as), join(append(append([]string{}, ds...), "ok")), id, join(as), sameAll("toerror", rs, ds, "\t\t\t"))
	body.WriteString("\t\t\tif ok {\n\t\t\t\tseenT = true\n\t\t\t\tmon.SameErr(t, \"toerror/true-gives-nil\", err, nil)\n\t\t\t} else {\n\t\t\t\tseenF = true\n\t\t\t\tmon.SameErr(t, \"toerror/false-gives-supplied-error\", err, e)\n\t\t\t}\n\t\t}\n\t\t_, _ = seenT, seenF\n")
	shape := shapeOf("toerror", s)
	tags := []string{"kind:toerror", "mode:" + s.Mode, fmt.Sprintf("results:%d", len(s.R)), fmt.Sprintf("params:%d", len(s.P)), fmt.Sprintf("named-results:%v", s.NamedResults)}
	sb.WriteString(reg(id, shape, tags, body.String()))
	return FItem{ID: id, Kind: "toerror", Shape: shape, Tags: tags, Src: sb.String()}
}

// ---- C17 --------------------------------------------------------------------------------------

// FmapSliceItem: deriveFmap(f func(A) B, []A) []B ; str=true: deriveFmap(f func(rune) B, string) []B
func FmapSliceItem(id, a, b string, str bool) FItem {
	var sb strings.Builder
	if str {
		a = "rune"
	}
	sb.WriteString(implDecl(id, []string{a}, []string{b}, false))
	var body strings.Builder
	if str {
		fmt.Fprintf(&body, "\t\tfor _, s := range mon.Strs {\n\t\t\trunes := []rune(s)\n\t\t\tt.Reset()\n\t\t\tout := deriveFmap%s(impl%s, s)\n\t\t\tcl := \"fmap-string/ascii\"\n\t\t\tif len(runes) != len(s) {\n\t\t\t\tcl = \"fmap-string/multibyte\"\n\t\t\t}\n\t\t\tif !utf8.ValidString(s) {\n\t\t\t\tcl = \"fmap-string/invalid-utf8\"\n\t\t\t}\n\t\t\tvar exp []mon.Call\n\t\t\tfor _, r := range runes {\n\t\t\t\texp = append(exp, mon.C(%q, r))\n\t\t\t}\n\t\t\tt.Expect(cl, exp...)\n\t\t\tmon.Same(t, cl+\"/len\", len(out), len(runes))\n\t\t\tt.Pause()\n\t\t\tfor i := 0; i < len(out) && i < len(runes); i++ {\n\t\t\t\tmon.Same(t, cl+\"/element\", out[i], impl%s(runes[i]))\n\t\t\t}\n\t\t\tt.Resume()\n\t\t}\n", id, id, id, id)
	} else {
		fmt.Fprintf(&body, "\t\tfor n := -1; n <= 9; n++ {\n\t\t\tvar list []%s\n\t\t\tif n >= 0 {\n\t\t\t\tlist = make([]%s, n, n+2)\n\t\t\t}\n\t\t\tfor i := range list {\n\t\t\t\tlist[i] = mon.Arg[%s](t, 0, i+n)\n\t\t\t}\n\t\t\tbefore := mon.CanonOf(list)\n\t\t\tcl := fmt.Sprintf(\"fmap-slice/len%%d\", n)\n\t\t\tt.Reset()\n\t\t\tout := deriveFmap%s(impl%s, list)\n\t\t\tvar exp []mon.Call\n\t\t\tfor i := range list {\n\t\t\t\texp = append(exp, mon.C(%q, list[i]))\n\t\t\t}\n\t\t\tt.Expect(cl, exp...)\n\t\t\tmon.Same(t, cl+\"/len\", len(out), len(list))\n\t\t\tt.Pause()\n\t\t\tfor i := 0; i < len(out) && i < len(list); i++ {\n\t\t\t\tmon.Same(t, cl+\"/element\", out[i], impl%s(list[i]))\n\t\t\t}\n\t\t\tt.Resume()\n\t\t\tmon.Same(t, cl+\"/input-unmodified\", mon.CanonOf(list), before)\n\t\t}\n", a, a, a, id, id, id, id)
	}
	kind := "fmap-slice"
	if str {
		kind = "fmap-string"
	}
	shape := kind + "/" + a + "->" + b
	tags := []string{"kind:" + kind, "result:" + b}
	sb.WriteString(reg(id, shape, tags, body.String()))
	return FItem{ID: id, Kind: kind, Shape: shape, Tags: tags, Src: sb.String()}
}

// JoinSliceItem: deriveJoin([][]T) []T ; str=true: deriveJoin([]string) string
func JoinSliceItem(id, a string, str bool) FItem {
	var body strings.Builder
	if str {
		fmt.Fprintf(&body, "\t\tfor n := -1; n <= 6; n++ {\n\t\t\tvar list []string\n\t\t\tif n >= 0 {\n\t\t\t\tlist = make([]string, n)\n\t\t\t}\n\t\t\twant := \"\"\n\t\t\tfor i := range list {\n\t\t\t\tlist[i] = mon.Strs[(i*7+n*3)%%len(mon.Strs)]\n\t\t\t\twant += list[i]\n\t\t\t}\n\t\t\tbefore := mon.CanonOf(list)\n\t\t\tmon.Same(t, fmt.Sprintf(\"join-string/len%%d\", n), deriveJoin%s(list), want)\n\t\t\tmon.Same(t, \"join-string/input-unmodified\", mon.CanonOf(list), before)\n\t\t}\n", id)
	} else {
		fmt.Fprintf(&body, "\t\tfor n := -1; n <= 5; n++ {\n\t\t\tfor variant := 0; variant < 4; variant++ {\n\t\t\t\tvar lol [][]%s\n\t\t\t\tif n >= 0 {\n\t\t\t\t\tlol = make([][]%s, n)\n\t\t\t\t}\n\t\t\t\tvar want []%s\n\t\t\t\tfor i := range lol {\n\t\t\t\t\tm := (i*3 + variant*2 + n) %% 4 // inner length 0..3, nil when variant says so\n\t\t\t\t\tif m == 0 && (variant+i)%%2 == 0 {\n\t\t\t\t\t\tcontinue // nil inner list\n\t\t\t\t\t}\n\t\t\t\t\tlol[i] = make([]%s, m, m+1)\n\t\t\t\t\tfor j := range lol[i] {\n\t\t\t\t\t\tlol[i][j] = mon.Arg[%s](t, i, j+variant)\n\t\t\t\t\t}\n\t\t\t\t\twant = append(want, lol[i]...)\n\t\t\t\t}\n\t\t\t\tbefore := mon.CanonOf(lol)\n\t\t\t\tcl := fmt.Sprintf(\"join-slice/outer%%d\", n)\n\t\t\t\tout := deriveJoin%s(lol)\n\t\t\t\tmon.Same(t, cl+\"/len\", len(out), len(want))\n\t\t\t\tfor i := 0; i < len(out) && i < len(want); i++ {\n\t\t\t\t\tmon.Same(t, cl+\"/element\", out[i], want[i])\n\t\t\t\t}\n\t\t\t\tif lol == nil {\n\t\t\t\t\tif out != nil {\n\t\t\t\t\t\tt.Bad(cl+\"/nil-for-nil\", \"join of a nil list of lists is not nil\")\n\t\t\t\t\t} else {\n\t\t\t\t\t\tt.Ok(cl + \"/nil-for-nil\")\n\t\t\t\t\t}\n\t\t\t\t}\n\t\t\t\tmon.Same(t, cl+\"/input-unmodified\", mon.CanonOf(lol), before)\n\t\t\t\tmon.NoteAlias(t, \"join-slice/result-aliases-an-input\", out, lol)\n\t\t\t}\n\t\t}\n", a, a, a, a, a, id)
	}
	if str {
		// lists of empty strings only (the result has length 0 although the list has not)
		fmt.Fprintf(&body, "\t\tfor n := 1; n <= 3; n++ {\n\t\t\tlist := make([]string, n)\n\t\t\tmon.Same(t, fmt.Sprintf(\"join-string/all-empty%%d\", n), deriveJoin%s(list), \"\")\n\t\t}\n", id)
	}
	if !str {
		// inner lists that are windows of ONE buffer (with spare capacity behind it), joined out of buffer
		// order, and a first list whose spare capacity could hold the whole result
		fmt.Fprintf(&body, "\t\tfor n := 2; n <= 4; n++ {\n\t\t\tfor variant := 0; variant < 2; variant++ {\n\t\t\t\tbuf := make([]%[1]s, 2*n, 2*n+3+16*variant)\n\t\t\t\tfor j := range buf {\n\t\t\t\t\tbuf[j] = mon.Arg[%[1]s](t, j/2, j%%2+n)\n\t\t\t\t}\n\t\t\t\tlol := make([][]%[1]s, n)\n\t\t\t\tvar want []%[1]s\n\t\t\t\tfor i := range lol {\n\t\t\t\t\tw := (n - i) %% n // windows 0, n-1, n-2, .., 1\n\t\t\t\t\tif variant == 1 {\n\t\t\t\t\t\tlol[i] = buf[2*w : 2*w+2 : 2*w+2]\n\t\t\t\t\t\tif i == 0 {\n\t\t\t\t\t\t\tlol[i] = buf[0:2] // only the first keeps the capacity of the whole buffer\n\t\t\t\t\t\t}\n\t\t\t\t\t} else {\n\t\t\t\t\t\tlol[i] = buf[2*w : 2*w+2]\n\t\t\t\t\t}\n\t\t\t\t\twant = append(want, lol[i]...)\n\t\t\t\t}\n\t\t\t\tbefore := mon.CanonOf(lol)\n\t\t\t\tcl := fmt.Sprintf(\"join-slice/windows%%d\", n)\n\t\t\t\tout := deriveJoin%[2]s(lol)\n\t\t\t\tmon.Same(t, cl+\"/len\", len(out), len(want))\n\t\t\t\tfor i := 0; i < len(out) && i < len(want); i++ {\n\t\t\t\t\tmon.Same(t, cl+\"/element\", out[i], want[i])\n\t\t\t\t}\n\t\t\t\tmon.Same(t, cl+\"/input-unmodified\", mon.CanonOf(lol), before)\n\t\t\t}\n\t\t}\n", a, id)
	}
	kind := "join-slice"
	if str {
		kind = "join-string"
		a = "string"
	}
	shape := kind + "/" + a
	tags := []string{"kind:" + kind}
	return FItem{ID: id, Kind: kind, Shape: shape, Tags: tags, Src: reg(id, shape, tags, body.String())}
}

// ---- C18 --------------------------------------------------------------------------------------

// MemItem: deriveMem(f) over signature s.
func MemItem(id string, s FSig) FItem {
	var sb strings.Builder
	if n := len(s.R); n > 0 && s.R[n-1] == "error" {
		// a function that fails for about half of its argument tuples, deterministically: a failure is a
		// result like any other and the function must not be asked again for the same arguments
		as := vars("a", 0, len(s.P))
		fmt.Fprintf(&sb, "func impl%s(%s)%s {\n\tmon.Log(%q%s)\n", id, namedParams(s.P, "a", 0), resList(s.R), id, prefixComma(as))
		var rets []string
		for i, t := range s.R[:n-1] {
			rets = append(rets, fmt.Sprintf("mon.Ret[%s](%q, %d%s)", t, id, i, prefixComma(as)))
		}
		fmt.Fprintf(&sb, "\treturn %s\n}\n\n", join(append(rets, fmt.Sprintf("mon.FailFor(%q%s)", id, prefixComma(as)))))
	} else if s.ZeroResults {
		as := vars("a", 0, len(s.P))
		fmt.Fprintf(&sb, "func impl%s(%s)%s {\n\tmon.Log(%q%s)\n", id, namedParams(s.P, "a", 0), resList(s.R), id, prefixComma(as))
		var rets []string
		for i, t := range s.R {
			fmt.Fprintf(&sb, "\tvar z%d %s\n", i, t)
			rets = append(rets, fmt.Sprintf("z%d", i))
		}
		fmt.Fprintf(&sb, "\treturn %s\n}\n\n", join(rets))
	} else {
		sb.WriteString(implDecl(id, s.P, s.R, false))
	}
	fmt.Fprintf(&sb, "var F%s %s = impl%s\n\n", id, ftypeOf(s.P, 0, s.R, s.Mode), id)
	as := vars("a", 0, len(s.P))
	rs, ds := vars("r", 0, len(s.R)), vars("d", 0, len(s.R))
	var body strings.Builder
	fmt.Fprintf(&body, "\t\tm := deriveMem%s(F%s)\n\t\tclasses := map[string]bool{}\n\t\tt.Reset()\n\t\tfor step := 0; step < t.N*4; step++ {\n\t\t\ti := mon.MemIndex(t, step)\n\t\t\t_ = i\n", id, id)
	body.WriteString(argDecls(s.P, "\t\t\t"))
	var keyParts []string
	for _, a := range as {
		keyParts = append(keyParts, "mon.CanonOf("+a+")")
	}
	if len(keyParts) == 0 {
		keyParts = []string{"\"\""}
	}
	fmt.Fprintf(&body, "\t\t\tkey := %s\n\t\t\tclasses[key] = true\n", strings.Join(keyParts, " + \"|\" + "))
	fmt.Fprintf(&body, "\t\t\t%sm(%s)\n\t\t\tt.Pause()\n\t\t\t%simpl%s(%s)\n\t\t\tt.Resume()\n%s", assign(rs), join(as), assign(ds), id, join(as), sameAll("mem", rs, ds, "\t\t\t"))
	fmt.Fprintf(&body, "\t\t\tif n := t.CallCount(%q); n > len(classes) {\n\t\t\t\tt.Bad(\"mem/at-most-once\", \"after %%d calls with %%d distinct (Equal) argument tuples the function was evaluated %%d times (last arguments %%s)\", step+1, len(classes), n, key)\n\t\t\t\tbreak\n\t\t\t} else {\n\t\t\t\tt.Ok(\"mem/at-most-once\")\n\t\t\t}\n\t\t}\n", id)
	shape := shapeOf("mem", s)
	tags := []string{"kind:mem", "mode:" + s.Mode, fmt.Sprintf("results:%d", len(s.R)), fmt.Sprintf("params:%d", len(s.P))}
	for _, p := range s.P {
		tags = append(tags, "param:"+p)
	}
	sb.WriteString(reg(id, shape, tags, body.String()))
	return FItem{ID: id, Kind: "mem", Shape: shape, Tags: tags, Src: sb.String()}
}

// RenderFuncPackage renders a module with package p holding the given functional items.
func RenderFuncPackage(items []FItem) map[string]string {
	var sb strings.Builder
	sb.WriteString("package p\n\nimport (\n\t\"errors\"\n\t\"fmt\"\n\t\"unicode/utf8\"\n\n\t\"scratch/mon\"\n)\n\nvar _ = errors.New\nvar _ = fmt.Sprint\nvar _ = utf8.ValidString\n\n")
	sb.WriteString(FuncTypesDecl + "\n")
	for _, it := range items {
		sb.WriteString("// ---- item " + it.ID + " (" + it.Shape + ")\n\n" + it.Src)
	}
	return map[string]string{
		"go.mod":        GoMod,
		"p/items.go":    sb.String(),
		"cmd/h/main.go": "package main\n\nimport (\n\t\"scratch/mon\"\n\t_ \"scratch/p\"\n)\n\nfunc main() { mon.Main() }\n",
	}
}

// FuncTypes is the alphabet of parameter / result types of functional items.
var FuncTypes = []string{"int", "string", "bool", "float64", "NInt", "NStr", "SV", "*SV", "[]int", "map[string]int", "Arr", "[2]int", "any", "SP", "*int", "[]string", "error"}

// ComparableFuncTypes / NonComparable partition the alphabet for Mem.
var ComparableFuncTypes = []string{"int", "string", "bool", "float64", "NInt", "NStr", "SV", "Arr", "[2]int", "int8", "NI8", "uint8", "int16"}
var NonComparableFuncTypes = []string{"[]int", "*SV", "map[string]int", "SP", "*int", "[]string", "[][]int", "[]SV"}

// RandSig draws a signature.
func RandSig(r *rand.Rand, minP, maxP, maxR int, alphabet []string) FSig {
	s := FSig{Mode: []string{"named", "blank", "unnamed", "reserved"}[r.Intn(4)]}
	np := minP + r.Intn(maxP-minP+1)
	for i := 0; i < np; i++ {
		s.P = append(s.P, alphabet[r.Intn(len(alphabet))])
	}
	nr := r.Intn(maxR + 1)
	for i := 0; i < nr; i++ {
		s.R = append(s.R, alphabet[r.Intn(len(alphabet))])
	}
	return s
}

// MemReentrantItem: the memoized function is recursive THROUGH its memoized form (the classic use of
// memoization). Some of the recursive calls are made with an argument that collides with the outer
// one under a 31-fold polynomial hash ("Aa"/"BB" have the same hash; a leading -510 takes an
// accumulator seeded with 17 back to 17), so that the inner call lands in the outer call's bucket
// while the outer call is still in flight.
func MemReentrantItem(id, elem string) FItem {
	tmpl := `var RM@ID func([]@T) int64 // int64 results: no other Mem item has this signature

// impl@ID logs its call and recurses through the memoized function RM@ID.
func impl@ID(l []@T) int64 {
	mon.Log("@ID", l)
@REC(RM@ID, )
}

// plain@ID is the same function recursing directly; seen collects every argument it is evaluated on.
func plain@ID(l []@T, seen map[string]bool) int64 {
	seen[mon.CanonOf(l)] = true
	self := func(x []@T) int64 { return plain@ID(x, seen) }
@REC(self, )
}

`
	var rec, seqs string
	if elem == "string" {
		rec = "\tif len(l) > 0 && l[0] == \"Aa\" {\n\t\treturn 1 + F(append([]string{\"BB\"}, l[1:]...))\n\t}\n\tif len(l) > 1 {\n\t\treturn int64(len(l[0])) + 2*F(l[1:])\n\t}\n\treturn int64(len(l))"
		seqs = `[][]string{{"Aa", "x"}, {"BB", "x"}, {"Aa", "x"}, {"x"}, {"Aa"}, {"BB"}, {"Aa"}, {"q", "Aa", "z"}, {"Aa", "z"}, {"BB", "z"}, nil, {}, {"q", "Aa", "z"}}`
	} else {
		rec = "\tif len(l) > 0 && l[0] == -510 {\n\t\treturn 1 + F(l[1:])\n\t}\n\tif len(l) > 1 {\n\t\treturn int64(l[0]) + 2*F(l[1:])\n\t}\n\treturn int64(len(l))"
		seqs = `[][]int{{-510, 7, 8}, {7, 8}, {-510, 7, 8}, {8}, {-510}, {}, {-510, -510, 5}, {-510, 5}, {5}, {3, -510, 7, 8}, {1, 2, 3, 4, 5, 6}, {2, 3, 4, 5, 6}, nil, {-510, -510, 5}}`
	}
	src := strings.ReplaceAll(tmpl, "@REC(RM@ID, )", strings.ReplaceAll(rec, "F(", "RM@ID("))
	src = strings.ReplaceAll(src, "@REC(self, )", strings.ReplaceAll(rec, "F(", "self("))
	src = strings.NewReplacer("@ID", id, "@T", elem).Replace(src)
	body := strings.NewReplacer("@ID", id, "@T", elem, "@SEQS", seqs).Replace(`		RM@ID = deriveMem@ID(impl@ID)
		seen := map[string]bool{}
		t.Reset()
		for step, l := range @SEQS {
			got := RM@ID(l)
			t.Pause()
			want := plain@ID(l, seen)
			t.Resume()
			mon.Same(t, "mem-reentrant/result", got, want)
			if n := t.CallCount("@ID"); n > len(seen) {
				t.Bad("mem-reentrant/at-most-once", "after %d top-level calls the function has been evaluated on %d distinct (Equal) arguments, recursion included, but was invoked %d times (last argument %s)", step+1, len(seen), n, mon.CanonOf(l))
				break
			} else {
				t.Ok("mem-reentrant/at-most-once")
			}
		}
`)
	shape := "mem-reentrant/[]" + elem
	tags := []string{"kind:mem-reentrant", "param:[]" + elem}
	return FItem{ID: id, Kind: "mem-reentrant", Shape: shape, Tags: tags, Src: src + reg(id, shape, tags, body)}
}

// MemMutateItem: the caller passes a slice (or pointer), overwrites its contents IN PLACE (same backing
// array, same length) and passes it again: the memoized function must answer for the contents it is given.
func MemMutateItem(id, typ string) FItem {
	var sb strings.Builder
	sb.WriteString(implDecl(id, []string{typ}, []string{"int", "NCx"}, false)) // NCx: in no other Mem signature
	var mk, mut string
	switch typ {
	case "[]int":
		mk, mut = "[]int{7, 8, 9}", "a[0], a[2] = 70+step, -step"
	case "[]string":
		mk, mut = "[]string{\"x\", \"y\"}", "a[1] = fmt.Sprint(\"y\", step)"
	case "*SV":
		mk, mut = "&SV{A: 1, B: \"b\"}", "a.A, a.B = 100+step, fmt.Sprint(\"b\", step)"
	case "map[string]int":
		mk, mut = "map[string]int{\"k\": 1, \"l\": 2}", "a[\"k\"] = 10 + step"
	}
	body := strings.NewReplacer("@ID", id, "@MK", mk, "@MUT", mut).Replace(`		m := deriveMem@ID(impl@ID)
		a := @MK
		for step := 0; step < 6; step++ {
			r0, r1 := m(a)
			t.Pause()
			w0, w1 := impl@ID(a)
			t.Resume()
			mon.Same(t, "mem-mutated-argument/result0", r0, w0)
			mon.Same(t, "mem-mutated-argument/result1", r1, w1)
			if step%2 == 1 {
				// the same contents again, without a change in between
				r0, r1 = m(a)
				mon.Same(t, "mem-mutated-argument/repeat0", r0, w0)
				mon.Same(t, "mem-mutated-argument/repeat1", r1, w1)
			}
			@MUT
		}
`)
	shape := "mem-mutated-argument/" + typ
	tags := []string{"kind:mem-mutated-argument", "param:" + typ}
	sb.WriteString(reg(id, shape, tags, body))
	return FItem{ID: id, Kind: "mem-mutated-argument", Shape: shape, Tags: tags, Src: sb.String()}
}
