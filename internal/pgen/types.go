// Package pgen generates input programs for goderive: type shapes from the supported grammar
// (and, for C09, unsupported constituents), their declarations, and whole module trees.
package pgen

import (
	"fmt"
	"math/rand"
	"sort"
	"strings"
)

// Kind of a generated type.
type Kind int

const (
	KBasic      Kind = iota // bool, int, ..., string
	KNamed                  // named type with an arbitrary underlying type (Under); struct when Under.K==KStruct
	KPtr                    // *Elem
	KSlice                  // []Elem
	KArray                  // [N]Elem
	KMap                    // map[Key]Elem
	KStruct                 // struct literal type (only as Under of a KNamed, or unnamed for C09)
	KChan                   // chan Elem            (unsupported constituent)
	KFunc                   // func()               (unsupported constituent)
	KIface                  // interface{}          (unsupported constituent)
	KUnsafePtr              // unsafe.Pointer       (unsupported constituent)
	KEmptyIface             // struct{} used as set element value
)

// Field of a struct.
type Field struct {
	Name     string
	T        *Type
	Embedded bool
}

// Type is a node of a generated type expression.
type Type struct {
	K      Kind
	Basic  string // KBasic
	Name   string // KNamed: identifier
	Pkg    string // KNamed: "" = the package under test, otherwise the import path of an ext package
	Under  *Type  // KNamed: underlying type
	Elem   *Type
	Key    *Type
	N      int
	Fields []Field // KStruct
	// Decorations of a KNamed struct
	EqualMethod   string // "", "derived" (idiom: implemented by the derived function), "custom"
	CompareMethod string // "", "derived", "custom"
	// HashMethod: "custom" (pointer receiver) / "customv" (value receiver): Hash() uint64 consistent with the
	// custom Equal (case-insensitive on Word)
	HashMethod string
	// Stringer: the named type declares String() string (fmt's %v, %s and %q call it, %#v does not)
	Stringer bool
}

// Basics is the list of basic leaf types.
var Basics = []string{"bool", "int", "int8", "int16", "int32", "int64", "uint", "uint8", "uint16", "uint32", "uint64", "uintptr",
	"float32", "float64", "complex64", "complex128", "string", "byte", "rune"}

func B(name string) *Type          { return &Type{K: KBasic, Basic: name} }
func Ptr(e *Type) *Type            { return &Type{K: KPtr, Elem: e} }
func Slice(e *Type) *Type          { return &Type{K: KSlice, Elem: e} }
func Array(n int, e *Type) *Type   { return &Type{K: KArray, N: n, Elem: e} }
func Map(k, e *Type) *Type         { return &Type{K: KMap, Key: k, Elem: e} }
func Chan(e *Type) *Type           { return &Type{K: KChan, Elem: e} }
func StructOf(fs ...Field) *Type   { return &Type{K: KStruct, Fields: fs} }
func F(name string, t *Type) Field { return Field{Name: name, T: t} }
func Emb(t *Type) Field            { return Field{Name: "", T: t, Embedded: true} }
func Named(pkg, name string, u *Type) *Type {
	return &Type{K: KNamed, Pkg: pkg, Name: name, Under: u}
}

// pkgAlias is the identifier a package is imported under in generated user code.
func pkgAlias(path string) string {
	// ext packages are imported under an alias derived from the whole path so two packages with the
	// same name ("scratch/a/dup" and "scratch/b/dup") do not clash in user code.
	s := strings.NewReplacer("/", "_", ".", "_", "-", "_").Replace(strings.TrimPrefix(path, "scratch/"))
	return s
}

// Expr renders the type as Go source as seen from package `from` ("" = package under test),
// recording imported package paths in imps (may be nil).
func (t *Type) Expr(from string, imps map[string]bool) string {
	switch t.K {
	case KBasic:
		return t.Basic
	case KNamed:
		if t.Pkg == from {
			return t.Name
		}
		if imps != nil {
			imps[t.Pkg] = true
		}
		return pkgAlias(t.Pkg) + "." + t.Name
	case KPtr:
		return "*" + t.Elem.Expr(from, imps)
	case KSlice:
		return "[]" + t.Elem.Expr(from, imps)
	case KArray:
		return fmt.Sprintf("[%d]%s", t.N, t.Elem.Expr(from, imps))
	case KMap:
		return "map[" + t.Key.Expr(from, imps) + "]" + t.Elem.Expr(from, imps)
	case KChan:
		return "chan " + t.Elem.Expr(from, imps)
	case KFunc:
		return "func()"
	case KIface:
		return "interface{}"
	case KEmptyIface:
		return "struct{}"
	case KUnsafePtr:
		if imps != nil {
			imps["unsafe"] = true
		}
		return "unsafe.Pointer"
	case KStruct:
		var sb strings.Builder
		sb.WriteString("struct {")
		for i, f := range t.Fields {
			if i > 0 {
				sb.WriteString("; ")
			} else {
				sb.WriteString(" ")
			}
			if f.Embedded {
				sb.WriteString(f.T.Expr(from, imps))
			} else {
				sb.WriteString(f.Name + " " + f.T.Expr(from, imps))
			}
		}
		if len(t.Fields) > 0 {
			sb.WriteString(" ")
		}
		sb.WriteString("}")
		return sb.String()
	}
	return "?"
}

// Shape is a package-independent description of the constructor structure, used as a distinct-case key.
func (t *Type) Shape() string {
	switch t.K {
	case KBasic:
		return t.Basic
	case KNamed:
		loc := "n"
		if t.Pkg != "" {
			loc = "x"
		}
		if t.Under.K == KStruct {
			d := ""
			if t.EqualMethod != "" {
				d += "E" + t.EqualMethod[:1]
			}
			if t.CompareMethod != "" {
				d += "C" + t.CompareMethod[:1]
			}
			return loc + "S" + d + fmt.Sprint(len(t.Under.Fields))
		}
		return loc + "(" + t.Under.Shape() + ")"
	case KPtr:
		return "*" + t.Elem.Shape()
	case KSlice:
		return "[]" + t.Elem.Shape()
	case KArray:
		return fmt.Sprintf("[%d]%s", t.N, t.Elem.Shape())
	case KMap:
		return "map[" + t.Key.Shape() + "]" + t.Elem.Shape()
	case KStruct:
		s := "struct{"
		for _, f := range t.Fields {
			s += f.T.Shape() + ";"
		}
		return s + "}"
	case KChan:
		return "chan " + t.Elem.Shape()
	case KFunc:
		return "func"
	case KIface:
		return "iface"
	case KUnsafePtr:
		return "unsafeptr"
	case KEmptyIface:
		return "struct{}"
	}
	return "?"
}

// Underlying resolves named types.
func (t *Type) Underlying() *Type {
	for t.K == KNamed {
		t = t.Under
	}
	return t
}

// IsStructNamed reports a named struct type.
func (t *Type) IsStructNamed() bool { return t.K == KNamed && t.Under.K == KStruct }

// Comparable reports whether Go's == is defined and pointer-free semantics hold ("value keys"
// when additionally PointerFree).
func (t *Type) Comparable() bool {
	switch u := t.Underlying(); u.K {
	case KBasic, KPtr, KChan, KUnsafePtr, KEmptyIface:
		return true
	case KArray:
		return u.Elem.Comparable()
	case KStruct:
		for _, f := range u.Fields {
			if !f.T.Comparable() {
				return false
			}
		}
		return true
	case KIface:
		return true
	}
	return false
}

// PointerFree reports that no pointer, slice, map, chan, func or interface occurs in the type.
func (t *Type) PointerFree() bool { return t.pointerFree(map[*Type]bool{}) }

func (t *Type) pointerFree(seen map[*Type]bool) bool {
	if seen[t] {
		return true
	}
	seen[t] = true
	switch u := t.Underlying(); u.K {
	case KBasic, KEmptyIface:
		return true
	case KArray:
		return u.Elem.pointerFree(seen)
	case KStruct:
		for _, f := range u.Fields {
			if !f.T.pointerFree(seen) {
				return false
			}
		}
		return true
	}
	return false
}

// Has reports whether any node reachable (without crossing into already visited named types)
// satisfies pred.
func (t *Type) Has(pred func(*Type) bool) bool { return t.has(pred, map[*Type]bool{}) }

func (t *Type) has(pred func(*Type) bool, seen map[*Type]bool) bool {
	if t == nil || seen[t] {
		return false
	}
	seen[t] = true
	if pred(t) {
		return true
	}
	switch t.K {
	case KNamed:
		return t.Under.has(pred, seen)
	case KPtr, KSlice, KArray, KChan:
		return t.Elem.has(pred, seen)
	case KMap:
		return t.Key.has(pred, seen) || t.Elem.has(pred, seen)
	case KStruct:
		for _, f := range t.Fields {
			if f.T.has(pred, seen) {
				return true
			}
		}
	}
	return false
}

// Features returns feature tags of a type used for case classification and known-finding keys.
func (t *Type) Features() []string {
	m := map[string]bool{}
	t.Has(func(x *Type) bool {
		switch x.K {
		case KBasic:
			switch x.Basic {
			case "float32", "float64", "complex64", "complex128":
				m["float"] = true
			}
		case KNamed:
			if x.Pkg != "" {
				m["imported"] = true
				if x.Under.K == KStruct {
					for _, f := range x.Under.Fields {
						if f.Name != "" && f.Name[0] >= 'a' && f.Name[0] <= 'z' {
							m["imported-unexported"] = true
						}
					}
				}
			}
			if strings.HasPrefix(x.EqualMethod, "custom") || strings.HasPrefix(x.CompareMethod, "custom") {
				m["custom-method"] = true
			}
			if x.Under.K != KStruct {
				m["named-"+kindName(x.Under.K)] = true
			}
		case KSlice:
			if x.Elem.K == KBasic && (x.Elem.Basic == "byte" || x.Elem.Basic == "uint8") {
				m["bytes"] = true
			}
		case KMap:
			m["map"] = true
			if !x.Key.PointerFree() {
				m["map-key-has-pointer"] = true
			}
			if x.Key.Underlying().K == KStruct {
				m["map-struct-key"] = true
			}
		case KStruct:
			for _, f := range x.Fields {
				if f.Embedded {
					m["embedded"] = true
				}
			}
		}
		return false
	})
	out := make([]string, 0, len(m))
	for k := range m {
		out = append(out, k)
	}
	sort.Strings(out)
	return out
}

func kindName(k Kind) string {
	switch k {
	case KBasic:
		return "basic"
	case KPtr:
		return "ptr"
	case KSlice:
		return "slice"
	case KArray:
		return "array"
	case KMap:
		return "map"
	case KStruct:
		return "struct"
	}
	return "other"
}

// Universe holds the named types declared for one generated module: the package under test
// ("" / scratch/p) and ext packages.
type Universe struct {
	PkgName string             // name of the package under test
	decls   map[string][]*Type // pkg path ("" = under test) -> named types in declaration order
	seq     int
}

// NewUniverse creates an empty universe.
func NewUniverse(pkgName string) *Universe {
	return &Universe{PkgName: pkgName, decls: map[string][]*Type{}}
}

// Declare registers a named type with a fresh name (prefix + counter) in pkg.
func (u *Universe) Declare(pkg, prefix string, under *Type) *Type {
	u.seq++
	t := Named(pkg, fmt.Sprintf("%s%d", prefix, u.seq), under)
	u.decls[pkg] = append(u.decls[pkg], t)
	return t
}

// DeclareAs registers a named type under a given name.
func (u *Universe) DeclareAs(pkg, name string, under *Type) *Type {
	t := Named(pkg, name, under)
	u.decls[pkg] = append(u.decls[pkg], t)
	return t
}

// Pkgs lists ext package paths.
func (u *Universe) Pkgs() []string {
	var out []string
	for p := range u.decls {
		if p != "" {
			out = append(out, p)
		}
	}
	sort.Strings(out)
	return out
}

// Decls returns the named types of a package.
func (u *Universe) Decls(pkg string) []*Type { return u.decls[pkg] }

func lastElem(path string) string {
	if i := strings.LastIndexByte(path, '/'); i >= 0 {
		return path[i+1:]
	}
	return path
}

// ImportBlock renders an import block for the given paths, ext packages under their alias.
func ImportBlock(imps map[string]bool, extra ...string) string {
	var paths []string
	for p := range imps {
		paths = append(paths, p)
	}
	paths = append(paths, extra...)
	sort.Strings(paths)
	if len(paths) == 0 {
		return ""
	}
	var sb strings.Builder
	sb.WriteString("import (\n")
	prev := ""
	for _, p := range paths {
		if p == prev {
			continue
		}
		prev = p
		if strings.HasPrefix(p, "scratch/") && p != "scratch/mon" {
			fmt.Fprintf(&sb, "\t%s %q\n", pkgAlias(p), p)
		} else {
			fmt.Fprintf(&sb, "\t%q\n", p)
		}
	}
	sb.WriteString(")\n")
	return sb.String()
}

// DeclSource renders the declarations of pkg ("" = package under test) as one Go file body
// (without package clause and imports) and returns the imports it needs.
func (u *Universe) DeclSource(pkg string) (string, map[string]bool) {
	imps := map[string]bool{}
	var sb strings.Builder
	for _, t := range u.decls[pkg] {
		if t.Under.K == KStruct {
			fmt.Fprintf(&sb, "type %s struct {\n", t.Name)
			for _, f := range t.Under.Fields {
				if f.Embedded {
					fmt.Fprintf(&sb, "\t%s\n", f.T.Expr(pkg, imps))
				} else {
					fmt.Fprintf(&sb, "\t%s %s\n", f.Name, f.T.Expr(pkg, imps))
				}
			}
			sb.WriteString("}\n\n")
		} else {
			fmt.Fprintf(&sb, "type %s %s\n\n", t.Name, t.Under.Expr(pkg, imps))
		}
	}
	return sb.String(), imps
}

// ExtFiles renders every ext package as path -> file content (relative to the module root,
// module path "scratch").
func (u *Universe) ExtFiles() map[string]string {
	out := map[string]string{}
	for _, p := range u.Pkgs() {
		body, imps := u.DeclSource(p)
		src := "package " + lastElem(p) + "\n\n" + ImportBlock(imps) + "\n" + body
		// constructors / accessors so the monitors and users can build values with unexported fields
		out[strings.TrimPrefix(p, "scratch/")+"/types.go"] = src
	}
	return out
}

// Rand helpers ---------------------------------------------------------------------------------

// Pick returns a random element.
func Pick[T any](r *rand.Rand, xs []T) T { return xs[r.Intn(len(xs))] }
