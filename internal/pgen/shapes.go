package pgen

import (
	"fmt"
	"math/rand"
)

// ExtA and ExtB are two ext packages with the SAME package name (dup) plus one plain one.
const (
	ExtPlain = "scratch/ext"
	ExtDupA  = "scratch/a/dup"
	ExtDupB  = "scratch/b/dup"
	ExtDupC  = "scratch/c/dup" // third package named dup: its T is flat (copyable by assignment, ==-comparable)
	ExtThird = "scratch/third" // only referenced by field types of ext structs: never named by user code
)

// Std is the standard leaf set of a universe: the named types every shape list is built from.
type Std struct {
	U *Universe
	// named basics
	NInt, NStr, NFloat, NBool, NU8 *Type
	// named types with a String method: a byte slice, a string, an integer
	NDigest, NStrS, NIntS *Type
	// local structs
	SV   *Type // pointer-free, ==-comparable struct
	SP   *Type // struct with pointer / slice / map content
	SE   *Type // struct embedding SV and *SP
	SR   *Type // recursive struct
	SEq  *Type // struct with Equal+Compare methods implemented by derived functions (the idiom)
	SCi  *Type // struct with custom (case-insensitive) Equal/Compare methods
	SCv  *Type // same, but the methods have value receivers and value parameters
	SCn  *Type // like SCi, but Equal and Compare take an interface{} parameter
	SPad *Type // pointer-free struct with blank (padding) fields
	SCd  *Type // struct{N int32} whose Compare method returns the difference of the N (any int, not just -1/0/+1); C13 only
	SD   *Type // struct with an SCd field
	SH   *Type // ==-comparable struct whose fields have the custom methods (the methods must still decide)
	SHH  *Type // ==-comparable struct holding SH by value: the custom methods sit two struct levels down (round 6, C02k)
	// imported
	XE    *Type // imported struct, exported fields only
	XU    *Type // imported struct with unexported fields (nameable types)
	XO    *Type // imported struct without any exported field
	XB    *Type // imported struct with a blank field BEFORE its unexported fields
	XDupC *Type // flat struct T from scratch/c/dup
	SM1   *Type // local struct with fields c/dup.T (flat, first), a/dup.T, b/dup.T
	SM2   *Type // local struct with fields b/dup.T, c/dup.T
	XDupA *Type // struct from scratch/a/dup
	XDupB *Type // struct from scratch/b/dup
	XN    *Type // imported named basic
	// named composites
	NSlice, NMap, NArr, NPtr *Type
	SU                       *Type // local struct with underscore-prefixed field names and a blank field
	XT                       *Type // imported struct whose field types come from a THIRD package
}

// NewStd declares the standard leaf types.
func NewStd(u *Universe) *Std {
	s := &Std{U: u}
	s.NInt = u.DeclareAs("", "NInt", B("int64"))
	s.NStr = u.DeclareAs("", "NStr", B("string"))
	s.NFloat = u.DeclareAs("", "NFloat", B("float32"))
	s.NBool = u.DeclareAs("", "NBool", B("bool"))
	s.NU8 = u.DeclareAs("", "NU8", B("uint8"))
	s.NDigest = u.DeclareAs("", "NDigest", Slice(B("byte")))
	s.NStrS = u.DeclareAs("", "NStrS", B("string"))
	s.NIntS = u.DeclareAs("", "NIntS", B("int"))
	s.NDigest.Stringer, s.NStrS.Stringer, s.NIntS.Stringer = true, true, true
	s.SV = u.DeclareAs("", "SV", StructOf(F("A", B("int")), F("B", B("string")), F("C", Array(2, B("bool"))), F("D", s.NInt)))
	s.SP = u.DeclareAs("", "SP", StructOf(F("P", Ptr(B("int"))), F("S", Slice(B("string"))), F("M", Map(B("string"), B("int"))), F("N", s.NStr), F("V", s.SV)))
	s.SE = u.DeclareAs("", "SE", StructOf(Emb(s.SV), Emb(Ptr(s.SP)), F("X", B("uint16"))))
	sr := u.DeclareAs("", "SR", StructOf())
	sr.Under.Fields = []Field{F("V", B("int")), F("Next", Ptr(sr)), F("Kids", Slice(sr)), F("M", Map(B("string"), Ptr(sr)))}
	s.SR = sr
	s.SEq = u.DeclareAs("", "SEq", StructOf(F("A", B("int")), F("L", Slice(B("int"))), F("Q", Ptr(B("string")))))
	s.SEq.EqualMethod, s.SEq.CompareMethod = "derived", "derived"
	s.SCi = u.DeclareAs("", "SCi", StructOf(F("Word", B("string"))))
	s.SCi.EqualMethod, s.SCi.CompareMethod, s.SCi.HashMethod = "custom", "custom", "custom"
	s.SCv = u.DeclareAs("", "SCv", StructOf(F("Word", B("string"))))
	s.SCv.EqualMethod, s.SCv.CompareMethod, s.SCv.HashMethod = "customv", "customv", "customv"
	s.SCn = u.DeclareAs("", "SCn", StructOf(F("Word", B("string"))))
	s.SCn.EqualMethod, s.SCn.CompareMethod, s.SCn.HashMethod = "customi", "customi", "custom"
	s.SPad = u.DeclareAs("", "SPad", StructOf(F("A", B("int8")), F("_", Array(3, B("byte"))), F("B", B("string")), F("_", B("int"))))
	s.SCd = u.DeclareAs("", "SCd", StructOf(F("N", B("int32"))))
	s.SCd.CompareMethod = "customd"
	s.SD = u.DeclareAs("", "SD", StructOf(F("At", s.SCd), F("V", B("int8"))))
	s.SH = u.DeclareAs("", "SH", StructOf(F("N", B("int")), F("H", s.SCi), F("V", s.SCv), F("A", Array(2, s.SCi))))
	sh2 := u.DeclareAs("", "SH2", StructOf(F("ID", B("int")), F("H", s.SCi), F("V", s.SCv)))
	s.SHH = u.DeclareAs("", "SHH", StructOf(F("K", B("int")), F("In", sh2)))

	s.XN = u.DeclareAs(ExtPlain, "Num", B("int32"))
	s.XE = u.DeclareAs(ExtPlain, "Pub", StructOf(F("I", B("int")), F("S", B("string")), F("P", Ptr(B("float64"))), F("L", Slice(B("uint16"))), F("N", s.XN)))
	s.XU = u.DeclareAs(ExtPlain, "Priv", StructOf(F("A", B("int")), F("b", B("string")), F("c", Ptr(B("int"))), F("d", Slice(B("int64"))), F("e", Map(B("string"), B("bool")))))
	s.XB = u.DeclareAs(ExtPlain, "Range", StructOf(F("Name", B("string")), F("_", B("int64")), F("lo", B("int")), F("hi", B("int")), F("_", Array(2, B("byte"))), F("tags", Slice(B("string")))))
	s.XO = u.DeclareAs(ExtPlain, "Opaque", StructOf(F("n", B("int")), F("s", B("string")), F("l", Slice(B("int")))))
	s.XDupA = u.DeclareAs(ExtDupA, "T", StructOf(F("X", B("int")), F("Y", Slice(B("string")))))
	s.XDupB = u.DeclareAs(ExtDupB, "T", StructOf(F("X", B("string")), F("Z", Ptr(B("bool")))))

	s.XDupC = u.DeclareAs(ExtDupC, "T", StructOf(F("X", B("int")), F("W", B("string"))))
	s.SM1 = u.DeclareAs("", "SM1", StructOf(F("Old", s.XDupC), F("New", s.XDupA), F("Other", s.XDupB)))
	s.SM2 = u.DeclareAs("", "SM2", StructOf(F("New", s.XDupB), F("Old", s.XDupC), F("L", Slice(s.XDupA))))
	tm := u.DeclareAs(ExtThird, "Meters", B("float64"))
	tp := u.DeclareAs(ExtThird, "Point", StructOf(F("X", B("int")), F("Y", B("int"))))
	s.XT = u.DeclareAs(ExtPlain, "Span", StructOf(F("Len", tm), F("At", tp), F("S", Slice(B("int")))))
	s.SU = u.DeclareAs("", "SU", StructOf(F("A", B("int")), F("_b", B("string")), F("_c", Slice(B("int"))), F("_", B("int32")), F("D", B("bool"))))
	s.NSlice = u.DeclareAs("", "NSlice", Slice(B("int")))
	s.NMap = u.DeclareAs("", "NMap", Map(B("string"), s.SV))
	s.NArr = u.DeclareAs("", "NArr", Array(3, B("string")))
	s.NPtr = u.DeclareAs("", "NPtr", Ptr(B("int")))
	return s
}

// Leaves returns the leaf classes of the bounded-exhaustive enumeration.
func (s *Std) Leaves() []*Type {
	return []*Type{B("bool"), B("int"), B("uint8"), B("float64"), B("complex128"), B("string"), B("rune"),
		s.NInt, s.NStr, s.NFloat, s.SV, s.SP, s.SR, s.XE, s.XU}
}

// ExtraLeaves are used by the random part only.
func (s *Std) ExtraLeaves() []*Type {
	return []*Type{B("int8"), B("int16"), B("int32"), B("int64"), B("uint"), B("uint16"), B("uint32"), B("uint64"), B("uintptr"),
		B("float32"), B("complex64"), B("byte"), s.NBool, s.NU8, s.NDigest, s.NStrS, s.NIntS, s.SE, s.SEq, s.SCi, s.SCv, s.SCn, s.SPad, s.SH, s.SHH, s.XB, s.XO, s.XDupC, s.SM1, s.SM2, s.XDupA, s.XDupB, s.XN, s.NSlice, s.NMap, s.NArr, s.NPtr}
}

// Keys returns the value-key types for maps (pointer-free, ==-comparable).
func (s *Std) Keys() []*Type {
	return []*Type{B("string"), B("int"), s.NStr, Array(2, B("int")), s.SV, B("bool"), B("float64"), s.NInt, B("uint8")}
}

// Constructors applies every type constructor once to t.
func (s *Std) Constructors(t *Type) []*Type {
	out := []*Type{Ptr(t), Slice(t), Array(2, t), Map(B("string"), t), Map(B("int"), t)}
	if t.Comparable() && t.PointerFree() {
		out = append(out, Map(t, B("int")))
	}
	return out
}

// Enumerate lists all shapes of constructor depth <= depth over Leaves().
func (s *Std) Enumerate(depth int) []*Type {
	level := s.Leaves()
	all := append([]*Type{}, level...)
	for d := 0; d < depth; d++ {
		var next []*Type
		for _, t := range level {
			next = append(next, s.Constructors(t)...)
		}
		all = append(all, next...)
		level = next
	}
	// maps keyed by each key class once (beyond string/int)
	for _, k := range s.Keys()[2:] {
		all = append(all, Map(k, B("string")), Map(k, s.SP), Slice(Map(k, B("int"))))
	}
	return all
}

// Random draws a type of the given maximal depth.
func (s *Std) Random(r *rand.Rand, depth int) *Type {
	leaves := append(s.Leaves(), s.ExtraLeaves()...)
	if depth <= 0 || r.Intn(5) == 0 {
		return Pick(r, leaves)
	}
	switch r.Intn(6) {
	case 0:
		return Ptr(s.Random(r, depth-1))
	case 1:
		return Slice(s.Random(r, depth-1))
	case 2:
		return Array([]int{0, 1, 3}[r.Intn(3)], s.Random(r, depth-1))
	case 3:
		return Map(Pick(r, s.Keys()), s.Random(r, depth-1))
	case 4:
		return s.RandomStruct(r, depth-1)
	default:
		return Pick(r, leaves)
	}
}

// RandomStruct declares a fresh local struct of 1..8 fields.
func (s *Std) RandomStruct(r *rand.Rand, depth int) *Type {
	n := 1 + r.Intn(8)
	fs := make([]Field, 0, n)
	for i := 0; i < n; i++ {
		name := fmt.Sprintf("F%d", i)
		if r.Intn(4) == 0 {
			name = fmt.Sprintf("f%d", i) // unexported local field
		}
		fs = append(fs, F(name, s.Random(r, depth)))
	}
	return s.U.Declare("", "R", StructOf(fs...))
}

// Wrapper declares `type Wn struct { F T }` so that T is exercised "as a field".
func (s *Std) Wrapper(t *Type) *Type {
	return s.U.Declare("", "W", StructOf(F("Pre", B("int")), F("F", t), F("Post", B("string"))))
}
