package pgen

import (
	"fmt"
	"sort"
	"strings"
)

// TItem is one type-directed item: a type and the derived operations requested for it.
type TItem struct {
	ID   string
	T    *Type
	Ops  []string // equal equalc compare comparec hash deepcopy clone gostring sort min max min2 max2 keys contains unique set union intersect unionmap intermap filter takewhile all any
	Tags []string
}

// HasOp reports whether the item requests op.
func (it *TItem) HasOp(op string) bool {
	for _, o := range it.Ops {
		if o == op {
			return true
		}
	}
	return false
}

// HasTag reports whether the item carries tag.
func (it *TItem) HasTag(tag string) bool {
	for _, o := range it.Tags {
		if o == tag {
			return true
		}
	}
	return false
}

// GoMod is the go.mod of every scratch module.
const GoMod = "module scratch\n\ngo 1.24\n"

// MethodSource renders the Equal / Compare methods of decorated named structs of the package
// under test. Only the kinds listed in need are emitted ("equal", "compare").
func (u *Universe) MethodSource(need map[string]bool) (string, map[string]bool) {
	imps := map[string]bool{}
	var sb strings.Builder
	for _, t := range u.decls[""] {
		if t.Stringer {
			imps["fmt"] = true
			fmt.Fprintf(&sb, "func (x %s) String() string { return fmt.Sprintf(\"<%s %%d>\", len(fmt.Sprintf(\"%%#v\", x))) }\n\n", t.Name, t.Name)
		}
		switch t.HashMethod {
		case "custom":
			imps["strings"] = true
			fmt.Fprintf(&sb, "func (this *%s) Hash() uint64 {\n\tif this == nil {\n\t\treturn 7\n\t}\n\th := uint64(1469598103934665603)\n\tfor _, b := range []byte(strings.ToLower(this.Word)) {\n\t\th = (h ^ uint64(b)) * 1099511628211\n\t}\n\treturn h\n}\n\n", t.Name)
		case "customv":
			imps["strings"] = true
			fmt.Fprintf(&sb, "func (this %s) Hash() uint64 {\n\th := uint64(1469598103934665603)\n\tfor _, b := range []byte(strings.ToLower(this.Word)) {\n\t\th = (h ^ uint64(b)) * 1099511628211\n\t}\n\treturn h\n}\n\n", t.Name)
		}
		if t.Under.K != KStruct {
			continue
		}
		if need["equal"] {
			switch t.EqualMethod {
			case "derived":
				fmt.Fprintf(&sb, "func (this *%s) Equal(that *%s) bool { return deriveEqualM%s(this, that) }\n\n", t.Name, t.Name, t.Name)
			case "customi":
				imps["strings"] = true
				fmt.Fprintf(&sb, "func (this *%[1]s) Equal(that interface{}) bool {\n\to, ok := that.(*%[1]s)\n\tif !ok {\n\t\treturn false\n\t}\n\tif this == nil || o == nil {\n\t\treturn this == nil && o == nil\n\t}\n\treturn strings.ToLower(this.Word) == strings.ToLower(o.Word)\n}\n\n", t.Name)
			case "customv":
				imps["strings"] = true
				fmt.Fprintf(&sb, "func (this %s) Equal(that %s) bool { return strings.ToLower(this.Word) == strings.ToLower(that.Word) }\n\n", t.Name, t.Name)
			case "custom":
				imps["strings"] = true
				fmt.Fprintf(&sb, "func (this *%s) Equal(that *%s) bool {\n\tif this == nil || that == nil {\n\t\treturn this == nil && that == nil\n\t}\n\treturn strings.ToLower(this.Word) == strings.ToLower(that.Word)\n}\n\n", t.Name, t.Name)
			}
		}
		if need["compare"] {
			switch t.CompareMethod {
			case "derived":
				fmt.Fprintf(&sb, "func (this *%s) Compare(that *%s) int { return deriveCompareM%s(this, that) }\n\n", t.Name, t.Name, t.Name)
			case "customi":
				imps["strings"] = true
				fmt.Fprintf(&sb, "func (this *%[1]s) Compare(that interface{}) int {\n\to, _ := that.(*%[1]s)\n\tif this == nil {\n\t\tif o == nil {\n\t\t\treturn 0\n\t\t}\n\t\treturn -1\n\t}\n\tif o == nil {\n\t\treturn 1\n\t}\n\treturn strings.Compare(strings.ToLower(this.Word), strings.ToLower(o.Word))\n}\n\n", t.Name)
			case "customd":
				// a hand-written Compare that returns a difference, not -1/0/+1 (N is an int32: no overflow)
				fmt.Fprintf(&sb, "func (this %s) Compare(that %s) int { return int(this.N) - int(that.N) }\n\n", t.Name, t.Name)
			case "customv":
				imps["strings"] = true
				fmt.Fprintf(&sb, "func (this %s) Compare(that %s) int { return strings.Compare(strings.ToLower(this.Word), strings.ToLower(that.Word)) }\n\n", t.Name, t.Name)
			case "custom":
				imps["strings"] = true
				fmt.Fprintf(&sb, "func (this *%s) Compare(that *%s) int {\n\tif this == nil {\n\t\tif that == nil {\n\t\t\treturn 0\n\t\t}\n\t\treturn -1\n\t}\n\tif that == nil {\n\t\treturn 1\n\t}\n\treturn strings.Compare(strings.ToLower(this.Word), strings.ToLower(that.Word))\n}\n\n", t.Name, t.Name)
			}
		}
	}
	return sb.String(), imps
}

func mergeImps(dst map[string]bool, srcs ...map[string]bool) {
	for _, s := range srcs {
		for k := range s {
			dst[k] = true
		}
	}
}

// opGlue renders one TypeOps field for op.
func opGlue(op, id, T string) string {
	L := "[]" + T
	S := "map[" + T + "]struct{}"
	switch op {
	case "equal":
		return fmt.Sprintf("Equal: func(a, b any) bool { return deriveEqual%s(a.(%s), b.(%s)) },", id, T, T)
	case "equalc":
		return fmt.Sprintf("EqualCurried: func(a any) func(any) bool { f := deriveEqualC%s(a.(%s)); return func(b any) bool { return f(b.(%s)) } },", id, T, T)
	case "compare":
		return fmt.Sprintf("Compare: func(a, b any) int { return deriveCompare%s(a.(%s), b.(%s)) },", id, T, T)
	case "comparec":
		return fmt.Sprintf("CompareCurried: func(a any) func(any) int { f := deriveCompareC%s(a.(%s)); return func(b any) int { return f(b.(%s)) } },", id, T, T)
	case "hash":
		return fmt.Sprintf("Hash: func(a any) uint64 { return deriveHash%s(a.(%s)) },", id, T)
	case "deepcopy":
		return fmt.Sprintf("DeepCopy: func(dst, src any) { deriveDeepCopy%s(dst.(%s), src.(%s)) },", id, T, T)
	case "clone":
		return fmt.Sprintf("Clone: func(a any) any { return deriveClone%s(a.(%s)) },", id, T)
	case "gostring":
		return fmt.Sprintf("GoString: func(a any) string { return deriveGoString%s(a.(%s)) },", id, T)
	case "sort":
		return fmt.Sprintf("Sort: func(l any) any { return deriveSort%s(l.(%s)) },", id, L)
	case "min":
		return fmt.Sprintf("Min: func(l, d any) any { return deriveMin%s(l.(%s), d.(%s)) },", id, L, T)
	case "max":
		return fmt.Sprintf("Max: func(l, d any) any { return deriveMax%s(l.(%s), d.(%s)) },", id, L, T)
	case "min2":
		return fmt.Sprintf("Min2: func(a, b any) any { return deriveMinB%s(a.(%s), b.(%s)) },", id, T, T)
	case "max2":
		return fmt.Sprintf("Max2: func(a, b any) any { return deriveMaxB%s(a.(%s), b.(%s)) },", id, T, T)
	case "keys":
		return fmt.Sprintf("Keys: func(m any) any { return deriveKeys%s(m.(%s)) },", id, T)
	case "contains":
		return fmt.Sprintf("Contains: func(l, x any) bool { return deriveContains%s(l.(%s), x.(%s)) },", id, L, T)
	case "unique":
		return fmt.Sprintf("Unique: func(l any) any { return deriveUnique%s(l.(%s)) },", id, L)
	case "set":
		return fmt.Sprintf("Set: func(l any) any { return deriveSet%s(l.(%s)) },", id, L)
	case "union":
		return fmt.Sprintf("Union: func(a, b any) any { return deriveUnion%s(a.(%s), b.(%s)) },", id, L, L)
	case "intersect":
		return fmt.Sprintf("Intersect: func(a, b any) any { return deriveIntersect%s(a.(%s), b.(%s)) },", id, L, L)
	case "unionmap":
		return fmt.Sprintf("UnionMap: func(a, b any) any { return deriveUnionM%s(a.(%s), b.(%s)) },", id, S, S)
	case "intermap":
		return fmt.Sprintf("InterMap: func(a, b any) any { return deriveIntersectM%s(a.(%s), b.(%s)) },", id, S, S)
	case "filter":
		return fmt.Sprintf("Filter: func(p func(any) bool, l any) any { return deriveFilter%s(func(x %s) bool { return p(x) }, l.(%s)) },", id, T, L)
	case "takewhile":
		return fmt.Sprintf("TakeWhile: func(p func(any) bool, l any) any { return deriveTakeWhile%s(func(x %s) bool { return p(x) }, l.(%s)) },", id, T, L)
	case "all":
		return fmt.Sprintf("All: func(p func(any) bool, l any) bool { return deriveAll%s(func(x %s) bool { return p(x) }, l.(%s)) },", id, T, L)
	case "any":
		return fmt.Sprintf("Any: func(p func(any) bool, l any) bool { return deriveAny%s(func(x %s) bool { return p(x) }, l.(%s)) },", id, T, L)
	}
	panic("pgen: unknown op " + op)
}

// opFamily maps an op to the decoration kind it needs in MethodSource.
func opNeeds(ops []string) map[string]bool {
	need := map[string]bool{}
	for _, o := range ops {
		switch o {
		case "equal", "equalc", "contains", "unique", "union", "intersect":
			need["equal"] = true
		case "compare", "comparec", "sort", "min", "max", "min2", "max2":
			need["compare"] = true
		}
	}
	return need
}

// RenderTypePackage renders the module tree (without the mon library) for a batch of type items:
// ext packages, p/types.go, p/reg.go (the registry = the derive call sites) and cmd/h/main.go.
func RenderTypePackage(u *Universe, items []TItem) map[string]string {
	files := map[string]string{"go.mod": GoMod}
	for k, v := range u.ExtFiles() {
		files[k] = v
	}
	var allOps []string
	for _, it := range items {
		allOps = append(allOps, it.Ops...)
	}
	need := opNeeds(allOps)
	body, imps := u.DeclSource("")
	msrc, mimps := u.MethodSource(need)
	mergeImps(imps, mimps)
	files["p/types.go"] = "package p\n\n" + ImportBlock(imps) + "\n" + body + msrc

	rimps := map[string]bool{"reflect": true, "scratch/mon": true}
	var sb strings.Builder
	sb.WriteString("func init() {\n")
	for _, it := range items {
		T := it.T.Expr("", rimps)
		tags := make([]string, len(it.Tags))
		for i, t := range it.Tags {
			tags[i] = fmt.Sprintf("%q", t)
		}
		fmt.Fprintf(&sb, "\tmon.RegType(&mon.TypeOps{ID: %q, T: reflect.TypeOf((*%s)(nil)).Elem(), Shape: %q, Tags: []string{%s},\n", it.ID, T, it.T.Shape(), strings.Join(tags, ", "))
		ops := append([]string{}, it.Ops...)
		sort.Strings(ops)
		for _, op := range ops {
			fmt.Fprintf(&sb, "\t\t%s\n", opGlue(op, it.ID, T))
		}
		sb.WriteString("\t})\n")
	}
	sb.WriteString("}\n")
	files["p/reg.go"] = "package p\n\n" + ImportBlock(rimps) + "\n" + sb.String()
	files["cmd/h/main.go"] = "package main\n\nimport (\n\t\"scratch/mon\"\n\t_ \"scratch/p\"\n)\n\nfunc main() { mon.Main() }\n"
	return files
}
