// Package report implements the verdict discipline shared by all checks: three-valued case
// verdicts, matching of violations against KNOWN_FINDINGS.txt, persisted replay directories,
// the VIOLATION / KNOWN-FINDING lines and the evidence file.
package report

import (
	"bufio"
	"crypto/sha256"
	"encoding/hex"
	"encoding/json"
	"fmt"
	"os"
	"path/filepath"
	"sort"
	"strings"
	"sync"
	"time"
)

// Finding is one line of KNOWN_FINDINGS.txt.
type Finding struct {
	Fixed bool
	Prop  string
	Key   string // finding: key=<class>; matched exactly against Violation.Key
	Text  string
}

// LoadFindings parses KNOWN_FINDINGS.txt. Lines:
//
//	finding: property=C07 key=<key> <what fails>
//	fixed: property=C10 <commit> <what failed>
func LoadFindings(path string) []Finding {
	f, err := os.Open(path)
	if err != nil {
		return nil
	}
	defer f.Close()
	var out []Finding
	sc := bufio.NewScanner(f)
	for sc.Scan() {
		ln := strings.TrimSpace(sc.Text())
		var fd Finding
		switch {
		case strings.HasPrefix(ln, "finding:"):
			ln = strings.TrimSpace(strings.TrimPrefix(ln, "finding:"))
		case strings.HasPrefix(ln, "fixed:"):
			fd.Fixed = true
			ln = strings.TrimSpace(strings.TrimPrefix(ln, "fixed:"))
		default:
			continue
		}
		fs := strings.Fields(ln)
		rest := []string{}
		for _, w := range fs {
			switch {
			case strings.HasPrefix(w, "property=") && fd.Prop == "":
				fd.Prop = strings.TrimPrefix(w, "property=")
			case strings.HasPrefix(w, "key=") && fd.Key == "":
				fd.Key = strings.TrimPrefix(w, "key=")
			default:
				rest = append(rest, w)
			}
		}
		fd.Text = strings.Join(rest, " ")
		out = append(out, fd)
	}
	return out
}

// Violation is a refuting observation with its witness.
type Violation struct {
	Key     string            // class of the case (feature tags) + symptom, used for known-finding matching
	Summary string            // one line
	Detail  string            // longer text (stderr, diff, witness values)
	Files   map[string]string // persisted into the replay directory (module tree, case.json, ...)
	Replay  string            // body of replay.sh (may be empty)
}

// Run collects what one check execution observed.
type Run struct {
	Prop     string
	Tier     string
	Seed     int64
	Level    string
	VerifDir string
	Rule     string
	Assume   []string
	Floor    int // minimum distinct_nontrivial below which the run reports itself broken

	mu           sync.Mutex
	start        time.Time
	evaluations  int64
	distinct     map[string]struct{}
	counters     map[string]int64
	samples      []any
	violations   []Violation
	known        map[string]int
	inconclusive []string
	extra        map[string]any
	findings     []Finding
}

// New starts a run.
func New(prop, tier string, seed int64, level, verifDir string) *Run {
	r := &Run{Prop: prop, Tier: tier, Seed: seed, Level: level, VerifDir: verifDir, start: time.Now(),
		distinct: map[string]struct{}{}, counters: map[string]int64{}, known: map[string]int{}, extra: map[string]any{}}
	for _, f := range LoadFindings(filepath.Join(verifDir, "KNOWN_FINDINGS.txt")) {
		if f.Prop == prop {
			r.findings = append(r.findings, f)
		}
	}
	return r
}

// OpenFinding reports whether key is listed as an open (unfixed) finding of this property.
func (r *Run) OpenFinding(key string) bool {
	for _, f := range r.findings {
		if !f.Fixed && f.Key == key {
			return true
		}
	}
	return false
}

// Eval counts n oracle evaluations.
func (r *Run) Eval(n int64) { r.mu.Lock(); r.evaluations += n; r.mu.Unlock() }

// Distinct records a distinct non-trivial case key.
func (r *Run) Distinct(key string) { r.mu.Lock(); r.distinct[key] = struct{}{}; r.mu.Unlock() }

// Count adds to a named counter that ends up in the evidence file.
func (r *Run) Count(name string, n int64) { r.mu.Lock(); r.counters[name] += n; r.mu.Unlock() }

// Sample keeps up to 12 written-out cases.
func (r *Run) Sample(s any) {
	r.mu.Lock()
	if len(r.samples) < 12 {
		r.samples = append(r.samples, s)
	}
	r.mu.Unlock()
}

// Extra sets a free-form evidence key.
func (r *Run) Extra(k string, v any) { r.mu.Lock(); r.extra[k] = v; r.mu.Unlock() }

// Inconclusive records a case that could not be decided.
func (r *Run) Inconclusive(what string) {
	r.mu.Lock()
	r.inconclusive = append(r.inconclusive, what)
	r.mu.Unlock()
}

// Violate records a violation; if its key is an open known finding it only counts as such.
func (r *Run) Violate(v Violation) {
	r.mu.Lock()
	defer r.mu.Unlock()
	if v.Key != "" {
		for _, f := range r.findings {
			if !f.Fixed && f.Key == v.Key {
				r.known[v.Key]++
				return
			}
		}
	}
	r.violations = append(r.violations, v)
}

// NViolations is the number of unlisted violations so far.
func (r *Run) NViolations() int { r.mu.Lock(); defer r.mu.Unlock(); return len(r.violations) }

func (r *Run) persist(v Violation) string {
	h := sha256.Sum256([]byte(v.Key + "\x00" + v.Summary + "\x00" + v.Detail))
	dir := filepath.Join(outDir(r.VerifDir), "replays", r.Prop, hex.EncodeToString(h[:6]))
	os.MkdirAll(dir, 0o755)
	for rel, c := range v.Files {
		p := filepath.Join(dir, rel)
		os.MkdirAll(filepath.Dir(p), 0o755)
		os.WriteFile(p, []byte(c), 0o644)
	}
	meta := map[string]any{"property": r.Prop, "key": v.Key, "summary": v.Summary, "detail": v.Detail, "seed": r.Seed, "tier": r.Tier}
	b, _ := json.MarshalIndent(meta, "", " ")
	os.WriteFile(filepath.Join(dir, "violation.json"), b, 0o644)
	if v.Replay != "" {
		os.WriteFile(filepath.Join(dir, "replay.sh"), []byte(v.Replay), 0o755)
	}
	return dir
}

// Finish prints the verdict lines, writes the evidence file and returns the exit code:
// 0 held (known findings only), 1 violation, 2 broken / inconclusive run.
func (r *Run) Finish() int {
	r.mu.Lock()
	defer r.mu.Unlock()
	wall := time.Since(r.start).Seconds()
	// known findings: one line per key
	keys := make([]string, 0, len(r.known))
	for k := range r.known {
		keys = append(keys, k)
	}
	sort.Strings(keys)
	for _, k := range keys {
		text := ""
		for _, f := range r.findings {
			if f.Key == k {
				text = f.Text
			}
		}
		fmt.Printf("KNOWN-FINDING: property=%s key=%s %s (observed %d time(s) in this run)\n", r.Prop, k, text, r.known[k])
	}
	// open findings that were NOT observed are reported (informational; exit status unaffected)
	for _, f := range r.findings {
		if !f.Fixed {
			if _, ok := r.known[f.Key]; !ok {
				fmt.Printf("NOTE: listed finding key=%s was not observed in this run (tier=%s)\n", f.Key, r.Tier)
			}
		}
	}
	seen := map[string]bool{}
	nviol := 0
	for _, v := range r.violations {
		nviol++
		sig := v.Key
		if seen[sig] && nviol > 40 {
			continue // keep output bounded; all are counted in evidence
		}
		seen[sig] = true
		dir := r.persist(v)
		fmt.Printf("VIOLATION property=%s replay=%s\n", r.Prop, dir)
		fmt.Printf("  key=%s\n  %s\n", v.Key, v.Summary)
		if v.Detail != "" {
			d := v.Detail
			if len(d) > 1500 {
				d = d[:1500] + "…"
			}
			fmt.Printf("  %s\n", strings.ReplaceAll(d, "\n", "\n  "))
		}
	}
	cov := map[string]any{
		"evaluations":         r.evaluations,
		"distinct_nontrivial": len(r.distinct),
		"rule":                r.Rule,
		"samples":             r.samples,
		"inconclusive":        len(r.inconclusive),
		"known_findings_seen": r.known,
	}
	if len(r.samples) == 0 {
		cov["samples"] = []any{"(no case was completed)"}
	}
	for k, v := range r.counters {
		cov[k] = v
	}
	for k, v := range r.extra {
		cov[k] = v
	}
	if len(r.inconclusive) > 0 {
		n := len(r.inconclusive)
		if n > 10 {
			n = 10
		}
		cov["inconclusive_examples"] = r.inconclusive[:n]
	}
	if r.Assume == nil {
		r.Assume = []string{}
	}
	ev := map[string]any{
		"property_id": r.Prop, "tier": r.Tier, "seed": r.Seed, "level": r.Level,
		"coverage": cov, "assumptions": r.Assume, "wall_s": wall, "violations": len(r.violations),
	}
	b, _ := json.MarshalIndent(ev, "", " ")
	os.MkdirAll(filepath.Join(outDir(r.VerifDir), "evidence"), 0o755)
	os.WriteFile(filepath.Join(outDir(r.VerifDir), "evidence", r.Prop+".json"), append(b, '\n'), 0o644)

	fmt.Printf("%s tier=%s seed=%d: evaluations=%d distinct_nontrivial=%d violations=%d known=%d inconclusive=%d wall=%.1fs\n",
		r.Prop, r.Tier, r.Seed, r.evaluations, len(r.distinct), len(r.violations), len(r.known), len(r.inconclusive), wall)
	if len(r.violations) > 0 {
		return 1
	}
	if r.evaluations == 0 || len(r.distinct) < r.Floor {
		fmt.Printf("BROKEN: the run observed too little (evaluations=%d distinct=%d floor=%d)\n", r.evaluations, len(r.distinct), r.Floor)
		return 2
	}
	if int64(len(r.inconclusive))*20 > r.evaluations+int64(len(r.inconclusive)) {
		fmt.Printf("INCONCLUSIVE: %d of %d cases could not be decided\n", len(r.inconclusive), r.evaluations)
		for i, s := range r.inconclusive {
			if i >= 10 {
				break
			}
			fmt.Printf("  %s\n", s)
		}
		return 2
	}
	return 0
}

// outDir is where evidence and replays are written: /verif, unless VERIF_OUT redirects them (used
// when the checks are pointed at a seeded-fault worktree, so that committed evidence is not overwritten).
func outDir(verifDir string) string {
	if d := os.Getenv("VERIF_OUT"); d != "" {
		return d
	}
	return verifDir
}
