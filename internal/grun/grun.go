// Package grun drives G-executions: one run of the goderive process on a module tree, observed at
// the process boundary (argv, exit status, stderr, CPU time, before/after snapshot of the tree).
package grun

import (
	"bytes"
	"context"
	"crypto/sha256"
	"encoding/hex"
	"fmt"
	"io/fs"
	"os"
	"os/exec"
	"path/filepath"
	"sort"
	"strings"
	"syscall"
	"time"
)

// Result is what was observed of one process execution.
type Result struct {
	Args     []string
	Dir      string
	Exit     int // -1: killed / could not start
	Stdout   string
	Stderr   string
	CPU      time.Duration // user+sys of the child (and its reaped children)
	Wall     time.Duration
	TimedOut bool // wall-clock watchdog fired: inconclusive, never a verdict by itself
	CPUKill  bool // CPU budget exhausted (RLIMIT_CPU): the process was spinning
	Crash    string
	Signal   string // non-empty when the process was killed by a signal
}

// Opts control one execution.
type Opts struct {
	Dir     string
	Env     []string
	Wall    time.Duration // watchdog (default 120s)
	CPUSecs int           // RLIMIT_CPU for the child via `sh -c ulimit -t`; 0 = none
	MemKB   int           // RLIMIT_AS for the child via `ulimit -v`; 0 = none
	Stdin   string
}

// crashMarkers are the traces of a Go panic / runtime fatal in stderr.
var crashMarkers = []string{"panic:", "fatal error:", "goroutine 1 [", "runtime error:", "SIGSEGV"}

// ScanCrash returns the first crash marker found in stderr, or "".
func ScanCrash(stderr string) string {
	for _, m := range crashMarkers {
		if i := strings.Index(stderr, m); i >= 0 {
			ln := stderr[i:]
			if j := strings.IndexByte(ln, '\n'); j >= 0 {
				ln = ln[:j]
			}
			return ln
		}
	}
	return ""
}

// Run executes bin with args.
func Run(bin string, args []string, o Opts) Result {
	if o.Wall == 0 {
		o.Wall = 120 * time.Second
	}
	ctx, cancel := context.WithTimeout(context.Background(), o.Wall)
	defer cancel()
	var cmd *exec.Cmd
	if o.CPUSecs > 0 || o.MemKB > 0 {
		// ulimit -t makes the kernel deliver SIGXCPU/SIGKILL on CPU time, not wall-clock time.
		sh := ""
		if o.CPUSecs > 0 {
			sh += fmt.Sprintf("ulimit -t %d; ", o.CPUSecs)
		}
		if o.MemKB > 0 {
			sh += fmt.Sprintf("ulimit -v %d; ", o.MemKB)
		}
		sh += "exec \"$0\" \"$@\""
		cmd = exec.CommandContext(ctx, "sh", append([]string{"-c", sh, bin}, args...)...)
	} else {
		cmd = exec.CommandContext(ctx, bin, args...)
	}
	cmd.Dir = o.Dir
	cmd.Env = o.Env
	cmd.SysProcAttr = &syscall.SysProcAttr{Setpgid: true}
	cmd.Cancel = func() error { return syscall.Kill(-cmd.Process.Pid, syscall.SIGKILL) }
	var so, se bytes.Buffer
	cmd.Stdout, cmd.Stderr = &so, &se
	if o.Stdin != "" {
		cmd.Stdin = strings.NewReader(o.Stdin)
	}
	t0 := time.Now()
	err := cmd.Run()
	r := Result{Args: append([]string{filepath.Base(bin)}, args...), Dir: o.Dir, Stdout: so.String(), Stderr: se.String(), Wall: time.Since(t0)}
	if cmd.ProcessState != nil {
		r.CPU = cmd.ProcessState.UserTime() + cmd.ProcessState.SystemTime()
		r.Exit = cmd.ProcessState.ExitCode()
		if ws, ok := cmd.ProcessState.Sys().(syscall.WaitStatus); ok && ws.Signaled() {
			r.Signal = ws.Signal().String()
			if ws.Signal() == syscall.SIGXCPU || (ws.Signal() == syscall.SIGKILL && o.CPUSecs > 0 && r.CPU >= time.Duration(o.CPUSecs)*time.Second) {
				r.CPUKill = true
			}
		}
	} else {
		r.Exit = -1
		if err != nil {
			r.Stderr += "\n[start error] " + err.Error()
		}
	}
	if ctx.Err() == context.DeadlineExceeded {
		r.TimedOut = true
	}
	r.Crash = ScanCrash(r.Stderr)
	return r
}

// FileState is one entry of a tree snapshot.
type FileState struct {
	Mode fs.FileMode
	Sum  string
	Size int64
}

// Snapshot records names, modes and sha256 of every file below root.
func Snapshot(root string) map[string]FileState {
	m := map[string]FileState{}
	filepath.WalkDir(root, func(p string, d fs.DirEntry, err error) error {
		if err != nil {
			return nil
		}
		rel, _ := filepath.Rel(root, p)
		info, e := d.Info()
		if e != nil {
			return nil
		}
		if d.IsDir() {
			m[rel+"/"] = FileState{Mode: info.Mode()}
			return nil
		}
		b, _ := os.ReadFile(p)
		h := sha256.Sum256(b)
		m[rel] = FileState{Mode: info.Mode(), Sum: hex.EncodeToString(h[:]), Size: int64(len(b))}
		return nil
	})
	return m
}

// Diff lists paths created, deleted or changed (content or mode) between two snapshots.
func Diff(a, b map[string]FileState) (created, deleted, changed []string) {
	for p, sb := range b {
		sa, ok := a[p]
		if !ok {
			created = append(created, p)
		} else if sa != sb {
			changed = append(changed, p)
		}
	}
	for p := range a {
		if _, ok := b[p]; !ok {
			deleted = append(deleted, p)
		}
	}
	sort.Strings(created)
	sort.Strings(deleted)
	sort.Strings(changed)
	return
}

// Sum is the sha256 of a file ("" if absent).
func Sum(path string) string {
	b, err := os.ReadFile(path)
	if err != nil {
		return ""
	}
	h := sha256.Sum256(b)
	return hex.EncodeToString(h[:])
}

// WriteTree writes files (relative path -> content) below root.
func WriteTree(root string, files map[string]string) error {
	for rel, content := range files {
		p := filepath.Join(root, rel)
		if err := os.MkdirAll(filepath.Dir(p), 0o755); err != nil {
			return err
		}
		if err := os.WriteFile(p, []byte(content), 0o644); err != nil {
			return err
		}
	}
	return nil
}

// CopyTree copies a directory tree.
func CopyTree(src, dst string) error {
	return filepath.WalkDir(src, func(p string, d fs.DirEntry, err error) error {
		if err != nil {
			return err
		}
		rel, _ := filepath.Rel(src, p)
		t := filepath.Join(dst, rel)
		if d.IsDir() {
			return os.MkdirAll(t, 0o755)
		}
		b, err := os.ReadFile(p)
		if err != nil {
			return err
		}
		info, _ := d.Info()
		return os.WriteFile(t, b, info.Mode().Perm())
	})
}
