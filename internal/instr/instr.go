// Package instr rewrites a scratch copy of derived.gen.go so that a yield point mon.Y(site) runs
// before every statement of every function body (also inside function literals, loops, select
// and switch clauses). It is the failpoint idea applied to emitted code, which does not exist in
// the repository and therefore cannot carry gofail markers.
package instr

import (
	"bytes"
	"go/ast"
	"go/format"
	"go/parser"
	"go/token"
	"strconv"
)

// Yieldify returns the instrumented source and the number of yield sites inserted.
func Yieldify(src []byte, monImport string) ([]byte, int, error) {
	fset := token.NewFileSet()
	f, err := parser.ParseFile(fset, "derived.gen.go", src, parser.ParseComments)
	if err != nil {
		return nil, 0, err
	}
	site := 0
	mk := func() ast.Stmt {
		site++
		return &ast.ExprStmt{X: &ast.CallExpr{
			Fun:  &ast.SelectorExpr{X: ast.NewIdent("verifmon"), Sel: ast.NewIdent("Y")},
			Args: []ast.Expr{&ast.BasicLit{Kind: token.INT, Value: strconv.Itoa(site)}},
		}}
	}
	weave := func(list []ast.Stmt) []ast.Stmt {
		out := make([]ast.Stmt, 0, 2*len(list)+1)
		for _, s := range list {
			out = append(out, mk(), s)
		}
		return out
	}
	skip := map[*ast.BlockStmt]bool{}
	ast.Inspect(f, func(n ast.Node) bool {
		switch x := n.(type) {
		case *ast.SelectStmt:
			skip[x.Body] = true // its list holds the comm clauses, not statements
		case *ast.SwitchStmt:
			skip[x.Body] = true
		case *ast.TypeSwitchStmt:
			skip[x.Body] = true
		case *ast.BlockStmt:
			if x != nil && !skip[x] {
				x.List = weave(x.List)
			}
		case *ast.CaseClause:
			x.Body = weave(x.Body)
		case *ast.CommClause:
			x.Body = weave(x.Body)
		}
		return true
	})
	// import
	imp := &ast.ImportSpec{Name: ast.NewIdent("verifmon"), Path: &ast.BasicLit{Kind: token.STRING, Value: strconv.Quote(monImport)}}
	decl := &ast.GenDecl{Tok: token.IMPORT, Specs: []ast.Spec{imp}}
	f.Decls = append([]ast.Decl{decl}, f.Decls...)
	f.Imports = append(f.Imports, imp)
	// comments carry positions that no longer make sense; drop them
	f.Comments = nil
	f.Doc = nil
	var buf bytes.Buffer
	if err := format.Node(&buf, token.NewFileSet(), f); err != nil {
		return nil, 0, err
	}
	return buf.Bytes(), site, nil
}
