// Package env resolves the Go toolchain goderive needs, creates scratch space outside /repo and
// /verif, and (re)builds goderive from the repository's current working tree with hooks on.
package env

import (
	"bytes"
	"fmt"
	"os"
	"os/exec"
	"path/filepath"
	"sort"
	"strings"
	"sync"
	"time"
)

// Env is the resolved environment of one vcheck run.
type Env struct {
	GOROOT   string
	Repo     string // goderive source tree (VERIF_REPO, default /repo)
	VerifDir string // /verif (VERIF_DIR, default: directory above bin/)
	Scratch  string // mktemp root of this run, removed by Cleanup
	Goderive string // binary built from Repo
	CoverDir string // GOCOVERDIR for goderive runs
	Start    time.Time
	base     []string
	seq      int
	mu       sync.Mutex
}

func getenv(k, d string) string {
	if v := os.Getenv(k); v != "" {
		return v
	}
	return d
}

// stripped returns os.Environ() without the listed keys.
func stripped(keys ...string) []string {
	var out []string
outer:
	for _, kv := range os.Environ() {
		for _, k := range keys {
			if strings.HasPrefix(kv, k+"=") {
				continue outer
			}
		}
		out = append(out, kv)
	}
	return out
}

func resolveGOROOT(repo string) (string, error) {
	// The known-good recipe: let the default go auto-switch (offline, from the module cache) to the
	// toolchain go.mod asks for. GOSUMDB=off or GOTOOLCHAIN=local break exactly this step.
	cmd := exec.Command("go", "env", "GOROOT")
	cmd.Dir = repo
	cmd.Env = append(stripped("GOTOOLCHAIN", "GOSUMDB", "GOFLAGS", "GOPROXY", "GONOSUMDB", "GONOSUMCHECK"), "GOPROXY=off", "GOTOOLCHAIN=auto")
	var eb bytes.Buffer
	cmd.Stderr = &eb
	out, err := cmd.Output()
	if err == nil {
		gr := strings.TrimSpace(string(out))
		if _, e := os.Stat(filepath.Join(gr, "bin", "go")); e == nil {
			return gr, nil
		}
	}
	// Fallback: any cached toolchain, lowest first.
	cands, _ := filepath.Glob("/root/go/pkg/mod/golang.org/toolchain@*")
	sort.Strings(cands)
	for _, c := range cands {
		if _, e := os.Stat(filepath.Join(c, "bin", "go")); e == nil {
			return c, nil
		}
	}
	return "", fmt.Errorf("cannot resolve a Go toolchain for %s: %v %s", repo, err, eb.String())
}

// Setup resolves everything and builds goderive. tag is used in scratch dir names.
func Setup(tag string) (*Env, error) {
	e := &Env{Start: time.Now()}
	e.Repo = getenv("VERIF_REPO", "/repo")
	e.VerifDir = getenv("VERIF_DIR", "")
	if e.VerifDir == "" {
		if exe, err := os.Executable(); err == nil {
			e.VerifDir = filepath.Dir(filepath.Dir(exe))
		} else {
			e.VerifDir = "/verif"
		}
	}
	gr, err := resolveGOROOT(e.Repo)
	if err != nil {
		return nil, err
	}
	e.GOROOT = gr
	tmp := getenv("VERIF_TMP", os.TempDir())
	e.Scratch, err = os.MkdirTemp(tmp, "vcheck-"+tag+"-")
	if err != nil {
		return nil, err
	}
	e.CoverDir = filepath.Join(e.Scratch, "cover")
	os.MkdirAll(e.CoverDir, 0o755)
	path := filepath.Join(gr, "bin") + string(os.PathListSeparator) + os.Getenv("PATH")
	e.base = append(stripped("PATH", "GOTOOLCHAIN", "GOSUMDB", "GOFLAGS", "GOPROXY", "GOROOT", "GOCOVERDIR", "GO111MODULE", "GOWORK", "GORACE", "GOMAXPROCS", "GODEBUG"),
		"PATH="+path, "GOTOOLCHAIN=local", "GOPROXY=off", "GOSUMDB=off", "GOWORK=off")
	return e, nil
}

// GoBin is the absolute path of the resolved go tool (exec.Command resolves bare names with the
// PARENT's PATH, not cmd.Env).
func (e *Env) GoBin() string { return filepath.Join(e.GOROOT, "bin", "go") }

// RepoEnv is the environment for building inside the repository (vendor mode: no -mod=mod).
func (e *Env) RepoEnv() []string { return append(append([]string{}, e.base...), "GOFLAGS=") }

// ScratchEnv is the environment for scratch modules and for goderive runs on them.
func (e *Env) ScratchEnv(extra ...string) []string {
	out := append(append([]string{}, e.base...), "GOFLAGS=-mod=mod", "GOCOVERDIR="+e.CoverDir)
	return append(out, extra...)
}

// BuildGoderive builds the generator from the working tree with hooks on and coverage counters.
func (e *Env) BuildGoderive() error {
	out := filepath.Join(e.Scratch, "goderive")
	args := []string{"build", "-tags", "verif", "-cover", "-coverpkg=./...", "-o", out, "."}
	cmd := exec.Command(e.GoBin(), args...)
	cmd.Dir = e.Repo
	cmd.Env = e.RepoEnv()
	b, err := cmd.CombinedOutput()
	if err != nil {
		return fmt.Errorf("building goderive from %s failed: %v\n%s", e.Repo, err, b)
	}
	e.Goderive = out
	return nil
}

// Dir returns a fresh directory under the scratch root.
func (e *Env) Dir(name string) string {
	e.mu.Lock()
	e.seq++
	n := e.seq
	e.mu.Unlock()
	d := filepath.Join(e.Scratch, fmt.Sprintf("%s-%05d", name, n))
	os.MkdirAll(d, 0o755)
	return d
}

// Cleanup removes all scratch space of this run.
func (e *Env) Cleanup() {
	if e.Scratch != "" && os.Getenv("VERIF_KEEP") == "" {
		os.RemoveAll(e.Scratch)
	}
}

// Coverage merges the coverage counters written by all goderive runs and returns
// package path -> statement percentage.
func (e *Env) Coverage() map[string]float64 {
	res := map[string]float64{}
	ents, _ := os.ReadDir(e.CoverDir)
	if len(ents) == 0 {
		return res
	}
	cmd := exec.Command(e.GoBin(), "tool", "covdata", "percent", "-i="+e.CoverDir)
	cmd.Env = e.RepoEnv()
	cmd.Dir = e.Repo
	out, err := cmd.Output()
	if err != nil {
		return res
	}
	for _, ln := range strings.Split(string(out), "\n") {
		// github.com/x/y/plugin/equal		coverage: 91.2% of statements
		f := strings.Fields(ln)
		if len(f) >= 3 && f[1] == "coverage:" {
			var p float64
			fmt.Sscanf(strings.TrimSuffix(f[2], "%"), "%f", &p)
			res[strings.TrimPrefix(f[0], "github.com/awalterschulze/goderive/")] = p
		}
	}
	return res
}
