# source this: resolves the Go toolchain goderive needs (go.mod says go 1.24) and pins offline settings
GR=$(cd "${VERIF_REPO:-/repo}" && GOPROXY=off GOFLAGS= go env GOROOT)
export PATH=$GR/bin:$PATH GOTOOLCHAIN=local GOPROXY=off GOSUMDB=off GONOSUMDB='*' GONOSUMCHECK=1 GOFLAGS=-mod=mod
