package pb

import "scratch/mon"

func init() {
	mon.RegComb(&mon.Comb{Name: "join-chan-of-chan", JoinChanB: func(in chan (<-chan int)) <-chan int { return deriveJoin(in) }})
	mon.RegComb(&mon.Comb{Name: "join-slice-of-chan", JoinSliceB: func(in []chan int) <-chan int { return deriveJoinS(in) }})
	mon.RegComb(&mon.Comb{Name: "join-variadic-2-recv", JoinVar2R: func(a, b <-chan int) <-chan int { return deriveJoinV2(a, b) }})
	mon.RegComb(&mon.Comb{Name: "dup-chan", DupB: func(in chan int) (<-chan int, <-chan int) { return deriveDupB(in) }})
}
