package pa

import "scratch/mon"

func ident(x int) int { return x }

func init() {
	mon.RegComb(&mon.Comb{Name: "fmap-chan", Fmap: func(in <-chan int) <-chan int { return deriveFmap(ident, in) }})
	mon.RegComb(&mon.Comb{Name: "join-recvchan-of-chan", JoinChanR: func(in <-chan (<-chan int)) <-chan int { return deriveJoin(in) }})
	mon.RegComb(&mon.Comb{Name: "join-slice-of-recvchan", JoinSliceR: func(in []<-chan int) <-chan int { return deriveJoinS(in) }})
	mon.RegComb(&mon.Comb{Name: "join-variadic-2", JoinVar2: func(a, b chan int) <-chan int { return deriveJoinV2(a, b) }})
	mon.RegComb(&mon.Comb{Name: "join-variadic-3", JoinVar3: func(a, b, c chan int) <-chan int { return deriveJoinV3(a, b, c) }})
	mon.RegComb(&mon.Comb{Name: "pipeline", Pipeline: func(f func(int) <-chan int, g func(int) <-chan int) func(int) <-chan int { return derivePipeline(f, g) }})
	mon.RegComb(&mon.Comb{Name: "dup-recvchan", Dup: func(in <-chan int) (<-chan int, <-chan int) { return deriveDup(in) }})
}
