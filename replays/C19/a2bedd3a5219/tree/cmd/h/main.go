package main

import (
	"scratch/mon"
	_ "scratch/pa"
	_ "scratch/pb"
)

func main() { mon.Main() }
