package p

import (
	ext "scratch/ext"
)

type NInt int64

type NStr string

type NFloat float32

type NBool bool

type NU8 uint8

type SV struct {
	A int
	B string
	C [2]bool
	D NInt
}

type SP struct {
	P *int
	S []string
	M map[string]int
	N NStr
	V SV
}

type SE struct {
	SV
	*SP
	X uint16
}

type SR struct {
	V int
	Next *SR
	Kids []SR
	M map[string]*SR
}

type SEq struct {
	A int
	L []int
	Q *string
}

type SCi struct {
	Word string
}

type NSlice []int

type NMap map[string]SV

type NArr [3]string

type NPtr *int

type W1 struct {
	Pre int
	F *SP
	Post string
}

type W2 struct {
	Pre int
	F map[NStr]SP
	Post string
}

type W3 struct {
	Pre int
	F [2][]NStr
	Post string
}

type W4 struct {
	Pre int
	F map[string][]bool
	Post string
}

type W5 struct {
	Pre int
	F map[string]uint8
	Post string
}

type W6 struct {
	Pre int
	F map[string]bool
	Post string
}

type W7 struct {
	Pre int
	F []uint8
	Post string
}

type W8 struct {
	Pre int
	F []*bool
	Post string
}

type W9 struct {
	Pre int
	F map[string]SR
	Post string
}

type W10 struct {
	Pre int
	F *map[string]ext.Pub
	Post string
}

type W11 struct {
	Pre int
	F [2]SP
	Post string
}

type W12 struct {
	Pre int
	F []map[bool]int
	Post string
}

type W13 struct {
	Pre int
	F bool
	Post string
}

type W14 struct {
	Pre int
	F []map[string]bool
	Post string
}

type W15 struct {
	Pre int
	F map[string]SP
	Post string
}

type W16 struct {
	Pre int
	F map[int][2]complex128
	Post string
}

type W17 struct {
	Pre int
	F map[SV]SP
	Post string
}

type W18 struct {
	Pre int
	F []ext.Priv
	Post string
}

type W19 struct {
	Pre int
	F map[string][2]bool
	Post string
}

type W20 struct {
	Pre int
	F *map[int]SR
	Post string
}

type W21 struct {
	Pre int
	F map[string][2]ext.Priv
	Post string
}

type W22 struct {
	Pre int
	F [2]map[string]NInt
	Post string
}

