package p

import (
	"reflect"
	"scratch/mon"
)

func init() {
	mon.RegType(&mon.TypeOps{ID: "I01x041", T: reflect.TypeOf((**W21)(nil)).Elem(), Shape: "*nS3", Tags: []string{"form:field", "origin:enum", "imported", "imported-unexported", "map"},
		Clone: func(a any) any { return deriveCloneI01x041(a.(*W21)) },
		DeepCopy: func(dst, src any) { deriveDeepCopyI01x041(dst.(*W21), src.(*W21)) },
	})
}
