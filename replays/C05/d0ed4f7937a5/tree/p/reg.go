package p

import (
	"reflect"
	"scratch/mon"
)

func init() {
	mon.RegType(&mon.TypeOps{ID: "I06x027", T: reflect.TypeOf((**W14)(nil)).Elem(), Shape: "*nS3", Tags: []string{"form:field", "origin:enum", "map", "named-basic"},
		Clone: func(a any) any { return deriveCloneI06x027(a.(*W14)) },
		DeepCopy: func(dst, src any) { deriveDeepCopyI06x027(dst.(*W14), src.(*W14)) },
	})
}
