package p

import (
	"reflect"
	"scratch/mon"
)

func init() {
	mon.RegType(&mon.TypeOps{ID: "I06x026", T: reflect.TypeOf((*map[string][2]SP)(nil)).Elem(), Shape: "map[string][2]nS5", Tags: []string{"form:top", "origin:enum", "map", "named-basic"},
		Clone: func(a any) any { return deriveCloneI06x026(a.(map[string][2]SP)) },
		DeepCopy: func(dst, src any) { deriveDeepCopyI06x026(dst.(map[string][2]SP), src.(map[string][2]SP)) },
	})
}
