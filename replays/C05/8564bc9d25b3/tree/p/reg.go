package p

import (
	"reflect"
	"scratch/mon"
)

func init() {
	mon.RegType(&mon.TypeOps{ID: "I00x006", T: reflect.TypeOf((*map[int][2]SP)(nil)).Elem(), Shape: "map[int][2]nS5", Tags: []string{"form:top", "origin:enum", "map", "named-basic"},
		Clone: func(a any) any { return deriveCloneI00x006(a.(map[int][2]SP)) },
		DeepCopy: func(dst, src any) { deriveDeepCopyI00x006(dst.(map[int][2]SP), src.(map[int][2]SP)) },
	})
}
