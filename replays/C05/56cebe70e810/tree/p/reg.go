package p

import (
	"reflect"
	"scratch/mon"
)

func init() {
	mon.RegType(&mon.TypeOps{ID: "I02x005", T: reflect.TypeOf((**W3)(nil)).Elem(), Shape: "*nS3", Tags: []string{"form:field", "origin:enum", "map"},
		Clone: func(a any) any { return deriveCloneI02x005(a.(*W3)) },
		DeepCopy: func(dst, src any) { deriveDeepCopyI02x005(dst.(*W3), src.(*W3)) },
	})
}
