package p

import (
	"reflect"
	"scratch/mon"
)

func init() {
	mon.RegType(&mon.TypeOps{ID: "I00x007", T: reflect.TypeOf((**W4)(nil)).Elem(), Shape: "*nS3", Tags: []string{"form:field", "origin:enum", "map", "named-basic"},
		Clone: func(a any) any { return deriveCloneI00x007(a.(*W4)) },
		DeepCopy: func(dst, src any) { deriveDeepCopyI00x007(dst.(*W4), src.(*W4)) },
	})
}
