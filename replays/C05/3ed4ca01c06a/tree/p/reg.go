package p

import (
	"reflect"
	"scratch/mon"
)

func init() {
	mon.RegType(&mon.TypeOps{ID: "I02x004", T: reflect.TypeOf((*map[string][2]SR)(nil)).Elem(), Shape: "map[string][2]nS4", Tags: []string{"form:top", "origin:enum", "map"},
		Clone: func(a any) any { return deriveCloneI02x004(a.(map[string][2]SR)) },
		DeepCopy: func(dst, src any) { deriveDeepCopyI02x004(dst.(map[string][2]SR), src.(map[string][2]SR)) },
	})
}
