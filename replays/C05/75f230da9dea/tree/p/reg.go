package p

import (
	"reflect"
	ext "scratch/ext"
	"scratch/mon"
)

func init() {
	mon.RegType(&mon.TypeOps{ID: "I02x022", T: reflect.TypeOf((*map[int][2]ext.Pub)(nil)).Elem(), Shape: "map[int][2]xS5", Tags: []string{"form:top", "origin:enum", "float", "imported", "map", "named-basic"},
		Clone: func(a any) any { return deriveCloneI02x022(a.(map[int][2]ext.Pub)) },
		DeepCopy: func(dst, src any) { deriveDeepCopyI02x022(dst.(map[int][2]ext.Pub), src.(map[int][2]ext.Pub)) },
	})
}
