package p

import (
	"reflect"
	ext "scratch/ext"
	"scratch/mon"
)

func init() {
	mon.RegType(&mon.TypeOps{ID: "I01x040", T: reflect.TypeOf((*map[string][2]ext.Priv)(nil)).Elem(), Shape: "map[string][2]xS5", Tags: []string{"form:top", "origin:enum", "imported", "imported-unexported", "map"},
		Clone: func(a any) any { return deriveCloneI01x040(a.(map[string][2]ext.Priv)) },
		DeepCopy: func(dst, src any) { deriveDeepCopyI01x040(dst.(map[string][2]ext.Priv), src.(map[string][2]ext.Priv)) },
	})
}
