package p

import (
	"reflect"
	"scratch/mon"
)

func init() {
	mon.RegType(&mon.TypeOps{ID: "I02x023", T: reflect.TypeOf((**W12)(nil)).Elem(), Shape: "*nS3", Tags: []string{"form:field", "origin:enum", "float", "imported", "map", "named-basic"},
		Clone: func(a any) any { return deriveCloneI02x023(a.(*W12)) },
		DeepCopy: func(dst, src any) { deriveDeepCopyI02x023(dst.(*W12), src.(*W12)) },
	})
}
