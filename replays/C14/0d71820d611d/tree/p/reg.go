package p

import (
	"reflect"
	"scratch/mon"
)

func init() {
	mon.RegType(&mon.TypeOps{ID: "I03x020a", T: reflect.TypeOf((**map[NFloat]int)(nil)).Elem(), Shape: "*map[n(float32)]int", Tags: []string{"form:top", "origin:enum", "float", "map", "named-basic", "helper:any"},
		All: func(p func(any) bool, l any) bool { return deriveAllI03x020a(func(x *map[NFloat]int) bool { return p(x) }, l.([]*map[NFloat]int)) },
		Any: func(p func(any) bool, l any) bool { return deriveAnyI03x020a(func(x *map[NFloat]int) bool { return p(x) }, l.([]*map[NFloat]int)) },
		Contains: func(l, x any) bool { return deriveContainsI03x020a(l.([]*map[NFloat]int), x.(*map[NFloat]int)) },
		Equal: func(a, b any) bool { return deriveEqualI03x020a(a.(*map[NFloat]int), b.(*map[NFloat]int)) },
		Filter: func(p func(any) bool, l any) any { return deriveFilterI03x020a(func(x *map[NFloat]int) bool { return p(x) }, l.([]*map[NFloat]int)) },
		Intersect: func(a, b any) any { return deriveIntersectI03x020a(a.([]*map[NFloat]int), b.([]*map[NFloat]int)) },
		TakeWhile: func(p func(any) bool, l any) any { return deriveTakeWhileI03x020a(func(x *map[NFloat]int) bool { return p(x) }, l.([]*map[NFloat]int)) },
		Union: func(a, b any) any { return deriveUnionI03x020a(a.([]*map[NFloat]int), b.([]*map[NFloat]int)) },
		Unique: func(l any) any { return deriveUniqueI03x020a(l.([]*map[NFloat]int)) },
	})
}
