package p

import (
	"reflect"
	"scratch/mon"
)

func init() {
	mon.RegType(&mon.TypeOps{ID: "I01x002a", T: reflect.TypeOf((***SV)(nil)).Elem(), Shape: "**nS4", Tags: []string{"form:top", "origin:enum", "named-basic", "helper:any"},
		All: func(p func(any) bool, l any) bool { return deriveAllI01x002a(func(x **SV) bool { return p(x) }, l.([]**SV)) },
		Any: func(p func(any) bool, l any) bool { return deriveAnyI01x002a(func(x **SV) bool { return p(x) }, l.([]**SV)) },
		Contains: func(l, x any) bool { return deriveContainsI01x002a(l.([]**SV), x.(**SV)) },
		Equal: func(a, b any) bool { return deriveEqualI01x002a(a.(**SV), b.(**SV)) },
		Filter: func(p func(any) bool, l any) any { return deriveFilterI01x002a(func(x **SV) bool { return p(x) }, l.([]**SV)) },
		Intersect: func(a, b any) any { return deriveIntersectI01x002a(a.([]**SV), b.([]**SV)) },
		TakeWhile: func(p func(any) bool, l any) any { return deriveTakeWhileI01x002a(func(x **SV) bool { return p(x) }, l.([]**SV)) },
		Union: func(a, b any) any { return deriveUnionI01x002a(a.([]**SV), b.([]**SV)) },
		Unique: func(l any) any { return deriveUniqueI01x002a(l.([]**SV)) },
	})
}
