package p

import (
	"reflect"
	"scratch/mon"
)

func init() {
	mon.RegType(&mon.TypeOps{ID: "I02x017a", T: reflect.TypeOf((*map[NFloat]int)(nil)).Elem(), Shape: "map[n(float32)]int", Tags: []string{"form:top", "origin:enum", "float", "map", "named-basic", "helper:any"},
		All: func(p func(any) bool, l any) bool { return deriveAllI02x017a(func(x map[NFloat]int) bool { return p(x) }, l.([]map[NFloat]int)) },
		Any: func(p func(any) bool, l any) bool { return deriveAnyI02x017a(func(x map[NFloat]int) bool { return p(x) }, l.([]map[NFloat]int)) },
		Contains: func(l, x any) bool { return deriveContainsI02x017a(l.([]map[NFloat]int), x.(map[NFloat]int)) },
		Equal: func(a, b any) bool { return deriveEqualI02x017a(a.(map[NFloat]int), b.(map[NFloat]int)) },
		Filter: func(p func(any) bool, l any) any { return deriveFilterI02x017a(func(x map[NFloat]int) bool { return p(x) }, l.([]map[NFloat]int)) },
		Intersect: func(a, b any) any { return deriveIntersectI02x017a(a.([]map[NFloat]int), b.([]map[NFloat]int)) },
		TakeWhile: func(p func(any) bool, l any) any { return deriveTakeWhileI02x017a(func(x map[NFloat]int) bool { return p(x) }, l.([]map[NFloat]int)) },
		Union: func(a, b any) any { return deriveUnionI02x017a(a.([]map[NFloat]int), b.([]map[NFloat]int)) },
		Unique: func(l any) any { return deriveUniqueI02x017a(l.([]map[NFloat]int)) },
	})
}
