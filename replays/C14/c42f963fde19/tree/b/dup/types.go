package dup


type T struct {
	X string
	Z *bool
}

