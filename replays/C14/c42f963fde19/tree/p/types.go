package p

import (
	"strings"
)

type NInt int64

type NStr string

type NFloat float32

type NBool bool

type NU8 uint8

type SV struct {
	A int
	B string
	C [2]bool
	D NInt
}

type SP struct {
	P *int
	S []string
	M map[string]int
	N NStr
	V SV
}

type SE struct {
	SV
	*SP
	X uint16
}

type SR struct {
	V int
	Next *SR
	Kids []SR
	M map[string]*SR
}

type SEq struct {
	A int
	L []int
	Q *string
}

type SCi struct {
	Word string
}

type NSlice []int

type NMap map[string]SV

type NArr [3]string

type NPtr *int

type R1 struct {
	F0 NStr
	f1 uint
	F2 NArr
	F3 complex128
	f4 uintptr
}

func (this *SEq) Equal(that *SEq) bool { return deriveEqualMSEq(this, that) }

func (this *SCi) Equal(that *SCi) bool {
	if this == nil || that == nil {
		return this == nil && that == nil
	}
	return strings.EqualFold(this.Word, that.Word)
}

