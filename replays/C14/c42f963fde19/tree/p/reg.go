package p

import (
	"reflect"
	"scratch/mon"
)

func init() {
	mon.RegType(&mon.TypeOps{ID: "I02x002a", T: reflect.TypeOf((*[]NFloat)(nil)).Elem(), Shape: "[]n(float32)", Tags: []string{"form:top", "origin:enum", "float", "named-basic", "helper:any"},
		All: func(p func(any) bool, l any) bool { return deriveAllI02x002a(func(x []NFloat) bool { return p(x) }, l.([][]NFloat)) },
		Any: func(p func(any) bool, l any) bool { return deriveAnyI02x002a(func(x []NFloat) bool { return p(x) }, l.([][]NFloat)) },
		Contains: func(l, x any) bool { return deriveContainsI02x002a(l.([][]NFloat), x.([]NFloat)) },
		Equal: func(a, b any) bool { return deriveEqualI02x002a(a.([]NFloat), b.([]NFloat)) },
		Filter: func(p func(any) bool, l any) any { return deriveFilterI02x002a(func(x []NFloat) bool { return p(x) }, l.([][]NFloat)) },
		Intersect: func(a, b any) any { return deriveIntersectI02x002a(a.([][]NFloat), b.([][]NFloat)) },
		TakeWhile: func(p func(any) bool, l any) any { return deriveTakeWhileI02x002a(func(x []NFloat) bool { return p(x) }, l.([][]NFloat)) },
		Union: func(a, b any) any { return deriveUnionI02x002a(a.([][]NFloat), b.([][]NFloat)) },
		Unique: func(l any) any { return deriveUniqueI02x002a(l.([][]NFloat)) },
	})
}
