package p

import (
	"reflect"
	"scratch/mon"
)

func init() {
	mon.RegType(&mon.TypeOps{ID: "I04x001a", T: reflect.TypeOf((**NFloat)(nil)).Elem(), Shape: "*n(float32)", Tags: []string{"form:top", "origin:enum", "float", "named-basic", "helper:any"},
		All: func(p func(any) bool, l any) bool { return deriveAllI04x001a(func(x *NFloat) bool { return p(x) }, l.([]*NFloat)) },
		Any: func(p func(any) bool, l any) bool { return deriveAnyI04x001a(func(x *NFloat) bool { return p(x) }, l.([]*NFloat)) },
		Contains: func(l, x any) bool { return deriveContainsI04x001a(l.([]*NFloat), x.(*NFloat)) },
		Equal: func(a, b any) bool { return deriveEqualI04x001a(a.(*NFloat), b.(*NFloat)) },
		Filter: func(p func(any) bool, l any) any { return deriveFilterI04x001a(func(x *NFloat) bool { return p(x) }, l.([]*NFloat)) },
		Intersect: func(a, b any) any { return deriveIntersectI04x001a(a.([]*NFloat), b.([]*NFloat)) },
		TakeWhile: func(p func(any) bool, l any) any { return deriveTakeWhileI04x001a(func(x *NFloat) bool { return p(x) }, l.([]*NFloat)) },
		Union: func(a, b any) any { return deriveUnionI04x001a(a.([]*NFloat), b.([]*NFloat)) },
		Unique: func(l any) any { return deriveUniqueI04x001a(l.([]*NFloat)) },
	})
}
