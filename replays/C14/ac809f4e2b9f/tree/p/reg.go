package p

import (
	"reflect"
	"scratch/mon"
)

func init() {
	mon.RegType(&mon.TypeOps{ID: "I04x019a", T: reflect.TypeOf((*map[int]NFloat)(nil)).Elem(), Shape: "map[int]n(float32)", Tags: []string{"form:top", "origin:enum", "float", "map", "named-basic", "helper:any"},
		All: func(p func(any) bool, l any) bool { return deriveAllI04x019a(func(x map[int]NFloat) bool { return p(x) }, l.([]map[int]NFloat)) },
		Any: func(p func(any) bool, l any) bool { return deriveAnyI04x019a(func(x map[int]NFloat) bool { return p(x) }, l.([]map[int]NFloat)) },
		Contains: func(l, x any) bool { return deriveContainsI04x019a(l.([]map[int]NFloat), x.(map[int]NFloat)) },
		Equal: func(a, b any) bool { return deriveEqualI04x019a(a.(map[int]NFloat), b.(map[int]NFloat)) },
		Filter: func(p func(any) bool, l any) any { return deriveFilterI04x019a(func(x map[int]NFloat) bool { return p(x) }, l.([]map[int]NFloat)) },
		Intersect: func(a, b any) any { return deriveIntersectI04x019a(a.([]map[int]NFloat), b.([]map[int]NFloat)) },
		TakeWhile: func(p func(any) bool, l any) any { return deriveTakeWhileI04x019a(func(x map[int]NFloat) bool { return p(x) }, l.([]map[int]NFloat)) },
		Union: func(a, b any) any { return deriveUnionI04x019a(a.([]map[int]NFloat), b.([]map[int]NFloat)) },
		Unique: func(l any) any { return deriveUniqueI04x019a(l.([]map[int]NFloat)) },
	})
}
