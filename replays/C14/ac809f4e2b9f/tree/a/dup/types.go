package dup


type T struct {
	X int
	Y []string
}

