package ext


type Num int32

type Pub struct {
	I int
	S string
	P *float64
	L []uint16
	N Num
}

type Priv struct {
	A int
	b string
	c *int
	d []int64
	e map[string]bool
}

