package p

import (
	"reflect"
	"scratch/mon"
)

func init() {
	mon.RegType(&mon.TypeOps{ID: "I00x007a", T: reflect.TypeOf((*map[string]NFloat)(nil)).Elem(), Shape: "map[string]n(float32)", Tags: []string{"form:top", "origin:enum", "float", "map", "named-basic", "helper:any"},
		All: func(p func(any) bool, l any) bool { return deriveAllI00x007a(func(x map[string]NFloat) bool { return p(x) }, l.([]map[string]NFloat)) },
		Any: func(p func(any) bool, l any) bool { return deriveAnyI00x007a(func(x map[string]NFloat) bool { return p(x) }, l.([]map[string]NFloat)) },
		Contains: func(l, x any) bool { return deriveContainsI00x007a(l.([]map[string]NFloat), x.(map[string]NFloat)) },
		Equal: func(a, b any) bool { return deriveEqualI00x007a(a.(map[string]NFloat), b.(map[string]NFloat)) },
		Filter: func(p func(any) bool, l any) any { return deriveFilterI00x007a(func(x map[string]NFloat) bool { return p(x) }, l.([]map[string]NFloat)) },
		Intersect: func(a, b any) any { return deriveIntersectI00x007a(a.([]map[string]NFloat), b.([]map[string]NFloat)) },
		TakeWhile: func(p func(any) bool, l any) any { return deriveTakeWhileI00x007a(func(x map[string]NFloat) bool { return p(x) }, l.([]map[string]NFloat)) },
		Union: func(a, b any) any { return deriveUnionI00x007a(a.([]map[string]NFloat), b.([]map[string]NFloat)) },
		Unique: func(l any) any { return deriveUniqueI00x007a(l.([]map[string]NFloat)) },
	})
}
