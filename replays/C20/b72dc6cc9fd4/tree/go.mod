module scratch

go 1.24
