package main

import (
	"scratch/mon"
	_ "scratch/pa"
)

func main() { mon.Main() }
