package mon

import (
	"encoding/json"
	"flag"
	"fmt"
	"os"
	"reflect"
	"runtime/debug"
	"sort"
	"strings"
)

// TypeOps is the glue between one generated type item and the reflective monitors: closures
// around the derived functions goderive emitted for that type. Unused entries are nil.
type TypeOps struct {
	ID    string
	T     reflect.Type
	Shape string
	Tags  []string

	Equal          func(a, b any) bool
	EqualCurried   func(a any) func(any) bool
	Compare        func(a, b any) int
	CompareCurried func(a any) func(any) int
	Hash           func(a any) uint64
	DeepCopy       func(dst, src any) // top-level form: T is a pointer, slice or map type
	Clone          func(a any) any
	GoString       func(a any) string

	// list helpers; T is the ELEMENT type, lists are []T
	Sort      func(list any) any
	Min       func(list any, def any) any
	Max       func(list any, def any) any
	Min2      func(a, b any) any
	Max2      func(a, b any) any
	Contains  func(list any, item any) bool
	Unique    func(list any) any
	Set       func(list any) any // map[T]struct{}
	Union     func(a, b any) any
	Intersect func(a, b any) any
	UnionMap  func(a, b any) any
	InterMap  func(a, b any) any
	Filter    func(pred func(any) bool, list any) any
	TakeWhile func(pred func(any) bool, list any) any
	All       func(pred func(any) bool, list any) bool
	Any       func(pred func(any) bool, list any) bool
	// Keys: T is the MAP type
	Keys func(m any) any
}

// HasTag reports whether the item carries a feature tag.
func (o *TypeOps) HasTag(t string) bool {
	for _, x := range o.Tags {
		if x == t {
			return true
		}
	}
	return false
}

var typeItems []*TypeOps

// RegType registers a type item (called from init functions of the package under test).
func RegType(o *TypeOps) { typeItems = append(typeItems, o) }

// Viol is one refuting observation inside the harness.
type Viol struct {
	Class  string `json:"class"`
	Detail string `json:"detail"`
}

// ItemResult is the JSON line the harness prints per item.
type ItemResult struct {
	ID      string           `json:"id"`
	Prop    string           `json:"prop"`
	Shape   string           `json:"shape"`
	Evals   int64            `json:"evals"`
	Classes map[string]int64 `json:"classes"`
	Viols   []Viol           `json:"viols,omitempty"`
	NViol   int              `json:"nviol"`
	Skipped string           `json:"skipped,omitempty"`
	Extra   map[string]any   `json:"extra,omitempty"`
}

// Rep accumulates the observations on one item.
type Rep struct {
	Res ItemResult
}

func newRep(id, prop, shape string) *Rep {
	return &Rep{Res: ItemResult{ID: id, Prop: prop, Shape: shape, Classes: map[string]int64{}}}
}

// Ok counts one oracle evaluation of the given case class.
func (r *Rep) Ok(class string) { r.Res.Evals++; r.Res.Classes[class]++ }

// Fail records a violation (and counts the evaluation).
func (r *Rep) Fail(class, format string, a ...any) {
	r.Res.Evals++
	r.Res.Classes[class]++
	r.Res.NViol++
	if len(r.Res.Viols) < 6 {
		d := fmt.Sprintf(format, a...)
		if len(d) > 1200 {
			d = d[:1200] + "…"
		}
		r.Res.Viols = append(r.Res.Viols, Viol{Class: class, Detail: d})
	}
}

// Config of a harness run.
type Config struct {
	Prop     string
	Seed     int64
	PoolN    int
	MaxMut   int
	Only     map[string]bool
	Progress string
	Tier     string
}

var cfg Config

// try runs f and converts a panic into an error string.
func try(f func()) (panicked string) {
	defer func() {
		if e := recover(); e != nil {
			st := string(debug.Stack())
			// keep only frames of derived.gen.go for attribution
			var keep []string
			for _, ln := range strings.Split(st, "\n") {
				if strings.Contains(ln, "derived.gen.go") {
					keep = append(keep, strings.TrimSpace(ln))
				}
			}
			if len(keep) > 3 {
				keep = keep[:3]
			}
			panicked = fmt.Sprintf("panic: %v [%s]", e, strings.Join(keep, " | "))
		}
	}()
	f()
	return ""
}

// monitors maps a property id to the per-item monitor.
var monitors = map[string]func(o *TypeOps, c Config, r *Rep){}

// mains maps a property id to a whole-program monitor (functional / concurrent properties).
var mains = map[string]func(c Config, emit func(*Rep)){}

// Main is the entry point of every E-harness binary.
func Main() {
	prop := flag.String("prop", "", "property id")
	seed := flag.Int64("seed", 1, "seed")
	pooln := flag.Int("pool", 12, "values per pool")
	maxmut := flag.Int("mut", 16, "mutants per value")
	only := flag.String("only", "", "comma separated item ids")
	progress := flag.String("progress", "", "file receiving the id of the item being evaluated")
	tier := flag.String("tier", "quick", "tier")
	flag.Parse()
	cfg = Config{Prop: *prop, Seed: *seed, PoolN: *pooln, MaxMut: *maxmut, Progress: *progress, Tier: *tier}
	if *only != "" {
		cfg.Only = map[string]bool{}
		for _, s := range strings.Split(*only, ",") {
			cfg.Only[s] = true
		}
	}
	enc := json.NewEncoder(os.Stdout)
	emit := func(r *Rep) { enc.Encode(r.Res) }
	if m, ok := mains[cfg.Prop]; ok {
		m(cfg, emit)
		return
	}
	mon, ok := monitors[cfg.Prop]
	if !ok {
		fmt.Fprintf(os.Stderr, "mon: no monitor for property %q\n", cfg.Prop)
		os.Exit(3)
	}
	sort.SliceStable(typeItems, func(i, j int) bool { return typeItems[i].ID < typeItems[j].ID })
	for _, o := range typeItems {
		if cfg.Only != nil && !cfg.Only[o.ID] {
			continue
		}
		Progress(o.ID)
		r := newRep(o.ID, cfg.Prop, o.Shape)
		if p := try(func() { mon(o, cfg, r) }); p != "" {
			r.Fail("monitor-panic", "the monitor itself panicked on item %s: %s", o.ID, p)
		}
		emit(r)
	}
	Progress("")
}

// Progress writes the id of the item about to be evaluated, so that a process-fatal error
// (checkptr, stack overflow, fatal runtime error) is attributable.
func Progress(id string) {
	if cfg.Progress != "" {
		os.WriteFile(cfg.Progress, []byte(id), 0o644)
	}
}

// itemSeed derives a per-item seed that does not depend on the batch composition.
func itemSeed(seed int64, id string) int64 {
	h := uint64(seed)*0x9E3779B97F4A7C15 + 0x1234567
	for _, c := range []byte(id) {
		h = (h ^ uint64(c)) * 0x100000001b3
	}
	return int64(h >> 1)
}

// show renders a value for witnesses.
func show(v reflect.Value) string {
	s := Canon(v)
	if len(s) > 300 {
		s = s[:300] + "…"
	}
	return s
}
