package pa

import "scratch/mon"

type fn = func() (int, error)

func init() {
	mon.RegDo(&mon.DoComb{N: 2, Run: func(fs []fn) ([]int, error) {
		a, b, err := deriveDo2(fs[0], fs[1])
		return []int{a, b}, err
	}})
	mon.RegDo(&mon.DoComb{N: 3, Run: func(fs []fn) ([]int, error) {
		a, b, c, err := deriveDo3(fs[0], fs[1], fs[2])
		return []int{a, b, c}, err
	}})
	mon.RegDo(&mon.DoComb{N: 4, Run: func(fs []fn) ([]int, error) {
		a, b, c, d, err := deriveDo4(fs[0], fs[1], fs[2], fs[3])
		return []int{a, b, c, d}, err
	}})
}
