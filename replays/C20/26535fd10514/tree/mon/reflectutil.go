// Package mon is the monitor library compiled into every E-harness (the generated program that
// executes code emitted by goderive). It contains the independent reference models (structural
// equality, canonical encoding, reachability), value pools, mutators, call logs, history
// recorders and the per-property monitors that use them.
//
// Nothing in here knows how goderive generates code: the references are written from the
// property statements.
package mon

import (
	"reflect"
	"unsafe"
)

// clean returns v with the read-only flag (set when a value was reached through an unexported
// struct field) removed. v must be addressable.
func clean(v reflect.Value) reflect.Value {
	if v.CanSet() {
		return v
	}
	if v.CanAddr() {
		return reflect.NewAt(v.Type(), unsafe.Pointer(v.UnsafeAddr())).Elem()
	}
	return v
}

// addressable returns an addressable, settable copy holder for v (a copy if v is not addressable).
func addressable(v reflect.Value) reflect.Value {
	if v.CanAddr() {
		return clean(v)
	}
	c := reflect.New(v.Type()).Elem()
	if v.CanInterface() {
		c.Set(v)
		return c
	}
	// value reached through an unexported field and not addressable: should not happen because every
	// walk starts from an addressable root, but keep a safe path.
	c.Set(reflect.ValueOf(valueInterface(v)))
	return c
}

// valueInterface reads a read-only value.
func valueInterface(v reflect.Value) any {
	if v.CanInterface() {
		return v.Interface()
	}
	// copy through memory
	p := reflect.New(v.Type())
	switch v.Kind() {
	case reflect.Bool:
		p.Elem().SetBool(v.Bool())
	case reflect.Int, reflect.Int8, reflect.Int16, reflect.Int32, reflect.Int64:
		p.Elem().SetInt(v.Int())
	case reflect.Uint, reflect.Uint8, reflect.Uint16, reflect.Uint32, reflect.Uint64, reflect.Uintptr:
		p.Elem().SetUint(v.Uint())
	case reflect.Float32, reflect.Float64:
		p.Elem().SetFloat(v.Float())
	case reflect.Complex64, reflect.Complex128:
		p.Elem().SetComplex(v.Complex())
	case reflect.String:
		p.Elem().SetString(v.String())
	default:
		panic("mon: cannot read non-addressable read-only value of kind " + v.Kind().String())
	}
	return p.Elem().Interface()
}

// field returns the i-th field of the addressable struct value v, writable even if unexported.
func field(v reflect.Value, i int) reflect.Value { return clean(v.Field(i)) }

// root makes an addressable root value from an interface value.
func root(x any, t reflect.Type) reflect.Value {
	r := reflect.New(t).Elem()
	if x != nil {
		r.Set(reflect.ValueOf(x))
	}
	return r
}

// Root makes an addressable copy holder of v (shallow).
func Root(v reflect.Value) reflect.Value {
	r := reflect.New(v.Type()).Elem()
	r.Set(v)
	return r
}
