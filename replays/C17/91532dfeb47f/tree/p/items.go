package p

import (
	"errors"
	"fmt"
	"unicode/utf8"

	"scratch/mon"
)

var _ = errors.New
var _ = fmt.Sprint
var _ = utf8.ValidString

type NInt int64

type NStr string

type SV struct {
	A int
	B string
}

type SP struct {
	P *int
	L []string
}

type Arr [2]int

// ---- item M001 (fmap-slice/float64->map[string]int)

func implM001(a0 float64) map[string]int {
	mon.Log("M001", a0)
	return mon.Ret[map[string]int]("M001", 0, a0)
}

func init() {
	mon.RegFunc("M001", "fmap-slice/float64->map[string]int", []string{"kind:fmap-slice", "result:map[string]int"}, func(t *mon.FT) {
		for n := -1; n <= 9; n++ {
			var list []float64
			if n >= 0 {
				list = make([]float64, n, n+2)
			}
			for i := range list {
				list[i] = mon.Arg[float64](t, 0, i+n)
			}
			before := mon.CanonOf(list)
			cl := fmt.Sprintf("fmap-slice/len%d", n)
			t.Reset()
			out := deriveFmapM001(implM001, list)
			var exp []mon.Call
			for i := range list {
				exp = append(exp, mon.C("M001", list[i]))
			}
			t.Expect(cl, exp...)
			mon.Same(t, cl+"/len", len(out), len(list))
			t.Pause()
			for i := 0; i < len(out) && i < len(list); i++ {
				mon.Same(t, cl+"/element", out[i], implM001(list[i]))
			}
			t.Resume()
			mon.Same(t, cl+"/input-unmodified", mon.CanonOf(list), before)
		}
	})
}

// ---- item M002 (fmap-slice/NInt->Arr)

func implM002(a0 NInt) Arr {
	mon.Log("M002", a0)
	return mon.Ret[Arr]("M002", 0, a0)
}

func init() {
	mon.RegFunc("M002", "fmap-slice/NInt->Arr", []string{"kind:fmap-slice", "result:Arr"}, func(t *mon.FT) {
		for n := -1; n <= 9; n++ {
			var list []NInt
			if n >= 0 {
				list = make([]NInt, n, n+2)
			}
			for i := range list {
				list[i] = mon.Arg[NInt](t, 0, i+n)
			}
			before := mon.CanonOf(list)
			cl := fmt.Sprintf("fmap-slice/len%d", n)
			t.Reset()
			out := deriveFmapM002(implM002, list)
			var exp []mon.Call
			for i := range list {
				exp = append(exp, mon.C("M002", list[i]))
			}
			t.Expect(cl, exp...)
			mon.Same(t, cl+"/len", len(out), len(list))
			t.Pause()
			for i := 0; i < len(out) && i < len(list); i++ {
				mon.Same(t, cl+"/element", out[i], implM002(list[i]))
			}
			t.Resume()
			mon.Same(t, cl+"/input-unmodified", mon.CanonOf(list), before)
		}
	})
}

// ---- item M003 (fmap-slice/string->string)

func implM003(a0 string) string {
	mon.Log("M003", a0)
	return mon.Ret[string]("M003", 0, a0)
}

func init() {
	mon.RegFunc("M003", "fmap-slice/string->string", []string{"kind:fmap-slice", "result:string"}, func(t *mon.FT) {
		for n := -1; n <= 9; n++ {
			var list []string
			if n >= 0 {
				list = make([]string, n, n+2)
			}
			for i := range list {
				list[i] = mon.Arg[string](t, 0, i+n)
			}
			before := mon.CanonOf(list)
			cl := fmt.Sprintf("fmap-slice/len%d", n)
			t.Reset()
			out := deriveFmapM003(implM003, list)
			var exp []mon.Call
			for i := range list {
				exp = append(exp, mon.C("M003", list[i]))
			}
			t.Expect(cl, exp...)
			mon.Same(t, cl+"/len", len(out), len(list))
			t.Pause()
			for i := 0; i < len(out) && i < len(list); i++ {
				mon.Same(t, cl+"/element", out[i], implM003(list[i]))
			}
			t.Resume()
			mon.Same(t, cl+"/input-unmodified", mon.CanonOf(list), before)
		}
	})
}

// ---- item M004 (fmap-slice/SV->bool)

func implM004(a0 SV) bool {
	mon.Log("M004", a0)
	return mon.Ret[bool]("M004", 0, a0)
}

func init() {
	mon.RegFunc("M004", "fmap-slice/SV->bool", []string{"kind:fmap-slice", "result:bool"}, func(t *mon.FT) {
		for n := -1; n <= 9; n++ {
			var list []SV
			if n >= 0 {
				list = make([]SV, n, n+2)
			}
			for i := range list {
				list[i] = mon.Arg[SV](t, 0, i+n)
			}
			before := mon.CanonOf(list)
			cl := fmt.Sprintf("fmap-slice/len%d", n)
			t.Reset()
			out := deriveFmapM004(implM004, list)
			var exp []mon.Call
			for i := range list {
				exp = append(exp, mon.C("M004", list[i]))
			}
			t.Expect(cl, exp...)
			mon.Same(t, cl+"/len", len(out), len(list))
			t.Pause()
			for i := 0; i < len(out) && i < len(list); i++ {
				mon.Same(t, cl+"/element", out[i], implM004(list[i]))
			}
			t.Resume()
			mon.Same(t, cl+"/input-unmodified", mon.CanonOf(list), before)
		}
	})
}

// ---- item M005 (fmap-slice/SV->Arr)

func implM005(a0 SV) Arr {
	mon.Log("M005", a0)
	return mon.Ret[Arr]("M005", 0, a0)
}

func init() {
	mon.RegFunc("M005", "fmap-slice/SV->Arr", []string{"kind:fmap-slice", "result:Arr"}, func(t *mon.FT) {
		for n := -1; n <= 9; n++ {
			var list []SV
			if n >= 0 {
				list = make([]SV, n, n+2)
			}
			for i := range list {
				list[i] = mon.Arg[SV](t, 0, i+n)
			}
			before := mon.CanonOf(list)
			cl := fmt.Sprintf("fmap-slice/len%d", n)
			t.Reset()
			out := deriveFmapM005(implM005, list)
			var exp []mon.Call
			for i := range list {
				exp = append(exp, mon.C("M005", list[i]))
			}
			t.Expect(cl, exp...)
			mon.Same(t, cl+"/len", len(out), len(list))
			t.Pause()
			for i := 0; i < len(out) && i < len(list); i++ {
				mon.Same(t, cl+"/element", out[i], implM005(list[i]))
			}
			t.Resume()
			mon.Same(t, cl+"/input-unmodified", mon.CanonOf(list), before)
		}
	})
}

// ---- item M006 (fmap-slice/Arr->[]int)

func implM006(a0 Arr) []int {
	mon.Log("M006", a0)
	return mon.Ret[[]int]("M006", 0, a0)
}

func init() {
	mon.RegFunc("M006", "fmap-slice/Arr->[]int", []string{"kind:fmap-slice", "result:[]int"}, func(t *mon.FT) {
		for n := -1; n <= 9; n++ {
			var list []Arr
			if n >= 0 {
				list = make([]Arr, n, n+2)
			}
			for i := range list {
				list[i] = mon.Arg[Arr](t, 0, i+n)
			}
			before := mon.CanonOf(list)
			cl := fmt.Sprintf("fmap-slice/len%d", n)
			t.Reset()
			out := deriveFmapM006(implM006, list)
			var exp []mon.Call
			for i := range list {
				exp = append(exp, mon.C("M006", list[i]))
			}
			t.Expect(cl, exp...)
			mon.Same(t, cl+"/len", len(out), len(list))
			t.Pause()
			for i := 0; i < len(out) && i < len(list); i++ {
				mon.Same(t, cl+"/element", out[i], implM006(list[i]))
			}
			t.Resume()
			mon.Same(t, cl+"/input-unmodified", mon.CanonOf(list), before)
		}
	})
}

// ---- item M007 (fmap-slice/bool->map[string]int)

func implM007(a0 bool) map[string]int {
	mon.Log("M007", a0)
	return mon.Ret[map[string]int]("M007", 0, a0)
}

func init() {
	mon.RegFunc("M007", "fmap-slice/bool->map[string]int", []string{"kind:fmap-slice", "result:map[string]int"}, func(t *mon.FT) {
		for n := -1; n <= 9; n++ {
			var list []bool
			if n >= 0 {
				list = make([]bool, n, n+2)
			}
			for i := range list {
				list[i] = mon.Arg[bool](t, 0, i+n)
			}
			before := mon.CanonOf(list)
			cl := fmt.Sprintf("fmap-slice/len%d", n)
			t.Reset()
			out := deriveFmapM007(implM007, list)
			var exp []mon.Call
			for i := range list {
				exp = append(exp, mon.C("M007", list[i]))
			}
			t.Expect(cl, exp...)
			mon.Same(t, cl+"/len", len(out), len(list))
			t.Pause()
			for i := 0; i < len(out) && i < len(list); i++ {
				mon.Same(t, cl+"/element", out[i], implM007(list[i]))
			}
			t.Resume()
			mon.Same(t, cl+"/input-unmodified", mon.CanonOf(list), before)
		}
	})
}

// ---- item M008 (fmap-slice/SP->any)

func implM008(a0 SP) any {
	mon.Log("M008", a0)
	return mon.Ret[any]("M008", 0, a0)
}

func init() {
	mon.RegFunc("M008", "fmap-slice/SP->any", []string{"kind:fmap-slice", "result:any"}, func(t *mon.FT) {
		for n := -1; n <= 9; n++ {
			var list []SP
			if n >= 0 {
				list = make([]SP, n, n+2)
			}
			for i := range list {
				list[i] = mon.Arg[SP](t, 0, i+n)
			}
			before := mon.CanonOf(list)
			cl := fmt.Sprintf("fmap-slice/len%d", n)
			t.Reset()
			out := deriveFmapM008(implM008, list)
			var exp []mon.Call
			for i := range list {
				exp = append(exp, mon.C("M008", list[i]))
			}
			t.Expect(cl, exp...)
			mon.Same(t, cl+"/len", len(out), len(list))
			t.Pause()
			for i := 0; i < len(out) && i < len(list); i++ {
				mon.Same(t, cl+"/element", out[i], implM008(list[i]))
			}
			t.Resume()
			mon.Same(t, cl+"/input-unmodified", mon.CanonOf(list), before)
		}
	})
}

// ---- item M009 (fmap-slice/SP->string)

func implM009(a0 SP) string {
	mon.Log("M009", a0)
	return mon.Ret[string]("M009", 0, a0)
}

func init() {
	mon.RegFunc("M009", "fmap-slice/SP->string", []string{"kind:fmap-slice", "result:string"}, func(t *mon.FT) {
		for n := -1; n <= 9; n++ {
			var list []SP
			if n >= 0 {
				list = make([]SP, n, n+2)
			}
			for i := range list {
				list[i] = mon.Arg[SP](t, 0, i+n)
			}
			before := mon.CanonOf(list)
			cl := fmt.Sprintf("fmap-slice/len%d", n)
			t.Reset()
			out := deriveFmapM009(implM009, list)
			var exp []mon.Call
			for i := range list {
				exp = append(exp, mon.C("M009", list[i]))
			}
			t.Expect(cl, exp...)
			mon.Same(t, cl+"/len", len(out), len(list))
			t.Pause()
			for i := 0; i < len(out) && i < len(list); i++ {
				mon.Same(t, cl+"/element", out[i], implM009(list[i]))
			}
			t.Resume()
			mon.Same(t, cl+"/input-unmodified", mon.CanonOf(list), before)
		}
	})
}

// ---- item M010 (fmap-slice/any->Arr)

func implM010(a0 any) Arr {
	mon.Log("M010", a0)
	return mon.Ret[Arr]("M010", 0, a0)
}

func init() {
	mon.RegFunc("M010", "fmap-slice/any->Arr", []string{"kind:fmap-slice", "result:Arr"}, func(t *mon.FT) {
		for n := -1; n <= 9; n++ {
			var list []any
			if n >= 0 {
				list = make([]any, n, n+2)
			}
			for i := range list {
				list[i] = mon.Arg[any](t, 0, i+n)
			}
			before := mon.CanonOf(list)
			cl := fmt.Sprintf("fmap-slice/len%d", n)
			t.Reset()
			out := deriveFmapM010(implM010, list)
			var exp []mon.Call
			for i := range list {
				exp = append(exp, mon.C("M010", list[i]))
			}
			t.Expect(cl, exp...)
			mon.Same(t, cl+"/len", len(out), len(list))
			t.Pause()
			for i := 0; i < len(out) && i < len(list); i++ {
				mon.Same(t, cl+"/element", out[i], implM010(list[i]))
			}
			t.Resume()
			mon.Same(t, cl+"/input-unmodified", mon.CanonOf(list), before)
		}
	})
}

// ---- item M011 (fmap-slice/Arr->*SV)

func implM011(a0 Arr) *SV {
	mon.Log("M011", a0)
	return mon.Ret[*SV]("M011", 0, a0)
}

func init() {
	mon.RegFunc("M011", "fmap-slice/Arr->*SV", []string{"kind:fmap-slice", "result:*SV"}, func(t *mon.FT) {
		for n := -1; n <= 9; n++ {
			var list []Arr
			if n >= 0 {
				list = make([]Arr, n, n+2)
			}
			for i := range list {
				list[i] = mon.Arg[Arr](t, 0, i+n)
			}
			before := mon.CanonOf(list)
			cl := fmt.Sprintf("fmap-slice/len%d", n)
			t.Reset()
			out := deriveFmapM011(implM011, list)
			var exp []mon.Call
			for i := range list {
				exp = append(exp, mon.C("M011", list[i]))
			}
			t.Expect(cl, exp...)
			mon.Same(t, cl+"/len", len(out), len(list))
			t.Pause()
			for i := 0; i < len(out) && i < len(list); i++ {
				mon.Same(t, cl+"/element", out[i], implM011(list[i]))
			}
			t.Resume()
			mon.Same(t, cl+"/input-unmodified", mon.CanonOf(list), before)
		}
	})
}

// ---- item M012 (fmap-slice/NInt->any)

func implM012(a0 NInt) any {
	mon.Log("M012", a0)
	return mon.Ret[any]("M012", 0, a0)
}

func init() {
	mon.RegFunc("M012", "fmap-slice/NInt->any", []string{"kind:fmap-slice", "result:any"}, func(t *mon.FT) {
		for n := -1; n <= 9; n++ {
			var list []NInt
			if n >= 0 {
				list = make([]NInt, n, n+2)
			}
			for i := range list {
				list[i] = mon.Arg[NInt](t, 0, i+n)
			}
			before := mon.CanonOf(list)
			cl := fmt.Sprintf("fmap-slice/len%d", n)
			t.Reset()
			out := deriveFmapM012(implM012, list)
			var exp []mon.Call
			for i := range list {
				exp = append(exp, mon.C("M012", list[i]))
			}
			t.Expect(cl, exp...)
			mon.Same(t, cl+"/len", len(out), len(list))
			t.Pause()
			for i := 0; i < len(out) && i < len(list); i++ {
				mon.Same(t, cl+"/element", out[i], implM012(list[i]))
			}
			t.Resume()
			mon.Same(t, cl+"/input-unmodified", mon.CanonOf(list), before)
		}
	})
}

// ---- item M013 (fmap-slice/map[string]int->[]int)

func implM013(a0 map[string]int) []int {
	mon.Log("M013", a0)
	return mon.Ret[[]int]("M013", 0, a0)
}

func init() {
	mon.RegFunc("M013", "fmap-slice/map[string]int->[]int", []string{"kind:fmap-slice", "result:[]int"}, func(t *mon.FT) {
		for n := -1; n <= 9; n++ {
			var list []map[string]int
			if n >= 0 {
				list = make([]map[string]int, n, n+2)
			}
			for i := range list {
				list[i] = mon.Arg[map[string]int](t, 0, i+n)
			}
			before := mon.CanonOf(list)
			cl := fmt.Sprintf("fmap-slice/len%d", n)
			t.Reset()
			out := deriveFmapM013(implM013, list)
			var exp []mon.Call
			for i := range list {
				exp = append(exp, mon.C("M013", list[i]))
			}
			t.Expect(cl, exp...)
			mon.Same(t, cl+"/len", len(out), len(list))
			t.Pause()
			for i := 0; i < len(out) && i < len(list); i++ {
				mon.Same(t, cl+"/element", out[i], implM013(list[i]))
			}
			t.Resume()
			mon.Same(t, cl+"/input-unmodified", mon.CanonOf(list), before)
		}
	})
}

// ---- item M014 (fmap-string/rune->string)

func implM014(a0 rune) string {
	mon.Log("M014", a0)
	return mon.Ret[string]("M014", 0, a0)
}

func init() {
	mon.RegFunc("M014", "fmap-string/rune->string", []string{"kind:fmap-string", "result:string"}, func(t *mon.FT) {
		for _, s := range mon.Strs {
			runes := []rune(s)
			t.Reset()
			out := deriveFmapM014(implM014, s)
			cl := "fmap-string/ascii"
			if len(runes) != len(s) {
				cl = "fmap-string/multibyte"
			}
			if !utf8.ValidString(s) {
				cl = "fmap-string/invalid-utf8"
			}
			var exp []mon.Call
			for _, r := range runes {
				exp = append(exp, mon.C("M014", r))
			}
			t.Expect(cl, exp...)
			mon.Same(t, cl+"/len", len(out), len(runes))
			t.Pause()
			for i := 0; i < len(out) && i < len(runes); i++ {
				mon.Same(t, cl+"/element", out[i], implM014(runes[i]))
			}
			t.Resume()
		}
	})
}

// ---- item M015 (fmap-string/rune->float64)

func implM015(a0 rune) float64 {
	mon.Log("M015", a0)
	return mon.Ret[float64]("M015", 0, a0)
}

func init() {
	mon.RegFunc("M015", "fmap-string/rune->float64", []string{"kind:fmap-string", "result:float64"}, func(t *mon.FT) {
		for _, s := range mon.Strs {
			runes := []rune(s)
			t.Reset()
			out := deriveFmapM015(implM015, s)
			cl := "fmap-string/ascii"
			if len(runes) != len(s) {
				cl = "fmap-string/multibyte"
			}
			if !utf8.ValidString(s) {
				cl = "fmap-string/invalid-utf8"
			}
			var exp []mon.Call
			for _, r := range runes {
				exp = append(exp, mon.C("M015", r))
			}
			t.Expect(cl, exp...)
			mon.Same(t, cl+"/len", len(out), len(runes))
			t.Pause()
			for i := 0; i < len(out) && i < len(runes); i++ {
				mon.Same(t, cl+"/element", out[i], implM015(runes[i]))
			}
			t.Resume()
		}
	})
}

// ---- item M016 (fmap-string/rune->SV)

func implM016(a0 rune) SV {
	mon.Log("M016", a0)
	return mon.Ret[SV]("M016", 0, a0)
}

func init() {
	mon.RegFunc("M016", "fmap-string/rune->SV", []string{"kind:fmap-string", "result:SV"}, func(t *mon.FT) {
		for _, s := range mon.Strs {
			runes := []rune(s)
			t.Reset()
			out := deriveFmapM016(implM016, s)
			cl := "fmap-string/ascii"
			if len(runes) != len(s) {
				cl = "fmap-string/multibyte"
			}
			if !utf8.ValidString(s) {
				cl = "fmap-string/invalid-utf8"
			}
			var exp []mon.Call
			for _, r := range runes {
				exp = append(exp, mon.C("M016", r))
			}
			t.Expect(cl, exp...)
			mon.Same(t, cl+"/len", len(out), len(runes))
			t.Pause()
			for i := 0; i < len(out) && i < len(runes); i++ {
				mon.Same(t, cl+"/element", out[i], implM016(runes[i]))
			}
			t.Resume()
		}
	})
}

// ---- item M017 (fmap-string/rune->[]int)

func implM017(a0 rune) []int {
	mon.Log("M017", a0)
	return mon.Ret[[]int]("M017", 0, a0)
}

func init() {
	mon.RegFunc("M017", "fmap-string/rune->[]int", []string{"kind:fmap-string", "result:[]int"}, func(t *mon.FT) {
		for _, s := range mon.Strs {
			runes := []rune(s)
			t.Reset()
			out := deriveFmapM017(implM017, s)
			cl := "fmap-string/ascii"
			if len(runes) != len(s) {
				cl = "fmap-string/multibyte"
			}
			if !utf8.ValidString(s) {
				cl = "fmap-string/invalid-utf8"
			}
			var exp []mon.Call
			for _, r := range runes {
				exp = append(exp, mon.C("M017", r))
			}
			t.Expect(cl, exp...)
			mon.Same(t, cl+"/len", len(out), len(runes))
			t.Pause()
			for i := 0; i < len(out) && i < len(runes); i++ {
				mon.Same(t, cl+"/element", out[i], implM017(runes[i]))
			}
			t.Resume()
		}
	})
}

// ---- item M018 (fmap-string/rune->Arr)

func implM018(a0 rune) Arr {
	mon.Log("M018", a0)
	return mon.Ret[Arr]("M018", 0, a0)
}

func init() {
	mon.RegFunc("M018", "fmap-string/rune->Arr", []string{"kind:fmap-string", "result:Arr"}, func(t *mon.FT) {
		for _, s := range mon.Strs {
			runes := []rune(s)
			t.Reset()
			out := deriveFmapM018(implM018, s)
			cl := "fmap-string/ascii"
			if len(runes) != len(s) {
				cl = "fmap-string/multibyte"
			}
			if !utf8.ValidString(s) {
				cl = "fmap-string/invalid-utf8"
			}
			var exp []mon.Call
			for _, r := range runes {
				exp = append(exp, mon.C("M018", r))
			}
			t.Expect(cl, exp...)
			mon.Same(t, cl+"/len", len(out), len(runes))
			t.Pause()
			for i := 0; i < len(out) && i < len(runes); i++ {
				mon.Same(t, cl+"/element", out[i], implM018(runes[i]))
			}
			t.Resume()
		}
	})
}

// ---- item M019 (fmap-string/rune->SP)

func implM019(a0 rune) SP {
	mon.Log("M019", a0)
	return mon.Ret[SP]("M019", 0, a0)
}

func init() {
	mon.RegFunc("M019", "fmap-string/rune->SP", []string{"kind:fmap-string", "result:SP"}, func(t *mon.FT) {
		for _, s := range mon.Strs {
			runes := []rune(s)
			t.Reset()
			out := deriveFmapM019(implM019, s)
			cl := "fmap-string/ascii"
			if len(runes) != len(s) {
				cl = "fmap-string/multibyte"
			}
			if !utf8.ValidString(s) {
				cl = "fmap-string/invalid-utf8"
			}
			var exp []mon.Call
			for _, r := range runes {
				exp = append(exp, mon.C("M019", r))
			}
			t.Expect(cl, exp...)
			mon.Same(t, cl+"/len", len(out), len(runes))
			t.Pause()
			for i := 0; i < len(out) && i < len(runes); i++ {
				mon.Same(t, cl+"/element", out[i], implM019(runes[i]))
			}
			t.Resume()
		}
	})
}

// ---- item M020 (join-slice/int)

func init() {
	mon.RegFunc("M020", "join-slice/int", []string{"kind:join-slice"}, func(t *mon.FT) {
		for n := -1; n <= 5; n++ {
			for variant := 0; variant < 4; variant++ {
				var lol [][]int
				if n >= 0 {
					lol = make([][]int, n)
				}
				var want []int
				for i := range lol {
					m := (i*3 + variant*2 + n) % 4 // inner length 0..3, nil when variant says so
					if m == 0 && (variant+i)%2 == 0 {
						continue // nil inner list
					}
					lol[i] = make([]int, m, m+1)
					for j := range lol[i] {
						lol[i][j] = mon.Arg[int](t, i, j+variant)
					}
					want = append(want, lol[i]...)
				}
				before := mon.CanonOf(lol)
				cl := fmt.Sprintf("join-slice/outer%d", n)
				out := deriveJoinM020(lol)
				mon.Same(t, cl+"/len", len(out), len(want))
				for i := 0; i < len(out) && i < len(want); i++ {
					mon.Same(t, cl+"/element", out[i], want[i])
				}
				if lol == nil {
					if out != nil {
						t.Bad(cl+"/nil-for-nil", "join of a nil list of lists is not nil")
					} else {
						t.Ok(cl + "/nil-for-nil")
					}
				}
				mon.Same(t, cl+"/input-unmodified", mon.CanonOf(lol), before)
			}
		}
	})
}

