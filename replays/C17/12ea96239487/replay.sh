#!/bin/sh
# Replays one recorded case: exits non-zero if the violation reproduces.
set -u
HERE=$(cd "$(dirname "$0")" && pwd)
REPO=${VERIF_REPO:-/repo}
GR=$(cd "$REPO" && GOPROXY=off GOFLAGS= go env GOROOT)
export PATH=$GR/bin:$PATH GOTOOLCHAIN=local GOPROXY=off GOSUMDB=off
W=$(mktemp -d)
trap 'rm -rf "$W"' EXIT
(cd "$REPO" && GOFLAGS= go build -tags verif -o "$W/goderive" .) || exit 3
cp -r "$HERE/tree" "$W/m"
cd "$W/m"
export GOFLAGS=-mod=mod
"$W/goderive" ./p
echo "goderive exit=$?"
go build -race -o h ./cmd/h || { echo "harness does not compile"; exit 1; }
./h -prop C17 -only M014 -seed ${VERIF_SEED:-1} | tee out.jsonl
grep -q '"nviol":0' out.jsonl || exit 1
exit 0
