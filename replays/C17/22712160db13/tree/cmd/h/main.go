package main

import (
	"scratch/mon"
	_ "scratch/p"
)

func main() { mon.Main() }
