package p

import (
	b_dup "scratch/b/dup"
	ext "scratch/ext"
	"strings"
)

type NInt int64

type NStr string

type NFloat float32

type NBool bool

type NU8 uint8

type SV struct {
	A int
	B string
	C [2]bool
	D NInt
}

type SP struct {
	P *int
	S []string
	M map[string]int
	N NStr
	V SV
}

type SE struct {
	SV
	*SP
	X uint16
}

type SR struct {
	V int
	Next *SR
	Kids []SR
	M map[string]*SR
}

type SEq struct {
	A int
	L []int
	Q *string
}

type SCi struct {
	Word string
}

type NSlice []int

type NMap map[string]SV

type NArr [3]string

type NPtr *int

type W1 struct {
	Pre int
	F map[string][2]int
	Post string
}

type W2 struct {
	Pre int
	F map[string][]rune
	Post string
}

type W3 struct {
	Pre int
	F [2]map[NStr]int
	Post string
}

type W4 struct {
	Pre int
	F [][]uint8
	Post string
}

type W5 struct {
	Pre int
	F map[string]ext.Pub
	Post string
}

type W6 struct {
	Pre int
	F map[int]*bool
	Post string
}

type W7 struct {
	Pre int
	F *map[uint8]int
	Post string
}

type W8 struct {
	Pre int
	F *rune
	Post string
}

type W9 struct {
	Pre int
	F []map[float64]int
	Post string
}

type R10 struct {
	F0 float64
	F1 int16
	F2 ext.Priv
}

type R11 struct {
	F0 float32
	F1 *string
	f2 R10
	F3 [1]SP
}

type W12 struct {
	Pre int
	F R11
	Post string
}

type W13 struct {
	Pre int
	F map[string]int
	Post string
}

type W14 struct {
	Pre int
	F map[[2]bool]int
	Post string
}

type W15 struct {
	Pre int
	F map[uint8]SP
	Post string
}

type W16 struct {
	Pre int
	F []NFloat
	Post string
}

type W17 struct {
	Pre int
	F [2][]NFloat
	Post string
}

type W18 struct {
	Pre int
	F [2]string
	Post string
}

type W19 struct {
	Pre int
	F *int
	Post string
}

type W20 struct {
	Pre int
	F map[int][]NInt
	Post string
}

type R21 struct {
	F0 complex64
	f1 SP
	F2 int32
	f3 ext.Num
	F4 uintptr
	F5 uint8
}

type R22 struct {
	f0 uint8
	f1 string
	F2 NMap
	F3 b_dup.T
	F4 byte
}

type R23 struct {
	f0 int32
	F1 R21
	F2 *int64
	F3 rune
	F4 map[int]float32
	F5 R22
}

type W24 struct {
	Pre int
	F map[[2]int]R23
	Post string
}

type W25 struct {
	Pre int
	F map[NInt]string
	Post string
}

type W26 struct {
	Pre int
	F [2][2]float64
	Post string
}

type W27 struct {
	Pre int
	F map[string]map[NFloat]int
	Post string
}

func (this *SEq) Equal(that *SEq) bool { return deriveEqualMSEq(this, that) }

func (this *SCi) Equal(that *SCi) bool {
	if this == nil || that == nil {
		return this == nil && that == nil
	}
	return strings.EqualFold(this.Word, that.Word)
}

