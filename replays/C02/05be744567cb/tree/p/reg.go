package p

import (
	"reflect"
	ext "scratch/ext"
	"scratch/mon"
)

func init() {
	mon.RegType(&mon.TypeOps{ID: "I08x000", T: reflect.TypeOf((*map[string][2]int)(nil)).Elem(), Shape: "map[string][2]int", Tags: []string{"form:top", "origin:enum", "map"},
		Equal: func(a, b any) bool { return deriveEqualI08x000(a.(map[string][2]int), b.(map[string][2]int)) },
		EqualCurried: func(a any) func(any) bool { f := deriveEqualCI08x000(a.(map[string][2]int)); return func(b any) bool { return f(b.(map[string][2]int)) } },
	})
	mon.RegType(&mon.TypeOps{ID: "I08x001", T: reflect.TypeOf((**W1)(nil)).Elem(), Shape: "*nS3", Tags: []string{"form:field", "origin:enum", "map"},
		Equal: func(a, b any) bool { return deriveEqualI08x001(a.(*W1), b.(*W1)) },
		EqualCurried: func(a any) func(any) bool { f := deriveEqualCI08x001(a.(*W1)); return func(b any) bool { return f(b.(*W1)) } },
	})
	mon.RegType(&mon.TypeOps{ID: "I08x002", T: reflect.TypeOf((*map[string][]rune)(nil)).Elem(), Shape: "map[string][]rune", Tags: []string{"form:top", "origin:enum", "map"},
		Equal: func(a, b any) bool { return deriveEqualI08x002(a.(map[string][]rune), b.(map[string][]rune)) },
		EqualCurried: func(a any) func(any) bool { f := deriveEqualCI08x002(a.(map[string][]rune)); return func(b any) bool { return f(b.(map[string][]rune)) } },
	})
	mon.RegType(&mon.TypeOps{ID: "I08x003", T: reflect.TypeOf((**W2)(nil)).Elem(), Shape: "*nS3", Tags: []string{"form:field", "origin:enum", "map"},
		Equal: func(a, b any) bool { return deriveEqualI08x003(a.(*W2), b.(*W2)) },
		EqualCurried: func(a any) func(any) bool { f := deriveEqualCI08x003(a.(*W2)); return func(b any) bool { return f(b.(*W2)) } },
	})
	mon.RegType(&mon.TypeOps{ID: "I08x004", T: reflect.TypeOf((*[2]map[NStr]int)(nil)).Elem(), Shape: "[2]map[n(string)]int", Tags: []string{"form:top", "origin:enum", "map", "named-basic"},
		Equal: func(a, b any) bool { return deriveEqualI08x004(a.([2]map[NStr]int), b.([2]map[NStr]int)) },
		EqualCurried: func(a any) func(any) bool { f := deriveEqualCI08x004(a.([2]map[NStr]int)); return func(b any) bool { return f(b.([2]map[NStr]int)) } },
	})
	mon.RegType(&mon.TypeOps{ID: "I08x005", T: reflect.TypeOf((**W3)(nil)).Elem(), Shape: "*nS3", Tags: []string{"form:field", "origin:enum", "map", "named-basic"},
		Equal: func(a, b any) bool { return deriveEqualI08x005(a.(*W3), b.(*W3)) },
		EqualCurried: func(a any) func(any) bool { f := deriveEqualCI08x005(a.(*W3)); return func(b any) bool { return f(b.(*W3)) } },
	})
	mon.RegType(&mon.TypeOps{ID: "I08x006", T: reflect.TypeOf((*[][]uint8)(nil)).Elem(), Shape: "[][]uint8", Tags: []string{"form:top", "origin:enum", "bytes"},
		Equal: func(a, b any) bool { return deriveEqualI08x006(a.([][]uint8), b.([][]uint8)) },
		EqualCurried: func(a any) func(any) bool { f := deriveEqualCI08x006(a.([][]uint8)); return func(b any) bool { return f(b.([][]uint8)) } },
	})
	mon.RegType(&mon.TypeOps{ID: "I08x007", T: reflect.TypeOf((**W4)(nil)).Elem(), Shape: "*nS3", Tags: []string{"form:field", "origin:enum", "bytes"},
		Equal: func(a, b any) bool { return deriveEqualI08x007(a.(*W4), b.(*W4)) },
		EqualCurried: func(a any) func(any) bool { f := deriveEqualCI08x007(a.(*W4)); return func(b any) bool { return f(b.(*W4)) } },
	})
	mon.RegType(&mon.TypeOps{ID: "I08x008", T: reflect.TypeOf((*map[string]ext.Pub)(nil)).Elem(), Shape: "map[string]xS5", Tags: []string{"form:top", "origin:enum", "float", "imported", "map", "named-basic"},
		Equal: func(a, b any) bool { return deriveEqualI08x008(a.(map[string]ext.Pub), b.(map[string]ext.Pub)) },
		EqualCurried: func(a any) func(any) bool { f := deriveEqualCI08x008(a.(map[string]ext.Pub)); return func(b any) bool { return f(b.(map[string]ext.Pub)) } },
	})
	mon.RegType(&mon.TypeOps{ID: "I08x009", T: reflect.TypeOf((**W5)(nil)).Elem(), Shape: "*nS3", Tags: []string{"form:field", "origin:enum", "float", "imported", "map", "named-basic"},
		Equal: func(a, b any) bool { return deriveEqualI08x009(a.(*W5), b.(*W5)) },
		EqualCurried: func(a any) func(any) bool { f := deriveEqualCI08x009(a.(*W5)); return func(b any) bool { return f(b.(*W5)) } },
	})
	mon.RegType(&mon.TypeOps{ID: "I08x010", T: reflect.TypeOf((*map[int]*bool)(nil)).Elem(), Shape: "map[int]*bool", Tags: []string{"form:top", "origin:enum", "map"},
		Equal: func(a, b any) bool { return deriveEqualI08x010(a.(map[int]*bool), b.(map[int]*bool)) },
		EqualCurried: func(a any) func(any) bool { f := deriveEqualCI08x010(a.(map[int]*bool)); return func(b any) bool { return f(b.(map[int]*bool)) } },
	})
	mon.RegType(&mon.TypeOps{ID: "I08x011", T: reflect.TypeOf((**W6)(nil)).Elem(), Shape: "*nS3", Tags: []string{"form:field", "origin:enum", "map"},
		Equal: func(a, b any) bool { return deriveEqualI08x011(a.(*W6), b.(*W6)) },
		EqualCurried: func(a any) func(any) bool { f := deriveEqualCI08x011(a.(*W6)); return func(b any) bool { return f(b.(*W6)) } },
	})
	mon.RegType(&mon.TypeOps{ID: "I08x012", T: reflect.TypeOf((**map[uint8]int)(nil)).Elem(), Shape: "*map[uint8]int", Tags: []string{"form:top", "origin:enum", "map"},
		Equal: func(a, b any) bool { return deriveEqualI08x012(a.(*map[uint8]int), b.(*map[uint8]int)) },
		EqualCurried: func(a any) func(any) bool { f := deriveEqualCI08x012(a.(*map[uint8]int)); return func(b any) bool { return f(b.(*map[uint8]int)) } },
	})
	mon.RegType(&mon.TypeOps{ID: "I08x013", T: reflect.TypeOf((**W7)(nil)).Elem(), Shape: "*nS3", Tags: []string{"form:field", "origin:enum", "map"},
		Equal: func(a, b any) bool { return deriveEqualI08x013(a.(*W7), b.(*W7)) },
		EqualCurried: func(a any) func(any) bool { f := deriveEqualCI08x013(a.(*W7)); return func(b any) bool { return f(b.(*W7)) } },
	})
	mon.RegType(&mon.TypeOps{ID: "I08x014", T: reflect.TypeOf((**rune)(nil)).Elem(), Shape: "*rune", Tags: []string{"form:top", "origin:enum"},
		Equal: func(a, b any) bool { return deriveEqualI08x014(a.(*rune), b.(*rune)) },
		EqualCurried: func(a any) func(any) bool { f := deriveEqualCI08x014(a.(*rune)); return func(b any) bool { return f(b.(*rune)) } },
	})
	mon.RegType(&mon.TypeOps{ID: "I08x015", T: reflect.TypeOf((**W8)(nil)).Elem(), Shape: "*nS3", Tags: []string{"form:field", "origin:enum"},
		Equal: func(a, b any) bool { return deriveEqualI08x015(a.(*W8), b.(*W8)) },
		EqualCurried: func(a any) func(any) bool { f := deriveEqualCI08x015(a.(*W8)); return func(b any) bool { return f(b.(*W8)) } },
	})
	mon.RegType(&mon.TypeOps{ID: "I08x016", T: reflect.TypeOf((*[]map[float64]int)(nil)).Elem(), Shape: "[]map[float64]int", Tags: []string{"form:top", "origin:enum", "float", "map"},
		Equal: func(a, b any) bool { return deriveEqualI08x016(a.([]map[float64]int), b.([]map[float64]int)) },
		EqualCurried: func(a any) func(any) bool { f := deriveEqualCI08x016(a.([]map[float64]int)); return func(b any) bool { return f(b.([]map[float64]int)) } },
	})
	mon.RegType(&mon.TypeOps{ID: "I08x017", T: reflect.TypeOf((**W9)(nil)).Elem(), Shape: "*nS3", Tags: []string{"form:field", "origin:enum", "float", "map"},
		Equal: func(a, b any) bool { return deriveEqualI08x017(a.(*W9), b.(*W9)) },
		EqualCurried: func(a any) func(any) bool { f := deriveEqualCI08x017(a.(*W9)); return func(b any) bool { return f(b.(*W9)) } },
	})
	mon.RegType(&mon.TypeOps{ID: "I08x018", T: reflect.TypeOf((*R11)(nil)).Elem(), Shape: "nS4", Tags: []string{"form:top", "origin:random", "float", "imported", "imported-unexported", "map", "named-basic"},
		Equal: func(a, b any) bool { return deriveEqualI08x018(a.(R11), b.(R11)) },
		EqualCurried: func(a any) func(any) bool { f := deriveEqualCI08x018(a.(R11)); return func(b any) bool { return f(b.(R11)) } },
	})
	mon.RegType(&mon.TypeOps{ID: "I08x019", T: reflect.TypeOf((**W12)(nil)).Elem(), Shape: "*nS3", Tags: []string{"form:field", "origin:random", "float", "imported", "imported-unexported", "map", "named-basic"},
		Equal: func(a, b any) bool { return deriveEqualI08x019(a.(*W12), b.(*W12)) },
		EqualCurried: func(a any) func(any) bool { f := deriveEqualCI08x019(a.(*W12)); return func(b any) bool { return f(b.(*W12)) } },
	})
	mon.RegType(&mon.TypeOps{ID: "I08x020", T: reflect.TypeOf((*map[string]int)(nil)).Elem(), Shape: "map[string]int", Tags: []string{"form:top", "origin:enum", "map"},
		Equal: func(a, b any) bool { return deriveEqualI08x020(a.(map[string]int), b.(map[string]int)) },
		EqualCurried: func(a any) func(any) bool { f := deriveEqualCI08x020(a.(map[string]int)); return func(b any) bool { return f(b.(map[string]int)) } },
	})
	mon.RegType(&mon.TypeOps{ID: "I08x021", T: reflect.TypeOf((**W13)(nil)).Elem(), Shape: "*nS3", Tags: []string{"form:field", "origin:enum", "map"},
		Equal: func(a, b any) bool { return deriveEqualI08x021(a.(*W13), b.(*W13)) },
		EqualCurried: func(a any) func(any) bool { f := deriveEqualCI08x021(a.(*W13)); return func(b any) bool { return f(b.(*W13)) } },
	})
	mon.RegType(&mon.TypeOps{ID: "I08x022", T: reflect.TypeOf((*map[[2]bool]int)(nil)).Elem(), Shape: "map[[2]bool]int", Tags: []string{"form:top", "origin:enum", "map"},
		Equal: func(a, b any) bool { return deriveEqualI08x022(a.(map[[2]bool]int), b.(map[[2]bool]int)) },
		EqualCurried: func(a any) func(any) bool { f := deriveEqualCI08x022(a.(map[[2]bool]int)); return func(b any) bool { return f(b.(map[[2]bool]int)) } },
	})
	mon.RegType(&mon.TypeOps{ID: "I08x023", T: reflect.TypeOf((**W14)(nil)).Elem(), Shape: "*nS3", Tags: []string{"form:field", "origin:enum", "map"},
		Equal: func(a, b any) bool { return deriveEqualI08x023(a.(*W14), b.(*W14)) },
		EqualCurried: func(a any) func(any) bool { f := deriveEqualCI08x023(a.(*W14)); return func(b any) bool { return f(b.(*W14)) } },
	})
	mon.RegType(&mon.TypeOps{ID: "I08x024", T: reflect.TypeOf((*map[uint8]SP)(nil)).Elem(), Shape: "map[uint8]nS5", Tags: []string{"form:top", "origin:enum", "map", "named-basic"},
		Equal: func(a, b any) bool { return deriveEqualI08x024(a.(map[uint8]SP), b.(map[uint8]SP)) },
		EqualCurried: func(a any) func(any) bool { f := deriveEqualCI08x024(a.(map[uint8]SP)); return func(b any) bool { return f(b.(map[uint8]SP)) } },
	})
	mon.RegType(&mon.TypeOps{ID: "I08x025", T: reflect.TypeOf((**W15)(nil)).Elem(), Shape: "*nS3", Tags: []string{"form:field", "origin:enum", "map", "named-basic"},
		Equal: func(a, b any) bool { return deriveEqualI08x025(a.(*W15), b.(*W15)) },
		EqualCurried: func(a any) func(any) bool { f := deriveEqualCI08x025(a.(*W15)); return func(b any) bool { return f(b.(*W15)) } },
	})
	mon.RegType(&mon.TypeOps{ID: "I08x026", T: reflect.TypeOf((*[]NFloat)(nil)).Elem(), Shape: "[]n(float32)", Tags: []string{"form:top", "origin:enum", "float", "named-basic"},
		Equal: func(a, b any) bool { return deriveEqualI08x026(a.([]NFloat), b.([]NFloat)) },
		EqualCurried: func(a any) func(any) bool { f := deriveEqualCI08x026(a.([]NFloat)); return func(b any) bool { return f(b.([]NFloat)) } },
	})
	mon.RegType(&mon.TypeOps{ID: "I08x027", T: reflect.TypeOf((**W16)(nil)).Elem(), Shape: "*nS3", Tags: []string{"form:field", "origin:enum", "float", "named-basic"},
		Equal: func(a, b any) bool { return deriveEqualI08x027(a.(*W16), b.(*W16)) },
		EqualCurried: func(a any) func(any) bool { f := deriveEqualCI08x027(a.(*W16)); return func(b any) bool { return f(b.(*W16)) } },
	})
	mon.RegType(&mon.TypeOps{ID: "I08x028", T: reflect.TypeOf((*[2][]NFloat)(nil)).Elem(), Shape: "[2][]n(float32)", Tags: []string{"form:top", "origin:enum", "float", "named-basic"},
		Equal: func(a, b any) bool { return deriveEqualI08x028(a.([2][]NFloat), b.([2][]NFloat)) },
		EqualCurried: func(a any) func(any) bool { f := deriveEqualCI08x028(a.([2][]NFloat)); return func(b any) bool { return f(b.([2][]NFloat)) } },
	})
	mon.RegType(&mon.TypeOps{ID: "I08x029", T: reflect.TypeOf((**W17)(nil)).Elem(), Shape: "*nS3", Tags: []string{"form:field", "origin:enum", "float", "named-basic"},
		Equal: func(a, b any) bool { return deriveEqualI08x029(a.(*W17), b.(*W17)) },
		EqualCurried: func(a any) func(any) bool { f := deriveEqualCI08x029(a.(*W17)); return func(b any) bool { return f(b.(*W17)) } },
	})
	mon.RegType(&mon.TypeOps{ID: "I08x030", T: reflect.TypeOf((*[2]string)(nil)).Elem(), Shape: "[2]string", Tags: []string{"form:top", "origin:enum"},
		Equal: func(a, b any) bool { return deriveEqualI08x030(a.([2]string), b.([2]string)) },
		EqualCurried: func(a any) func(any) bool { f := deriveEqualCI08x030(a.([2]string)); return func(b any) bool { return f(b.([2]string)) } },
	})
	mon.RegType(&mon.TypeOps{ID: "I08x031", T: reflect.TypeOf((**W18)(nil)).Elem(), Shape: "*nS3", Tags: []string{"form:field", "origin:enum"},
		Equal: func(a, b any) bool { return deriveEqualI08x031(a.(*W18), b.(*W18)) },
		EqualCurried: func(a any) func(any) bool { f := deriveEqualCI08x031(a.(*W18)); return func(b any) bool { return f(b.(*W18)) } },
	})
	mon.RegType(&mon.TypeOps{ID: "I08x032", T: reflect.TypeOf((**int)(nil)).Elem(), Shape: "*int", Tags: []string{"form:top", "origin:enum"},
		Equal: func(a, b any) bool { return deriveEqualI08x032(a.(*int), b.(*int)) },
		EqualCurried: func(a any) func(any) bool { f := deriveEqualCI08x032(a.(*int)); return func(b any) bool { return f(b.(*int)) } },
	})
	mon.RegType(&mon.TypeOps{ID: "I08x033", T: reflect.TypeOf((**W19)(nil)).Elem(), Shape: "*nS3", Tags: []string{"form:field", "origin:enum"},
		Equal: func(a, b any) bool { return deriveEqualI08x033(a.(*W19), b.(*W19)) },
		EqualCurried: func(a any) func(any) bool { f := deriveEqualCI08x033(a.(*W19)); return func(b any) bool { return f(b.(*W19)) } },
	})
	mon.RegType(&mon.TypeOps{ID: "I08x034", T: reflect.TypeOf((*map[int][]NInt)(nil)).Elem(), Shape: "map[int][]n(int64)", Tags: []string{"form:top", "origin:enum", "map", "named-basic"},
		Equal: func(a, b any) bool { return deriveEqualI08x034(a.(map[int][]NInt), b.(map[int][]NInt)) },
		EqualCurried: func(a any) func(any) bool { f := deriveEqualCI08x034(a.(map[int][]NInt)); return func(b any) bool { return f(b.(map[int][]NInt)) } },
	})
	mon.RegType(&mon.TypeOps{ID: "I08x035", T: reflect.TypeOf((**W20)(nil)).Elem(), Shape: "*nS3", Tags: []string{"form:field", "origin:enum", "map", "named-basic"},
		Equal: func(a, b any) bool { return deriveEqualI08x035(a.(*W20), b.(*W20)) },
		EqualCurried: func(a any) func(any) bool { f := deriveEqualCI08x035(a.(*W20)); return func(b any) bool { return f(b.(*W20)) } },
	})
	mon.RegType(&mon.TypeOps{ID: "I08x036", T: reflect.TypeOf((*map[[2]int]R23)(nil)).Elem(), Shape: "map[[2]int]nS6", Tags: []string{"form:top", "origin:random", "float", "imported", "map", "named-basic", "named-map"},
		Equal: func(a, b any) bool { return deriveEqualI08x036(a.(map[[2]int]R23), b.(map[[2]int]R23)) },
		EqualCurried: func(a any) func(any) bool { f := deriveEqualCI08x036(a.(map[[2]int]R23)); return func(b any) bool { return f(b.(map[[2]int]R23)) } },
	})
	mon.RegType(&mon.TypeOps{ID: "I08x037", T: reflect.TypeOf((**W24)(nil)).Elem(), Shape: "*nS3", Tags: []string{"form:field", "origin:random", "float", "imported", "map", "named-basic", "named-map"},
		Equal: func(a, b any) bool { return deriveEqualI08x037(a.(*W24), b.(*W24)) },
		EqualCurried: func(a any) func(any) bool { f := deriveEqualCI08x037(a.(*W24)); return func(b any) bool { return f(b.(*W24)) } },
	})
	mon.RegType(&mon.TypeOps{ID: "I08x038", T: reflect.TypeOf((*map[NInt]string)(nil)).Elem(), Shape: "map[n(int64)]string", Tags: []string{"form:top", "origin:enum", "map", "named-basic"},
		Equal: func(a, b any) bool { return deriveEqualI08x038(a.(map[NInt]string), b.(map[NInt]string)) },
		EqualCurried: func(a any) func(any) bool { f := deriveEqualCI08x038(a.(map[NInt]string)); return func(b any) bool { return f(b.(map[NInt]string)) } },
	})
	mon.RegType(&mon.TypeOps{ID: "I08x039", T: reflect.TypeOf((**W25)(nil)).Elem(), Shape: "*nS3", Tags: []string{"form:field", "origin:enum", "map", "named-basic"},
		Equal: func(a, b any) bool { return deriveEqualI08x039(a.(*W25), b.(*W25)) },
		EqualCurried: func(a any) func(any) bool { f := deriveEqualCI08x039(a.(*W25)); return func(b any) bool { return f(b.(*W25)) } },
	})
	mon.RegType(&mon.TypeOps{ID: "I08x040", T: reflect.TypeOf((*[2][2]float64)(nil)).Elem(), Shape: "[2][2]float64", Tags: []string{"form:top", "origin:enum", "float"},
		Equal: func(a, b any) bool { return deriveEqualI08x040(a.([2][2]float64), b.([2][2]float64)) },
		EqualCurried: func(a any) func(any) bool { f := deriveEqualCI08x040(a.([2][2]float64)); return func(b any) bool { return f(b.([2][2]float64)) } },
	})
	mon.RegType(&mon.TypeOps{ID: "I08x041", T: reflect.TypeOf((**W26)(nil)).Elem(), Shape: "*nS3", Tags: []string{"form:field", "origin:enum", "float"},
		Equal: func(a, b any) bool { return deriveEqualI08x041(a.(*W26), b.(*W26)) },
		EqualCurried: func(a any) func(any) bool { f := deriveEqualCI08x041(a.(*W26)); return func(b any) bool { return f(b.(*W26)) } },
	})
	mon.RegType(&mon.TypeOps{ID: "I08x042", T: reflect.TypeOf((*map[string]map[NFloat]int)(nil)).Elem(), Shape: "map[string]map[n(float32)]int", Tags: []string{"form:top", "origin:enum", "float", "map", "named-basic"},
		Equal: func(a, b any) bool { return deriveEqualI08x042(a.(map[string]map[NFloat]int), b.(map[string]map[NFloat]int)) },
		EqualCurried: func(a any) func(any) bool { f := deriveEqualCI08x042(a.(map[string]map[NFloat]int)); return func(b any) bool { return f(b.(map[string]map[NFloat]int)) } },
	})
	mon.RegType(&mon.TypeOps{ID: "I08x043", T: reflect.TypeOf((**W27)(nil)).Elem(), Shape: "*nS3", Tags: []string{"form:field", "origin:enum", "float", "map", "named-basic"},
		Equal: func(a, b any) bool { return deriveEqualI08x043(a.(*W27), b.(*W27)) },
		EqualCurried: func(a any) func(any) bool { f := deriveEqualCI08x043(a.(*W27)); return func(b any) bool { return f(b.(*W27)) } },
	})
}
