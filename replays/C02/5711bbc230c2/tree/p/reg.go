package p

import (
	"reflect"
	"scratch/mon"
)

func init() {
	mon.RegType(&mon.TypeOps{ID: "I09x020", T: reflect.TypeOf((***SV)(nil)).Elem(), Shape: "**nS4", Tags: []string{"form:top", "origin:enum", "named-basic"},
		Equal: func(a, b any) bool { return deriveEqualI09x020(a.(**SV), b.(**SV)) },
		EqualCurried: func(a any) func(any) bool { f := deriveEqualCI09x020(a.(**SV)); return func(b any) bool { return f(b.(**SV)) } },
	})
}
