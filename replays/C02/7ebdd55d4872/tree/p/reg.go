package p

import (
	"reflect"
	ext "scratch/ext"
	"scratch/mon"
)

func init() {
	mon.RegType(&mon.TypeOps{ID: "I01x000", T: reflect.TypeOf((**SP)(nil)).Elem(), Shape: "*nS5", Tags: []string{"form:top", "origin:enum", "map", "named-basic"},
		Equal: func(a, b any) bool { return deriveEqualI01x000(a.(*SP), b.(*SP)) },
		EqualCurried: func(a any) func(any) bool { f := deriveEqualCI01x000(a.(*SP)); return func(b any) bool { return f(b.(*SP)) } },
	})
	mon.RegType(&mon.TypeOps{ID: "I01x001", T: reflect.TypeOf((**W1)(nil)).Elem(), Shape: "*nS3", Tags: []string{"form:field", "origin:enum", "map", "named-basic"},
		Equal: func(a, b any) bool { return deriveEqualI01x001(a.(*W1), b.(*W1)) },
		EqualCurried: func(a any) func(any) bool { f := deriveEqualCI01x001(a.(*W1)); return func(b any) bool { return f(b.(*W1)) } },
	})
	mon.RegType(&mon.TypeOps{ID: "I01x002", T: reflect.TypeOf((*map[NStr]SP)(nil)).Elem(), Shape: "map[n(string)]nS5", Tags: []string{"form:top", "origin:enum", "map", "named-basic"},
		Equal: func(a, b any) bool { return deriveEqualI01x002(a.(map[NStr]SP), b.(map[NStr]SP)) },
		EqualCurried: func(a any) func(any) bool { f := deriveEqualCI01x002(a.(map[NStr]SP)); return func(b any) bool { return f(b.(map[NStr]SP)) } },
	})
	mon.RegType(&mon.TypeOps{ID: "I01x003", T: reflect.TypeOf((**W2)(nil)).Elem(), Shape: "*nS3", Tags: []string{"form:field", "origin:enum", "map", "named-basic"},
		Equal: func(a, b any) bool { return deriveEqualI01x003(a.(*W2), b.(*W2)) },
		EqualCurried: func(a any) func(any) bool { f := deriveEqualCI01x003(a.(*W2)); return func(b any) bool { return f(b.(*W2)) } },
	})
	mon.RegType(&mon.TypeOps{ID: "I01x004", T: reflect.TypeOf((*[2][]NStr)(nil)).Elem(), Shape: "[2][]n(string)", Tags: []string{"form:top", "origin:enum", "named-basic"},
		Equal: func(a, b any) bool { return deriveEqualI01x004(a.([2][]NStr), b.([2][]NStr)) },
		EqualCurried: func(a any) func(any) bool { f := deriveEqualCI01x004(a.([2][]NStr)); return func(b any) bool { return f(b.([2][]NStr)) } },
	})
	mon.RegType(&mon.TypeOps{ID: "I01x005", T: reflect.TypeOf((**W3)(nil)).Elem(), Shape: "*nS3", Tags: []string{"form:field", "origin:enum", "named-basic"},
		Equal: func(a, b any) bool { return deriveEqualI01x005(a.(*W3), b.(*W3)) },
		EqualCurried: func(a any) func(any) bool { f := deriveEqualCI01x005(a.(*W3)); return func(b any) bool { return f(b.(*W3)) } },
	})
	mon.RegType(&mon.TypeOps{ID: "I01x006", T: reflect.TypeOf((*map[string][]bool)(nil)).Elem(), Shape: "map[string][]bool", Tags: []string{"form:top", "origin:enum", "map"},
		Equal: func(a, b any) bool { return deriveEqualI01x006(a.(map[string][]bool), b.(map[string][]bool)) },
		EqualCurried: func(a any) func(any) bool { f := deriveEqualCI01x006(a.(map[string][]bool)); return func(b any) bool { return f(b.(map[string][]bool)) } },
	})
	mon.RegType(&mon.TypeOps{ID: "I01x007", T: reflect.TypeOf((**W4)(nil)).Elem(), Shape: "*nS3", Tags: []string{"form:field", "origin:enum", "map"},
		Equal: func(a, b any) bool { return deriveEqualI01x007(a.(*W4), b.(*W4)) },
		EqualCurried: func(a any) func(any) bool { f := deriveEqualCI01x007(a.(*W4)); return func(b any) bool { return f(b.(*W4)) } },
	})
	mon.RegType(&mon.TypeOps{ID: "I01x008", T: reflect.TypeOf((*map[string]uint8)(nil)).Elem(), Shape: "map[string]uint8", Tags: []string{"form:top", "origin:enum", "map"},
		Equal: func(a, b any) bool { return deriveEqualI01x008(a.(map[string]uint8), b.(map[string]uint8)) },
		EqualCurried: func(a any) func(any) bool { f := deriveEqualCI01x008(a.(map[string]uint8)); return func(b any) bool { return f(b.(map[string]uint8)) } },
	})
	mon.RegType(&mon.TypeOps{ID: "I01x009", T: reflect.TypeOf((**W5)(nil)).Elem(), Shape: "*nS3", Tags: []string{"form:field", "origin:enum", "map"},
		Equal: func(a, b any) bool { return deriveEqualI01x009(a.(*W5), b.(*W5)) },
		EqualCurried: func(a any) func(any) bool { f := deriveEqualCI01x009(a.(*W5)); return func(b any) bool { return f(b.(*W5)) } },
	})
	mon.RegType(&mon.TypeOps{ID: "I01x010", T: reflect.TypeOf((*map[string]bool)(nil)).Elem(), Shape: "map[string]bool", Tags: []string{"form:top", "origin:enum", "map"},
		Equal: func(a, b any) bool { return deriveEqualI01x010(a.(map[string]bool), b.(map[string]bool)) },
		EqualCurried: func(a any) func(any) bool { f := deriveEqualCI01x010(a.(map[string]bool)); return func(b any) bool { return f(b.(map[string]bool)) } },
	})
	mon.RegType(&mon.TypeOps{ID: "I01x011", T: reflect.TypeOf((**W6)(nil)).Elem(), Shape: "*nS3", Tags: []string{"form:field", "origin:enum", "map"},
		Equal: func(a, b any) bool { return deriveEqualI01x011(a.(*W6), b.(*W6)) },
		EqualCurried: func(a any) func(any) bool { f := deriveEqualCI01x011(a.(*W6)); return func(b any) bool { return f(b.(*W6)) } },
	})
	mon.RegType(&mon.TypeOps{ID: "I01x012", T: reflect.TypeOf((*[]uint8)(nil)).Elem(), Shape: "[]uint8", Tags: []string{"form:top", "origin:enum", "bytes"},
		Equal: func(a, b any) bool { return deriveEqualI01x012(a.([]uint8), b.([]uint8)) },
		EqualCurried: func(a any) func(any) bool { f := deriveEqualCI01x012(a.([]uint8)); return func(b any) bool { return f(b.([]uint8)) } },
	})
	mon.RegType(&mon.TypeOps{ID: "I01x013", T: reflect.TypeOf((**W7)(nil)).Elem(), Shape: "*nS3", Tags: []string{"form:field", "origin:enum", "bytes"},
		Equal: func(a, b any) bool { return deriveEqualI01x013(a.(*W7), b.(*W7)) },
		EqualCurried: func(a any) func(any) bool { f := deriveEqualCI01x013(a.(*W7)); return func(b any) bool { return f(b.(*W7)) } },
	})
	mon.RegType(&mon.TypeOps{ID: "I01x014", T: reflect.TypeOf((*[]*bool)(nil)).Elem(), Shape: "[]*bool", Tags: []string{"form:top", "origin:enum"},
		Equal: func(a, b any) bool { return deriveEqualI01x014(a.([]*bool), b.([]*bool)) },
		EqualCurried: func(a any) func(any) bool { f := deriveEqualCI01x014(a.([]*bool)); return func(b any) bool { return f(b.([]*bool)) } },
	})
	mon.RegType(&mon.TypeOps{ID: "I01x015", T: reflect.TypeOf((**W8)(nil)).Elem(), Shape: "*nS3", Tags: []string{"form:field", "origin:enum"},
		Equal: func(a, b any) bool { return deriveEqualI01x015(a.(*W8), b.(*W8)) },
		EqualCurried: func(a any) func(any) bool { f := deriveEqualCI01x015(a.(*W8)); return func(b any) bool { return f(b.(*W8)) } },
	})
	mon.RegType(&mon.TypeOps{ID: "I01x016", T: reflect.TypeOf((*map[string]SR)(nil)).Elem(), Shape: "map[string]nS4", Tags: []string{"form:top", "origin:enum", "map"},
		Equal: func(a, b any) bool { return deriveEqualI01x016(a.(map[string]SR), b.(map[string]SR)) },
		EqualCurried: func(a any) func(any) bool { f := deriveEqualCI01x016(a.(map[string]SR)); return func(b any) bool { return f(b.(map[string]SR)) } },
	})
	mon.RegType(&mon.TypeOps{ID: "I01x017", T: reflect.TypeOf((**W9)(nil)).Elem(), Shape: "*nS3", Tags: []string{"form:field", "origin:enum", "map"},
		Equal: func(a, b any) bool { return deriveEqualI01x017(a.(*W9), b.(*W9)) },
		EqualCurried: func(a any) func(any) bool { f := deriveEqualCI01x017(a.(*W9)); return func(b any) bool { return f(b.(*W9)) } },
	})
	mon.RegType(&mon.TypeOps{ID: "I01x018", T: reflect.TypeOf((**map[string]ext.Pub)(nil)).Elem(), Shape: "*map[string]xS5", Tags: []string{"form:top", "origin:enum", "float", "imported", "map", "named-basic"},
		Equal: func(a, b any) bool { return deriveEqualI01x018(a.(*map[string]ext.Pub), b.(*map[string]ext.Pub)) },
		EqualCurried: func(a any) func(any) bool { f := deriveEqualCI01x018(a.(*map[string]ext.Pub)); return func(b any) bool { return f(b.(*map[string]ext.Pub)) } },
	})
	mon.RegType(&mon.TypeOps{ID: "I01x019", T: reflect.TypeOf((**W10)(nil)).Elem(), Shape: "*nS3", Tags: []string{"form:field", "origin:enum", "float", "imported", "map", "named-basic"},
		Equal: func(a, b any) bool { return deriveEqualI01x019(a.(*W10), b.(*W10)) },
		EqualCurried: func(a any) func(any) bool { f := deriveEqualCI01x019(a.(*W10)); return func(b any) bool { return f(b.(*W10)) } },
	})
	mon.RegType(&mon.TypeOps{ID: "I01x020", T: reflect.TypeOf((*[2]SP)(nil)).Elem(), Shape: "[2]nS5", Tags: []string{"form:top", "origin:enum", "map", "named-basic"},
		Equal: func(a, b any) bool { return deriveEqualI01x020(a.([2]SP), b.([2]SP)) },
		EqualCurried: func(a any) func(any) bool { f := deriveEqualCI01x020(a.([2]SP)); return func(b any) bool { return f(b.([2]SP)) } },
	})
	mon.RegType(&mon.TypeOps{ID: "I01x021", T: reflect.TypeOf((**W11)(nil)).Elem(), Shape: "*nS3", Tags: []string{"form:field", "origin:enum", "map", "named-basic"},
		Equal: func(a, b any) bool { return deriveEqualI01x021(a.(*W11), b.(*W11)) },
		EqualCurried: func(a any) func(any) bool { f := deriveEqualCI01x021(a.(*W11)); return func(b any) bool { return f(b.(*W11)) } },
	})
	mon.RegType(&mon.TypeOps{ID: "I01x022", T: reflect.TypeOf((*[]map[bool]int)(nil)).Elem(), Shape: "[]map[bool]int", Tags: []string{"form:top", "origin:enum", "map"},
		Equal: func(a, b any) bool { return deriveEqualI01x022(a.([]map[bool]int), b.([]map[bool]int)) },
		EqualCurried: func(a any) func(any) bool { f := deriveEqualCI01x022(a.([]map[bool]int)); return func(b any) bool { return f(b.([]map[bool]int)) } },
	})
	mon.RegType(&mon.TypeOps{ID: "I01x023", T: reflect.TypeOf((**W12)(nil)).Elem(), Shape: "*nS3", Tags: []string{"form:field", "origin:enum", "map"},
		Equal: func(a, b any) bool { return deriveEqualI01x023(a.(*W12), b.(*W12)) },
		EqualCurried: func(a any) func(any) bool { f := deriveEqualCI01x023(a.(*W12)); return func(b any) bool { return f(b.(*W12)) } },
	})
	mon.RegType(&mon.TypeOps{ID: "I01x024", T: reflect.TypeOf((*bool)(nil)).Elem(), Shape: "bool", Tags: []string{"form:top", "origin:enum"},
		Equal: func(a, b any) bool { return deriveEqualI01x024(a.(bool), b.(bool)) },
		EqualCurried: func(a any) func(any) bool { f := deriveEqualCI01x024(a.(bool)); return func(b any) bool { return f(b.(bool)) } },
	})
	mon.RegType(&mon.TypeOps{ID: "I01x025", T: reflect.TypeOf((**W13)(nil)).Elem(), Shape: "*nS3", Tags: []string{"form:field", "origin:enum"},
		Equal: func(a, b any) bool { return deriveEqualI01x025(a.(*W13), b.(*W13)) },
		EqualCurried: func(a any) func(any) bool { f := deriveEqualCI01x025(a.(*W13)); return func(b any) bool { return f(b.(*W13)) } },
	})
	mon.RegType(&mon.TypeOps{ID: "I01x026", T: reflect.TypeOf((*[]map[string]bool)(nil)).Elem(), Shape: "[]map[string]bool", Tags: []string{"form:top", "origin:enum", "map"},
		Equal: func(a, b any) bool { return deriveEqualI01x026(a.([]map[string]bool), b.([]map[string]bool)) },
		EqualCurried: func(a any) func(any) bool { f := deriveEqualCI01x026(a.([]map[string]bool)); return func(b any) bool { return f(b.([]map[string]bool)) } },
	})
	mon.RegType(&mon.TypeOps{ID: "I01x027", T: reflect.TypeOf((**W14)(nil)).Elem(), Shape: "*nS3", Tags: []string{"form:field", "origin:enum", "map"},
		Equal: func(a, b any) bool { return deriveEqualI01x027(a.(*W14), b.(*W14)) },
		EqualCurried: func(a any) func(any) bool { f := deriveEqualCI01x027(a.(*W14)); return func(b any) bool { return f(b.(*W14)) } },
	})
	mon.RegType(&mon.TypeOps{ID: "I01x028", T: reflect.TypeOf((*map[string]SP)(nil)).Elem(), Shape: "map[string]nS5", Tags: []string{"form:top", "origin:enum", "map", "named-basic"},
		Equal: func(a, b any) bool { return deriveEqualI01x028(a.(map[string]SP), b.(map[string]SP)) },
		EqualCurried: func(a any) func(any) bool { f := deriveEqualCI01x028(a.(map[string]SP)); return func(b any) bool { return f(b.(map[string]SP)) } },
	})
	mon.RegType(&mon.TypeOps{ID: "I01x029", T: reflect.TypeOf((**W15)(nil)).Elem(), Shape: "*nS3", Tags: []string{"form:field", "origin:enum", "map", "named-basic"},
		Equal: func(a, b any) bool { return deriveEqualI01x029(a.(*W15), b.(*W15)) },
		EqualCurried: func(a any) func(any) bool { f := deriveEqualCI01x029(a.(*W15)); return func(b any) bool { return f(b.(*W15)) } },
	})
	mon.RegType(&mon.TypeOps{ID: "I01x030", T: reflect.TypeOf((*map[int][2]complex128)(nil)).Elem(), Shape: "map[int][2]complex128", Tags: []string{"form:top", "origin:enum", "float", "map"},
		Equal: func(a, b any) bool { return deriveEqualI01x030(a.(map[int][2]complex128), b.(map[int][2]complex128)) },
		EqualCurried: func(a any) func(any) bool { f := deriveEqualCI01x030(a.(map[int][2]complex128)); return func(b any) bool { return f(b.(map[int][2]complex128)) } },
	})
	mon.RegType(&mon.TypeOps{ID: "I01x031", T: reflect.TypeOf((**W16)(nil)).Elem(), Shape: "*nS3", Tags: []string{"form:field", "origin:enum", "float", "map"},
		Equal: func(a, b any) bool { return deriveEqualI01x031(a.(*W16), b.(*W16)) },
		EqualCurried: func(a any) func(any) bool { f := deriveEqualCI01x031(a.(*W16)); return func(b any) bool { return f(b.(*W16)) } },
	})
	mon.RegType(&mon.TypeOps{ID: "I01x032", T: reflect.TypeOf((*map[SV]SP)(nil)).Elem(), Shape: "map[nS4]nS5", Tags: []string{"form:top", "origin:enum", "map", "map-struct-key", "named-basic"},
		Equal: func(a, b any) bool { return deriveEqualI01x032(a.(map[SV]SP), b.(map[SV]SP)) },
		EqualCurried: func(a any) func(any) bool { f := deriveEqualCI01x032(a.(map[SV]SP)); return func(b any) bool { return f(b.(map[SV]SP)) } },
	})
	mon.RegType(&mon.TypeOps{ID: "I01x033", T: reflect.TypeOf((**W17)(nil)).Elem(), Shape: "*nS3", Tags: []string{"form:field", "origin:enum", "map", "map-struct-key", "named-basic"},
		Equal: func(a, b any) bool { return deriveEqualI01x033(a.(*W17), b.(*W17)) },
		EqualCurried: func(a any) func(any) bool { f := deriveEqualCI01x033(a.(*W17)); return func(b any) bool { return f(b.(*W17)) } },
	})
	mon.RegType(&mon.TypeOps{ID: "I01x034", T: reflect.TypeOf((*[]ext.Priv)(nil)).Elem(), Shape: "[]xS5", Tags: []string{"form:top", "origin:enum", "imported", "imported-unexported", "map"},
		Equal: func(a, b any) bool { return deriveEqualI01x034(a.([]ext.Priv), b.([]ext.Priv)) },
		EqualCurried: func(a any) func(any) bool { f := deriveEqualCI01x034(a.([]ext.Priv)); return func(b any) bool { return f(b.([]ext.Priv)) } },
	})
	mon.RegType(&mon.TypeOps{ID: "I01x035", T: reflect.TypeOf((**W18)(nil)).Elem(), Shape: "*nS3", Tags: []string{"form:field", "origin:enum", "imported", "imported-unexported", "map"},
		Equal: func(a, b any) bool { return deriveEqualI01x035(a.(*W18), b.(*W18)) },
		EqualCurried: func(a any) func(any) bool { f := deriveEqualCI01x035(a.(*W18)); return func(b any) bool { return f(b.(*W18)) } },
	})
	mon.RegType(&mon.TypeOps{ID: "I01x036", T: reflect.TypeOf((*map[string][2]bool)(nil)).Elem(), Shape: "map[string][2]bool", Tags: []string{"form:top", "origin:enum", "map"},
		Equal: func(a, b any) bool { return deriveEqualI01x036(a.(map[string][2]bool), b.(map[string][2]bool)) },
		EqualCurried: func(a any) func(any) bool { f := deriveEqualCI01x036(a.(map[string][2]bool)); return func(b any) bool { return f(b.(map[string][2]bool)) } },
	})
	mon.RegType(&mon.TypeOps{ID: "I01x037", T: reflect.TypeOf((**W19)(nil)).Elem(), Shape: "*nS3", Tags: []string{"form:field", "origin:enum", "map"},
		Equal: func(a, b any) bool { return deriveEqualI01x037(a.(*W19), b.(*W19)) },
		EqualCurried: func(a any) func(any) bool { f := deriveEqualCI01x037(a.(*W19)); return func(b any) bool { return f(b.(*W19)) } },
	})
	mon.RegType(&mon.TypeOps{ID: "I01x038", T: reflect.TypeOf((**map[int]SR)(nil)).Elem(), Shape: "*map[int]nS4", Tags: []string{"form:top", "origin:enum", "map"},
		Equal: func(a, b any) bool { return deriveEqualI01x038(a.(*map[int]SR), b.(*map[int]SR)) },
		EqualCurried: func(a any) func(any) bool { f := deriveEqualCI01x038(a.(*map[int]SR)); return func(b any) bool { return f(b.(*map[int]SR)) } },
	})
	mon.RegType(&mon.TypeOps{ID: "I01x039", T: reflect.TypeOf((**W20)(nil)).Elem(), Shape: "*nS3", Tags: []string{"form:field", "origin:enum", "map"},
		Equal: func(a, b any) bool { return deriveEqualI01x039(a.(*W20), b.(*W20)) },
		EqualCurried: func(a any) func(any) bool { f := deriveEqualCI01x039(a.(*W20)); return func(b any) bool { return f(b.(*W20)) } },
	})
	mon.RegType(&mon.TypeOps{ID: "I01x040", T: reflect.TypeOf((*map[string][2]ext.Priv)(nil)).Elem(), Shape: "map[string][2]xS5", Tags: []string{"form:top", "origin:enum", "imported", "imported-unexported", "map"},
		Equal: func(a, b any) bool { return deriveEqualI01x040(a.(map[string][2]ext.Priv), b.(map[string][2]ext.Priv)) },
		EqualCurried: func(a any) func(any) bool { f := deriveEqualCI01x040(a.(map[string][2]ext.Priv)); return func(b any) bool { return f(b.(map[string][2]ext.Priv)) } },
	})
	mon.RegType(&mon.TypeOps{ID: "I01x041", T: reflect.TypeOf((**W21)(nil)).Elem(), Shape: "*nS3", Tags: []string{"form:field", "origin:enum", "imported", "imported-unexported", "map"},
		Equal: func(a, b any) bool { return deriveEqualI01x041(a.(*W21), b.(*W21)) },
		EqualCurried: func(a any) func(any) bool { f := deriveEqualCI01x041(a.(*W21)); return func(b any) bool { return f(b.(*W21)) } },
	})
	mon.RegType(&mon.TypeOps{ID: "I01x042", T: reflect.TypeOf((*[2]map[string]NInt)(nil)).Elem(), Shape: "[2]map[string]n(int64)", Tags: []string{"form:top", "origin:enum", "map", "named-basic"},
		Equal: func(a, b any) bool { return deriveEqualI01x042(a.([2]map[string]NInt), b.([2]map[string]NInt)) },
		EqualCurried: func(a any) func(any) bool { f := deriveEqualCI01x042(a.([2]map[string]NInt)); return func(b any) bool { return f(b.([2]map[string]NInt)) } },
	})
	mon.RegType(&mon.TypeOps{ID: "I01x043", T: reflect.TypeOf((**W22)(nil)).Elem(), Shape: "*nS3", Tags: []string{"form:field", "origin:enum", "map", "named-basic"},
		Equal: func(a, b any) bool { return deriveEqualI01x043(a.(*W22), b.(*W22)) },
		EqualCurried: func(a any) func(any) bool { f := deriveEqualCI01x043(a.(*W22)); return func(b any) bool { return f(b.(*W22)) } },
	})
}
