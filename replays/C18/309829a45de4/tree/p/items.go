package p

import (
	"errors"
	"fmt"
	"unicode/utf8"

	"scratch/mon"
)

var _ = errors.New
var _ = fmt.Sprint
var _ = utf8.ValidString

type NInt int64

type NStr string

type SV struct {
	A int
	B string
}

type SP struct {
	P *int
	L []string
}

type Arr [2]int

// ---- item Q009 (mem/0p3r/blank)

func implQ009() ([2]int, NInt, string) {
	mon.Log("Q009")
	return mon.Ret[[2]int]("Q009", 0), mon.Ret[NInt]("Q009", 1), mon.Ret[string]("Q009", 2)
}

var FQ009 func() ([2]int, NInt, string) = implQ009

func init() {
	mon.RegFunc("Q009", "mem/0p3r/blank", []string{"kind:mem", "mode:blank", "results:3", "params:0"}, func(t *mon.FT) {
		m := deriveMemQ009(FQ009)
		classes := map[string]bool{}
		t.Reset()
		for step := 0; step < t.N*4; step++ {
			i := mon.MemIndex(t, step)
			key := ""
			classes[key] = true
			r0, r1, r2 := m()
			t.Pause()
			d0, d1, d2 := implQ009()
			t.Resume()
			mon.Same(t, "mem/result0", r0, d0)
			mon.Same(t, "mem/result1", r1, d1)
			mon.Same(t, "mem/result2", r2, d2)
			if n := t.CallCount("Q009"); n > len(classes) {
				t.Bad("mem/at-most-once", "after %d calls with %d distinct (Equal) argument tuples the function was evaluated %d times (last arguments %s)", step+1, len(classes), n, key)
				break
			} else {
				t.Ok("mem/at-most-once")
			}
		}
	})
}

