package p

import (
	"errors"
	"fmt"
	"unicode/utf8"

	"scratch/mon"
)

var _ = errors.New
var _ = fmt.Sprint
var _ = utf8.ValidString

type NInt int64

type NStr string

type SV struct {
	A int
	B string
}

type SP struct {
	P *int
	L []string
}

type Arr [2]int

// ---- item Q023 (mem/2p0r/reserved)

func implQ023(a0 *int, a1 SP) {
	mon.Log("Q023", a0, a1)
}

var FQ023 func(f *int, err SP) = implQ023

func init() {
	mon.RegFunc("Q023", "mem/2p0r/reserved", []string{"kind:mem", "mode:reserved", "results:0", "params:2", "param:*int", "param:SP"}, func(t *mon.FT) {
		m := deriveMemQ023(FQ023)
		classes := map[string]bool{}
		t.Reset()
		for step := 0; step < t.N*4; step++ {
			i := mon.MemIndex(t, step)
			a0 := mon.Arg[*int](t, 0, i)
			a1 := mon.Arg[SP](t, 1, i)
			key := mon.CanonOf(a0) + "|" + mon.CanonOf(a1)
			classes[key] = true
			m(a0, a1)
			t.Pause()
			implQ023(a0, a1)
			t.Resume()
			if n := t.CallCount("Q023"); n > len(classes) {
				t.Bad("mem/at-most-once", "after %d calls with %d distinct (Equal) argument tuples the function was evaluated %d times (last arguments %s)", step+1, len(classes), n, key)
				break
			} else {
				t.Ok("mem/at-most-once")
			}
		}
	})
}

