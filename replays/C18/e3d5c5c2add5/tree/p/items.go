package p

import (
	"errors"
	"fmt"
	"unicode/utf8"

	"scratch/mon"
)

var _ = errors.New
var _ = fmt.Sprint
var _ = utf8.ValidString

type NInt int64

type NStr string

type SV struct {
	A int
	B string
}

type SP struct {
	P *int
	L []string
}

type Arr [2]int

// ---- item Q005 (mem/0p2r/reserved)

func implQ005() (*SV, [2]int) {
	mon.Log("Q005")
	return mon.Ret[*SV]("Q005", 0), mon.Ret[[2]int]("Q005", 1)
}

var FQ005 func() (*SV, [2]int) = implQ005

func init() {
	mon.RegFunc("Q005", "mem/0p2r/reserved", []string{"kind:mem", "mode:reserved", "results:2", "params:0"}, func(t *mon.FT) {
		m := deriveMemQ005(FQ005)
		classes := map[string]bool{}
		t.Reset()
		for step := 0; step < t.N*4; step++ {
			i := mon.MemIndex(t, step)
			key := ""
			classes[key] = true
			r0, r1 := m()
			t.Pause()
			d0, d1 := implQ005()
			t.Resume()
			mon.Same(t, "mem/result0", r0, d0)
			mon.Same(t, "mem/result1", r1, d1)
			if n := t.CallCount("Q005"); n > len(classes) {
				t.Bad("mem/at-most-once", "after %d calls with %d distinct (Equal) argument tuples the function was evaluated %d times (last arguments %s)", step+1, len(classes), n, key)
				break
			} else {
				t.Ok("mem/at-most-once")
			}
		}
	})
}

