package p

import (
	"errors"
	"fmt"
	"unicode/utf8"

	"scratch/mon"
)

var _ = errors.New
var _ = fmt.Sprint
var _ = utf8.ValidString

type NInt int64

type NStr string

type SV struct {
	A int
	B string
}

type SP struct {
	P *int
	L []string
}

type Arr [2]int

// ---- item Q002 (mem/0p1r/blank)

func implQ002() *SV {
	mon.Log("Q002")
	return mon.Ret[*SV]("Q002", 0)
}

var FQ002 func() *SV = implQ002

func init() {
	mon.RegFunc("Q002", "mem/0p1r/blank", []string{"kind:mem", "mode:blank", "results:1", "params:0"}, func(t *mon.FT) {
		m := deriveMemQ002(FQ002)
		classes := map[string]bool{}
		t.Reset()
		for step := 0; step < t.N*4; step++ {
			i := mon.MemIndex(t, step)
			key := ""
			classes[key] = true
			r0 := m()
			t.Pause()
			d0 := implQ002()
			t.Resume()
			mon.Same(t, "mem/result0", r0, d0)
			if n := t.CallCount("Q002"); n > len(classes) {
				t.Bad("mem/at-most-once", "after %d calls with %d distinct (Equal) argument tuples the function was evaluated %d times (last arguments %s)", step+1, len(classes), n, key)
				break
			} else {
				t.Ok("mem/at-most-once")
			}
		}
	})
}

