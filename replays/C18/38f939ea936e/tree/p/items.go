package p

import (
	"errors"
	"fmt"
	"unicode/utf8"

	"scratch/mon"
)

var _ = errors.New
var _ = fmt.Sprint
var _ = utf8.ValidString

type NInt int64

type NStr string

type SV struct {
	A int
	B string
}

type SP struct {
	P *int
	L []string
}

type Arr [2]int

// ---- item Q011 (mem/1p0r/unnamed)

func implQ011(a0 *SV) {
	mon.Log("Q011", a0)
}

var FQ011 func(*SV) = implQ011

func init() {
	mon.RegFunc("Q011", "mem/1p0r/unnamed", []string{"kind:mem", "mode:unnamed", "results:0", "params:1", "param:*SV"}, func(t *mon.FT) {
		m := deriveMemQ011(FQ011)
		classes := map[string]bool{}
		t.Reset()
		for step := 0; step < t.N*4; step++ {
			i := mon.MemIndex(t, step)
			a0 := mon.Arg[*SV](t, 0, i)
			key := mon.CanonOf(a0)
			classes[key] = true
			m(a0)
			t.Pause()
			implQ011(a0)
			t.Resume()
			if n := t.CallCount("Q011"); n > len(classes) {
				t.Bad("mem/at-most-once", "after %d calls with %d distinct (Equal) argument tuples the function was evaluated %d times (last arguments %s)", step+1, len(classes), n, key)
				break
			} else {
				t.Ok("mem/at-most-once")
			}
		}
	})
}

