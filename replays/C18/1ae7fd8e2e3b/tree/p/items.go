package p

import (
	"errors"
	"fmt"
	"unicode/utf8"

	"scratch/mon"
)

var _ = errors.New
var _ = fmt.Sprint
var _ = utf8.ValidString

type NInt int64

type NStr string

type SV struct {
	A int
	B string
}

type SP struct {
	P *int
	L []string
}

type Arr [2]int

// ---- item Q007 (mem/0p3r/reserved)

func implQ007() (NStr, [2]int, SV) {
	mon.Log("Q007")
	return mon.Ret[NStr]("Q007", 0), mon.Ret[[2]int]("Q007", 1), mon.Ret[SV]("Q007", 2)
}

var FQ007 func() (NStr, [2]int, SV) = implQ007

func init() {
	mon.RegFunc("Q007", "mem/0p3r/reserved", []string{"kind:mem", "mode:reserved", "results:3", "params:0"}, func(t *mon.FT) {
		m := deriveMemQ007(FQ007)
		classes := map[string]bool{}
		t.Reset()
		for step := 0; step < t.N*4; step++ {
			i := mon.MemIndex(t, step)
			key := ""
			classes[key] = true
			r0, r1, r2 := m()
			t.Pause()
			d0, d1, d2 := implQ007()
			t.Resume()
			mon.Same(t, "mem/result0", r0, d0)
			mon.Same(t, "mem/result1", r1, d1)
			mon.Same(t, "mem/result2", r2, d2)
			if n := t.CallCount("Q007"); n > len(classes) {
				t.Bad("mem/at-most-once", "after %d calls with %d distinct (Equal) argument tuples the function was evaluated %d times (last arguments %s)", step+1, len(classes), n, key)
				break
			} else {
				t.Ok("mem/at-most-once")
			}
		}
	})
}

