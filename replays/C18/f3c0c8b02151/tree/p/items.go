package p

import (
	"errors"
	"fmt"
	"unicode/utf8"

	"scratch/mon"
)

var _ = errors.New
var _ = fmt.Sprint
var _ = utf8.ValidString

type NInt int64

type NStr string

type SV struct {
	A int
	B string
}

type SP struct {
	P *int
	L []string
}

type Arr [2]int

// ---- item Q006 (mem/0p2r/named)

func implQ006() (int, SP) {
	mon.Log("Q006")
	return mon.Ret[int]("Q006", 0), mon.Ret[SP]("Q006", 1)
}

var FQ006 func() (int, SP) = implQ006

func init() {
	mon.RegFunc("Q006", "mem/0p2r/named", []string{"kind:mem", "mode:named", "results:2", "params:0"}, func(t *mon.FT) {
		m := deriveMemQ006(FQ006)
		classes := map[string]bool{}
		t.Reset()
		for step := 0; step < t.N*4; step++ {
			i := mon.MemIndex(t, step)
			key := ""
			classes[key] = true
			r0, r1 := m()
			t.Pause()
			d0, d1 := implQ006()
			t.Resume()
			mon.Same(t, "mem/result0", r0, d0)
			mon.Same(t, "mem/result1", r1, d1)
			if n := t.CallCount("Q006"); n > len(classes) {
				t.Bad("mem/at-most-once", "after %d calls with %d distinct (Equal) argument tuples the function was evaluated %d times (last arguments %s)", step+1, len(classes), n, key)
				break
			} else {
				t.Ok("mem/at-most-once")
			}
		}
	})
}

