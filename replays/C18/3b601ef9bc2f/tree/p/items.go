package p

import (
	"errors"
	"fmt"
	"unicode/utf8"

	"scratch/mon"
)

var _ = errors.New
var _ = fmt.Sprint
var _ = utf8.ValidString

type NInt int64

type NStr string

type SV struct {
	A int
	B string
}

type SP struct {
	P *int
	L []string
}

type Arr [2]int

// ---- item Q036 (mem/3p0r/blank)

func implQ036(a0 bool, a1 Arr, a2 []SV) {
	mon.Log("Q036", a0, a1, a2)
}

var FQ036 func(_ bool, _ Arr, _ []SV) = implQ036

func init() {
	mon.RegFunc("Q036", "mem/3p0r/blank", []string{"kind:mem", "mode:blank", "results:0", "params:3", "param:bool", "param:Arr", "param:[]SV"}, func(t *mon.FT) {
		m := deriveMemQ036(FQ036)
		classes := map[string]bool{}
		t.Reset()
		for step := 0; step < t.N*4; step++ {
			i := mon.MemIndex(t, step)
			a0 := mon.Arg[bool](t, 0, i)
			a1 := mon.Arg[Arr](t, 1, i)
			a2 := mon.Arg[[]SV](t, 2, i)
			key := mon.CanonOf(a0) + "|" + mon.CanonOf(a1) + "|" + mon.CanonOf(a2)
			classes[key] = true
			m(a0, a1, a2)
			t.Pause()
			implQ036(a0, a1, a2)
			t.Resume()
			if n := t.CallCount("Q036"); n > len(classes) {
				t.Bad("mem/at-most-once", "after %d calls with %d distinct (Equal) argument tuples the function was evaluated %d times (last arguments %s)", step+1, len(classes), n, key)
				break
			} else {
				t.Ok("mem/at-most-once")
			}
		}
	})
}

