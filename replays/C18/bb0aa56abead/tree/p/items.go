package p

import (
	"errors"
	"fmt"
	"unicode/utf8"

	"scratch/mon"
)

var _ = errors.New
var _ = fmt.Sprint
var _ = utf8.ValidString

type NInt int64

type NStr string

type SV struct {
	A int
	B string
}

type SP struct {
	P *int
	L []string
}

type Arr [2]int

// ---- item Q001 (mem/0p0r/named)

func implQ001() {
	mon.Log("Q001")
}

var FQ001 func() = implQ001

func init() {
	mon.RegFunc("Q001", "mem/0p0r/named", []string{"kind:mem", "mode:named", "results:0", "params:0"}, func(t *mon.FT) {
		m := deriveMemQ001(FQ001)
		classes := map[string]bool{}
		t.Reset()
		for step := 0; step < t.N*4; step++ {
			i := mon.MemIndex(t, step)
			key := ""
			classes[key] = true
			m()
			t.Pause()
			implQ001()
			t.Resume()
			if n := t.CallCount("Q001"); n > len(classes) {
				t.Bad("mem/at-most-once", "after %d calls with %d distinct (Equal) argument tuples the function was evaluated %d times (last arguments %s)", step+1, len(classes), n, key)
				break
			} else {
				t.Ok("mem/at-most-once")
			}
		}
	})
}

