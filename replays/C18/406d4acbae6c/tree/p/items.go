package p

import (
	"errors"
	"fmt"
	"unicode/utf8"

	"scratch/mon"
)

var _ = errors.New
var _ = fmt.Sprint
var _ = utf8.ValidString

type NInt int64

type NStr string

type SV struct {
	A int
	B string
}

type SP struct {
	P *int
	L []string
}

type Arr [2]int

// ---- item Q035 (mem/3p0r/named)

func implQ035(a0 map[string]int, a1 []int, a2 SP) {
	mon.Log("Q035", a0, a1, a2)
}

var FQ035 func(a0 map[string]int, a1 []int, a2 SP) = implQ035

func init() {
	mon.RegFunc("Q035", "mem/3p0r/named", []string{"kind:mem", "mode:named", "results:0", "params:3", "param:map[string]int", "param:[]int", "param:SP"}, func(t *mon.FT) {
		m := deriveMemQ035(FQ035)
		classes := map[string]bool{}
		t.Reset()
		for step := 0; step < t.N*4; step++ {
			i := mon.MemIndex(t, step)
			a0 := mon.Arg[map[string]int](t, 0, i)
			a1 := mon.Arg[[]int](t, 1, i)
			a2 := mon.Arg[SP](t, 2, i)
			key := mon.CanonOf(a0) + "|" + mon.CanonOf(a1) + "|" + mon.CanonOf(a2)
			classes[key] = true
			m(a0, a1, a2)
			t.Pause()
			implQ035(a0, a1, a2)
			t.Resume()
			if n := t.CallCount("Q035"); n > len(classes) {
				t.Bad("mem/at-most-once", "after %d calls with %d distinct (Equal) argument tuples the function was evaluated %d times (last arguments %s)", step+1, len(classes), n, key)
				break
			} else {
				t.Ok("mem/at-most-once")
			}
		}
	})
}

