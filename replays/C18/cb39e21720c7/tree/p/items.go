package p

import (
	"errors"
	"fmt"
	"unicode/utf8"

	"scratch/mon"
)

var _ = errors.New
var _ = fmt.Sprint
var _ = utf8.ValidString

type NInt int64

type NStr string

type SV struct {
	A int
	B string
}

type SP struct {
	P *int
	L []string
}

type Arr [2]int

// ---- item Q004 (mem/0p2r/unnamed)

func implQ004() (NStr, []string) {
	mon.Log("Q004")
	return mon.Ret[NStr]("Q004", 0), mon.Ret[[]string]("Q004", 1)
}

var FQ004 func() (NStr, []string) = implQ004

func init() {
	mon.RegFunc("Q004", "mem/0p2r/unnamed", []string{"kind:mem", "mode:unnamed", "results:2", "params:0"}, func(t *mon.FT) {
		m := deriveMemQ004(FQ004)
		classes := map[string]bool{}
		t.Reset()
		for step := 0; step < t.N*4; step++ {
			i := mon.MemIndex(t, step)
			key := ""
			classes[key] = true
			r0, r1 := m()
			t.Pause()
			d0, d1 := implQ004()
			t.Resume()
			mon.Same(t, "mem/result0", r0, d0)
			mon.Same(t, "mem/result1", r1, d1)
			if n := t.CallCount("Q004"); n > len(classes) {
				t.Bad("mem/at-most-once", "after %d calls with %d distinct (Equal) argument tuples the function was evaluated %d times (last arguments %s)", step+1, len(classes), n, key)
				break
			} else {
				t.Ok("mem/at-most-once")
			}
		}
	})
}

