package p


func use(a [2]<-chan string) [2]<-chan string { return deriveClone(a) }
