package p

type S struct {
	A int
	X interface{}
	B string
}

func use(a, b []*S) []*S { return deriveUnion(a, b) }
