package p


func use(a, b []*struct{ S []int }) []*struct{ S []int } { return deriveUnion(a, b) }
