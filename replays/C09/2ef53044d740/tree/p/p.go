package p


func use(a [2]func()) uint64 { return deriveHash(a) }
