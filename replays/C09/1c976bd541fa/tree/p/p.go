package p

type S struct {
	X []error
}

func use(a *S) uint64 { return deriveHash(a) }
