package p


func use(l [][]error, a []error) bool { return deriveContains(l, a) }
