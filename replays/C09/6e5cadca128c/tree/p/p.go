package p

type S struct {
	X [3]interface{}
}

func use(a, b *S) bool { return deriveEqual(a, b) }
