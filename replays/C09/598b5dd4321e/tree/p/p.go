package p

import "unsafe"

type In struct {
	X unsafe.Pointer
}

type S struct {
	I In
	P *In
	L []In
}

func use(a, b *S) int { return deriveCompare(a, b) }
