package p

var ch chan int

func use() { deriveMem(ch) }
