package p

import "unsafe"

type S struct {
	X [3]unsafe.Pointer
}

func use(a *S) uint64 { return deriveHash(a) }
