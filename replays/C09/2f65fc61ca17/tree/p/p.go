package p

import "unsafe"


func use(l []*unsafe.Pointer, a *unsafe.Pointer) *unsafe.Pointer { return deriveMin(l, a) }
