package p

type S struct {
	A int
	X interface{}
}

func use(a S) uint64 { return deriveHash(a) }
