package p

type S struct {
	X [3]func()
}

func use(a *S) *S { return deriveClone(a) }
