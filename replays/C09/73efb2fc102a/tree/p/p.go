package p

type S struct {
	X [3]chan int
}

func use(a, b *S) bool { return deriveEqual(a, b) }
