package p

import "unsafe"


func use(a *unsafe.Pointer) uint64 { return deriveHash(a) }
