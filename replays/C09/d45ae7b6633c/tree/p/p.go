package p

func v(a int, rest ...string) int { return a }

func use() { deriveHash(v) }
