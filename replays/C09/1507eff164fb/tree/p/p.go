package p


func use(a, b [][]interface{}) [][]interface{} { return deriveUnion(a, b) }
