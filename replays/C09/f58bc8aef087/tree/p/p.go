package p


func use(l []map[string]chan int, a map[string]chan int) bool { return deriveContains(l, a) }
