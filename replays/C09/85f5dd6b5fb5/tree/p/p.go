package p


func use(a interface{}) uint64 { return deriveHash(a) }
