package p


func f(a map[string]error) int { return 1 }

func use() func(map[string]error) int { return deriveMem(f) }
