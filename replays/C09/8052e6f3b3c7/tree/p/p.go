package p


func use(a, b []func()) []func() { return deriveIntersect(a, b) }
