package p

import "unsafe"

type S struct {
	X map[string][]unsafe.Pointer
}

func use(a, b map[string]*S) int { return deriveCompare(a, b) }
