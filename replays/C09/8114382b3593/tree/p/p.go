package p


func use(l []*chan int, a *chan int) bool { return deriveContains(l, a) }
