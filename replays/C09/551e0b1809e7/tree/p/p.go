package p

type S struct {
	A int
	X error
	B string
}

func use(a, b []*S) []*S { return deriveUnion(a, b) }
