package p

type S struct {
	X map[int]chan int
}

func use(a *S) uint64 { return deriveHash(a) }
