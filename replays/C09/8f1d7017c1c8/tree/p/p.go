package p

type S struct {
	A int
	X interface{}
	B string
}

func use(l []*S, a *S) bool { return deriveContains(l, a) }
