package p


func use(a [2]struct{ S []int }) uint64 { return deriveHash(a) }
