package p

type S struct{ A int }

func use(a, b map[*int]string) { deriveDeepCopy(a, b) }
