package p

import "unsafe"

type S struct {
	A int
	X unsafe.Pointer
}

func use(a S) uint64 { return deriveHash(a) }
