package p


func use(a [2]error) [2]error { return deriveClone(a) }
