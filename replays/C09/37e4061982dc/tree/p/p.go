package p

type S struct {
	X map[int]<-chan string
}

func use(a *S) uint64 { return deriveHash(a) }
