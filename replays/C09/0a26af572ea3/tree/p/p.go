package p


func use(l []map[string]struct{ S []int }, a map[string]struct{ S []int }) bool { return deriveContains(l, a) }
