package p


func use() { deriveGoString(nil) }
