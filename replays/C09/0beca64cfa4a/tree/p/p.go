package p


func use(l []map[string]func(), a map[string]func()) bool { return deriveContains(l, a) }
