package p


func use() { deriveEqual(nil) }
