package p

type S struct {
	X [3]error
}

func use(a *S) uint64 { return deriveHash(a) }
