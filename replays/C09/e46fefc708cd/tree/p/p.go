package p


func use(a, b [2]func()) bool { return deriveEqual(a)(b) }
