package p

type S struct {
	A int
	X func()
}

func use(a S) uint64 { return deriveHash(a) }
