package p

func g(x, y int) {}

func use() { deriveHash(g) }
