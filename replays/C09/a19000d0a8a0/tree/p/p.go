package p

type S struct {
	X map[int]interface{}
}

func use(a, b *S) bool { return deriveEqual(a, b) }
