package p


func use(a, b chan int) bool { return deriveEqual(a)(b) }
