package p


func use(a, b map[string]interface{}) bool { return deriveEqual(a, b) }
