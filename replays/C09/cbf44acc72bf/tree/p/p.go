package p


func use(l []*struct{ S []int }, a *struct{ S []int }) bool { return deriveContains(l, a) }
