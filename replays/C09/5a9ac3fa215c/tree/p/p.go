package p


func use(a, b []map[string]interface{}) []map[string]interface{} { return deriveIntersect(a, b) }
