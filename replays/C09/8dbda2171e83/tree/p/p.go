package p

type S struct {
	A int
	X <-chan string
}

func use(a, b S) bool { return deriveEqual(a, b) }
