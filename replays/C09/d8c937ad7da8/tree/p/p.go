package p


func f(a struct{ S []int }) int { return 1 }

func use() func(struct{ S []int }) int { return deriveMem(f) }
