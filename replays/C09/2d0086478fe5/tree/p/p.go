package p

type S struct {
	X []struct{ S []int }
}

func use(a *S) uint64 { return deriveHash(a) }
