package p

type S struct {
	X map[string][]func()
}

func use(a, b map[string]*S) bool { return deriveEqual(a, b) }
