package p

type NB bool

type NC complex128

func use(l []NC) []NC { return deriveSort(l) }
