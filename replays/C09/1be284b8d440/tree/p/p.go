package p


func use(a, b [2]struct{ S []int }) bool { return deriveEqual(a, b) }
