package p

type S struct {
	A int
	X interface{}
	B string
}

func use(a *S) uint64 { return deriveHash(a) }
