package p

type S struct {
	X map[string][]chan int
}

func use(a map[string]*S) uint64 { return deriveHash(a) }
