package p


func use() { deriveMem(1) }
