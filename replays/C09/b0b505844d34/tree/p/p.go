package p


func use(l []*error) []*error { return deriveUnique(l) }
