package p


func use(a, b []chan int) []chan int { return deriveIntersect(a, b) }
