package p


func use(a, b []*chan int) []*chan int { return deriveUnion(a, b) }
