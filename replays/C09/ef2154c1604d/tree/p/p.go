package p

type NB bool

type NC complex128

func use(l []bool, d bool) bool { return deriveMax(l, d) }
