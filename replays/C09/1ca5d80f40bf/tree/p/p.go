package p

type S struct {
	X *interface{}
}

func use(a *S) uint64 { return deriveHash(a) }
