package p


func use(a, b *error) bool { return deriveEqual(a)(b) }
