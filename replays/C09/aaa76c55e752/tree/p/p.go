package p

type In struct {
	X interface{}
}

type S struct {
	I In
	P *In
	L []In
}

func use(a, b *S) bool { return deriveEqual(a, b) }
