package p


func use() { deriveTuple(nil) }
