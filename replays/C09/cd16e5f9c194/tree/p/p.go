package p

type In struct {
	X <-chan string
}

type S struct {
	I In
	P *In
	L []In
}

func use(a *S) uint64 { return deriveHash(a) }
