package p

type S struct {
	X [3]error
}

func use(a *S) *S { return deriveClone(a) }
