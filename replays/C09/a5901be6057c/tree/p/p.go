package p


func use(a map[string]<-chan string) uint64 { return deriveHash(a) }
