package p

import "unsafe"


func use(a, b [2]unsafe.Pointer) [2]unsafe.Pointer { return deriveMax(a, b) }
