package p

type S struct {
	X [3]struct{ S []int }
}

func use(a *S) uint64 { return deriveHash(a) }
