package p

type S struct {
	X map[int]error
}

func use(a *S) uint64 { return deriveHash(a) }
