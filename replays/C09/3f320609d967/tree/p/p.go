package p

type S struct {
	X error
}

func use(a, b []S) bool { return deriveEqual(a, b) }
