package p

type S struct {
	X [3]<-chan string
}

func use(a *S) *S { return deriveClone(a) }
