package p

type S struct {
	X map[int]interface{}
}

func use(a *S) uint64 { return deriveHash(a) }
