package p

type S struct {
	X [3]chan int
}

func use(a *S) *S { return deriveClone(a) }
