package p

type NB bool

type NC complex128

func use(l []complex128, d complex128) complex128 { return deriveMin(l, d) }
