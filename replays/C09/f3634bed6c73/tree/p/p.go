package p


func use(a [2]<-chan string) uint64 { return deriveHash(a) }
