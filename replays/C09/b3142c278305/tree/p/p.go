package p

type S struct {
	X map[string][]struct{ S []int }
}

func use(a map[string]*S) uint64 { return deriveHash(a) }
