package p

type S struct {
	X chan int
}

func use(a []S) uint64 { return deriveHash(a) }
