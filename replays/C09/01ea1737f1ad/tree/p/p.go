package p


func use(a, b []*interface{}) []*interface{} { return deriveIntersect(a, b) }
