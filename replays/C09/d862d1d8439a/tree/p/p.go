package p


func use(a <-chan string) uint64 { return deriveHash(a) }
