package p

import "unsafe"

type S struct {
	X map[int]unsafe.Pointer
}

func use(a *S) uint64 { return deriveHash(a) }
