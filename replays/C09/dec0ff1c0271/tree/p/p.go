package p


func use(a, b []func()) bool { return deriveEqual(a, b) }
