package p


func use(a, b []<-chan string) []<-chan string { return deriveUnion(a, b) }
