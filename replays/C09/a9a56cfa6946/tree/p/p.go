package p

type S struct {
	A int
	X struct{ S []int }
	B string
}

func use(a, b *S) bool { return deriveEqual(a, b) }
