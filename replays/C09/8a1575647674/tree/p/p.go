package p

type S struct {
	X [3]interface{}
}

func use(a, b *S) { deriveDeepCopy(a, b) }
