package p

import "unsafe"

type S struct {
	X *unsafe.Pointer
}

func use(a, b *S) int { return deriveCompare(a, b) }
