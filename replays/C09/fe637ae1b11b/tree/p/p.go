package p


func use(a, b map[string]func()) bool { return deriveEqual(a, b) }
