package p

type S struct {
	X [3]interface{}
}

func use(a *S) *S { return deriveClone(a) }
