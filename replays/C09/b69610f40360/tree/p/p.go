package p


func use(a chan int) uint64 { return deriveHash(a) }
