package p

type S struct {
	X map[string][]interface{}
}

func use(a map[string]*S) uint64 { return deriveHash(a) }
