package p


func use(a, b []map[string]struct{ S []int }) []map[string]struct{ S []int } { return deriveUnion(a, b) }
