package p


func use(l []struct{ S []int }) []struct{ S []int } { return deriveUnique(l) }
