package p

type NB bool

type NC complex128

func use(a, b complex64) complex64 { return deriveMax(a, b) }
