package p

type NB bool

type NC complex128

func use(l []complex64, d complex64) complex64 { return deriveMax(l, d) }
