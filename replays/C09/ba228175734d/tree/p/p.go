package p


func use() { deriveMem(nil) }
