package p


func use(a, b []struct{ S []int }) []struct{ S []int } { return deriveIntersect(a, b) }
