package p

import "unsafe"


func use(a, b [2]unsafe.Pointer) int { return deriveCompare(a, b) }
