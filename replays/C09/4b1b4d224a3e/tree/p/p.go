package p

import "unsafe"


func use(l [][2]unsafe.Pointer) [][2]unsafe.Pointer { return deriveSort(l) }
