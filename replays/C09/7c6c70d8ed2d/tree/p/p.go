package p


func f(a []<-chan string) int { return 1 }

func use() func([]<-chan string) int { return deriveMem(f) }
