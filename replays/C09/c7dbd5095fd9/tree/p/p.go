package p

type S struct {
	X map[int]func()
}

func use(a *S) uint64 { return deriveHash(a) }
