package p

type S struct {
	X map[int]error
}

func use(a, b *S) bool { return deriveEqual(a, b) }
