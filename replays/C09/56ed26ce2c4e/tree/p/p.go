package p


func use(l []func()) []func() { return deriveUnique(l) }
