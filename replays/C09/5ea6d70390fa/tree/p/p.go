package p


func use(a, b []map[string]chan int) []map[string]chan int { return deriveUnion(a, b) }
