package p


func use(a, b []map[string]func()) []map[string]func() { return deriveUnion(a, b) }
