package p

import "unsafe"


func use(l []*unsafe.Pointer) []*unsafe.Pointer { return deriveUnique(l) }
