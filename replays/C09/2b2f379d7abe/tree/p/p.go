package p


func use(a map[string]struct{ S []int }) uint64 { return deriveHash(a) }
