package p


func use(a, b [2]interface{}) bool { return deriveEqual(a, b) }
