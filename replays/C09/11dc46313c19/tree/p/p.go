package p

type S struct{ A int }
func (s S) M(a, b int) int { return a }
var s S

func use() { deriveEqual(s.M) }
