package p

type S struct {
	A int
	X interface{}
}

func use(a, b S) bool { return deriveEqual(a, b) }
