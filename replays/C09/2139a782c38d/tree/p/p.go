package p


func use(a, b map[string]chan int) bool { return deriveEqual(a, b) }
