package p


func use(a [2]error) uint64 { return deriveHash(a) }
