package p


func use(a [2]chan int) [2]chan int { return deriveClone(a) }
