package p

type S struct {
	A int
	X struct{ S []int }
	B string
}

func use(a *S) uint64 { return deriveHash(a) }
