package other
