package p


func use(l []*func(), a *func()) bool { return deriveContains(l, a) }
