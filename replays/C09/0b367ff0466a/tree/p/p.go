package p


func use() { deriveHash(func(a, b int) int { return a }) }
