package p

type S struct {
	A int
	X func()
}

func use(a, b S) bool { return deriveEqual(a, b) }
