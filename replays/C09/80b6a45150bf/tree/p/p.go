package p


func use(a, b []struct{ S []int }) bool { return deriveEqual(a, b) }
