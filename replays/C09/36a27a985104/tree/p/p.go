package p

type S struct {
	X map[int]<-chan string
}

func use(a, b *S) bool { return deriveEqual(a, b) }
