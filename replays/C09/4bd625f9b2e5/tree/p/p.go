package p


func f(a chan int) int { return 1 }

func use() func(chan int) int { return deriveMem(f) }
