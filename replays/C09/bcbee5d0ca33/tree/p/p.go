package p


func use(a, b map[string]error) bool { return deriveEqual(a, b) }
