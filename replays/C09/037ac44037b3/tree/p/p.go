package p

type S struct {
	X map[string][]error
}

func use(a, b map[string]*S) bool { return deriveEqual(a, b) }
