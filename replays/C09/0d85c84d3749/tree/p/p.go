package p


func use(a, b [2]chan int) bool { return deriveEqual(a, b) }
