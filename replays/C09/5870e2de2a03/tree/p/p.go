package p


func f(a map[string]interface{}) int { return 1 }

func use() func(map[string]interface{}) int { return deriveMem(f) }
