package p

type S struct {
	X map[string][]interface{}
}

func use(a, b map[string]*S) bool { return deriveEqual(a, b) }
