package p

type S struct {
	A int
	X <-chan string
	B string
}

func use(a, b []*S) []*S { return deriveIntersect(a, b) }
