package p

type In struct {
	X <-chan string
}

type S struct {
	I In
	P *In
	L []In
}

func use(a, b *S) bool { return deriveEqual(a, b) }
