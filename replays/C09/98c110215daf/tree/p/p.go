package p


func use(a, b []*func()) []*func() { return deriveUnion(a, b) }
