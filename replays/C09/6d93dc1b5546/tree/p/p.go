package p


func f(a [2]func()) int { return 1 }

func use() func([2]func()) int { return deriveMem(f) }
