package p


func use(l []<-chan string, a <-chan string) bool { return deriveContains(l, a) }
