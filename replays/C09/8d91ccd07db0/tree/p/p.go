package p

type S struct {
	X func()
}

func use(a, b []S) bool { return deriveEqual(a, b) }
