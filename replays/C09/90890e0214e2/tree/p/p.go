package p

type S struct {
	X map[int]struct{ S []int }
}

func use(a, b *S) bool { return deriveEqual(a, b) }
