package p


func use(l [][2]<-chan string, a [2]<-chan string) bool { return deriveContains(l, a) }
