package p

import "unsafe"

type S struct {
	X *unsafe.Pointer
}

func use(a *S) uint64 { return deriveHash(a) }
