package p


func use(l [][2]struct{ S []int }) [][2]struct{ S []int } { return deriveUnique(l) }
