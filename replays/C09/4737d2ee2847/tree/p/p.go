package p


func f(a *interface{}) int { return 1 }

func use() func(*interface{}) int { return deriveMem(f) }
