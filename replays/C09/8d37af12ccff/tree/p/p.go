package p

type S struct {
	A int
	X <-chan string
	B string
}

func use(a, b *S) bool { return deriveEqual(a)(b) }
