package p

type S struct {
	X [3]interface{}
}

func use(a *S) uint64 { return deriveHash(a) }
