package p

type S struct{ A int }

func use(a, b map[*S]string) { deriveDeepCopy(a, b) }
