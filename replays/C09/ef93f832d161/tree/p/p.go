package p

var ch chan int

func use() { deriveEqual(ch) }
