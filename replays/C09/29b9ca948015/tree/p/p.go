package p


func use(a []error) uint64 { return deriveHash(a) }
