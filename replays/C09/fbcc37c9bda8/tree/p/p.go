package p

type S struct {
	X *struct{ S []int }
}

func use(a, b *S) bool { return deriveEqual(a, b) }
