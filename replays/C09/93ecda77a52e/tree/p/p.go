package p

import "unsafe"


func use(a [2]unsafe.Pointer) uint64 { return deriveHash(a) }
