package p


func use(l []map[string]error) []map[string]error { return deriveUnique(l) }
