package p


func use(l [][]<-chan string) [][]<-chan string { return deriveUnique(l) }
