package p


func use(l []chan int) []chan int { return deriveUnique(l) }
