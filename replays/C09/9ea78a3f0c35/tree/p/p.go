package p


func use(l [][2]chan int) [][2]chan int { return deriveUnique(l) }
