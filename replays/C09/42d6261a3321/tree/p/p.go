package p

import "unsafe"


func use(a, b *unsafe.Pointer) int { return deriveCompare(a, b) }
