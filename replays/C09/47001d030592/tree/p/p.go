package p

type S struct {
	X [3]func()
}

func use(a *S) uint64 { return deriveHash(a) }
