package p


func f(a *error) int { return 1 }

func use() func(*error) int { return deriveMem(f) }
