package p

import "unsafe"


func use(a, b map[string]unsafe.Pointer) int { return deriveCompare(a, b) }
