package p

import "unsafe"

type S struct {
	A int
	X unsafe.Pointer
	B string
}

func use(a *S) uint64 { return deriveHash(a) }
