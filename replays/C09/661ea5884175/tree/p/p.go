package p

type S struct{ A int }

func use(a map[*S]string) map[*S]string { return deriveClone(a) }
