package p

type In struct {
	X struct{ S []int }
}

type S struct {
	I In
	P *In
	L []In
}

func use(a, b *S) bool { return deriveEqual(a, b) }
