package p


func use(a, b *<-chan string) bool { return deriveEqual(a, b) }
