package p


func use(a, b [][]error) [][]error { return deriveUnion(a, b) }
