package p


func use(a, b []map[string]error) []map[string]error { return deriveIntersect(a, b) }
