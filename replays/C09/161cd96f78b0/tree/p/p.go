package p

type In struct {
	X chan int
}

type S struct {
	I In
	P *In
	L []In
}

func use(a *S) uint64 { return deriveHash(a) }
