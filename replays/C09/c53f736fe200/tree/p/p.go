package p


func f(a [2]chan int) int { return 1 }

func use() func([2]chan int) int { return deriveMem(f) }
