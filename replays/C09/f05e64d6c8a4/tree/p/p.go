package p


func use(a [2]interface{}) [2]interface{} { return deriveClone(a) }
