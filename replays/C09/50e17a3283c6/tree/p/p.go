package p

import "unsafe"

type S struct {
	A int
	X unsafe.Pointer
	B string
}

func use(a, b *S) int { return deriveCompare(a, b) }
