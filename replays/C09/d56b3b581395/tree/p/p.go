package p

type S struct {
	X [3]error
}

func use(a, b *S) { deriveDeepCopy(a, b) }
