package p


func use() { deriveClone(1) }
