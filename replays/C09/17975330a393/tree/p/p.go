package p

import "unsafe"


func use(l []map[string]unsafe.Pointer) []map[string]unsafe.Pointer { return deriveUnique(l) }
