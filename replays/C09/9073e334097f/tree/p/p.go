package p

type S struct {
	X []<-chan string
}

func use(a *S) uint64 { return deriveHash(a) }
