package p

type S struct {
	X [3]<-chan string
}

func use(a, b *S) { deriveDeepCopy(a, b) }
