package p

type S struct{ A int }

func use(a map[*int]string) map[*int]string { return deriveClone(a) }
