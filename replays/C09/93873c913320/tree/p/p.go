package p


func use(a, b [][2]struct{ S []int }) [][2]struct{ S []int } { return deriveIntersect(a, b) }
