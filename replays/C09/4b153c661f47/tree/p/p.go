package p

import "unsafe"

type S struct {
	X map[int]unsafe.Pointer
}

func use(a, b *S) int { return deriveCompare(a, b) }
