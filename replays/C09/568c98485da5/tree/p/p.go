package p

type NB bool

type NC complex128

func use(a, b bool) bool { return deriveMax(a, b) }
