package p

type S struct {
	X map[string][]struct{ S []int }
}

func use(a, b map[string]*S) bool { return deriveEqual(a, b) }
