package p

import "unsafe"

type In struct {
	X unsafe.Pointer
}

type S struct {
	I In
	P *In
	L []In
}

func use(a *S) uint64 { return deriveHash(a) }
