package p

type NB bool

type NC complex128

func use(l []bool, d bool) bool { return deriveMin(l, d) }
