package p


func use(a, b [2]error) bool { return deriveEqual(a, b) }
