package p

type S struct {
	X func()
}

func use(a []S) uint64 { return deriveHash(a) }
