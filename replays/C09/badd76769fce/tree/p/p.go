package p

type S struct {
	X map[int]func()
}

func use(a, b *S) bool { return deriveEqual(a, b) }
