package p


func use(l [][2]func()) [][2]func() { return deriveUnique(l) }
