package p

import "unsafe"


func use(a map[string]unsafe.Pointer) uint64 { return deriveHash(a) }
