package p

type S struct {
	A int
	X <-chan string
}

func use(a S) uint64 { return deriveHash(a) }
