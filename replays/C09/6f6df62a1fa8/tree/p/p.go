package p


func f(a func()) int { return 1 }

func use() func(func()) int { return deriveMem(f) }
