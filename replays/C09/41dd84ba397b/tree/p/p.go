package p

type S struct {
	X []interface{}
}

func use(a, b *S) bool { return deriveEqual(a, b) }
