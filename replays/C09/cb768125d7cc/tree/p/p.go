package p


func use(a, b [][2]func()) [][2]func() { return deriveIntersect(a, b) }
