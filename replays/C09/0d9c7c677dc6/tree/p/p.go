package p

import "unsafe"

type S struct {
	X map[string][]unsafe.Pointer
}

func use(a map[string]*S) uint64 { return deriveHash(a) }
