package p

var m = map[string]int{}

func use() { deriveMem(m) }
