package p


func use(l []map[string]interface{}) []map[string]interface{} { return deriveUnique(l) }
