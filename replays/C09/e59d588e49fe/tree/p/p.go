package p


func use(a, b [2]<-chan string) bool { return deriveEqual(a, b) }
