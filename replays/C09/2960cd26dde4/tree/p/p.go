package p


func use(a, b map[string]<-chan string) bool { return deriveEqual(a, b) }
