package p

type In struct {
	X func()
}

type S struct {
	I In
	P *In
	L []In
}

func use(a, b *S) bool { return deriveEqual(a, b) }
