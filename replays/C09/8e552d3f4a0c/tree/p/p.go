package p


func use(a, b [][2]<-chan string) [][2]<-chan string { return deriveUnion(a, b) }
