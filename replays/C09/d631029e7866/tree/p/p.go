package p

import "unsafe"


func f(a *unsafe.Pointer) int { return 1 }

func use() func(*unsafe.Pointer) int { return deriveMem(f) }
