package p


func use(l [][]interface{}, a []interface{}) bool { return deriveContains(l, a) }
