package p


func use(a [2]interface{}) uint64 { return deriveHash(a) }
