package p

type S struct {
	X []<-chan string
}

func use(a, b *S) bool { return deriveEqual(a, b) }
