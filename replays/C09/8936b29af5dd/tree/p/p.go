package p

type S struct {
	X map[int]chan int
}

func use(a, b *S) bool { return deriveEqual(a, b) }
