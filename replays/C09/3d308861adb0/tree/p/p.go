package p


func use(a, b []interface{}) bool { return deriveEqual(a, b) }
