package p

type S struct {
	X chan int
}

func use(a, b []S) bool { return deriveEqual(a, b) }
