package p

type S struct {
	A int
	X <-chan string
	B string
}

func use(l []*S) []*S { return deriveUnique(l) }
