package p


func use(a map[string]interface{}) uint64 { return deriveHash(a) }
