package p

func h() {}

func use() { deriveEqual(h) }
