package p

import "unsafe"


func use(a, b unsafe.Pointer) unsafe.Pointer { return deriveMax(a, b) }
