package p


func use(a func()) uint64 { return deriveHash(a) }
