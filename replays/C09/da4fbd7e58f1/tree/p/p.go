package p

import "unsafe"


func f(a map[string]unsafe.Pointer) int { return 1 }

func use() func(map[string]unsafe.Pointer) int { return deriveMem(f) }
