package p

type NB bool

type NC complex128

func use(l []NB) []NB { return deriveSort(l) }
