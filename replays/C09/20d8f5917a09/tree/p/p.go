package p

type NB bool

type NC complex128

func use(a, b complex128) complex128 { return deriveMin(a, b) }
