package p


func use(a, b []*error) []*error { return deriveIntersect(a, b) }
