package p


func use(a, b map[string]struct{ S []int }) bool { return deriveEqual(a, b) }
