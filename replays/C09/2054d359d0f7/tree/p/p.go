package p


func use(a [2]func()) [2]func() { return deriveClone(a) }
