package p


func use(a [2]chan int) uint64 { return deriveHash(a) }
