package p

type S struct {
	X [3]func()
}

func use(a, b *S) { deriveDeepCopy(a, b) }
