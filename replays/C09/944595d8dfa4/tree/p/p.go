package p


func use(a *struct{ S []int }) uint64 { return deriveHash(a) }
