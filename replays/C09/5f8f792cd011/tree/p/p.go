package p


func use(a map[string]error) uint64 { return deriveHash(a) }
