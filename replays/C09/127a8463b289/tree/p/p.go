package p

type T struct {
	A int
	B []string
}

func eq(a, b *T) bool { return deriveEqual(a, b) }
