package p


func use(a, b [][2]chan int) [][2]chan int { return deriveIntersect(a, b) }
