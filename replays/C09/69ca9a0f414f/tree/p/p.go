package p


func use(l []*interface{}) []*interface{} { return deriveUnique(l) }
