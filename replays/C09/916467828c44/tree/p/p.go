package p


func use(a map[string]func()) uint64 { return deriveHash(a) }
