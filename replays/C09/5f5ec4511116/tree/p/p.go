package p


func use(a map[string]chan int) uint64 { return deriveHash(a) }
