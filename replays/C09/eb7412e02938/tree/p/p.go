package p

type S struct {
	A int
	X <-chan string
	B string
}

func f(a *S) int { return 1 }

func use() func(*S) int { return deriveMem(f) }
