package p


func f(a [2]struct{ S []int }) int { return 1 }

func use() func([2]struct{ S []int }) int { return deriveMem(f) }
