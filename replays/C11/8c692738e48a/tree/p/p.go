package p

type A struct{ X int }

type B struct{ Y string }

type C struct{ Z []int }

func use0(a, b *B) bool { return deriveEqual(a, b) }

func use1(a, b *B) bool { return deriveEqual_(a, b) }

func use2(a, b *B) bool { return deriveEqualX(a, b) }

