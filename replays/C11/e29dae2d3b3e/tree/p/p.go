package p

type A struct{ X int }

type B struct{ Y string }

type C struct{ Z []int }

func use0(a, b *A) bool { return deriveEqual_(a, b) }

func use1(a, b *B) bool { return deriveEqualX(a, b) }

func use2(a, b *C) bool { return deriveEqual_(a, b) }

func use3(a *C) uint64 { return deriveHashX(a) }

func use4(a *A) uint64 { return deriveHash(a) }

func use5(a, b *C) bool { return deriveEqual_(a, b) }

