package p

type A struct{ X int }

type B struct{ Y string }

type C struct{ Z []int }

// hand-written functions occupying the first helper names goderive would mint
func deriveEqual_(x int) int { return x }

func deriveHash_(x int) int { return x }

var _ = deriveEqual_(1) + deriveHash_(2)

func use0(a *A) uint64 { return deriveHash(a) }

func use1(a *C) uint64 { return deriveHashY(a) }

func use2(a *A) uint64 { return deriveHashX(a) }

func use3(a, b *A) bool { return deriveEqualX(a, b) }

func use4(a, b *B) bool { return deriveEqualY(a, b) }

func use5(a, b *C) bool { return deriveEqualY(a, b) }

