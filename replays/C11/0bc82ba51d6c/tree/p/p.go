package p

type A struct{ X int }

type B struct{ Y string }

type C struct{ Z []int }

func use0(a, b *C) bool { return deriveEqual(a, b) }

func use1(a, b *C) bool { return deriveEqualX(a, b) }

func use2(a, b *C) bool { return deriveEqualX(a, b) }

