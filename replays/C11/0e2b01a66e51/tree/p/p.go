package p

type A struct{ X int }

type B struct{ Y string }

type C struct{ Z []int }

// hand-written functions occupying the first helper names goderive would mint
func deriveEqual_(x int) int { return x }

func deriveHash_(x int) int { return x }

var _ = deriveEqual_(1) + deriveHash_(2)

func use0(a, b *B) bool { return deriveEqual(a, b) }

func use1(a, b *C) bool { return deriveEqual(a, b) }

func use2(a, b *C) bool { return deriveEqual(a, b) }

