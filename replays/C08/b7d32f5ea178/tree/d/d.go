package d

import (
	"scratch/a"
	"scratch/px"
)

type D struct {
	A *a.A
	M map[string]px.P
	S struct{ N px.Label }
}

func eq(x, y *D) bool { return deriveEqual(x, y) }

func g(x *D) *D { return deriveClone(x) }

func s(a struct{ N px.Label }) uint64 { return deriveHash(a) }
