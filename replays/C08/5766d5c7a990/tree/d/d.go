package d

import (
	"scratch/a"
	"scratch/px"
)

type D struct {
	A *a.A
	M map[string]px.P
}

func eq(x, y *D) bool { return deriveEqual(x, y) }

func g(x *D) *D { return deriveClone(x) }

func s(a, b struct {
	N px.Label
	M []int
}) bool {
	return deriveEqual(a, b)
}
