package a

import "scratch/px"

type A struct {
	X px.P
	L []px.P
}

func eq(a, b *A) bool { return deriveEqual(a, b) }

func h(a *A) uint64 { return deriveHash(a) }

func c(a, b *A) int { return deriveCompare(a, b) }
