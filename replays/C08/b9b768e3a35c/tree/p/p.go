package p

type IntsA []int

type IntsB []int

type IntsC []int

type MapA map[string]int

type MapB map[string]int

type PtrA *string

type PtrB *string

type Holder struct {
	L []int
	M map[string]int
	P *string
}

func h1(a IntsA) uint64 { return deriveHashA(a) }
func h2(a IntsB) uint64 { return deriveHashB(a) }
func h3(a IntsC) uint64 { return deriveHashC(a) }
func h4(a MapA) uint64  { return deriveHashMA(a) }
func h5(a MapB) uint64  { return deriveHashMB(a) }
func h6(a *Holder) uint64 { return deriveHashH(a) }

func e1(a, b IntsA) bool { return deriveEqualA(a, b) }
func e2(a, b IntsB) bool { return deriveEqualB(a, b) }
func e3(a, b MapA) bool  { return deriveEqualMA(a, b) }
func e4(a, b MapB) bool  { return deriveEqualMB(a, b) }
func e5(a, b PtrA) bool  { return deriveEqualPA(a, b) }
func e6(a, b PtrB) bool  { return deriveEqualPB(a, b) }
func e7(a, b *Holder) bool { return deriveEqualH(a, b) }

func c1(a, b IntsA) int { return deriveCompareA(a, b) }
func c2(a, b IntsB) int { return deriveCompareB(a, b) }
func c3(a, b MapA) int  { return deriveCompareMA(a, b) }
func c4(a, b MapB) int  { return deriveCompareMB(a, b) }
func c5(a, b *Holder) int { return deriveCompareH(a, b) }

func g1(a IntsA) string { return deriveGoStringA(a) }
func g2(a IntsB) string { return deriveGoStringB(a) }
func g3(a MapA) string  { return deriveGoStringMA(a) }
func g4(a MapB) string  { return deriveGoStringMB(a) }
func g5(a *Holder) string { return deriveGoStringH(a) }

func d1(a, b IntsA) { deriveDeepCopyA(a, b) }
func d2(a, b IntsB) { deriveDeepCopyB(a, b) }
func d3(a, b MapA)  { deriveDeepCopyMA(a, b) }
func d4(a, b MapB)  { deriveDeepCopyMB(a, b) }
func d5(a, b *Holder) { deriveDeepCopyH(a, b) }
