package px

type Label string

type P struct {
	N Label
	q []int
}

func eq(a, b *P) bool { return deriveEqual(a, b) }

func cl(a *P) *P { return deriveClone(a) }

func s(a struct {
	N Label
	M []int
}) uint64 {
	return deriveHash(a)
}
