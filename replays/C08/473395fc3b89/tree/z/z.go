package z

type Z struct{ K map[int][]string }

func ks(z *Z) []int { return deriveSort(deriveKeys(z.K)) }

func e(a, b *Z) bool { return deriveEqual(a, b) }
