package p

type T0 struct {
	F0 float64
	F1 *int
	F2 [2]bool
	F3 []*int
}

type T1 struct {
	F0 *string
	F1 map[string]int
}

type T2 struct {
	F0 int
	F1 T1
	F2 string
}

func use0(a, b *T2) { deriveDeepCopyR3(a, b) }

func use1(a, b *T1) int { return deriveCompareN2(a, b) }

