package p

type T0 struct {
	F0 []*int
	F1 int
}

type T1 struct {
	F0 [2]bool
	F1 []int
	F2 []*int
	F3 *string
}

type T2 struct {
	F0 uint8
}

type T3 struct {
	F0 *T1
	F1 []string
}

func use0(m map[string]*int) int { return len(deriveKeysN1(m)) }

func use1(l []T3, d T3) T3 { return deriveMinN2(l, d) }

func use2(a, b *T2) int { return deriveCompareN3(a, b) }

func use3(l []T0, d T0) T0 { return deriveMinN4(l, d) }

func use4(l []T2, d T2) T2 { return deriveMinN5(l, d) }

