package p

type T0 struct {
	F0 map[int]string
	F1 int
	F2 uint8
}

type T1 struct {
	F0 uint8
	F1 []int
	F2 bool
}

func use0(a, b *T1) bool { return deriveEqualN1(a, b) }

func use1(a *T0) *T0 { return deriveCloneN2(a) }

func use2(m map[string]int) int { return len(deriveKeysN3(m)) }

func use3(m map[string][]int) int { return len(deriveSortN5(deriveKeysN5(m))) }

func use4(l []T1) []T1 { return deriveUniqueN4(l) }

