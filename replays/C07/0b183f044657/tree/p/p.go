package p

type T0 struct {
	F0 float64
	F1 int
	F2 []*int
}

type T1 struct {
	F0 float64
}

type T2 struct {
	F0 []string
}

type T3 struct {
	F0 map[int]string
	F1 *int
	G2 []int
}

func use0(m map[string]*int) int { return len(deriveSortN1(deriveKeysN1(m))) }

func use1(l []T0, x T0) bool { return deriveContainsN2(l, x) }

func use2(a *T1) uint64 { return deriveHashN3(a) }

func use3(l []T2) []T2 { return deriveUniqueN4(l) }

