package p


func use_I01x009_clone(a *W5) *W5 { return deriveCloneI01x009(a) }
func use_I01x009_compare(a, b *W5) int { return deriveCompareI01x009(a, b) }
func use_I01x009_comparec(a, b *W5) int { return deriveCompareCI01x009(a)(b) }
func use_I01x009_deepcopy(a, b *W5)  { deriveDeepCopyI01x009(a, b) }
func use_I01x009_equal(a, b *W5) bool { return deriveEqualI01x009(a, b) }
func use_I01x009_equalc(a, b *W5) bool { return deriveEqualCI01x009(a)(b) }
func use_I01x009_equalclone(a *W5) bool { return deriveEqualNI01x009(deriveCloneNI01x009(a), a) }
func use_I01x009_gostring(a *W5) string { return deriveGoStringI01x009(a) }
func use_I01x009_hash(a *W5) uint64 { return deriveHashI01x009(a) }
