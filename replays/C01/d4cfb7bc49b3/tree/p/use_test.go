package p

import (
	"testing"
)

func TestNothing(t *testing.T) {}

func use_I11x000_clone(a map[int]SR) map[int]SR { return deriveCloneI11x000(a) }
func use_I11x000_compare(a, b map[int]SR) int { return deriveCompareI11x000(a, b) }
func use_I11x000_comparec(a, b map[int]SR) int { return deriveCompareCI11x000(a)(b) }
func use_I11x000_deepcopy(a, b map[int]SR)  { deriveDeepCopyI11x000(a, b) }
func use_I11x000_equal(a, b map[int]SR) bool { return deriveEqualI11x000(a, b) }
func use_I11x000_equalc(a, b map[int]SR) bool { return deriveEqualCI11x000(a)(b) }
func use_I11x000_equalclone(a map[int]SR) bool { return deriveEqualI11x000(deriveCloneI11x000(a), a) }
func use_I11x000_gostring(a map[int]SR) string { return deriveGoStringI11x000(a) }
func use_I11x000_hash(a map[int]SR) uint64 { return deriveHashI11x000(a) }
func use_I11x000_keys(m map[int]SR) int { return len(deriveKeysI11x000(m)) }
func use_I11x000_sortkeys(m map[int]SR) int { return len(deriveSortI11x000(deriveKeysI11x000(m))) }
func use_I11x000L_all(p func(map[int]SR) bool, l []map[int]SR) bool { return deriveAllI11x000L(p, l) }
func use_I11x000L_any(p func(map[int]SR) bool, l []map[int]SR) bool { return deriveAnyI11x000L(p, l) }
func use_I11x000L_contains(l []map[int]SR, x map[int]SR) bool { return deriveContainsI11x000L(l, x) }
func use_I11x000L_filter(p func(map[int]SR) bool, l []map[int]SR) []map[int]SR { return deriveFilterI11x000L(p, l) }
func use_I11x000L_intersect(a, b []map[int]SR) []map[int]SR { return deriveIntersectI11x000L(a, b) }
func use_I11x000L_max(l []map[int]SR, d map[int]SR) map[int]SR { return deriveMaxI11x000L(l, d) }
func use_I11x000L_max2(a, b map[int]SR) map[int]SR { return deriveMaxBI11x000L(a, b) }
func use_I11x000L_min(l []map[int]SR, d map[int]SR) map[int]SR { return deriveMinI11x000L(l, d) }
func use_I11x000L_min2(a, b map[int]SR) map[int]SR { return deriveMinBI11x000L(a, b) }
func use_I11x000L_sort(l []map[int]SR) []map[int]SR { return deriveSortI11x000L(l) }
func use_I11x000L_takewhile(p func(map[int]SR) bool, l []map[int]SR) []map[int]SR { return deriveTakeWhileI11x000L(p, l) }
func use_I11x000L_union(a, b []map[int]SR) []map[int]SR { return deriveUnionI11x000L(a, b) }
func use_I11x000L_unique(l []map[int]SR) []map[int]SR { return deriveUniqueI11x000L(l) }
func use_I11x002_clone(a []map[int]NInt) []map[int]NInt { return deriveCloneI11x002(a) }
func use_I11x002_compare(a, b []map[int]NInt) int { return deriveCompareI11x002(a, b) }
func use_I11x002_comparec(a, b []map[int]NInt) int { return deriveCompareCI11x002(a)(b) }
func use_I11x002_deepcopy(a, b []map[int]NInt)  { deriveDeepCopyI11x002(a, b) }
func use_I11x002_equal(a, b []map[int]NInt) bool { return deriveEqualI11x002(a, b) }
func use_I11x002_equalc(a, b []map[int]NInt) bool { return deriveEqualCI11x002(a)(b) }
func use_I11x002_equalclone(a []map[int]NInt) bool { return deriveEqualI11x002(deriveCloneI11x002(a), a) }
func use_I11x002_gostring(a []map[int]NInt) string { return deriveGoStringI11x002(a) }
func use_I11x002_hash(a []map[int]NInt) uint64 { return deriveHashI11x002(a) }
func use_I11x005_clone(a *W3) *W3 { return deriveCloneI11x005(a) }
func use_I11x005_compare(a, b *W3) int { return deriveCompareI11x005(a, b) }
func use_I11x005_comparec(a, b *W3) int { return deriveCompareCI11x005(a)(b) }
func use_I11x005_deepcopy(a, b *W3)  { deriveDeepCopyI11x005(a, b) }
func use_I11x005_equal(a, b *W3) bool { return deriveEqualI11x005(a, b) }
func use_I11x005_equalc(a, b *W3) bool { return deriveEqualCI11x005(a)(b) }
func use_I11x005_equalclone(a *W3) bool { return deriveEqualI11x005(deriveCloneI11x005(a), a) }
func use_I11x005_gostring(a *W3) string { return deriveGoStringI11x005(a) }
func use_I11x005_hash(a *W3) uint64 { return deriveHashI11x005(a) }
func use_I11x006_clone(a SP) SP { return deriveCloneI11x006(a) }
func use_I11x006_compare(a, b SP) int { return deriveCompareI11x006(a, b) }
func use_I11x006_comparec(a, b SP) int { return deriveCompareCI11x006(a)(b) }
func use_I11x006_equal(a, b SP) bool { return deriveEqualI11x006(a, b) }
func use_I11x006_equalc(a, b SP) bool { return deriveEqualCI11x006(a)(b) }
func use_I11x006_equalclone(a SP) bool { return deriveEqualI11x006(deriveCloneI11x006(a), a) }
func use_I11x006_gostring(a SP) string { return deriveGoStringI11x006(a) }
func use_I11x006_hash(a SP) uint64 { return deriveHashI11x006(a) }
func use_I11x008L_all(p func(float64) bool, l []float64) bool { return deriveAllI11x008L(p, l) }
func use_I11x008L_any(p func(float64) bool, l []float64) bool { return deriveAnyI11x008L(p, l) }
func use_I11x008L_contains(l []float64, x float64) bool { return deriveContainsI11x008L(l, x) }
func use_I11x008L_filter(p func(float64) bool, l []float64) []float64 { return deriveFilterI11x008L(p, l) }
func use_I11x008L_intermap(a, b map[float64]struct{}) map[float64]struct{} { return deriveIntersectMI11x008L(a, b) }
func use_I11x008L_intersect(a, b []float64) []float64 { return deriveIntersectI11x008L(a, b) }
func use_I11x008L_max(l []float64, d float64) float64 { return deriveMaxI11x008L(l, d) }
func use_I11x008L_max2(a, b float64) float64 { return deriveMaxBI11x008L(a, b) }
func use_I11x008L_min(l []float64, d float64) float64 { return deriveMinI11x008L(l, d) }
func use_I11x008L_min2(a, b float64) float64 { return deriveMinBI11x008L(a, b) }
func use_I11x008L_set(l []float64) map[float64]struct{} { return deriveSetI11x008L(l) }
func use_I11x008L_sort(l []float64) []float64 { return deriveSortI11x008L(l) }
func use_I11x008L_takewhile(p func(float64) bool, l []float64) []float64 { return deriveTakeWhileI11x008L(p, l) }
func use_I11x008L_union(a, b []float64) []float64 { return deriveUnionI11x008L(a, b) }
func use_I11x008L_unionmap(a, b map[float64]struct{}) map[float64]struct{} { return deriveUnionMI11x008L(a, b) }
func use_I11x008L_unique(l []float64) []float64 { return deriveUniqueI11x008L(l) }
func use_I11x012_clone(a [][]bool) [][]bool { return deriveCloneI11x012(a) }
func use_I11x012_compare(a, b [][]bool) int { return deriveCompareI11x012(a, b) }
func use_I11x012_comparec(a, b [][]bool) int { return deriveCompareCI11x012(a)(b) }
func use_I11x012_deepcopy(a, b [][]bool)  { deriveDeepCopyI11x012(a, b) }
func use_I11x012_equal(a, b [][]bool) bool { return deriveEqualI11x012(a, b) }
func use_I11x012_equalc(a, b [][]bool) bool { return deriveEqualCI11x012(a)(b) }
func use_I11x012_equalclone(a [][]bool) bool { return deriveEqualI11x012(deriveCloneI11x012(a), a) }
func use_I11x012_gostring(a [][]bool) string { return deriveGoStringI11x012(a) }
func use_I11x012_hash(a [][]bool) uint64 { return deriveHashI11x012(a) }
func use_I11x016_clone(a map[NStr]int) map[NStr]int { return deriveCloneI11x016(a) }
func use_I11x016_compare(a, b map[NStr]int) int { return deriveCompareI11x016(a, b) }
func use_I11x016_comparec(a, b map[NStr]int) int { return deriveCompareCI11x016(a)(b) }
func use_I11x016_deepcopy(a, b map[NStr]int)  { deriveDeepCopyI11x016(a, b) }
func use_I11x016_equal(a, b map[NStr]int) bool { return deriveEqualI11x016(a, b) }
func use_I11x016_equalc(a, b map[NStr]int) bool { return deriveEqualCI11x016(a)(b) }
func use_I11x016_equalclone(a map[NStr]int) bool { return deriveEqualI11x016(deriveCloneI11x016(a), a) }
func use_I11x016_gostring(a map[NStr]int) string { return deriveGoStringI11x016(a) }
func use_I11x016_hash(a map[NStr]int) uint64 { return deriveHashI11x016(a) }
func use_I11x016_keys(m map[NStr]int) int { return len(deriveKeysI11x016(m)) }
func use_I11x016_sortkeys(m map[NStr]int) int { return len(deriveSortI11x016(deriveKeysI11x016(m))) }
func use_I11x016L_all(p func(map[NStr]int) bool, l []map[NStr]int) bool { return deriveAllI11x016L(p, l) }
func use_I11x016L_any(p func(map[NStr]int) bool, l []map[NStr]int) bool { return deriveAnyI11x016L(p, l) }
func use_I11x016L_contains(l []map[NStr]int, x map[NStr]int) bool { return deriveContainsI11x016L(l, x) }
func use_I11x016L_filter(p func(map[NStr]int) bool, l []map[NStr]int) []map[NStr]int { return deriveFilterI11x016L(p, l) }
func use_I11x016L_intersect(a, b []map[NStr]int) []map[NStr]int { return deriveIntersectI11x016L(a, b) }
func use_I11x016L_max(l []map[NStr]int, d map[NStr]int) map[NStr]int { return deriveMaxI11x016L(l, d) }
func use_I11x016L_max2(a, b map[NStr]int) map[NStr]int { return deriveMaxBI11x016L(a, b) }
func use_I11x016L_min(l []map[NStr]int, d map[NStr]int) map[NStr]int { return deriveMinI11x016L(l, d) }
func use_I11x016L_min2(a, b map[NStr]int) map[NStr]int { return deriveMinBI11x016L(a, b) }
func use_I11x016L_sort(l []map[NStr]int) []map[NStr]int { return deriveSortI11x016L(l) }
func use_I11x016L_takewhile(p func(map[NStr]int) bool, l []map[NStr]int) []map[NStr]int { return deriveTakeWhileI11x016L(p, l) }
func use_I11x016L_union(a, b []map[NStr]int) []map[NStr]int { return deriveUnionI11x016L(a, b) }
func use_I11x016L_unique(l []map[NStr]int) []map[NStr]int { return deriveUniqueI11x016L(l) }
func use_I11x018_clone(a []NStr) []NStr { return deriveCloneI11x018(a) }
func use_I11x018_compare(a, b []NStr) int { return deriveCompareI11x018(a, b) }
func use_I11x018_comparec(a, b []NStr) int { return deriveCompareCI11x018(a)(b) }
func use_I11x018_deepcopy(a, b []NStr)  { deriveDeepCopyI11x018(a, b) }
func use_I11x018_equal(a, b []NStr) bool { return deriveEqualI11x018(a, b) }
func use_I11x018_equalc(a, b []NStr) bool { return deriveEqualCI11x018(a)(b) }
func use_I11x018_equalclone(a []NStr) bool { return deriveEqualI11x018(deriveCloneI11x018(a), a) }
func use_I11x018_gostring(a []NStr) string { return deriveGoStringI11x018(a) }
func use_I11x018_hash(a []NStr) uint64 { return deriveHashI11x018(a) }
func use_I11x023_clone(a *W12) *W12 { return deriveCloneI11x023(a) }
func use_I11x023_compare(a, b *W12) int { return deriveCompareI11x023(a, b) }
func use_I11x023_comparec(a, b *W12) int { return deriveCompareCI11x023(a)(b) }
func use_I11x023_deepcopy(a, b *W12)  { deriveDeepCopyI11x023(a, b) }
func use_I11x023_equal(a, b *W12) bool { return deriveEqualI11x023(a, b) }
func use_I11x023_equalc(a, b *W12) bool { return deriveEqualCI11x023(a)(b) }
func use_I11x023_equalclone(a *W12) bool { return deriveEqualI11x023(deriveCloneI11x023(a), a) }
func use_I11x023_gostring(a *W12) string { return deriveGoStringI11x023(a) }
func use_I11x023_hash(a *W12) uint64 { return deriveHashI11x023(a) }
