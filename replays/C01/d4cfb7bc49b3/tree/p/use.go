package p

import (
	ext "scratch/ext"
)

var use_I11x001_clone = func(a *W1) *W1 { return deriveCloneI11x001(a) }
var use_I11x001_compare = func(a, b *W1) int { return deriveCompareI11x001(a, b) }
var use_I11x001_comparec = func(a, b *W1) int { return deriveCompareCI11x001(a)(b) }
var use_I11x001_deepcopy = func(a, b *W1)  { deriveDeepCopyI11x001(a, b) }
var use_I11x001_equal = func(a, b *W1) bool { return deriveEqualI11x001(a, b) }
var use_I11x001_equalc = func(a, b *W1) bool { return deriveEqualCI11x001(a)(b) }
var use_I11x001_equalclone = func(a *W1) bool { return deriveEqualI11x001(deriveCloneI11x001(a), a) }
var use_I11x001_gostring = func(a *W1) string { return deriveGoStringI11x001(a) }
var use_I11x001_hash = func(a *W1) uint64 { return deriveHashI11x001(a) }
var use_I11x002L_all = func(p func([]map[int]NInt) bool, l [][]map[int]NInt) bool { return deriveAllI11x002L(p, l) }
var use_I11x002L_any = func(p func([]map[int]NInt) bool, l [][]map[int]NInt) bool { return deriveAnyI11x002L(p, l) }
var use_I11x002L_contains = func(l [][]map[int]NInt, x []map[int]NInt) bool { return deriveContainsI11x002L(l, x) }
var use_I11x002L_filter = func(p func([]map[int]NInt) bool, l [][]map[int]NInt) [][]map[int]NInt { return deriveFilterI11x002L(p, l) }
var use_I11x002L_intersect = func(a, b [][]map[int]NInt) [][]map[int]NInt { return deriveIntersectI11x002L(a, b) }
var use_I11x002L_max = func(l [][]map[int]NInt, d []map[int]NInt) []map[int]NInt { return deriveMaxI11x002L(l, d) }
var use_I11x002L_max2 = func(a, b []map[int]NInt) []map[int]NInt { return deriveMaxBI11x002L(a, b) }
var use_I11x002L_min = func(l [][]map[int]NInt, d []map[int]NInt) []map[int]NInt { return deriveMinI11x002L(l, d) }
var use_I11x002L_min2 = func(a, b []map[int]NInt) []map[int]NInt { return deriveMinBI11x002L(a, b) }
var use_I11x002L_sort = func(l [][]map[int]NInt) [][]map[int]NInt { return deriveSortI11x002L(l) }
var use_I11x002L_takewhile = func(p func([]map[int]NInt) bool, l [][]map[int]NInt) [][]map[int]NInt { return deriveTakeWhileI11x002L(p, l) }
var use_I11x002L_union = func(a, b [][]map[int]NInt) [][]map[int]NInt { return deriveUnionI11x002L(a, b) }
var use_I11x002L_unique = func(l [][]map[int]NInt) [][]map[int]NInt { return deriveUniqueI11x002L(l) }
var use_I11x003_clone_a *W2
var use_I11x003_clone_v = deriveCloneI11x003(use_I11x003_clone_a)
var use_I11x003_compare_a *W2
var use_I11x003_compare_b *W2
var use_I11x003_compare_v = deriveCompareI11x003(use_I11x003_compare_a, use_I11x003_compare_b)
var use_I11x003_comparec_a *W2
var use_I11x003_comparec_b *W2
var use_I11x003_comparec_v = deriveCompareCI11x003(use_I11x003_comparec_a)(use_I11x003_comparec_b)
var use_I11x003_deepcopy_a *W2
var use_I11x003_deepcopy_b *W2
func init() { deriveDeepCopyI11x003(use_I11x003_deepcopy_a, use_I11x003_deepcopy_b) }
var use_I11x003_equal_a *W2
var use_I11x003_equal_b *W2
var use_I11x003_equal_v = deriveEqualI11x003(use_I11x003_equal_a, use_I11x003_equal_b)
var use_I11x003_equalc_a *W2
var use_I11x003_equalc_b *W2
var use_I11x003_equalc_v = deriveEqualCI11x003(use_I11x003_equalc_a)(use_I11x003_equalc_b)
var use_I11x003_equalclone_a *W2
var use_I11x003_equalclone_v = deriveEqualI11x003(deriveCloneI11x003(use_I11x003_equalclone_a), use_I11x003_equalclone_a)
var use_I11x003_gostring_a *W2
var use_I11x003_gostring_v = deriveGoStringI11x003(use_I11x003_gostring_a)
var use_I11x003_hash_a *W2
var use_I11x003_hash_v = deriveHashI11x003(use_I11x003_hash_a)
var use_I11x004_clone_a map[string][]rune
var use_I11x004_clone_v = deriveCloneI11x004(use_I11x004_clone_a)
var use_I11x004_compare_a map[string][]rune
var use_I11x004_compare_b map[string][]rune
var use_I11x004_compare_v = deriveCompareI11x004(use_I11x004_compare_a, use_I11x004_compare_b)
var use_I11x004_comparec_a map[string][]rune
var use_I11x004_comparec_b map[string][]rune
var use_I11x004_comparec_v = deriveCompareCI11x004(use_I11x004_comparec_a)(use_I11x004_comparec_b)
var use_I11x004_deepcopy_a map[string][]rune
var use_I11x004_deepcopy_b map[string][]rune
func init() { deriveDeepCopyI11x004(use_I11x004_deepcopy_a, use_I11x004_deepcopy_b) }
var use_I11x004_equal_a map[string][]rune
var use_I11x004_equal_b map[string][]rune
var use_I11x004_equal_v = deriveEqualI11x004(use_I11x004_equal_a, use_I11x004_equal_b)
var use_I11x004_equalc_a map[string][]rune
var use_I11x004_equalc_b map[string][]rune
var use_I11x004_equalc_v = deriveEqualCI11x004(use_I11x004_equalc_a)(use_I11x004_equalc_b)
var use_I11x004_equalclone_a map[string][]rune
var use_I11x004_equalclone_v = deriveEqualI11x004(deriveCloneI11x004(use_I11x004_equalclone_a), use_I11x004_equalclone_a)
var use_I11x004_gostring_a map[string][]rune
var use_I11x004_gostring_v = deriveGoStringI11x004(use_I11x004_gostring_a)
var use_I11x004_hash_a map[string][]rune
var use_I11x004_hash_v = deriveHashI11x004(use_I11x004_hash_a)
var use_I11x004_keys_m map[string][]rune
var use_I11x004_keys_v = len(deriveKeysI11x004(use_I11x004_keys_m))
var use_I11x004_sortkeys_m map[string][]rune
var use_I11x004_sortkeys_v = len(deriveSortI11x004(deriveKeysI11x004(use_I11x004_sortkeys_m)))
func use_I11x004L_all(p func(map[string][]rune) bool, l []map[string][]rune) bool { return deriveAllI11x004L(p, l) }
func use_I11x004L_any(p func(map[string][]rune) bool, l []map[string][]rune) bool { return deriveAnyI11x004L(p, l) }
func use_I11x004L_contains(l []map[string][]rune, x map[string][]rune) bool { return deriveContainsI11x004L(l, x) }
func use_I11x004L_filter(p func(map[string][]rune) bool, l []map[string][]rune) []map[string][]rune { return deriveFilterI11x004L(p, l) }
func use_I11x004L_intersect(a, b []map[string][]rune) []map[string][]rune { return deriveIntersectI11x004L(a, b) }
func use_I11x004L_max(l []map[string][]rune, d map[string][]rune) map[string][]rune { return deriveMaxI11x004L(l, d) }
func use_I11x004L_max2(a, b map[string][]rune) map[string][]rune { return deriveMaxBI11x004L(a, b) }
func use_I11x004L_min(l []map[string][]rune, d map[string][]rune) map[string][]rune { return deriveMinI11x004L(l, d) }
func use_I11x004L_min2(a, b map[string][]rune) map[string][]rune { return deriveMinBI11x004L(a, b) }
func use_I11x004L_sort(l []map[string][]rune) []map[string][]rune { return deriveSortI11x004L(l) }
func use_I11x004L_takewhile(p func(map[string][]rune) bool, l []map[string][]rune) []map[string][]rune { return deriveTakeWhileI11x004L(p, l) }
func use_I11x004L_union(a, b []map[string][]rune) []map[string][]rune { return deriveUnionI11x004L(a, b) }
func use_I11x004L_unique(l []map[string][]rune) []map[string][]rune { return deriveUniqueI11x004L(l) }
func use_I11x006L_all(p func(SP) bool, l []SP) bool { return deriveAllI11x006L(p, l) }
func use_I11x006L_any(p func(SP) bool, l []SP) bool { return deriveAnyI11x006L(p, l) }
func use_I11x006L_contains(l []SP, x SP) bool { return deriveContainsI11x006L(l, x) }
func use_I11x006L_filter(p func(SP) bool, l []SP) []SP { return deriveFilterI11x006L(p, l) }
func use_I11x006L_intersect(a, b []SP) []SP { return deriveIntersectI11x006L(a, b) }
func use_I11x006L_max(l []SP, d SP) SP { return deriveMaxI11x006L(l, d) }
func use_I11x006L_max2(a, b SP) SP { return deriveMaxBI11x006L(a, b) }
func use_I11x006L_min(l []SP, d SP) SP { return deriveMinI11x006L(l, d) }
func use_I11x006L_min2(a, b SP) SP { return deriveMinBI11x006L(a, b) }
func use_I11x006L_sort(l []SP) []SP { return deriveSortI11x006L(l) }
func use_I11x006L_takewhile(p func(SP) bool, l []SP) []SP { return deriveTakeWhileI11x006L(p, l) }
func use_I11x006L_union(a, b []SP) []SP { return deriveUnionI11x006L(a, b) }
func use_I11x006L_unique(l []SP) []SP { return deriveUniqueI11x006L(l) }
func use_I11x007_clone(a *W4) *W4 { return deriveCloneI11x007(a) }
func use_I11x007_compare(a, b *W4) int { return deriveCompareI11x007(a, b) }
func use_I11x007_comparec(a, b *W4) int { return deriveCompareCI11x007(a)(b) }
func use_I11x007_deepcopy(a, b *W4)  { deriveDeepCopyI11x007(a, b) }
func use_I11x007_equal(a, b *W4) bool { return deriveEqualI11x007(a, b) }
func use_I11x007_equalc(a, b *W4) bool { return deriveEqualCI11x007(a)(b) }
func use_I11x007_equalclone(a *W4) bool { return deriveEqualI11x007(deriveCloneI11x007(a), a) }
func use_I11x007_gostring(a *W4) string { return deriveGoStringI11x007(a) }
func use_I11x007_hash(a *W4) uint64 { return deriveHashI11x007(a) }
func use_I11x008_clone(a float64) float64 { return deriveCloneI11x008(a) }
func use_I11x008_compare(a, b float64) int { return deriveCompareI11x008(a, b) }
func use_I11x008_comparec(a, b float64) int { return deriveCompareCI11x008(a)(b) }
func use_I11x008_equal(a, b float64) bool { return deriveEqualI11x008(a, b) }
func use_I11x008_equalc(a, b float64) bool { return deriveEqualCI11x008(a)(b) }
func use_I11x008_equalclone(a float64) bool { return deriveEqualI11x008(deriveCloneI11x008(a), a) }
func use_I11x008_gostring(a float64) string { return deriveGoStringI11x008(a) }
func use_I11x008_hash(a float64) uint64 { return deriveHashI11x008(a) }
var use_I11x009_clone = func(a *W5) *W5 { return deriveCloneI11x009(a) }
var use_I11x009_compare = func(a, b *W5) int { return deriveCompareI11x009(a, b) }
var use_I11x009_comparec = func(a, b *W5) int { return deriveCompareCI11x009(a)(b) }
var use_I11x009_deepcopy = func(a, b *W5)  { deriveDeepCopyI11x009(a, b) }
var use_I11x009_equal = func(a, b *W5) bool { return deriveEqualI11x009(a, b) }
var use_I11x009_equalc = func(a, b *W5) bool { return deriveEqualCI11x009(a)(b) }
var use_I11x009_equalclone = func(a *W5) bool { return deriveEqualI11x009(deriveCloneI11x009(a), a) }
var use_I11x009_gostring = func(a *W5) string { return deriveGoStringI11x009(a) }
var use_I11x009_hash = func(a *W5) uint64 { return deriveHashI11x009(a) }
var use_I11x010_clone_a ext.Pub
var use_I11x010_clone_v = deriveCloneI11x010(use_I11x010_clone_a)
var use_I11x010_compare_a ext.Pub
var use_I11x010_compare_b ext.Pub
var use_I11x010_compare_v = deriveCompareI11x010(use_I11x010_compare_a, use_I11x010_compare_b)
var use_I11x010_comparec_a ext.Pub
var use_I11x010_comparec_b ext.Pub
var use_I11x010_comparec_v = deriveCompareCI11x010(use_I11x010_comparec_a)(use_I11x010_comparec_b)
var use_I11x010_equal_a ext.Pub
var use_I11x010_equal_b ext.Pub
var use_I11x010_equal_v = deriveEqualI11x010(use_I11x010_equal_a, use_I11x010_equal_b)
var use_I11x010_equalc_a ext.Pub
var use_I11x010_equalc_b ext.Pub
var use_I11x010_equalc_v = deriveEqualCI11x010(use_I11x010_equalc_a)(use_I11x010_equalc_b)
var use_I11x010_equalclone_a ext.Pub
var use_I11x010_equalclone_v = deriveEqualI11x010(deriveCloneI11x010(use_I11x010_equalclone_a), use_I11x010_equalclone_a)
var use_I11x010_gostring_a ext.Pub
var use_I11x010_gostring_v = deriveGoStringI11x010(use_I11x010_gostring_a)
var use_I11x010_hash_a ext.Pub
var use_I11x010_hash_v = deriveHashI11x010(use_I11x010_hash_a)
func use_I11x010L_all(p func(ext.Pub) bool, l []ext.Pub) bool { return deriveAllI11x010L(p, l) }
func use_I11x010L_any(p func(ext.Pub) bool, l []ext.Pub) bool { return deriveAnyI11x010L(p, l) }
func use_I11x010L_contains(l []ext.Pub, x ext.Pub) bool { return deriveContainsI11x010L(l, x) }
func use_I11x010L_filter(p func(ext.Pub) bool, l []ext.Pub) []ext.Pub { return deriveFilterI11x010L(p, l) }
func use_I11x010L_intersect(a, b []ext.Pub) []ext.Pub { return deriveIntersectI11x010L(a, b) }
func use_I11x010L_max(l []ext.Pub, d ext.Pub) ext.Pub { return deriveMaxI11x010L(l, d) }
func use_I11x010L_max2(a, b ext.Pub) ext.Pub { return deriveMaxBI11x010L(a, b) }
func use_I11x010L_min(l []ext.Pub, d ext.Pub) ext.Pub { return deriveMinI11x010L(l, d) }
func use_I11x010L_min2(a, b ext.Pub) ext.Pub { return deriveMinBI11x010L(a, b) }
func use_I11x010L_sort(l []ext.Pub) []ext.Pub { return deriveSortI11x010L(l) }
func use_I11x010L_takewhile(p func(ext.Pub) bool, l []ext.Pub) []ext.Pub { return deriveTakeWhileI11x010L(p, l) }
func use_I11x010L_union(a, b []ext.Pub) []ext.Pub { return deriveUnionI11x010L(a, b) }
func use_I11x010L_unique(l []ext.Pub) []ext.Pub { return deriveUniqueI11x010L(l) }
func use_I11x011_clone(a *W6) *W6 { return deriveCloneI11x011(a) }
func use_I11x011_compare(a, b *W6) int { return deriveCompareI11x011(a, b) }
func use_I11x011_comparec(a, b *W6) int { return deriveCompareCI11x011(a)(b) }
func use_I11x011_deepcopy(a, b *W6)  { deriveDeepCopyI11x011(a, b) }
func use_I11x011_equal(a, b *W6) bool { return deriveEqualI11x011(a, b) }
func use_I11x011_equalc(a, b *W6) bool { return deriveEqualCI11x011(a)(b) }
func use_I11x011_equalclone(a *W6) bool { return deriveEqualI11x011(deriveCloneI11x011(a), a) }
func use_I11x011_gostring(a *W6) string { return deriveGoStringI11x011(a) }
func use_I11x011_hash(a *W6) uint64 { return deriveHashI11x011(a) }
var use_I11x012L_all = func(p func([][]bool) bool, l [][][]bool) bool { return deriveAllI11x012L(p, l) }
var use_I11x012L_any = func(p func([][]bool) bool, l [][][]bool) bool { return deriveAnyI11x012L(p, l) }
var use_I11x012L_contains = func(l [][][]bool, x [][]bool) bool { return deriveContainsI11x012L(l, x) }
var use_I11x012L_filter = func(p func([][]bool) bool, l [][][]bool) [][][]bool { return deriveFilterI11x012L(p, l) }
var use_I11x012L_intersect = func(a, b [][][]bool) [][][]bool { return deriveIntersectI11x012L(a, b) }
var use_I11x012L_max = func(l [][][]bool, d [][]bool) [][]bool { return deriveMaxI11x012L(l, d) }
var use_I11x012L_max2 = func(a, b [][]bool) [][]bool { return deriveMaxBI11x012L(a, b) }
var use_I11x012L_min = func(l [][][]bool, d [][]bool) [][]bool { return deriveMinI11x012L(l, d) }
var use_I11x012L_min2 = func(a, b [][]bool) [][]bool { return deriveMinBI11x012L(a, b) }
var use_I11x012L_sort = func(l [][][]bool) [][][]bool { return deriveSortI11x012L(l) }
var use_I11x012L_takewhile = func(p func([][]bool) bool, l [][][]bool) [][][]bool { return deriveTakeWhileI11x012L(p, l) }
var use_I11x012L_union = func(a, b [][][]bool) [][][]bool { return deriveUnionI11x012L(a, b) }
var use_I11x012L_unique = func(l [][][]bool) [][][]bool { return deriveUniqueI11x012L(l) }
func use_I11x013_clone(a *W7) *W7 { return deriveCloneI11x013(a) }
func use_I11x013_compare(a, b *W7) int { return deriveCompareI11x013(a, b) }
func use_I11x013_comparec(a, b *W7) int { return deriveCompareCI11x013(a)(b) }
func use_I11x013_deepcopy(a, b *W7)  { deriveDeepCopyI11x013(a, b) }
func use_I11x013_equal(a, b *W7) bool { return deriveEqualI11x013(a, b) }
func use_I11x013_equalc(a, b *W7) bool { return deriveEqualCI11x013(a)(b) }
func use_I11x013_equalclone(a *W7) bool { return deriveEqualI11x013(deriveCloneI11x013(a), a) }
func use_I11x013_gostring(a *W7) string { return deriveGoStringI11x013(a) }
func use_I11x013_hash(a *W7) uint64 { return deriveHashI11x013(a) }
func use_I11x014_clone(a [][2]rune) [][2]rune { return deriveCloneI11x014(a) }
func use_I11x014_compare(a, b [][2]rune) int { return deriveCompareI11x014(a, b) }
func use_I11x014_comparec(a, b [][2]rune) int { return deriveCompareCI11x014(a)(b) }
func use_I11x014_deepcopy(a, b [][2]rune)  { deriveDeepCopyI11x014(a, b) }
func use_I11x014_equal(a, b [][2]rune) bool { return deriveEqualI11x014(a, b) }
func use_I11x014_equalc(a, b [][2]rune) bool { return deriveEqualCI11x014(a)(b) }
func use_I11x014_equalclone(a [][2]rune) bool { return deriveEqualI11x014(deriveCloneI11x014(a), a) }
func use_I11x014_gostring(a [][2]rune) string { return deriveGoStringI11x014(a) }
func use_I11x014_hash(a [][2]rune) uint64 { return deriveHashI11x014(a) }
func use_I11x014L_all(p func([][2]rune) bool, l [][][2]rune) bool { return deriveAllI11x014L(p, l) }
func use_I11x014L_any(p func([][2]rune) bool, l [][][2]rune) bool { return deriveAnyI11x014L(p, l) }
func use_I11x014L_contains(l [][][2]rune, x [][2]rune) bool { return deriveContainsI11x014L(l, x) }
func use_I11x014L_filter(p func([][2]rune) bool, l [][][2]rune) [][][2]rune { return deriveFilterI11x014L(p, l) }
func use_I11x014L_intersect(a, b [][][2]rune) [][][2]rune { return deriveIntersectI11x014L(a, b) }
func use_I11x014L_max(l [][][2]rune, d [][2]rune) [][2]rune { return deriveMaxI11x014L(l, d) }
func use_I11x014L_max2(a, b [][2]rune) [][2]rune { return deriveMaxBI11x014L(a, b) }
func use_I11x014L_min(l [][][2]rune, d [][2]rune) [][2]rune { return deriveMinI11x014L(l, d) }
func use_I11x014L_min2(a, b [][2]rune) [][2]rune { return deriveMinBI11x014L(a, b) }
func use_I11x014L_sort(l [][][2]rune) [][][2]rune { return deriveSortI11x014L(l) }
func use_I11x014L_takewhile(p func([][2]rune) bool, l [][][2]rune) [][][2]rune { return deriveTakeWhileI11x014L(p, l) }
func use_I11x014L_union(a, b [][][2]rune) [][][2]rune { return deriveUnionI11x014L(a, b) }
func use_I11x014L_unique(l [][][2]rune) [][][2]rune { return deriveUniqueI11x014L(l) }
var use_I11x015_clone_a *W8
var use_I11x015_clone_v = deriveCloneI11x015(use_I11x015_clone_a)
var use_I11x015_compare_a *W8
var use_I11x015_compare_b *W8
var use_I11x015_compare_v = deriveCompareI11x015(use_I11x015_compare_a, use_I11x015_compare_b)
var use_I11x015_comparec_a *W8
var use_I11x015_comparec_b *W8
var use_I11x015_comparec_v = deriveCompareCI11x015(use_I11x015_comparec_a)(use_I11x015_comparec_b)
var use_I11x015_deepcopy_a *W8
var use_I11x015_deepcopy_b *W8
func init() { deriveDeepCopyI11x015(use_I11x015_deepcopy_a, use_I11x015_deepcopy_b) }
var use_I11x015_equal_a *W8
var use_I11x015_equal_b *W8
var use_I11x015_equal_v = deriveEqualI11x015(use_I11x015_equal_a, use_I11x015_equal_b)
var use_I11x015_equalc_a *W8
var use_I11x015_equalc_b *W8
var use_I11x015_equalc_v = deriveEqualCI11x015(use_I11x015_equalc_a)(use_I11x015_equalc_b)
var use_I11x015_equalclone_a *W8
var use_I11x015_equalclone_v = deriveEqualI11x015(deriveCloneI11x015(use_I11x015_equalclone_a), use_I11x015_equalclone_a)
var use_I11x015_gostring_a *W8
var use_I11x015_gostring_v = deriveGoStringI11x015(use_I11x015_gostring_a)
var use_I11x015_hash_a *W8
var use_I11x015_hash_v = deriveHashI11x015(use_I11x015_hash_a)
var use_I11x017_clone_a *W9
var use_I11x017_clone_v = deriveCloneI11x017(use_I11x017_clone_a)
var use_I11x017_compare_a *W9
var use_I11x017_compare_b *W9
var use_I11x017_compare_v = deriveCompareI11x017(use_I11x017_compare_a, use_I11x017_compare_b)
var use_I11x017_comparec_a *W9
var use_I11x017_comparec_b *W9
var use_I11x017_comparec_v = deriveCompareCI11x017(use_I11x017_comparec_a)(use_I11x017_comparec_b)
var use_I11x017_deepcopy_a *W9
var use_I11x017_deepcopy_b *W9
func init() { deriveDeepCopyI11x017(use_I11x017_deepcopy_a, use_I11x017_deepcopy_b) }
var use_I11x017_equal_a *W9
var use_I11x017_equal_b *W9
var use_I11x017_equal_v = deriveEqualI11x017(use_I11x017_equal_a, use_I11x017_equal_b)
var use_I11x017_equalc_a *W9
var use_I11x017_equalc_b *W9
var use_I11x017_equalc_v = deriveEqualCI11x017(use_I11x017_equalc_a)(use_I11x017_equalc_b)
var use_I11x017_equalclone_a *W9
var use_I11x017_equalclone_v = deriveEqualI11x017(deriveCloneI11x017(use_I11x017_equalclone_a), use_I11x017_equalclone_a)
var use_I11x017_gostring_a *W9
var use_I11x017_gostring_v = deriveGoStringI11x017(use_I11x017_gostring_a)
var use_I11x017_hash_a *W9
var use_I11x017_hash_v = deriveHashI11x017(use_I11x017_hash_a)
var use_I11x018L_all = func(p func([]NStr) bool, l [][]NStr) bool { return deriveAllI11x018L(p, l) }
var use_I11x018L_any = func(p func([]NStr) bool, l [][]NStr) bool { return deriveAnyI11x018L(p, l) }
var use_I11x018L_contains = func(l [][]NStr, x []NStr) bool { return deriveContainsI11x018L(l, x) }
var use_I11x018L_filter = func(p func([]NStr) bool, l [][]NStr) [][]NStr { return deriveFilterI11x018L(p, l) }
var use_I11x018L_intersect = func(a, b [][]NStr) [][]NStr { return deriveIntersectI11x018L(a, b) }
var use_I11x018L_max = func(l [][]NStr, d []NStr) []NStr { return deriveMaxI11x018L(l, d) }
var use_I11x018L_max2 = func(a, b []NStr) []NStr { return deriveMaxBI11x018L(a, b) }
var use_I11x018L_min = func(l [][]NStr, d []NStr) []NStr { return deriveMinI11x018L(l, d) }
var use_I11x018L_min2 = func(a, b []NStr) []NStr { return deriveMinBI11x018L(a, b) }
var use_I11x018L_sort = func(l [][]NStr) [][]NStr { return deriveSortI11x018L(l) }
var use_I11x018L_takewhile = func(p func([]NStr) bool, l [][]NStr) [][]NStr { return deriveTakeWhileI11x018L(p, l) }
var use_I11x018L_union = func(a, b [][]NStr) [][]NStr { return deriveUnionI11x018L(a, b) }
var use_I11x018L_unique = func(l [][]NStr) [][]NStr { return deriveUniqueI11x018L(l) }
func use_I11x019_clone(a *W10) *W10 { return deriveCloneI11x019(a) }
func use_I11x019_compare(a, b *W10) int { return deriveCompareI11x019(a, b) }
func use_I11x019_comparec(a, b *W10) int { return deriveCompareCI11x019(a)(b) }
func use_I11x019_deepcopy(a, b *W10)  { deriveDeepCopyI11x019(a, b) }
func use_I11x019_equal(a, b *W10) bool { return deriveEqualI11x019(a, b) }
func use_I11x019_equalc(a, b *W10) bool { return deriveEqualCI11x019(a)(b) }
func use_I11x019_equalclone(a *W10) bool { return deriveEqualI11x019(deriveCloneI11x019(a), a) }
func use_I11x019_gostring(a *W10) string { return deriveGoStringI11x019(a) }
func use_I11x019_hash(a *W10) uint64 { return deriveHashI11x019(a) }
func use_I11x020_clone(a [2]NFloat) [2]NFloat { return deriveCloneI11x020(a) }
func use_I11x020_compare(a, b [2]NFloat) int { return deriveCompareI11x020(a, b) }
func use_I11x020_comparec(a, b [2]NFloat) int { return deriveCompareCI11x020(a)(b) }
func use_I11x020_equal(a, b [2]NFloat) bool { return deriveEqualI11x020(a, b) }
func use_I11x020_equalc(a, b [2]NFloat) bool { return deriveEqualCI11x020(a)(b) }
func use_I11x020_equalclone(a [2]NFloat) bool { return deriveEqualI11x020(deriveCloneI11x020(a), a) }
func use_I11x020_gostring(a [2]NFloat) string { return deriveGoStringI11x020(a) }
func use_I11x020_hash(a [2]NFloat) uint64 { return deriveHashI11x020(a) }
var use_I11x020L_all = func(p func([2]NFloat) bool, l [][2]NFloat) bool { return deriveAllI11x020L(p, l) }
var use_I11x020L_any = func(p func([2]NFloat) bool, l [][2]NFloat) bool { return deriveAnyI11x020L(p, l) }
var use_I11x020L_contains = func(l [][2]NFloat, x [2]NFloat) bool { return deriveContainsI11x020L(l, x) }
var use_I11x020L_filter = func(p func([2]NFloat) bool, l [][2]NFloat) [][2]NFloat { return deriveFilterI11x020L(p, l) }
var use_I11x020L_intermap = func(a, b map[[2]NFloat]struct{}) map[[2]NFloat]struct{} { return deriveIntersectMI11x020L(a, b) }
var use_I11x020L_intersect = func(a, b [][2]NFloat) [][2]NFloat { return deriveIntersectI11x020L(a, b) }
var use_I11x020L_max = func(l [][2]NFloat, d [2]NFloat) [2]NFloat { return deriveMaxI11x020L(l, d) }
var use_I11x020L_max2 = func(a, b [2]NFloat) [2]NFloat { return deriveMaxBI11x020L(a, b) }
var use_I11x020L_min = func(l [][2]NFloat, d [2]NFloat) [2]NFloat { return deriveMinI11x020L(l, d) }
var use_I11x020L_min2 = func(a, b [2]NFloat) [2]NFloat { return deriveMinBI11x020L(a, b) }
var use_I11x020L_set = func(l [][2]NFloat) map[[2]NFloat]struct{} { return deriveSetI11x020L(l) }
var use_I11x020L_sort = func(l [][2]NFloat) [][2]NFloat { return deriveSortI11x020L(l) }
var use_I11x020L_takewhile = func(p func([2]NFloat) bool, l [][2]NFloat) [][2]NFloat { return deriveTakeWhileI11x020L(p, l) }
var use_I11x020L_union = func(a, b [][2]NFloat) [][2]NFloat { return deriveUnionI11x020L(a, b) }
var use_I11x020L_unionmap = func(a, b map[[2]NFloat]struct{}) map[[2]NFloat]struct{} { return deriveUnionMI11x020L(a, b) }
var use_I11x020L_unique = func(l [][2]NFloat) [][2]NFloat { return deriveUniqueI11x020L(l) }
func use_I11x021_clone(a *W11) *W11 { return deriveCloneI11x021(a) }
func use_I11x021_compare(a, b *W11) int { return deriveCompareI11x021(a, b) }
func use_I11x021_comparec(a, b *W11) int { return deriveCompareCI11x021(a)(b) }
func use_I11x021_deepcopy(a, b *W11)  { deriveDeepCopyI11x021(a, b) }
func use_I11x021_equal(a, b *W11) bool { return deriveEqualI11x021(a, b) }
func use_I11x021_equalc(a, b *W11) bool { return deriveEqualCI11x021(a)(b) }
func use_I11x021_equalclone(a *W11) bool { return deriveEqualI11x021(deriveCloneI11x021(a), a) }
func use_I11x021_gostring(a *W11) string { return deriveGoStringI11x021(a) }
func use_I11x021_hash(a *W11) uint64 { return deriveHashI11x021(a) }
var use_I11x022_clone_a map[[2]bool]int
var use_I11x022_clone_v = deriveCloneI11x022(use_I11x022_clone_a)
var use_I11x022_compare_a map[[2]bool]int
var use_I11x022_compare_b map[[2]bool]int
var use_I11x022_compare_v = deriveCompareI11x022(use_I11x022_compare_a, use_I11x022_compare_b)
var use_I11x022_comparec_a map[[2]bool]int
var use_I11x022_comparec_b map[[2]bool]int
var use_I11x022_comparec_v = deriveCompareCI11x022(use_I11x022_comparec_a)(use_I11x022_comparec_b)
var use_I11x022_deepcopy_a map[[2]bool]int
var use_I11x022_deepcopy_b map[[2]bool]int
func init() { deriveDeepCopyI11x022(use_I11x022_deepcopy_a, use_I11x022_deepcopy_b) }
var use_I11x022_equal_a map[[2]bool]int
var use_I11x022_equal_b map[[2]bool]int
var use_I11x022_equal_v = deriveEqualI11x022(use_I11x022_equal_a, use_I11x022_equal_b)
var use_I11x022_equalc_a map[[2]bool]int
var use_I11x022_equalc_b map[[2]bool]int
var use_I11x022_equalc_v = deriveEqualCI11x022(use_I11x022_equalc_a)(use_I11x022_equalc_b)
var use_I11x022_equalclone_a map[[2]bool]int
var use_I11x022_equalclone_v = deriveEqualI11x022(deriveCloneI11x022(use_I11x022_equalclone_a), use_I11x022_equalclone_a)
var use_I11x022_gostring_a map[[2]bool]int
var use_I11x022_gostring_v = deriveGoStringI11x022(use_I11x022_gostring_a)
var use_I11x022_hash_a map[[2]bool]int
var use_I11x022_hash_v = deriveHashI11x022(use_I11x022_hash_a)
var use_I11x022_keys_m map[[2]bool]int
var use_I11x022_keys_v = len(deriveKeysI11x022(use_I11x022_keys_m))
var use_I11x022_sortkeys_m map[[2]bool]int
var use_I11x022_sortkeys_v = len(deriveSortI11x022(deriveKeysI11x022(use_I11x022_sortkeys_m)))
func use_I11x022L_all(p func(map[[2]bool]int) bool, l []map[[2]bool]int) bool { return deriveAllI11x022L(p, l) }
func use_I11x022L_any(p func(map[[2]bool]int) bool, l []map[[2]bool]int) bool { return deriveAnyI11x022L(p, l) }
func use_I11x022L_contains(l []map[[2]bool]int, x map[[2]bool]int) bool { return deriveContainsI11x022L(l, x) }
func use_I11x022L_filter(p func(map[[2]bool]int) bool, l []map[[2]bool]int) []map[[2]bool]int { return deriveFilterI11x022L(p, l) }
func use_I11x022L_intersect(a, b []map[[2]bool]int) []map[[2]bool]int { return deriveIntersectI11x022L(a, b) }
func use_I11x022L_max(l []map[[2]bool]int, d map[[2]bool]int) map[[2]bool]int { return deriveMaxI11x022L(l, d) }
func use_I11x022L_max2(a, b map[[2]bool]int) map[[2]bool]int { return deriveMaxBI11x022L(a, b) }
func use_I11x022L_min(l []map[[2]bool]int, d map[[2]bool]int) map[[2]bool]int { return deriveMinI11x022L(l, d) }
func use_I11x022L_min2(a, b map[[2]bool]int) map[[2]bool]int { return deriveMinBI11x022L(a, b) }
func use_I11x022L_sort(l []map[[2]bool]int) []map[[2]bool]int { return deriveSortI11x022L(l) }
func use_I11x022L_takewhile(p func(map[[2]bool]int) bool, l []map[[2]bool]int) []map[[2]bool]int { return deriveTakeWhileI11x022L(p, l) }
func use_I11x022L_union(a, b []map[[2]bool]int) []map[[2]bool]int { return deriveUnionI11x022L(a, b) }
func use_I11x022L_unique(l []map[[2]bool]int) []map[[2]bool]int { return deriveUniqueI11x022L(l) }
