package p


func use_Knamed-composites0_equal(a, b NSlice) bool { return deriveEqualKnamed-composites0(a, b) }
