package p


var use_I00x022_clone = func(a [2]map[string]float64) [2]map[string]float64 { return deriveCloneI00x022(a) }
var use_I00x022_compare = func(a, b [2]map[string]float64) int { return deriveCompareI00x022(a, b) }
var use_I00x022_comparec = func(a, b [2]map[string]float64) int { return deriveCompareCI00x022(a)(b) }
var use_I00x022_equal = func(a, b [2]map[string]float64) bool { return deriveEqualI00x022(a, b) }
var use_I00x022_equalc = func(a, b [2]map[string]float64) bool { return deriveEqualCI00x022(a)(b) }
var use_I00x022_equalclone = func(a [2]map[string]float64) bool { return deriveEqualNI00x022(deriveCloneNI00x022(a), a) }
var use_I00x022_gostring = func(a [2]map[string]float64) string { return deriveGoStringI00x022(a) }
var use_I00x022_hash = func(a [2]map[string]float64) uint64 { return deriveHashI00x022(a) }
