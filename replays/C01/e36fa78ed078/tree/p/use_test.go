package p

import (
	"testing"
)

func TestNothing(t *testing.T) {}

func use_I08x002_clone(a SV) SV { return deriveCloneI08x002(a) }
func use_I08x002_compare(a, b SV) int { return deriveCompareI08x002(a, b) }
func use_I08x002_comparec(a, b SV) int { return deriveCompareCI08x002(a)(b) }
func use_I08x002_equal(a, b SV) bool { return deriveEqualI08x002(a, b) }
func use_I08x002_equalc(a, b SV) bool { return deriveEqualCI08x002(a)(b) }
func use_I08x002_equalclone(a SV) bool { return deriveEqualNI08x002(deriveCloneNI08x002(a), a) }
func use_I08x002_gostring(a SV) string { return deriveGoStringI08x002(a) }
func use_I08x002_hash(a SV) uint64 { return deriveHashI08x002(a) }
