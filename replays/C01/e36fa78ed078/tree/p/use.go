package p


