package p


func use_I00x000_clone(a map[NInt]SP) map[NInt]SP { return deriveCloneI00x000(a) }
func use_I00x000_compare(a, b map[NInt]SP) int { return deriveCompareI00x000(a, b) }
func use_I00x000_comparec(a, b map[NInt]SP) int { return deriveCompareCI00x000(a)(b) }
func use_I00x000_deepcopy(a, b map[NInt]SP)  { deriveDeepCopyI00x000(a, b) }
func use_I00x000_equal(a, b map[NInt]SP) bool { return deriveEqualI00x000(a, b) }
func use_I00x000_equalc(a, b map[NInt]SP) bool { return deriveEqualCI00x000(a)(b) }
func use_I00x000_equalclone(a map[NInt]SP) bool { return deriveEqualNI00x000(deriveCloneNI00x000(a), a) }
func use_I00x000_gostring(a map[NInt]SP) string { return deriveGoStringI00x000(a) }
func use_I00x000_hash(a map[NInt]SP) uint64 { return deriveHashI00x000(a) }
func use_I00x000_keys(m map[NInt]SP) int { return len(deriveKeysI00x000(m)) }
func use_I00x000_sortkeys(m map[NInt]SP) int { return len(deriveSortI00x000(deriveKeysI00x000(m))) }
