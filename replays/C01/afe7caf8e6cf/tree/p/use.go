package p


