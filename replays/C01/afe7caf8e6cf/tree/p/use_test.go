package p

import (
	"testing"
)

func TestNothing(t *testing.T) {}

func use_I14x009_hash(a *W7) uint64 { return deriveHashI14x009(a) }
