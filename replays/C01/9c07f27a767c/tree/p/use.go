package p


func use_I11x021_clone(a *W11) *W11 { return deriveCloneI11x021(a) }
func use_I11x021_compare(a, b *W11) int { return deriveCompareI11x021(a, b) }
func use_I11x021_comparec(a, b *W11) int { return deriveCompareCI11x021(a)(b) }
func use_I11x021_deepcopy(a, b *W11)  { deriveDeepCopyI11x021(a, b) }
func use_I11x021_equal(a, b *W11) bool { return deriveEqualI11x021(a, b) }
func use_I11x021_equalc(a, b *W11) bool { return deriveEqualCI11x021(a)(b) }
func use_I11x021_equalclone(a *W11) bool { return deriveEqualI11x021(deriveCloneI11x021(a), a) }
func use_I11x021_gostring(a *W11) string { return deriveGoStringI11x021(a) }
func use_I11x021_hash(a *W11) uint64 { return deriveHashI11x021(a) }
