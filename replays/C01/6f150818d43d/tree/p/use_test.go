package p

import (
	"testing"
)

func TestNothing(t *testing.T) {}

func use_I17x010_clone(a map[SV]SP) map[SV]SP { return deriveCloneI17x010(a) }
func use_I17x010_compare(a, b map[SV]SP) int { return deriveCompareI17x010(a, b) }
func use_I17x010_comparec(a, b map[SV]SP) int { return deriveCompareCI17x010(a)(b) }
func use_I17x010_deepcopy(a, b map[SV]SP)  { deriveDeepCopyI17x010(a, b) }
func use_I17x010_equal(a, b map[SV]SP) bool { return deriveEqualI17x010(a, b) }
func use_I17x010_equalc(a, b map[SV]SP) bool { return deriveEqualCI17x010(a)(b) }
func use_I17x010_equalclone(a map[SV]SP) bool { return deriveEqualNI17x010(deriveCloneNI17x010(a), a) }
func use_I17x010_gostring(a map[SV]SP) string { return deriveGoStringI17x010(a) }
func use_I17x010_hash(a map[SV]SP) uint64 { return deriveHashI17x010(a) }
func use_I17x010_keys(m map[SV]SP) int { return len(deriveKeysI17x010(m)) }
func use_I17x010_sortkeys(m map[SV]SP) int { return len(deriveSortI17x010(deriveKeysI17x010(m))) }
