package p


