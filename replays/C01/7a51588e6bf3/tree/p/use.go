package p

import (
	ext "scratch/ext"
)

var use_I05x018_clone = func(a map[string]ext.Priv) map[string]ext.Priv { return deriveCloneI05x018(a) }
var use_I05x018_compare = func(a, b map[string]ext.Priv) int { return deriveCompareI05x018(a, b) }
var use_I05x018_comparec = func(a, b map[string]ext.Priv) int { return deriveCompareCI05x018(a)(b) }
var use_I05x018_deepcopy = func(a, b map[string]ext.Priv)  { deriveDeepCopyI05x018(a, b) }
var use_I05x018_equal = func(a, b map[string]ext.Priv) bool { return deriveEqualI05x018(a, b) }
var use_I05x018_equalc = func(a, b map[string]ext.Priv) bool { return deriveEqualCI05x018(a)(b) }
var use_I05x018_equalclone = func(a map[string]ext.Priv) bool { return deriveEqualNI05x018(deriveCloneNI05x018(a), a) }
var use_I05x018_hash = func(a map[string]ext.Priv) uint64 { return deriveHashI05x018(a) }
var use_I05x018_keys = func(m map[string]ext.Priv) int { return len(deriveKeysI05x018(m)) }
var use_I05x018_sortkeys = func(m map[string]ext.Priv) int { return len(deriveSortI05x018(deriveKeysI05x018(m))) }
