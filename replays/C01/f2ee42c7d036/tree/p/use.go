package p


func use_I07x005_hash(a *W3) uint64 { return deriveHashI07x005(a) }
