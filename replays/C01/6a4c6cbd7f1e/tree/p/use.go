package p


func use_Knamed-composites0_comparec(a, b NSlice) int { return deriveCompareCKnamed-composites0(a)(b) }
