package p


var use_I01x000L_all_p func(map[string]SR) bool
var use_I01x000L_all_l []map[string]SR
var use_I01x000L_all_v = deriveAllI01x000L(use_I01x000L_all_p, use_I01x000L_all_l)
var use_I01x000L_any_p func(map[string]SR) bool
var use_I01x000L_any_l []map[string]SR
var use_I01x000L_any_v = deriveAnyI01x000L(use_I01x000L_any_p, use_I01x000L_any_l)
var use_I01x000L_contains_l []map[string]SR
var use_I01x000L_contains_x map[string]SR
var use_I01x000L_contains_v = deriveContainsI01x000L(use_I01x000L_contains_l, use_I01x000L_contains_x)
var use_I01x000L_filter_p func(map[string]SR) bool
var use_I01x000L_filter_l []map[string]SR
var use_I01x000L_filter_v = deriveFilterI01x000L(use_I01x000L_filter_p, use_I01x000L_filter_l)
var use_I01x000L_intersect_a []map[string]SR
var use_I01x000L_intersect_b []map[string]SR
var use_I01x000L_intersect_v = deriveIntersectI01x000L(use_I01x000L_intersect_a, use_I01x000L_intersect_b)
var use_I01x000L_max_l []map[string]SR
var use_I01x000L_max_d map[string]SR
var use_I01x000L_max_v = deriveMaxI01x000L(use_I01x000L_max_l, use_I01x000L_max_d)
var use_I01x000L_max2_a map[string]SR
var use_I01x000L_max2_b map[string]SR
var use_I01x000L_max2_v = deriveMaxBI01x000L(use_I01x000L_max2_a, use_I01x000L_max2_b)
var use_I01x000L_min_l []map[string]SR
var use_I01x000L_min_d map[string]SR
var use_I01x000L_min_v = deriveMinI01x000L(use_I01x000L_min_l, use_I01x000L_min_d)
var use_I01x000L_min2_a map[string]SR
var use_I01x000L_min2_b map[string]SR
var use_I01x000L_min2_v = deriveMinBI01x000L(use_I01x000L_min2_a, use_I01x000L_min2_b)
var use_I01x000L_sort_l []map[string]SR
var use_I01x000L_sort_v = deriveSortI01x000L(use_I01x000L_sort_l)
var use_I01x000L_takewhile_p func(map[string]SR) bool
var use_I01x000L_takewhile_l []map[string]SR
var use_I01x000L_takewhile_v = deriveTakeWhileI01x000L(use_I01x000L_takewhile_p, use_I01x000L_takewhile_l)
var use_I01x000L_union_a []map[string]SR
var use_I01x000L_union_b []map[string]SR
var use_I01x000L_union_v = deriveUnionI01x000L(use_I01x000L_union_a, use_I01x000L_union_b)
var use_I01x000L_unique_l []map[string]SR
var use_I01x000L_unique_v = deriveUniqueI01x000L(use_I01x000L_unique_l)
var use_I01x001_clone_a *W1
var use_I01x001_clone_v = deriveCloneI01x001(use_I01x001_clone_a)
var use_I01x001_compare_a *W1
var use_I01x001_compare_b *W1
var use_I01x001_compare_v = deriveCompareI01x001(use_I01x001_compare_a, use_I01x001_compare_b)
var use_I01x001_comparec_a *W1
var use_I01x001_comparec_b *W1
var use_I01x001_comparec_v = deriveCompareCI01x001(use_I01x001_comparec_a)(use_I01x001_comparec_b)
var use_I01x001_deepcopy_a *W1
var use_I01x001_deepcopy_b *W1
func init() { deriveDeepCopyI01x001(use_I01x001_deepcopy_a, use_I01x001_deepcopy_b) }
var use_I01x001_equal_a *W1
var use_I01x001_equal_b *W1
var use_I01x001_equal_v = deriveEqualI01x001(use_I01x001_equal_a, use_I01x001_equal_b)
var use_I01x001_equalc_a *W1
var use_I01x001_equalc_b *W1
var use_I01x001_equalc_v = deriveEqualCI01x001(use_I01x001_equalc_a)(use_I01x001_equalc_b)
var use_I01x001_equalclone_a *W1
var use_I01x001_equalclone_v = deriveEqualI01x001(deriveCloneI01x001(use_I01x001_equalclone_a), use_I01x001_equalclone_a)
var use_I01x001_gostring_a *W1
var use_I01x001_gostring_v = deriveGoStringI01x001(use_I01x001_gostring_a)
var use_I01x001_hash_a *W1
var use_I01x001_hash_v = deriveHashI01x001(use_I01x001_hash_a)
var use_I01x002_clone_a map[string]map[int]SP
var use_I01x002_clone_v = deriveCloneI01x002(use_I01x002_clone_a)
var use_I01x002_compare_a map[string]map[int]SP
var use_I01x002_compare_b map[string]map[int]SP
var use_I01x002_compare_v = deriveCompareI01x002(use_I01x002_compare_a, use_I01x002_compare_b)
var use_I01x002_comparec_a map[string]map[int]SP
var use_I01x002_comparec_b map[string]map[int]SP
var use_I01x002_comparec_v = deriveCompareCI01x002(use_I01x002_comparec_a)(use_I01x002_comparec_b)
var use_I01x002_deepcopy_a map[string]map[int]SP
var use_I01x002_deepcopy_b map[string]map[int]SP
func init() { deriveDeepCopyI01x002(use_I01x002_deepcopy_a, use_I01x002_deepcopy_b) }
var use_I01x002_equal_a map[string]map[int]SP
var use_I01x002_equal_b map[string]map[int]SP
var use_I01x002_equal_v = deriveEqualI01x002(use_I01x002_equal_a, use_I01x002_equal_b)
var use_I01x002_equalc_a map[string]map[int]SP
var use_I01x002_equalc_b map[string]map[int]SP
var use_I01x002_equalc_v = deriveEqualCI01x002(use_I01x002_equalc_a)(use_I01x002_equalc_b)
var use_I01x002_equalclone_a map[string]map[int]SP
var use_I01x002_equalclone_v = deriveEqualI01x002(deriveCloneI01x002(use_I01x002_equalclone_a), use_I01x002_equalclone_a)
var use_I01x002_gostring_a map[string]map[int]SP
var use_I01x002_gostring_v = deriveGoStringI01x002(use_I01x002_gostring_a)
var use_I01x002_hash_a map[string]map[int]SP
var use_I01x002_hash_v = deriveHashI01x002(use_I01x002_hash_a)
var use_I01x002_keys_m map[string]map[int]SP
var use_I01x002_keys_v = len(deriveKeysI01x002(use_I01x002_keys_m))
var use_I01x002_sortkeys_m map[string]map[int]SP
var use_I01x002_sortkeys_v = len(deriveSortI01x002(deriveKeysI01x002(use_I01x002_sortkeys_m)))
var use_I01x002L_all = func(p func(map[string]map[int]SP) bool, l []map[string]map[int]SP) bool { return deriveAllI01x002L(p, l) }
var use_I01x002L_any = func(p func(map[string]map[int]SP) bool, l []map[string]map[int]SP) bool { return deriveAnyI01x002L(p, l) }
var use_I01x002L_contains = func(l []map[string]map[int]SP, x map[string]map[int]SP) bool { return deriveContainsI01x002L(l, x) }
var use_I01x002L_filter = func(p func(map[string]map[int]SP) bool, l []map[string]map[int]SP) []map[string]map[int]SP { return deriveFilterI01x002L(p, l) }
var use_I01x002L_intersect = func(a, b []map[string]map[int]SP) []map[string]map[int]SP { return deriveIntersectI01x002L(a, b) }
var use_I01x002L_max = func(l []map[string]map[int]SP, d map[string]map[int]SP) map[string]map[int]SP { return deriveMaxI01x002L(l, d) }
var use_I01x002L_max2 = func(a, b map[string]map[int]SP) map[string]map[int]SP { return deriveMaxBI01x002L(a, b) }
var use_I01x002L_min = func(l []map[string]map[int]SP, d map[string]map[int]SP) map[string]map[int]SP { return deriveMinI01x002L(l, d) }
var use_I01x002L_min2 = func(a, b map[string]map[int]SP) map[string]map[int]SP { return deriveMinBI01x002L(a, b) }
var use_I01x002L_sort = func(l []map[string]map[int]SP) []map[string]map[int]SP { return deriveSortI01x002L(l) }
var use_I01x002L_takewhile = func(p func(map[string]map[int]SP) bool, l []map[string]map[int]SP) []map[string]map[int]SP { return deriveTakeWhileI01x002L(p, l) }
var use_I01x002L_union = func(a, b []map[string]map[int]SP) []map[string]map[int]SP { return deriveUnionI01x002L(a, b) }
var use_I01x002L_unique = func(l []map[string]map[int]SP) []map[string]map[int]SP { return deriveUniqueI01x002L(l) }
func use_I01x003_clone(a *W2) *W2 { return deriveCloneI01x003(a) }
func use_I01x003_compare(a, b *W2) int { return deriveCompareI01x003(a, b) }
func use_I01x003_comparec(a, b *W2) int { return deriveCompareCI01x003(a)(b) }
func use_I01x003_deepcopy(a, b *W2)  { deriveDeepCopyI01x003(a, b) }
func use_I01x003_equal(a, b *W2) bool { return deriveEqualI01x003(a, b) }
func use_I01x003_equalc(a, b *W2) bool { return deriveEqualCI01x003(a)(b) }
func use_I01x003_equalclone(a *W2) bool { return deriveEqualI01x003(deriveCloneI01x003(a), a) }
func use_I01x003_gostring(a *W2) string { return deriveGoStringI01x003(a) }
func use_I01x003_hash(a *W2) uint64 { return deriveHashI01x003(a) }
func use_I01x004_clone(a int32) int32 { return deriveCloneI01x004(a) }
func use_I01x004_compare(a, b int32) int { return deriveCompareI01x004(a, b) }
func use_I01x004_comparec(a, b int32) int { return deriveCompareCI01x004(a)(b) }
func use_I01x004_equal(a, b int32) bool { return deriveEqualI01x004(a, b) }
func use_I01x004_equalc(a, b int32) bool { return deriveEqualCI01x004(a)(b) }
func use_I01x004_equalclone(a int32) bool { return deriveEqualI01x004(deriveCloneI01x004(a), a) }
func use_I01x004_gostring(a int32) string { return deriveGoStringI01x004(a) }
func use_I01x004_hash(a int32) uint64 { return deriveHashI01x004(a) }
func use_I01x004L_all(p func(int32) bool, l []int32) bool { return deriveAllI01x004L(p, l) }
func use_I01x004L_any(p func(int32) bool, l []int32) bool { return deriveAnyI01x004L(p, l) }
func use_I01x004L_contains(l []int32, x int32) bool { return deriveContainsI01x004L(l, x) }
func use_I01x004L_filter(p func(int32) bool, l []int32) []int32 { return deriveFilterI01x004L(p, l) }
func use_I01x004L_intermap(a, b map[int32]struct{}) map[int32]struct{} { return deriveIntersectMI01x004L(a, b) }
func use_I01x004L_intersect(a, b []int32) []int32 { return deriveIntersectI01x004L(a, b) }
func use_I01x004L_max(l []int32, d int32) int32 { return deriveMaxI01x004L(l, d) }
func use_I01x004L_max2(a, b int32) int32 { return deriveMaxBI01x004L(a, b) }
func use_I01x004L_min(l []int32, d int32) int32 { return deriveMinI01x004L(l, d) }
func use_I01x004L_min2(a, b int32) int32 { return deriveMinBI01x004L(a, b) }
func use_I01x004L_set(l []int32) map[int32]struct{} { return deriveSetI01x004L(l) }
func use_I01x004L_sort(l []int32) []int32 { return deriveSortI01x004L(l) }
func use_I01x004L_takewhile(p func(int32) bool, l []int32) []int32 { return deriveTakeWhileI01x004L(p, l) }
func use_I01x004L_union(a, b []int32) []int32 { return deriveUnionI01x004L(a, b) }
func use_I01x004L_unionmap(a, b map[int32]struct{}) map[int32]struct{} { return deriveUnionMI01x004L(a, b) }
func use_I01x004L_unique(l []int32) []int32 { return deriveUniqueI01x004L(l) }
func use_I01x005_clone(a *W3) *W3 { return deriveCloneI01x005(a) }
func use_I01x005_compare(a, b *W3) int { return deriveCompareI01x005(a, b) }
func use_I01x005_comparec(a, b *W3) int { return deriveCompareCI01x005(a)(b) }
func use_I01x005_deepcopy(a, b *W3)  { deriveDeepCopyI01x005(a, b) }
func use_I01x005_equal(a, b *W3) bool { return deriveEqualI01x005(a, b) }
func use_I01x005_equalc(a, b *W3) bool { return deriveEqualCI01x005(a)(b) }
func use_I01x005_equalclone(a *W3) bool { return deriveEqualI01x005(deriveCloneI01x005(a), a) }
func use_I01x005_gostring(a *W3) string { return deriveGoStringI01x005(a) }
func use_I01x005_hash(a *W3) uint64 { return deriveHashI01x005(a) }
var use_I01x006_clone = func(a []bool) []bool { return deriveCloneI01x006(a) }
var use_I01x006_compare = func(a, b []bool) int { return deriveCompareI01x006(a, b) }
var use_I01x006_comparec = func(a, b []bool) int { return deriveCompareCI01x006(a)(b) }
var use_I01x006_deepcopy = func(a, b []bool)  { deriveDeepCopyI01x006(a, b) }
var use_I01x006_equal = func(a, b []bool) bool { return deriveEqualI01x006(a, b) }
var use_I01x006_equalc = func(a, b []bool) bool { return deriveEqualCI01x006(a)(b) }
var use_I01x006_equalclone = func(a []bool) bool { return deriveEqualI01x006(deriveCloneI01x006(a), a) }
var use_I01x006_gostring = func(a []bool) string { return deriveGoStringI01x006(a) }
var use_I01x006_hash = func(a []bool) uint64 { return deriveHashI01x006(a) }
var use_I01x007_clone_a *W4
var use_I01x007_clone_v = deriveCloneI01x007(use_I01x007_clone_a)
var use_I01x007_compare_a *W4
var use_I01x007_compare_b *W4
var use_I01x007_compare_v = deriveCompareI01x007(use_I01x007_compare_a, use_I01x007_compare_b)
var use_I01x007_comparec_a *W4
var use_I01x007_comparec_b *W4
var use_I01x007_comparec_v = deriveCompareCI01x007(use_I01x007_comparec_a)(use_I01x007_comparec_b)
var use_I01x007_deepcopy_a *W4
var use_I01x007_deepcopy_b *W4
func init() { deriveDeepCopyI01x007(use_I01x007_deepcopy_a, use_I01x007_deepcopy_b) }
var use_I01x007_equal_a *W4
var use_I01x007_equal_b *W4
var use_I01x007_equal_v = deriveEqualI01x007(use_I01x007_equal_a, use_I01x007_equal_b)
var use_I01x007_equalc_a *W4
var use_I01x007_equalc_b *W4
var use_I01x007_equalc_v = deriveEqualCI01x007(use_I01x007_equalc_a)(use_I01x007_equalc_b)
var use_I01x007_equalclone_a *W4
var use_I01x007_equalclone_v = deriveEqualI01x007(deriveCloneI01x007(use_I01x007_equalclone_a), use_I01x007_equalclone_a)
var use_I01x007_gostring_a *W4
var use_I01x007_gostring_v = deriveGoStringI01x007(use_I01x007_gostring_a)
var use_I01x007_hash_a *W4
var use_I01x007_hash_v = deriveHashI01x007(use_I01x007_hash_a)
var use_I01x008_clone_a *float64
var use_I01x008_clone_v = deriveCloneI01x008(use_I01x008_clone_a)
var use_I01x008_compare_a *float64
var use_I01x008_compare_b *float64
var use_I01x008_compare_v = deriveCompareI01x008(use_I01x008_compare_a, use_I01x008_compare_b)
var use_I01x008_comparec_a *float64
var use_I01x008_comparec_b *float64
var use_I01x008_comparec_v = deriveCompareCI01x008(use_I01x008_comparec_a)(use_I01x008_comparec_b)
var use_I01x008_deepcopy_a *float64
var use_I01x008_deepcopy_b *float64
func init() { deriveDeepCopyI01x008(use_I01x008_deepcopy_a, use_I01x008_deepcopy_b) }
var use_I01x008_equal_a *float64
var use_I01x008_equal_b *float64
var use_I01x008_equal_v = deriveEqualI01x008(use_I01x008_equal_a, use_I01x008_equal_b)
var use_I01x008_equalc_a *float64
var use_I01x008_equalc_b *float64
var use_I01x008_equalc_v = deriveEqualCI01x008(use_I01x008_equalc_a)(use_I01x008_equalc_b)
var use_I01x008_equalclone_a *float64
var use_I01x008_equalclone_v = deriveEqualI01x008(deriveCloneI01x008(use_I01x008_equalclone_a), use_I01x008_equalclone_a)
var use_I01x008_gostring_a *float64
var use_I01x008_gostring_v = deriveGoStringI01x008(use_I01x008_gostring_a)
var use_I01x008_hash_a *float64
var use_I01x008_hash_v = deriveHashI01x008(use_I01x008_hash_a)
func use_I01x008L_all(p func(*float64) bool, l []*float64) bool { return deriveAllI01x008L(p, l) }
func use_I01x008L_any(p func(*float64) bool, l []*float64) bool { return deriveAnyI01x008L(p, l) }
func use_I01x008L_contains(l []*float64, x *float64) bool { return deriveContainsI01x008L(l, x) }
func use_I01x008L_filter(p func(*float64) bool, l []*float64) []*float64 { return deriveFilterI01x008L(p, l) }
func use_I01x008L_intersect(a, b []*float64) []*float64 { return deriveIntersectI01x008L(a, b) }
func use_I01x008L_max(l []*float64, d *float64) *float64 { return deriveMaxI01x008L(l, d) }
func use_I01x008L_max2(a, b *float64) *float64 { return deriveMaxBI01x008L(a, b) }
func use_I01x008L_min(l []*float64, d *float64) *float64 { return deriveMinI01x008L(l, d) }
func use_I01x008L_min2(a, b *float64) *float64 { return deriveMinBI01x008L(a, b) }
func use_I01x008L_sort(l []*float64) []*float64 { return deriveSortI01x008L(l) }
func use_I01x008L_takewhile(p func(*float64) bool, l []*float64) []*float64 { return deriveTakeWhileI01x008L(p, l) }
func use_I01x008L_union(a, b []*float64) []*float64 { return deriveUnionI01x008L(a, b) }
func use_I01x008L_unique(l []*float64) []*float64 { return deriveUniqueI01x008L(l) }
func use_I01x009_clone(a *W5) *W5 { return deriveCloneI01x009(a) }
func use_I01x009_compare(a, b *W5) int { return deriveCompareI01x009(a, b) }
func use_I01x009_comparec(a, b *W5) int { return deriveCompareCI01x009(a)(b) }
func use_I01x009_deepcopy(a, b *W5)  { deriveDeepCopyI01x009(a, b) }
func use_I01x009_equal(a, b *W5) bool { return deriveEqualI01x009(a, b) }
func use_I01x009_equalc(a, b *W5) bool { return deriveEqualCI01x009(a)(b) }
func use_I01x009_equalclone(a *W5) bool { return deriveEqualI01x009(deriveCloneI01x009(a), a) }
func use_I01x009_gostring(a *W5) string { return deriveGoStringI01x009(a) }
func use_I01x009_hash(a *W5) uint64 { return deriveHashI01x009(a) }
var use_I01x010_clone = func(a map[int][2]bool) map[int][2]bool { return deriveCloneI01x010(a) }
var use_I01x010_compare = func(a, b map[int][2]bool) int { return deriveCompareI01x010(a, b) }
var use_I01x010_comparec = func(a, b map[int][2]bool) int { return deriveCompareCI01x010(a)(b) }
var use_I01x010_deepcopy = func(a, b map[int][2]bool)  { deriveDeepCopyI01x010(a, b) }
var use_I01x010_equal = func(a, b map[int][2]bool) bool { return deriveEqualI01x010(a, b) }
var use_I01x010_equalc = func(a, b map[int][2]bool) bool { return deriveEqualCI01x010(a)(b) }
var use_I01x010_equalclone = func(a map[int][2]bool) bool { return deriveEqualI01x010(deriveCloneI01x010(a), a) }
var use_I01x010_gostring = func(a map[int][2]bool) string { return deriveGoStringI01x010(a) }
var use_I01x010_hash = func(a map[int][2]bool) uint64 { return deriveHashI01x010(a) }
var use_I01x010_keys = func(m map[int][2]bool) int { return len(deriveKeysI01x010(m)) }
var use_I01x010_sortkeys = func(m map[int][2]bool) int { return len(deriveSortI01x010(deriveKeysI01x010(m))) }
func use_I01x010L_all(p func(map[int][2]bool) bool, l []map[int][2]bool) bool { return deriveAllI01x010L(p, l) }
func use_I01x010L_any(p func(map[int][2]bool) bool, l []map[int][2]bool) bool { return deriveAnyI01x010L(p, l) }
func use_I01x010L_contains(l []map[int][2]bool, x map[int][2]bool) bool { return deriveContainsI01x010L(l, x) }
func use_I01x010L_filter(p func(map[int][2]bool) bool, l []map[int][2]bool) []map[int][2]bool { return deriveFilterI01x010L(p, l) }
func use_I01x010L_intersect(a, b []map[int][2]bool) []map[int][2]bool { return deriveIntersectI01x010L(a, b) }
func use_I01x010L_max(l []map[int][2]bool, d map[int][2]bool) map[int][2]bool { return deriveMaxI01x010L(l, d) }
func use_I01x010L_max2(a, b map[int][2]bool) map[int][2]bool { return deriveMaxBI01x010L(a, b) }
func use_I01x010L_min(l []map[int][2]bool, d map[int][2]bool) map[int][2]bool { return deriveMinI01x010L(l, d) }
func use_I01x010L_min2(a, b map[int][2]bool) map[int][2]bool { return deriveMinBI01x010L(a, b) }
func use_I01x010L_sort(l []map[int][2]bool) []map[int][2]bool { return deriveSortI01x010L(l) }
func use_I01x010L_takewhile(p func(map[int][2]bool) bool, l []map[int][2]bool) []map[int][2]bool { return deriveTakeWhileI01x010L(p, l) }
func use_I01x010L_union(a, b []map[int][2]bool) []map[int][2]bool { return deriveUnionI01x010L(a, b) }
func use_I01x010L_unique(l []map[int][2]bool) []map[int][2]bool { return deriveUniqueI01x010L(l) }
var use_I01x012_clone_a map[int]int
var use_I01x012_clone_v = deriveCloneI01x012(use_I01x012_clone_a)
var use_I01x012_compare_a map[int]int
var use_I01x012_compare_b map[int]int
var use_I01x012_compare_v = deriveCompareI01x012(use_I01x012_compare_a, use_I01x012_compare_b)
var use_I01x012_comparec_a map[int]int
var use_I01x012_comparec_b map[int]int
var use_I01x012_comparec_v = deriveCompareCI01x012(use_I01x012_comparec_a)(use_I01x012_comparec_b)
var use_I01x012_deepcopy_a map[int]int
var use_I01x012_deepcopy_b map[int]int
func init() { deriveDeepCopyI01x012(use_I01x012_deepcopy_a, use_I01x012_deepcopy_b) }
var use_I01x012_equal_a map[int]int
var use_I01x012_equal_b map[int]int
var use_I01x012_equal_v = deriveEqualI01x012(use_I01x012_equal_a, use_I01x012_equal_b)
var use_I01x012_equalc_a map[int]int
var use_I01x012_equalc_b map[int]int
var use_I01x012_equalc_v = deriveEqualCI01x012(use_I01x012_equalc_a)(use_I01x012_equalc_b)
var use_I01x012_equalclone_a map[int]int
var use_I01x012_equalclone_v = deriveEqualI01x012(deriveCloneI01x012(use_I01x012_equalclone_a), use_I01x012_equalclone_a)
var use_I01x012_gostring_a map[int]int
var use_I01x012_gostring_v = deriveGoStringI01x012(use_I01x012_gostring_a)
var use_I01x012_hash_a map[int]int
var use_I01x012_hash_v = deriveHashI01x012(use_I01x012_hash_a)
var use_I01x012_keys_m map[int]int
var use_I01x012_keys_v = len(deriveKeysI01x012(use_I01x012_keys_m))
var use_I01x012_sortkeys_m map[int]int
var use_I01x012_sortkeys_v = len(deriveSortI01x012(deriveKeysI01x012(use_I01x012_sortkeys_m)))
var use_I01x012L_all_p func(map[int]int) bool
var use_I01x012L_all_l []map[int]int
var use_I01x012L_all_v = deriveAllI01x012L(use_I01x012L_all_p, use_I01x012L_all_l)
var use_I01x012L_any_p func(map[int]int) bool
var use_I01x012L_any_l []map[int]int
var use_I01x012L_any_v = deriveAnyI01x012L(use_I01x012L_any_p, use_I01x012L_any_l)
var use_I01x012L_contains_l []map[int]int
var use_I01x012L_contains_x map[int]int
var use_I01x012L_contains_v = deriveContainsI01x012L(use_I01x012L_contains_l, use_I01x012L_contains_x)
var use_I01x012L_filter_p func(map[int]int) bool
var use_I01x012L_filter_l []map[int]int
var use_I01x012L_filter_v = deriveFilterI01x012L(use_I01x012L_filter_p, use_I01x012L_filter_l)
var use_I01x012L_intersect_a []map[int]int
var use_I01x012L_intersect_b []map[int]int
var use_I01x012L_intersect_v = deriveIntersectI01x012L(use_I01x012L_intersect_a, use_I01x012L_intersect_b)
var use_I01x012L_max_l []map[int]int
var use_I01x012L_max_d map[int]int
var use_I01x012L_max_v = deriveMaxI01x012L(use_I01x012L_max_l, use_I01x012L_max_d)
var use_I01x012L_max2_a map[int]int
var use_I01x012L_max2_b map[int]int
var use_I01x012L_max2_v = deriveMaxBI01x012L(use_I01x012L_max2_a, use_I01x012L_max2_b)
var use_I01x012L_min_l []map[int]int
var use_I01x012L_min_d map[int]int
var use_I01x012L_min_v = deriveMinI01x012L(use_I01x012L_min_l, use_I01x012L_min_d)
var use_I01x012L_min2_a map[int]int
var use_I01x012L_min2_b map[int]int
var use_I01x012L_min2_v = deriveMinBI01x012L(use_I01x012L_min2_a, use_I01x012L_min2_b)
var use_I01x012L_sort_l []map[int]int
var use_I01x012L_sort_v = deriveSortI01x012L(use_I01x012L_sort_l)
var use_I01x012L_takewhile_p func(map[int]int) bool
var use_I01x012L_takewhile_l []map[int]int
var use_I01x012L_takewhile_v = deriveTakeWhileI01x012L(use_I01x012L_takewhile_p, use_I01x012L_takewhile_l)
var use_I01x012L_union_a []map[int]int
var use_I01x012L_union_b []map[int]int
var use_I01x012L_union_v = deriveUnionI01x012L(use_I01x012L_union_a, use_I01x012L_union_b)
var use_I01x012L_unique_l []map[int]int
var use_I01x012L_unique_v = deriveUniqueI01x012L(use_I01x012L_unique_l)
func use_I01x014_clone(a []map[NInt]uint32) []map[NInt]uint32 { return deriveCloneI01x014(a) }
func use_I01x014_compare(a, b []map[NInt]uint32) int { return deriveCompareI01x014(a, b) }
func use_I01x014_comparec(a, b []map[NInt]uint32) int { return deriveCompareCI01x014(a)(b) }
func use_I01x014_deepcopy(a, b []map[NInt]uint32)  { deriveDeepCopyI01x014(a, b) }
func use_I01x014_equal(a, b []map[NInt]uint32) bool { return deriveEqualI01x014(a, b) }
func use_I01x014_equalc(a, b []map[NInt]uint32) bool { return deriveEqualCI01x014(a)(b) }
func use_I01x014_equalclone(a []map[NInt]uint32) bool { return deriveEqualI01x014(deriveCloneI01x014(a), a) }
func use_I01x014_gostring(a []map[NInt]uint32) string { return deriveGoStringI01x014(a) }
func use_I01x014_hash(a []map[NInt]uint32) uint64 { return deriveHashI01x014(a) }
var use_I01x014L_all_p func([]map[NInt]uint32) bool
var use_I01x014L_all_l [][]map[NInt]uint32
var use_I01x014L_all_v = deriveAllI01x014L(use_I01x014L_all_p, use_I01x014L_all_l)
var use_I01x014L_any_p func([]map[NInt]uint32) bool
var use_I01x014L_any_l [][]map[NInt]uint32
var use_I01x014L_any_v = deriveAnyI01x014L(use_I01x014L_any_p, use_I01x014L_any_l)
var use_I01x014L_contains_l [][]map[NInt]uint32
var use_I01x014L_contains_x []map[NInt]uint32
var use_I01x014L_contains_v = deriveContainsI01x014L(use_I01x014L_contains_l, use_I01x014L_contains_x)
var use_I01x014L_filter_p func([]map[NInt]uint32) bool
var use_I01x014L_filter_l [][]map[NInt]uint32
var use_I01x014L_filter_v = deriveFilterI01x014L(use_I01x014L_filter_p, use_I01x014L_filter_l)
var use_I01x014L_intersect_a [][]map[NInt]uint32
var use_I01x014L_intersect_b [][]map[NInt]uint32
var use_I01x014L_intersect_v = deriveIntersectI01x014L(use_I01x014L_intersect_a, use_I01x014L_intersect_b)
var use_I01x014L_max_l [][]map[NInt]uint32
var use_I01x014L_max_d []map[NInt]uint32
var use_I01x014L_max_v = deriveMaxI01x014L(use_I01x014L_max_l, use_I01x014L_max_d)
var use_I01x014L_max2_a []map[NInt]uint32
var use_I01x014L_max2_b []map[NInt]uint32
var use_I01x014L_max2_v = deriveMaxBI01x014L(use_I01x014L_max2_a, use_I01x014L_max2_b)
var use_I01x014L_min_l [][]map[NInt]uint32
var use_I01x014L_min_d []map[NInt]uint32
var use_I01x014L_min_v = deriveMinI01x014L(use_I01x014L_min_l, use_I01x014L_min_d)
var use_I01x014L_min2_a []map[NInt]uint32
var use_I01x014L_min2_b []map[NInt]uint32
var use_I01x014L_min2_v = deriveMinBI01x014L(use_I01x014L_min2_a, use_I01x014L_min2_b)
var use_I01x014L_sort_l [][]map[NInt]uint32
var use_I01x014L_sort_v = deriveSortI01x014L(use_I01x014L_sort_l)
var use_I01x014L_takewhile_p func([]map[NInt]uint32) bool
var use_I01x014L_takewhile_l [][]map[NInt]uint32
var use_I01x014L_takewhile_v = deriveTakeWhileI01x014L(use_I01x014L_takewhile_p, use_I01x014L_takewhile_l)
var use_I01x014L_union_a [][]map[NInt]uint32
var use_I01x014L_union_b [][]map[NInt]uint32
var use_I01x014L_union_v = deriveUnionI01x014L(use_I01x014L_union_a, use_I01x014L_union_b)
var use_I01x014L_unique_l [][]map[NInt]uint32
var use_I01x014L_unique_v = deriveUniqueI01x014L(use_I01x014L_unique_l)
var use_I01x015_clone = func(a *W8) *W8 { return deriveCloneI01x015(a) }
var use_I01x015_compare = func(a, b *W8) int { return deriveCompareI01x015(a, b) }
var use_I01x015_comparec = func(a, b *W8) int { return deriveCompareCI01x015(a)(b) }
var use_I01x015_deepcopy = func(a, b *W8)  { deriveDeepCopyI01x015(a, b) }
var use_I01x015_equal = func(a, b *W8) bool { return deriveEqualI01x015(a, b) }
var use_I01x015_equalc = func(a, b *W8) bool { return deriveEqualCI01x015(a)(b) }
var use_I01x015_equalclone = func(a *W8) bool { return deriveEqualI01x015(deriveCloneI01x015(a), a) }
var use_I01x015_gostring = func(a *W8) string { return deriveGoStringI01x015(a) }
var use_I01x015_hash = func(a *W8) uint64 { return deriveHashI01x015(a) }
var use_I01x016L_all = func(p func(bool) bool, l []bool) bool { return deriveAllI01x016L(p, l) }
var use_I01x016L_any = func(p func(bool) bool, l []bool) bool { return deriveAnyI01x016L(p, l) }
var use_I01x016L_contains = func(l []bool, x bool) bool { return deriveContainsI01x016L(l, x) }
var use_I01x016L_filter = func(p func(bool) bool, l []bool) []bool { return deriveFilterI01x016L(p, l) }
var use_I01x016L_intermap = func(a, b map[bool]struct{}) map[bool]struct{} { return deriveIntersectMI01x016L(a, b) }
var use_I01x016L_intersect = func(a, b []bool) []bool { return deriveIntersectI01x016L(a, b) }
var use_I01x016L_set = func(l []bool) map[bool]struct{} { return deriveSetI01x016L(l) }
var use_I01x016L_takewhile = func(p func(bool) bool, l []bool) []bool { return deriveTakeWhileI01x016L(p, l) }
var use_I01x016L_union = func(a, b []bool) []bool { return deriveUnionI01x016L(a, b) }
var use_I01x016L_unionmap = func(a, b map[bool]struct{}) map[bool]struct{} { return deriveUnionMI01x016L(a, b) }
var use_I01x016L_unique = func(l []bool) []bool { return deriveUniqueI01x016L(l) }
var use_I01x017_clone = func(a *W9) *W9 { return deriveCloneI01x017(a) }
var use_I01x017_compare = func(a, b *W9) int { return deriveCompareI01x017(a, b) }
var use_I01x017_comparec = func(a, b *W9) int { return deriveCompareCI01x017(a)(b) }
var use_I01x017_deepcopy = func(a, b *W9)  { deriveDeepCopyI01x017(a, b) }
var use_I01x017_equal = func(a, b *W9) bool { return deriveEqualI01x017(a, b) }
var use_I01x017_equalc = func(a, b *W9) bool { return deriveEqualCI01x017(a)(b) }
var use_I01x017_equalclone = func(a *W9) bool { return deriveEqualI01x017(deriveCloneI01x017(a), a) }
var use_I01x017_gostring = func(a *W9) string { return deriveGoStringI01x017(a) }
var use_I01x017_hash = func(a *W9) uint64 { return deriveHashI01x017(a) }
var use_I01x018_clone = func(a SP) SP { return deriveCloneI01x018(a) }
var use_I01x018_compare = func(a, b SP) int { return deriveCompareI01x018(a, b) }
var use_I01x018_comparec = func(a, b SP) int { return deriveCompareCI01x018(a)(b) }
var use_I01x018_equal = func(a, b SP) bool { return deriveEqualI01x018(a, b) }
var use_I01x018_equalc = func(a, b SP) bool { return deriveEqualCI01x018(a)(b) }
var use_I01x018_equalclone = func(a SP) bool { return deriveEqualI01x018(deriveCloneI01x018(a), a) }
var use_I01x018_gostring = func(a SP) string { return deriveGoStringI01x018(a) }
var use_I01x018_hash = func(a SP) uint64 { return deriveHashI01x018(a) }
var use_I01x018L_all_p func(SP) bool
var use_I01x018L_all_l []SP
var use_I01x018L_all_v = deriveAllI01x018L(use_I01x018L_all_p, use_I01x018L_all_l)
var use_I01x018L_any_p func(SP) bool
var use_I01x018L_any_l []SP
var use_I01x018L_any_v = deriveAnyI01x018L(use_I01x018L_any_p, use_I01x018L_any_l)
var use_I01x018L_contains_l []SP
var use_I01x018L_contains_x SP
var use_I01x018L_contains_v = deriveContainsI01x018L(use_I01x018L_contains_l, use_I01x018L_contains_x)
var use_I01x018L_filter_p func(SP) bool
var use_I01x018L_filter_l []SP
var use_I01x018L_filter_v = deriveFilterI01x018L(use_I01x018L_filter_p, use_I01x018L_filter_l)
var use_I01x018L_intersect_a []SP
var use_I01x018L_intersect_b []SP
var use_I01x018L_intersect_v = deriveIntersectI01x018L(use_I01x018L_intersect_a, use_I01x018L_intersect_b)
var use_I01x018L_max_l []SP
var use_I01x018L_max_d SP
var use_I01x018L_max_v = deriveMaxI01x018L(use_I01x018L_max_l, use_I01x018L_max_d)
var use_I01x018L_max2_a SP
var use_I01x018L_max2_b SP
var use_I01x018L_max2_v = deriveMaxBI01x018L(use_I01x018L_max2_a, use_I01x018L_max2_b)
var use_I01x018L_min_l []SP
var use_I01x018L_min_d SP
var use_I01x018L_min_v = deriveMinI01x018L(use_I01x018L_min_l, use_I01x018L_min_d)
var use_I01x018L_min2_a SP
var use_I01x018L_min2_b SP
var use_I01x018L_min2_v = deriveMinBI01x018L(use_I01x018L_min2_a, use_I01x018L_min2_b)
var use_I01x018L_sort_l []SP
var use_I01x018L_sort_v = deriveSortI01x018L(use_I01x018L_sort_l)
var use_I01x018L_takewhile_p func(SP) bool
var use_I01x018L_takewhile_l []SP
var use_I01x018L_takewhile_v = deriveTakeWhileI01x018L(use_I01x018L_takewhile_p, use_I01x018L_takewhile_l)
var use_I01x018L_union_a []SP
var use_I01x018L_union_b []SP
var use_I01x018L_union_v = deriveUnionI01x018L(use_I01x018L_union_a, use_I01x018L_union_b)
var use_I01x018L_unique_l []SP
var use_I01x018L_unique_v = deriveUniqueI01x018L(use_I01x018L_unique_l)
var use_I01x020L_all_p func([2]map[int]string) bool
var use_I01x020L_all_l [][2]map[int]string
var use_I01x020L_all_v = deriveAllI01x020L(use_I01x020L_all_p, use_I01x020L_all_l)
var use_I01x020L_any_p func([2]map[int]string) bool
var use_I01x020L_any_l [][2]map[int]string
var use_I01x020L_any_v = deriveAnyI01x020L(use_I01x020L_any_p, use_I01x020L_any_l)
var use_I01x020L_contains_l [][2]map[int]string
var use_I01x020L_contains_x [2]map[int]string
var use_I01x020L_contains_v = deriveContainsI01x020L(use_I01x020L_contains_l, use_I01x020L_contains_x)
var use_I01x020L_filter_p func([2]map[int]string) bool
var use_I01x020L_filter_l [][2]map[int]string
var use_I01x020L_filter_v = deriveFilterI01x020L(use_I01x020L_filter_p, use_I01x020L_filter_l)
var use_I01x020L_intersect_a [][2]map[int]string
var use_I01x020L_intersect_b [][2]map[int]string
var use_I01x020L_intersect_v = deriveIntersectI01x020L(use_I01x020L_intersect_a, use_I01x020L_intersect_b)
var use_I01x020L_max_l [][2]map[int]string
var use_I01x020L_max_d [2]map[int]string
var use_I01x020L_max_v = deriveMaxI01x020L(use_I01x020L_max_l, use_I01x020L_max_d)
var use_I01x020L_max2_a [2]map[int]string
var use_I01x020L_max2_b [2]map[int]string
var use_I01x020L_max2_v = deriveMaxBI01x020L(use_I01x020L_max2_a, use_I01x020L_max2_b)
var use_I01x020L_min_l [][2]map[int]string
var use_I01x020L_min_d [2]map[int]string
var use_I01x020L_min_v = deriveMinI01x020L(use_I01x020L_min_l, use_I01x020L_min_d)
var use_I01x020L_min2_a [2]map[int]string
var use_I01x020L_min2_b [2]map[int]string
var use_I01x020L_min2_v = deriveMinBI01x020L(use_I01x020L_min2_a, use_I01x020L_min2_b)
var use_I01x020L_sort_l [][2]map[int]string
var use_I01x020L_sort_v = deriveSortI01x020L(use_I01x020L_sort_l)
var use_I01x020L_takewhile_p func([2]map[int]string) bool
var use_I01x020L_takewhile_l [][2]map[int]string
var use_I01x020L_takewhile_v = deriveTakeWhileI01x020L(use_I01x020L_takewhile_p, use_I01x020L_takewhile_l)
var use_I01x020L_union_a [][2]map[int]string
var use_I01x020L_union_b [][2]map[int]string
var use_I01x020L_union_v = deriveUnionI01x020L(use_I01x020L_union_a, use_I01x020L_union_b)
var use_I01x020L_unique_l [][2]map[int]string
var use_I01x020L_unique_v = deriveUniqueI01x020L(use_I01x020L_unique_l)
var use_I01x022_clone_a *map[string]uint8
var use_I01x022_clone_v = deriveCloneI01x022(use_I01x022_clone_a)
var use_I01x022_compare_a *map[string]uint8
var use_I01x022_compare_b *map[string]uint8
var use_I01x022_compare_v = deriveCompareI01x022(use_I01x022_compare_a, use_I01x022_compare_b)
var use_I01x022_comparec_a *map[string]uint8
var use_I01x022_comparec_b *map[string]uint8
var use_I01x022_comparec_v = deriveCompareCI01x022(use_I01x022_comparec_a)(use_I01x022_comparec_b)
var use_I01x022_deepcopy_a *map[string]uint8
var use_I01x022_deepcopy_b *map[string]uint8
func init() { deriveDeepCopyI01x022(use_I01x022_deepcopy_a, use_I01x022_deepcopy_b) }
var use_I01x022_equal_a *map[string]uint8
var use_I01x022_equal_b *map[string]uint8
var use_I01x022_equal_v = deriveEqualI01x022(use_I01x022_equal_a, use_I01x022_equal_b)
var use_I01x022_equalc_a *map[string]uint8
var use_I01x022_equalc_b *map[string]uint8
var use_I01x022_equalc_v = deriveEqualCI01x022(use_I01x022_equalc_a)(use_I01x022_equalc_b)
var use_I01x022_equalclone_a *map[string]uint8
var use_I01x022_equalclone_v = deriveEqualI01x022(deriveCloneI01x022(use_I01x022_equalclone_a), use_I01x022_equalclone_a)
var use_I01x022_gostring_a *map[string]uint8
var use_I01x022_gostring_v = deriveGoStringI01x022(use_I01x022_gostring_a)
var use_I01x022_hash_a *map[string]uint8
var use_I01x022_hash_v = deriveHashI01x022(use_I01x022_hash_a)
func use_I01x023_clone(a *W12) *W12 { return deriveCloneI01x023(a) }
func use_I01x023_compare(a, b *W12) int { return deriveCompareI01x023(a, b) }
func use_I01x023_comparec(a, b *W12) int { return deriveCompareCI01x023(a)(b) }
func use_I01x023_deepcopy(a, b *W12)  { deriveDeepCopyI01x023(a, b) }
func use_I01x023_equal(a, b *W12) bool { return deriveEqualI01x023(a, b) }
func use_I01x023_equalc(a, b *W12) bool { return deriveEqualCI01x023(a)(b) }
func use_I01x023_equalclone(a *W12) bool { return deriveEqualI01x023(deriveCloneI01x023(a), a) }
func use_I01x023_gostring(a *W12) string { return deriveGoStringI01x023(a) }
func use_I01x023_hash(a *W12) uint64 { return deriveHashI01x023(a) }
