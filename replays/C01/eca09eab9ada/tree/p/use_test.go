package p

import (
	"testing"
)

func TestNothing(t *testing.T) {}

func use_I01x000_clone(a map[string]SR) map[string]SR { return deriveCloneI01x000(a) }
func use_I01x000_compare(a, b map[string]SR) int { return deriveCompareI01x000(a, b) }
func use_I01x000_comparec(a, b map[string]SR) int { return deriveCompareCI01x000(a)(b) }
func use_I01x000_deepcopy(a, b map[string]SR)  { deriveDeepCopyI01x000(a, b) }
func use_I01x000_equal(a, b map[string]SR) bool { return deriveEqualI01x000(a, b) }
func use_I01x000_equalc(a, b map[string]SR) bool { return deriveEqualCI01x000(a)(b) }
func use_I01x000_equalclone(a map[string]SR) bool { return deriveEqualI01x000(deriveCloneI01x000(a), a) }
func use_I01x000_gostring(a map[string]SR) string { return deriveGoStringI01x000(a) }
func use_I01x000_hash(a map[string]SR) uint64 { return deriveHashI01x000(a) }
func use_I01x000_keys(m map[string]SR) int { return len(deriveKeysI01x000(m)) }
func use_I01x000_sortkeys(m map[string]SR) int { return len(deriveSortI01x000(deriveKeysI01x000(m))) }
func use_I01x006L_all(p func([]bool) bool, l [][]bool) bool { return deriveAllI01x006L(p, l) }
func use_I01x006L_any(p func([]bool) bool, l [][]bool) bool { return deriveAnyI01x006L(p, l) }
func use_I01x006L_contains(l [][]bool, x []bool) bool { return deriveContainsI01x006L(l, x) }
func use_I01x006L_filter(p func([]bool) bool, l [][]bool) [][]bool { return deriveFilterI01x006L(p, l) }
func use_I01x006L_intersect(a, b [][]bool) [][]bool { return deriveIntersectI01x006L(a, b) }
func use_I01x006L_max(l [][]bool, d []bool) []bool { return deriveMaxI01x006L(l, d) }
func use_I01x006L_max2(a, b []bool) []bool { return deriveMaxBI01x006L(a, b) }
func use_I01x006L_min(l [][]bool, d []bool) []bool { return deriveMinI01x006L(l, d) }
func use_I01x006L_min2(a, b []bool) []bool { return deriveMinBI01x006L(a, b) }
func use_I01x006L_sort(l [][]bool) [][]bool { return deriveSortI01x006L(l) }
func use_I01x006L_takewhile(p func([]bool) bool, l [][]bool) [][]bool { return deriveTakeWhileI01x006L(p, l) }
func use_I01x006L_union(a, b [][]bool) [][]bool { return deriveUnionI01x006L(a, b) }
func use_I01x006L_unique(l [][]bool) [][]bool { return deriveUniqueI01x006L(l) }
func use_I01x011_clone(a *W6) *W6 { return deriveCloneI01x011(a) }
func use_I01x011_compare(a, b *W6) int { return deriveCompareI01x011(a, b) }
func use_I01x011_comparec(a, b *W6) int { return deriveCompareCI01x011(a)(b) }
func use_I01x011_deepcopy(a, b *W6)  { deriveDeepCopyI01x011(a, b) }
func use_I01x011_equal(a, b *W6) bool { return deriveEqualI01x011(a, b) }
func use_I01x011_equalc(a, b *W6) bool { return deriveEqualCI01x011(a)(b) }
func use_I01x011_equalclone(a *W6) bool { return deriveEqualI01x011(deriveCloneI01x011(a), a) }
func use_I01x011_gostring(a *W6) string { return deriveGoStringI01x011(a) }
func use_I01x011_hash(a *W6) uint64 { return deriveHashI01x011(a) }
func use_I01x013_clone(a *W7) *W7 { return deriveCloneI01x013(a) }
func use_I01x013_compare(a, b *W7) int { return deriveCompareI01x013(a, b) }
func use_I01x013_comparec(a, b *W7) int { return deriveCompareCI01x013(a)(b) }
func use_I01x013_deepcopy(a, b *W7)  { deriveDeepCopyI01x013(a, b) }
func use_I01x013_equal(a, b *W7) bool { return deriveEqualI01x013(a, b) }
func use_I01x013_equalc(a, b *W7) bool { return deriveEqualCI01x013(a)(b) }
func use_I01x013_equalclone(a *W7) bool { return deriveEqualI01x013(deriveCloneI01x013(a), a) }
func use_I01x013_gostring(a *W7) string { return deriveGoStringI01x013(a) }
func use_I01x013_hash(a *W7) uint64 { return deriveHashI01x013(a) }
func use_I01x016_clone(a bool) bool { return deriveCloneI01x016(a) }
func use_I01x016_compare(a, b bool) int { return deriveCompareI01x016(a, b) }
func use_I01x016_comparec(a, b bool) int { return deriveCompareCI01x016(a)(b) }
func use_I01x016_equal(a, b bool) bool { return deriveEqualI01x016(a, b) }
func use_I01x016_equalc(a, b bool) bool { return deriveEqualCI01x016(a)(b) }
func use_I01x016_equalclone(a bool) bool { return deriveEqualI01x016(deriveCloneI01x016(a), a) }
func use_I01x016_gostring(a bool) string { return deriveGoStringI01x016(a) }
func use_I01x016_hash(a bool) uint64 { return deriveHashI01x016(a) }
func use_I01x019_clone(a *W10) *W10 { return deriveCloneI01x019(a) }
func use_I01x019_compare(a, b *W10) int { return deriveCompareI01x019(a, b) }
func use_I01x019_comparec(a, b *W10) int { return deriveCompareCI01x019(a)(b) }
func use_I01x019_deepcopy(a, b *W10)  { deriveDeepCopyI01x019(a, b) }
func use_I01x019_equal(a, b *W10) bool { return deriveEqualI01x019(a, b) }
func use_I01x019_equalc(a, b *W10) bool { return deriveEqualCI01x019(a)(b) }
func use_I01x019_equalclone(a *W10) bool { return deriveEqualI01x019(deriveCloneI01x019(a), a) }
func use_I01x019_gostring(a *W10) string { return deriveGoStringI01x019(a) }
func use_I01x019_hash(a *W10) uint64 { return deriveHashI01x019(a) }
func use_I01x020_clone(a [2]map[int]string) [2]map[int]string { return deriveCloneI01x020(a) }
func use_I01x020_compare(a, b [2]map[int]string) int { return deriveCompareI01x020(a, b) }
func use_I01x020_comparec(a, b [2]map[int]string) int { return deriveCompareCI01x020(a)(b) }
func use_I01x020_equal(a, b [2]map[int]string) bool { return deriveEqualI01x020(a, b) }
func use_I01x020_equalc(a, b [2]map[int]string) bool { return deriveEqualCI01x020(a)(b) }
func use_I01x020_equalclone(a [2]map[int]string) bool { return deriveEqualI01x020(deriveCloneI01x020(a), a) }
func use_I01x020_gostring(a [2]map[int]string) string { return deriveGoStringI01x020(a) }
func use_I01x020_hash(a [2]map[int]string) uint64 { return deriveHashI01x020(a) }
func use_I01x021_clone(a *W11) *W11 { return deriveCloneI01x021(a) }
func use_I01x021_compare(a, b *W11) int { return deriveCompareI01x021(a, b) }
func use_I01x021_comparec(a, b *W11) int { return deriveCompareCI01x021(a)(b) }
func use_I01x021_deepcopy(a, b *W11)  { deriveDeepCopyI01x021(a, b) }
func use_I01x021_equal(a, b *W11) bool { return deriveEqualI01x021(a, b) }
func use_I01x021_equalc(a, b *W11) bool { return deriveEqualCI01x021(a)(b) }
func use_I01x021_equalclone(a *W11) bool { return deriveEqualI01x021(deriveCloneI01x021(a), a) }
func use_I01x021_gostring(a *W11) string { return deriveGoStringI01x021(a) }
func use_I01x021_hash(a *W11) uint64 { return deriveHashI01x021(a) }
func use_I01x022L_all(p func(*map[string]uint8) bool, l []*map[string]uint8) bool { return deriveAllI01x022L(p, l) }
func use_I01x022L_any(p func(*map[string]uint8) bool, l []*map[string]uint8) bool { return deriveAnyI01x022L(p, l) }
func use_I01x022L_contains(l []*map[string]uint8, x *map[string]uint8) bool { return deriveContainsI01x022L(l, x) }
func use_I01x022L_filter(p func(*map[string]uint8) bool, l []*map[string]uint8) []*map[string]uint8 { return deriveFilterI01x022L(p, l) }
func use_I01x022L_intersect(a, b []*map[string]uint8) []*map[string]uint8 { return deriveIntersectI01x022L(a, b) }
func use_I01x022L_max(l []*map[string]uint8, d *map[string]uint8) *map[string]uint8 { return deriveMaxI01x022L(l, d) }
func use_I01x022L_max2(a, b *map[string]uint8) *map[string]uint8 { return deriveMaxBI01x022L(a, b) }
func use_I01x022L_min(l []*map[string]uint8, d *map[string]uint8) *map[string]uint8 { return deriveMinI01x022L(l, d) }
func use_I01x022L_min2(a, b *map[string]uint8) *map[string]uint8 { return deriveMinBI01x022L(a, b) }
func use_I01x022L_sort(l []*map[string]uint8) []*map[string]uint8 { return deriveSortI01x022L(l) }
func use_I01x022L_takewhile(p func(*map[string]uint8) bool, l []*map[string]uint8) []*map[string]uint8 { return deriveTakeWhileI01x022L(p, l) }
func use_I01x022L_union(a, b []*map[string]uint8) []*map[string]uint8 { return deriveUnionI01x022L(a, b) }
func use_I01x022L_unique(l []*map[string]uint8) []*map[string]uint8 { return deriveUniqueI01x022L(l) }
