package p


func use_I17x012_clone(a *NInt) *NInt { return deriveCloneI17x012(a) }
func use_I17x012_compare(a, b *NInt) int { return deriveCompareI17x012(a, b) }
func use_I17x012_comparec(a, b *NInt) int { return deriveCompareCI17x012(a)(b) }
func use_I17x012_deepcopy(a, b *NInt)  { deriveDeepCopyI17x012(a, b) }
func use_I17x012_equal(a, b *NInt) bool { return deriveEqualI17x012(a, b) }
func use_I17x012_equalc(a, b *NInt) bool { return deriveEqualCI17x012(a)(b) }
func use_I17x012_equalclone(a *NInt) bool { return deriveEqualNI17x012(deriveCloneNI17x012(a), a) }
func use_I17x012_gostring(a *NInt) string { return deriveGoStringI17x012(a) }
func use_I17x012_hash(a *NInt) uint64 { return deriveHashI17x012(a) }
