package p


var use_I07x006_clone = func(a map[string]SV) map[string]SV { return deriveCloneI07x006(a) }
var use_I07x006_compare = func(a, b map[string]SV) int { return deriveCompareI07x006(a, b) }
var use_I07x006_comparec = func(a, b map[string]SV) int { return deriveCompareCI07x006(a)(b) }
var use_I07x006_deepcopy = func(a, b map[string]SV)  { deriveDeepCopyI07x006(a, b) }
var use_I07x006_equal = func(a, b map[string]SV) bool { return deriveEqualI07x006(a, b) }
var use_I07x006_equalc = func(a, b map[string]SV) bool { return deriveEqualCI07x006(a)(b) }
var use_I07x006_equalclone = func(a map[string]SV) bool { return deriveEqualNI07x006(deriveCloneNI07x006(a), a) }
var use_I07x006_gostring = func(a map[string]SV) string { return deriveGoStringI07x006(a) }
var use_I07x006_hash = func(a map[string]SV) uint64 { return deriveHashI07x006(a) }
var use_I07x006_keys = func(m map[string]SV) int { return len(deriveKeysI07x006(m)) }
var use_I07x006_sortkeys = func(m map[string]SV) int { return len(deriveSortI07x006(deriveKeysI07x006(m))) }
