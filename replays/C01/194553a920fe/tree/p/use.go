package p


var use_I00x010_clone = func(a map[int]int) map[int]int { return deriveCloneI00x010(a) }
var use_I00x010_compare = func(a, b map[int]int) int { return deriveCompareI00x010(a, b) }
var use_I00x010_comparec = func(a, b map[int]int) int { return deriveCompareCI00x010(a)(b) }
var use_I00x010_deepcopy = func(a, b map[int]int)  { deriveDeepCopyI00x010(a, b) }
var use_I00x010_equal = func(a, b map[int]int) bool { return deriveEqualI00x010(a, b) }
var use_I00x010_equalc = func(a, b map[int]int) bool { return deriveEqualCI00x010(a)(b) }
var use_I00x010_equalclone = func(a map[int]int) bool { return deriveEqualNI00x010(deriveCloneNI00x010(a), a) }
var use_I00x010_gostring = func(a map[int]int) string { return deriveGoStringI00x010(a) }
var use_I00x010_hash = func(a map[int]int) uint64 { return deriveHashI00x010(a) }
var use_I00x010_keys = func(m map[int]int) int { return len(deriveKeysI00x010(m)) }
var use_I00x010_sortkeys = func(m map[int]int) int { return len(deriveSortI00x010(deriveKeysI00x010(m))) }
