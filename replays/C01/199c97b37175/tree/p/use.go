package p


func use_I05x014_clone(a map[int][]SP) map[int][]SP { return deriveCloneI05x014(a) }
func use_I05x014_compare(a, b map[int][]SP) int { return deriveCompareI05x014(a, b) }
func use_I05x014_comparec(a, b map[int][]SP) int { return deriveCompareCI05x014(a)(b) }
func use_I05x014_deepcopy(a, b map[int][]SP)  { deriveDeepCopyI05x014(a, b) }
func use_I05x014_equal(a, b map[int][]SP) bool { return deriveEqualI05x014(a, b) }
func use_I05x014_equalc(a, b map[int][]SP) bool { return deriveEqualCI05x014(a)(b) }
func use_I05x014_equalclone(a map[int][]SP) bool { return deriveEqualNI05x014(deriveCloneNI05x014(a), a) }
func use_I05x014_gostring(a map[int][]SP) string { return deriveGoStringI05x014(a) }
func use_I05x014_hash(a map[int][]SP) uint64 { return deriveHashI05x014(a) }
func use_I05x014_keys(m map[int][]SP) int { return len(deriveKeysI05x014(m)) }
func use_I05x014_sortkeys(m map[int][]SP) int { return len(deriveSortI05x014(deriveKeysI05x014(m))) }
