package p


func use_Knamed-composites0_equalclone(a NSlice) bool { return deriveEqualNKnamed-composites0(deriveCloneNKnamed-composites0(a), a) }
