package p


func use_I03x000_clone(a *SV) *SV { return deriveCloneI03x000(a) }
func use_I03x000_compare(a, b *SV) int { return deriveCompareI03x000(a, b) }
func use_I03x000_comparec(a, b *SV) int { return deriveCompareCI03x000(a)(b) }
func use_I03x000_deepcopy(a, b *SV)  { deriveDeepCopyI03x000(a, b) }
func use_I03x000_equal(a, b *SV) bool { return deriveEqualI03x000(a, b) }
func use_I03x000_equalc(a, b *SV) bool { return deriveEqualCI03x000(a)(b) }
func use_I03x000_equalclone(a *SV) bool { return deriveEqualNI03x000(deriveCloneNI03x000(a), a) }
func use_I03x000_gostring(a *SV) string { return deriveGoStringI03x000(a) }
func use_I03x000_hash(a *SV) uint64 { return deriveHashI03x000(a) }
