package p

import (
	ext "scratch/ext"
)

func use_I12x012_clone(a [][2]ext.Pub) [][2]ext.Pub { return deriveCloneI12x012(a) }
func use_I12x012_compare(a, b [][2]ext.Pub) int { return deriveCompareI12x012(a, b) }
func use_I12x012_comparec(a, b [][2]ext.Pub) int { return deriveCompareCI12x012(a)(b) }
func use_I12x012_deepcopy(a, b [][2]ext.Pub)  { deriveDeepCopyI12x012(a, b) }
func use_I12x012_equal(a, b [][2]ext.Pub) bool { return deriveEqualI12x012(a, b) }
func use_I12x012_equalc(a, b [][2]ext.Pub) bool { return deriveEqualCI12x012(a)(b) }
func use_I12x012_equalclone(a [][2]ext.Pub) bool { return deriveEqualNI12x012(deriveCloneNI12x012(a), a) }
func use_I12x012_gostring(a [][2]ext.Pub) string { return deriveGoStringI12x012(a) }
func use_I12x012_hash(a [][2]ext.Pub) uint64 { return deriveHashI12x012(a) }
