package p


func use_Knamed-composites0_equalc(a, b NSlice) bool { return deriveEqualCKnamed-composites0(a)(b) }
