package p

import (
	"testing"
)

func TestNothing(t *testing.T) {}

func use_I05x002_clone(a int) int { return deriveCloneI05x002(a) }
func use_I05x002_compare(a, b int) int { return deriveCompareI05x002(a, b) }
func use_I05x002_comparec(a, b int) int { return deriveCompareCI05x002(a)(b) }
func use_I05x002_equal(a, b int) bool { return deriveEqualI05x002(a, b) }
func use_I05x002_equalc(a, b int) bool { return deriveEqualCI05x002(a)(b) }
func use_I05x002_equalclone(a int) bool { return deriveEqualNI05x002(deriveCloneNI05x002(a), a) }
func use_I05x002_gostring(a int) string { return deriveGoStringI05x002(a) }
func use_I05x002_hash(a int) uint64 { return deriveHashI05x002(a) }
