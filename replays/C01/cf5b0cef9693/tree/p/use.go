package p


