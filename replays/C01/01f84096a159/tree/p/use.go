package p


func use_I03x022_clone(a map[int]map[int]string) map[int]map[int]string { return deriveCloneI03x022(a) }
func use_I03x022_compare(a, b map[int]map[int]string) int { return deriveCompareI03x022(a, b) }
func use_I03x022_comparec(a, b map[int]map[int]string) int { return deriveCompareCI03x022(a)(b) }
func use_I03x022_deepcopy(a, b map[int]map[int]string)  { deriveDeepCopyI03x022(a, b) }
func use_I03x022_equal(a, b map[int]map[int]string) bool { return deriveEqualI03x022(a, b) }
func use_I03x022_equalc(a, b map[int]map[int]string) bool { return deriveEqualCI03x022(a)(b) }
func use_I03x022_equalclone(a map[int]map[int]string) bool { return deriveEqualNI03x022(deriveCloneNI03x022(a), a) }
func use_I03x022_gostring(a map[int]map[int]string) string { return deriveGoStringI03x022(a) }
func use_I03x022_hash(a map[int]map[int]string) uint64 { return deriveHashI03x022(a) }
func use_I03x022_keys(m map[int]map[int]string) int { return len(deriveKeysI03x022(m)) }
func use_I03x022_sortkeys(m map[int]map[int]string) int { return len(deriveSortI03x022(deriveKeysI03x022(m))) }
