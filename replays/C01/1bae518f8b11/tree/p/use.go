package p


