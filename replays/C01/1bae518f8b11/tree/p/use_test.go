package p

import (
	"testing"
)

func TestNothing(t *testing.T) {}

func use_I07x012L_min(l []complex128, d complex128) complex128 { return deriveMinI07x012L(l, d) }
