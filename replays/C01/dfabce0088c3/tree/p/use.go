package p


func use_I05x016_clone(a map[uint8]SP) map[uint8]SP { return deriveCloneI05x016(a) }
func use_I05x016_compare(a, b map[uint8]SP) int { return deriveCompareI05x016(a, b) }
func use_I05x016_comparec(a, b map[uint8]SP) int { return deriveCompareCI05x016(a)(b) }
func use_I05x016_deepcopy(a, b map[uint8]SP)  { deriveDeepCopyI05x016(a, b) }
func use_I05x016_equal(a, b map[uint8]SP) bool { return deriveEqualI05x016(a, b) }
func use_I05x016_equalc(a, b map[uint8]SP) bool { return deriveEqualCI05x016(a)(b) }
func use_I05x016_equalclone(a map[uint8]SP) bool { return deriveEqualNI05x016(deriveCloneNI05x016(a), a) }
func use_I05x016_gostring(a map[uint8]SP) string { return deriveGoStringI05x016(a) }
func use_I05x016_hash(a map[uint8]SP) uint64 { return deriveHashI05x016(a) }
func use_I05x016_keys(m map[uint8]SP) int { return len(deriveKeysI05x016(m)) }
func use_I05x016_sortkeys(m map[uint8]SP) int { return len(deriveSortI05x016(deriveKeysI05x016(m))) }
