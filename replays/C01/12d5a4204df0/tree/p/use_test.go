package p

import (
	"testing"
)

func TestNothing(t *testing.T) {}

func use_I06x016_clone(a map[NStr]SP) map[NStr]SP { return deriveCloneI06x016(a) }
func use_I06x016_compare(a, b map[NStr]SP) int { return deriveCompareI06x016(a, b) }
func use_I06x016_comparec(a, b map[NStr]SP) int { return deriveCompareCI06x016(a)(b) }
func use_I06x016_deepcopy(a, b map[NStr]SP)  { deriveDeepCopyI06x016(a, b) }
func use_I06x016_equal(a, b map[NStr]SP) bool { return deriveEqualI06x016(a, b) }
func use_I06x016_equalc(a, b map[NStr]SP) bool { return deriveEqualCI06x016(a)(b) }
func use_I06x016_equalclone(a map[NStr]SP) bool { return deriveEqualNI06x016(deriveCloneNI06x016(a), a) }
func use_I06x016_gostring(a map[NStr]SP) string { return deriveGoStringI06x016(a) }
func use_I06x016_hash(a map[NStr]SP) uint64 { return deriveHashI06x016(a) }
func use_I06x016_keys(m map[NStr]SP) int { return len(deriveKeysI06x016(m)) }
func use_I06x016_sortkeys(m map[NStr]SP) int { return len(deriveSortI06x016(deriveKeysI06x016(m))) }
