package p


