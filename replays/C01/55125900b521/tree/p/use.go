package p


var use_I09x009_clone_a *W5
var use_I09x009_clone_v = deriveCloneI09x009(use_I09x009_clone_a)
