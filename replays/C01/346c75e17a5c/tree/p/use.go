package p

import (
	b_dup "scratch/b/dup"
)

var use_I17x018_clone_a b_dup.T
var use_I17x018_clone_v = deriveCloneI17x018(use_I17x018_clone_a)
var use_I17x018_compare_a b_dup.T
var use_I17x018_compare_b b_dup.T
var use_I17x018_compare_v = deriveCompareI17x018(use_I17x018_compare_a, use_I17x018_compare_b)
var use_I17x018_comparec_a b_dup.T
var use_I17x018_comparec_b b_dup.T
var use_I17x018_comparec_v = deriveCompareCI17x018(use_I17x018_comparec_a)(use_I17x018_comparec_b)
var use_I17x018_equal_a b_dup.T
var use_I17x018_equal_b b_dup.T
var use_I17x018_equal_v = deriveEqualI17x018(use_I17x018_equal_a, use_I17x018_equal_b)
var use_I17x018_equalc_a b_dup.T
var use_I17x018_equalc_b b_dup.T
var use_I17x018_equalc_v = deriveEqualCI17x018(use_I17x018_equalc_a)(use_I17x018_equalc_b)
var use_I17x018_equalclone_a b_dup.T
var use_I17x018_equalclone_v = deriveEqualNI17x018(deriveCloneNI17x018(use_I17x018_equalclone_a), use_I17x018_equalclone_a)
var use_I17x018_gostring_a b_dup.T
var use_I17x018_gostring_v = deriveGoStringI17x018(use_I17x018_gostring_a)
var use_I17x018_hash_a b_dup.T
var use_I17x018_hash_v = deriveHashI17x018(use_I17x018_hash_a)
