package p


var use_I12x020_clone = func(a NFloat) NFloat { return deriveCloneI12x020(a) }
var use_I12x020_compare = func(a, b NFloat) int { return deriveCompareI12x020(a, b) }
var use_I12x020_comparec = func(a, b NFloat) int { return deriveCompareCI12x020(a)(b) }
var use_I12x020_equal = func(a, b NFloat) bool { return deriveEqualI12x020(a, b) }
var use_I12x020_equalc = func(a, b NFloat) bool { return deriveEqualCI12x020(a)(b) }
var use_I12x020_equalclone = func(a NFloat) bool { return deriveEqualI12x020(deriveCloneI12x020(a), a) }
var use_I12x020_gostring = func(a NFloat) string { return deriveGoStringI12x020(a) }
var use_I12x020_hash = func(a NFloat) uint64 { return deriveHashI12x020(a) }
