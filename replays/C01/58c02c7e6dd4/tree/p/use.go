package p


