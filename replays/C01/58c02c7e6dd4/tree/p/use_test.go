package p

import (
	"testing"
)

func TestNothing(t *testing.T) {}

func use_I05x000_clone(a []map[string]int) []map[string]int { return deriveCloneI05x000(a) }
func use_I05x000_compare(a, b []map[string]int) int { return deriveCompareI05x000(a, b) }
func use_I05x000_comparec(a, b []map[string]int) int { return deriveCompareCI05x000(a)(b) }
func use_I05x000_deepcopy(a, b []map[string]int)  { deriveDeepCopyI05x000(a, b) }
func use_I05x000_equal(a, b []map[string]int) bool { return deriveEqualI05x000(a, b) }
func use_I05x000_equalc(a, b []map[string]int) bool { return deriveEqualCI05x000(a)(b) }
func use_I05x000_equalclone(a []map[string]int) bool { return deriveEqualNI05x000(deriveCloneNI05x000(a), a) }
func use_I05x000_gostring(a []map[string]int) string { return deriveGoStringI05x000(a) }
func use_I05x000_hash(a []map[string]int) uint64 { return deriveHashI05x000(a) }
