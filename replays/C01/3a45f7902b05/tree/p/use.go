package p


var use_I09x002_clone_a []map[SV]int
var use_I09x002_clone_v = deriveCloneI09x002(use_I09x002_clone_a)
var use_I09x002_compare_a []map[SV]int
var use_I09x002_compare_b []map[SV]int
var use_I09x002_compare_v = deriveCompareI09x002(use_I09x002_compare_a, use_I09x002_compare_b)
var use_I09x002_comparec_a []map[SV]int
var use_I09x002_comparec_b []map[SV]int
var use_I09x002_comparec_v = deriveCompareCI09x002(use_I09x002_comparec_a)(use_I09x002_comparec_b)
var use_I09x002_deepcopy_a []map[SV]int
var use_I09x002_deepcopy_b []map[SV]int
func init() { deriveDeepCopyI09x002(use_I09x002_deepcopy_a, use_I09x002_deepcopy_b) }
var use_I09x002_equal_a []map[SV]int
var use_I09x002_equal_b []map[SV]int
var use_I09x002_equal_v = deriveEqualI09x002(use_I09x002_equal_a, use_I09x002_equal_b)
var use_I09x002_equalc_a []map[SV]int
var use_I09x002_equalc_b []map[SV]int
var use_I09x002_equalc_v = deriveEqualCI09x002(use_I09x002_equalc_a)(use_I09x002_equalc_b)
var use_I09x002_equalclone_a []map[SV]int
var use_I09x002_equalclone_v = deriveEqualNI09x002(deriveCloneNI09x002(use_I09x002_equalclone_a), use_I09x002_equalclone_a)
var use_I09x002_gostring_a []map[SV]int
var use_I09x002_gostring_v = deriveGoStringI09x002(use_I09x002_gostring_a)
var use_I09x002_hash_a []map[SV]int
var use_I09x002_hash_v = deriveHashI09x002(use_I09x002_hash_a)
