package p


var use_I00x011_clone = func(a *W6) *W6 { return deriveCloneI00x011(a) }
var use_I00x011_compare = func(a, b *W6) int { return deriveCompareI00x011(a, b) }
var use_I00x011_comparec = func(a, b *W6) int { return deriveCompareCI00x011(a)(b) }
var use_I00x011_deepcopy = func(a, b *W6)  { deriveDeepCopyI00x011(a, b) }
var use_I00x011_equal = func(a, b *W6) bool { return deriveEqualI00x011(a, b) }
var use_I00x011_equalc = func(a, b *W6) bool { return deriveEqualCI00x011(a)(b) }
var use_I00x011_equalclone = func(a *W6) bool { return deriveEqualNI00x011(deriveCloneNI00x011(a), a) }
var use_I00x011_gostring = func(a *W6) string { return deriveGoStringI00x011(a) }
var use_I00x011_hash = func(a *W6) uint64 { return deriveHashI00x011(a) }
