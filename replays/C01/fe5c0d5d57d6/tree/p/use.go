package p


