package p

import (
	"testing"
)

func TestNothing(t *testing.T) {}

func use_I00x015_clone(a *W8) *W8 { return deriveCloneI00x015(a) }
func use_I00x015_compare(a, b *W8) int { return deriveCompareI00x015(a, b) }
func use_I00x015_comparec(a, b *W8) int { return deriveCompareCI00x015(a)(b) }
func use_I00x015_deepcopy(a, b *W8)  { deriveDeepCopyI00x015(a, b) }
func use_I00x015_equal(a, b *W8) bool { return deriveEqualI00x015(a, b) }
func use_I00x015_equalc(a, b *W8) bool { return deriveEqualCI00x015(a)(b) }
func use_I00x015_equalclone(a *W8) bool { return deriveEqualNI00x015(deriveCloneNI00x015(a), a) }
func use_I00x015_gostring(a *W8) string { return deriveGoStringI00x015(a) }
func use_I00x015_hash(a *W8) uint64 { return deriveHashI00x015(a) }
