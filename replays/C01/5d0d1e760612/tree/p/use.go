package p


var use_I06x014_clone_a [2]int
var use_I06x014_clone_v = deriveCloneI06x014(use_I06x014_clone_a)
var use_I06x014_compare_a [2]int
var use_I06x014_compare_b [2]int
var use_I06x014_compare_v = deriveCompareI06x014(use_I06x014_compare_a, use_I06x014_compare_b)
var use_I06x014_comparec_a [2]int
var use_I06x014_comparec_b [2]int
var use_I06x014_comparec_v = deriveCompareCI06x014(use_I06x014_comparec_a)(use_I06x014_comparec_b)
var use_I06x014_equal_a [2]int
var use_I06x014_equal_b [2]int
var use_I06x014_equal_v = deriveEqualI06x014(use_I06x014_equal_a, use_I06x014_equal_b)
var use_I06x014_equalc_a [2]int
var use_I06x014_equalc_b [2]int
var use_I06x014_equalc_v = deriveEqualCI06x014(use_I06x014_equalc_a)(use_I06x014_equalc_b)
var use_I06x014_equalclone_a [2]int
var use_I06x014_equalclone_v = deriveEqualNI06x014(deriveCloneNI06x014(use_I06x014_equalclone_a), use_I06x014_equalclone_a)
var use_I06x014_gostring_a [2]int
var use_I06x014_gostring_v = deriveGoStringI06x014(use_I06x014_gostring_a)
var use_I06x014_hash_a [2]int
var use_I06x014_hash_v = deriveHashI06x014(use_I06x014_hash_a)
