package p


func use_I08x000_clone(a []map[string]complex128) []map[string]complex128 { return deriveCloneI08x000(a) }
func use_I08x000_compare(a, b []map[string]complex128) int { return deriveCompareI08x000(a, b) }
func use_I08x000_comparec(a, b []map[string]complex128) int { return deriveCompareCI08x000(a)(b) }
func use_I08x000_deepcopy(a, b []map[string]complex128)  { deriveDeepCopyI08x000(a, b) }
func use_I08x000_equal(a, b []map[string]complex128) bool { return deriveEqualI08x000(a, b) }
func use_I08x000_equalc(a, b []map[string]complex128) bool { return deriveEqualCI08x000(a)(b) }
func use_I08x000_equalclone(a []map[string]complex128) bool { return deriveEqualNI08x000(deriveCloneNI08x000(a), a) }
func use_I08x000_gostring(a []map[string]complex128) string { return deriveGoStringI08x000(a) }
func use_I08x000_hash(a []map[string]complex128) uint64 { return deriveHashI08x000(a) }
