package p


var use_I08x022_clone = func(a map[SV]string) map[SV]string { return deriveCloneI08x022(a) }
var use_I08x022_compare = func(a, b map[SV]string) int { return deriveCompareI08x022(a, b) }
var use_I08x022_comparec = func(a, b map[SV]string) int { return deriveCompareCI08x022(a)(b) }
var use_I08x022_deepcopy = func(a, b map[SV]string)  { deriveDeepCopyI08x022(a, b) }
var use_I08x022_equal = func(a, b map[SV]string) bool { return deriveEqualI08x022(a, b) }
var use_I08x022_equalc = func(a, b map[SV]string) bool { return deriveEqualCI08x022(a)(b) }
var use_I08x022_equalclone = func(a map[SV]string) bool { return deriveEqualNI08x022(deriveCloneNI08x022(a), a) }
var use_I08x022_gostring = func(a map[SV]string) string { return deriveGoStringI08x022(a) }
var use_I08x022_hash = func(a map[SV]string) uint64 { return deriveHashI08x022(a) }
var use_I08x022_keys = func(m map[SV]string) int { return len(deriveKeysI08x022(m)) }
var use_I08x022_sortkeys = func(m map[SV]string) int { return len(deriveSortI08x022(deriveKeysI08x022(m))) }
