package p


var use_I04x002_clone_a R3
var use_I04x002_clone_v = deriveCloneI04x002(use_I04x002_clone_a)
var use_I04x002_compare_a R3
var use_I04x002_compare_b R3
var use_I04x002_compare_v = deriveCompareI04x002(use_I04x002_compare_a, use_I04x002_compare_b)
var use_I04x002_comparec_a R3
var use_I04x002_comparec_b R3
var use_I04x002_comparec_v = deriveCompareCI04x002(use_I04x002_comparec_a)(use_I04x002_comparec_b)
var use_I04x002_equal_a R3
var use_I04x002_equal_b R3
var use_I04x002_equal_v = deriveEqualI04x002(use_I04x002_equal_a, use_I04x002_equal_b)
var use_I04x002_equalc_a R3
var use_I04x002_equalc_b R3
var use_I04x002_equalc_v = deriveEqualCI04x002(use_I04x002_equalc_a)(use_I04x002_equalc_b)
var use_I04x002_equalclone_a R3
var use_I04x002_equalclone_v = deriveEqualNI04x002(deriveCloneNI04x002(use_I04x002_equalclone_a), use_I04x002_equalclone_a)
var use_I04x002_gostring_a R3
var use_I04x002_gostring_v = deriveGoStringI04x002(use_I04x002_gostring_a)
var use_I04x002_hash_a R3
var use_I04x002_hash_v = deriveHashI04x002(use_I04x002_hash_a)
