package p


func use_I14x012_clone(a []NInt) []NInt { return deriveCloneI14x012(a) }
func use_I14x012_compare(a, b []NInt) int { return deriveCompareI14x012(a, b) }
func use_I14x012_comparec(a, b []NInt) int { return deriveCompareCI14x012(a)(b) }
func use_I14x012_deepcopy(a, b []NInt)  { deriveDeepCopyI14x012(a, b) }
func use_I14x012_equal(a, b []NInt) bool { return deriveEqualI14x012(a, b) }
func use_I14x012_equalc(a, b []NInt) bool { return deriveEqualCI14x012(a)(b) }
func use_I14x012_equalclone(a []NInt) bool { return deriveEqualNI14x012(deriveCloneNI14x012(a), a) }
func use_I14x012_gostring(a []NInt) string { return deriveGoStringI14x012(a) }
func use_I14x012_hash(a []NInt) uint64 { return deriveHashI14x012(a) }
