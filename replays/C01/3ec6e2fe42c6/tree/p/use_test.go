package p

import (
	"testing"
)

func TestNothing(t *testing.T) {}

func use_I14x007_clone(a *W6) *W6 { return deriveCloneI14x007(a) }
