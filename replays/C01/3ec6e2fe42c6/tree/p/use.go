package p


