package p


