package p


