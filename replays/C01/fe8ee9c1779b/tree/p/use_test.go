package p

import (
	"testing"
)

func TestNothing(t *testing.T) {}

func use_I11x016_clone(a map[NStr]int) map[NStr]int { return deriveCloneI11x016(a) }
func use_I11x016_compare(a, b map[NStr]int) int { return deriveCompareI11x016(a, b) }
func use_I11x016_comparec(a, b map[NStr]int) int { return deriveCompareCI11x016(a)(b) }
func use_I11x016_deepcopy(a, b map[NStr]int)  { deriveDeepCopyI11x016(a, b) }
func use_I11x016_equal(a, b map[NStr]int) bool { return deriveEqualI11x016(a, b) }
func use_I11x016_equalc(a, b map[NStr]int) bool { return deriveEqualCI11x016(a)(b) }
func use_I11x016_equalclone(a map[NStr]int) bool { return deriveEqualNI11x016(deriveCloneNI11x016(a), a) }
func use_I11x016_gostring(a map[NStr]int) string { return deriveGoStringI11x016(a) }
func use_I11x016_hash(a map[NStr]int) uint64 { return deriveHashI11x016(a) }
func use_I11x016_keys(m map[NStr]int) int { return len(deriveKeysI11x016(m)) }
func use_I11x016_sortkeys(m map[NStr]int) int { return len(deriveSortI11x016(deriveKeysI11x016(m))) }
