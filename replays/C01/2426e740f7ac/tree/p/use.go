package p


var use_I00x008_equal_a **SV
var use_I00x008_equal_b **SV
var use_I00x008_equal_v = deriveEqualI00x008(use_I00x008_equal_a, use_I00x008_equal_b)
