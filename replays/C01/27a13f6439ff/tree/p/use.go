package p


func use_Kptrkey0_clone(a map[SK]string) map[SK]string { return deriveCloneKptrkey0(a) }
func use_Kptrkey0_deepcopy(a, b map[SK]string)  { deriveDeepCopyKptrkey0(a, b) }
func use_Kptrkey0_equal(a, b map[SK]string) bool { return deriveEqualKptrkey0(a, b) }
func use_Kptrkey0_hash(a map[SK]string) uint64 { return deriveHashKptrkey0(a) }
func use_Kptrkey0_keys(m map[SK]string) int { return len(deriveKeysKptrkey0(m)) }
