package p

import (
	ext "scratch/ext"
)

var use_I17x014_clone_a *ext.Num
var use_I17x014_clone_v = deriveCloneI17x014(use_I17x014_clone_a)
var use_I17x014_compare_a *ext.Num
var use_I17x014_compare_b *ext.Num
var use_I17x014_compare_v = deriveCompareI17x014(use_I17x014_compare_a, use_I17x014_compare_b)
var use_I17x014_comparec_a *ext.Num
var use_I17x014_comparec_b *ext.Num
var use_I17x014_comparec_v = deriveCompareCI17x014(use_I17x014_comparec_a)(use_I17x014_comparec_b)
var use_I17x014_deepcopy_a *ext.Num
var use_I17x014_deepcopy_b *ext.Num
func init() { deriveDeepCopyI17x014(use_I17x014_deepcopy_a, use_I17x014_deepcopy_b) }
var use_I17x014_equal_a *ext.Num
var use_I17x014_equal_b *ext.Num
var use_I17x014_equal_v = deriveEqualI17x014(use_I17x014_equal_a, use_I17x014_equal_b)
var use_I17x014_equalc_a *ext.Num
var use_I17x014_equalc_b *ext.Num
var use_I17x014_equalc_v = deriveEqualCI17x014(use_I17x014_equalc_a)(use_I17x014_equalc_b)
var use_I17x014_equalclone_a *ext.Num
var use_I17x014_equalclone_v = deriveEqualNI17x014(deriveCloneNI17x014(use_I17x014_equalclone_a), use_I17x014_equalclone_a)
var use_I17x014_gostring_a *ext.Num
var use_I17x014_gostring_v = deriveGoStringI17x014(use_I17x014_gostring_a)
var use_I17x014_hash_a *ext.Num
var use_I17x014_hash_v = deriveHashI17x014(use_I17x014_hash_a)
