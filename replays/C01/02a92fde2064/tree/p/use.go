package p


