package p

import (
	"testing"
)

func TestNothing(t *testing.T) {}

func use_I02x010_clone(a *SP) *SP { return deriveCloneI02x010(a) }
func use_I02x010_compare(a, b *SP) int { return deriveCompareI02x010(a, b) }
func use_I02x010_comparec(a, b *SP) int { return deriveCompareCI02x010(a)(b) }
func use_I02x010_deepcopy(a, b *SP)  { deriveDeepCopyI02x010(a, b) }
func use_I02x010_equal(a, b *SP) bool { return deriveEqualI02x010(a, b) }
func use_I02x010_equalc(a, b *SP) bool { return deriveEqualCI02x010(a)(b) }
func use_I02x010_equalclone(a *SP) bool { return deriveEqualNI02x010(deriveCloneNI02x010(a), a) }
func use_I02x010_gostring(a *SP) string { return deriveGoStringI02x010(a) }
func use_I02x010_hash(a *SP) uint64 { return deriveHashI02x010(a) }
