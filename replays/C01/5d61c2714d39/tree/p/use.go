package p


var use_I01x001_clone_a *W1
var use_I01x001_clone_v = deriveCloneI01x001(use_I01x001_clone_a)
var use_I01x001_compare_a *W1
var use_I01x001_compare_b *W1
var use_I01x001_compare_v = deriveCompareI01x001(use_I01x001_compare_a, use_I01x001_compare_b)
var use_I01x001_comparec_a *W1
var use_I01x001_comparec_b *W1
var use_I01x001_comparec_v = deriveCompareCI01x001(use_I01x001_comparec_a)(use_I01x001_comparec_b)
var use_I01x001_deepcopy_a *W1
var use_I01x001_deepcopy_b *W1
func init() { deriveDeepCopyI01x001(use_I01x001_deepcopy_a, use_I01x001_deepcopy_b) }
var use_I01x001_equal_a *W1
var use_I01x001_equal_b *W1
var use_I01x001_equal_v = deriveEqualI01x001(use_I01x001_equal_a, use_I01x001_equal_b)
var use_I01x001_equalc_a *W1
var use_I01x001_equalc_b *W1
var use_I01x001_equalc_v = deriveEqualCI01x001(use_I01x001_equalc_a)(use_I01x001_equalc_b)
var use_I01x001_equalclone_a *W1
var use_I01x001_equalclone_v = deriveEqualNI01x001(deriveCloneNI01x001(use_I01x001_equalclone_a), use_I01x001_equalclone_a)
var use_I01x001_gostring_a *W1
var use_I01x001_gostring_v = deriveGoStringI01x001(use_I01x001_gostring_a)
var use_I01x001_hash_a *W1
var use_I01x001_hash_v = deriveHashI01x001(use_I01x001_hash_a)
