package p


func use_Knamed-composites0_clone(a NSlice) NSlice { return deriveCloneKnamed-composites0(a) }
