package p


