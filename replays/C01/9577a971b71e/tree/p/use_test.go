package p

import (
	"testing"
)

func TestNothing(t *testing.T) {}

func use_I14x000_keys(m map[int]map[string]bool) int { return len(deriveKeysI14x000(m)) }
