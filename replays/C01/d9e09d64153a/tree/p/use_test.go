package p

import (
	"testing"
)

func TestNothing(t *testing.T) {}

func use_I07x004L_unique(l [][]NFloat) [][]NFloat { return deriveUniqueI07x004L(l) }
