package p


