package p

import (
	ext "scratch/ext"
)

var use_I03x006_equalclone_a map[int][2]ext.Pub
var use_I03x006_equalclone_v = deriveEqualI03x006(deriveCloneI03x006(use_I03x006_equalclone_a), use_I03x006_equalclone_a)
