package p

import (
	ext "scratch/ext"
)

type NInt int64

type NStr string

type NFloat float32

type NBool bool

type NU8 uint8

type SV struct {
	A int
	B string
	C [2]bool
	D NInt
}

type SP struct {
	P *int
	S []string
	M map[string]int
	N NStr
	V SV
}

type SE struct {
	SV
	*SP
	X uint16
}

type SR struct {
	V int
	Next *SR
	Kids []SR
	M map[string]*SR
}

type SEq struct {
	A int
	L []int
	Q *string
}

type SCi struct {
	Word string
}

type NSlice []int

type NMap map[string]SV

type NArr [3]string

type NPtr *int

type W1 struct {
	Pre int
	F *SV
	Post string
}

type W2 struct {
	Pre int
	F map[int]*bool
	Post string
}

type W3 struct {
	Pre int
	F [2]*bool
	Post string
}

type W4 struct {
	Pre int
	F map[int][2]ext.Pub
	Post string
}

type W5 struct {
	Pre int
	F map[int]SV
	Post string
}

type W6 struct {
	Pre int
	F NStr
	Post string
}

type W7 struct {
	Pre int
	F *ext.Pub
	Post string
}

type W8 struct {
	Pre int
	F map[NStr]NPtr
	Post string
}

type W9 struct {
	Pre int
	F []map[float64]int
	Post string
}

type W10 struct {
	Pre int
	F []map[bool]int
	Post string
}

type W11 struct {
	Pre int
	F *map[uint8]*map[uint8]SE
	Post string
}

type W12 struct {
	Pre int
	F map[int]map[int]string
	Post string
}

