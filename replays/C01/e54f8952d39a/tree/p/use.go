package p


func use_I07x000_clone(a map[int]SP) map[int]SP { return deriveCloneI07x000(a) }
func use_I07x000_compare(a, b map[int]SP) int { return deriveCompareI07x000(a, b) }
func use_I07x000_comparec(a, b map[int]SP) int { return deriveCompareCI07x000(a)(b) }
func use_I07x000_deepcopy(a, b map[int]SP)  { deriveDeepCopyI07x000(a, b) }
func use_I07x000_equal(a, b map[int]SP) bool { return deriveEqualI07x000(a, b) }
func use_I07x000_equalc(a, b map[int]SP) bool { return deriveEqualCI07x000(a)(b) }
func use_I07x000_equalclone(a map[int]SP) bool { return deriveEqualNI07x000(deriveCloneNI07x000(a), a) }
func use_I07x000_gostring(a map[int]SP) string { return deriveGoStringI07x000(a) }
func use_I07x000_hash(a map[int]SP) uint64 { return deriveHashI07x000(a) }
func use_I07x000_keys(m map[int]SP) int { return len(deriveKeysI07x000(m)) }
func use_I07x000_sortkeys(m map[int]SP) int { return len(deriveSortI07x000(deriveKeysI07x000(m))) }
