package p


func use_I07x004_hash(a []NFloat) uint64 { return deriveHashI07x004(a) }
