package p


var use_I08x018_clone = func(a map[string]bool) map[string]bool { return deriveCloneI08x018(a) }
var use_I08x018_compare = func(a, b map[string]bool) int { return deriveCompareI08x018(a, b) }
var use_I08x018_comparec = func(a, b map[string]bool) int { return deriveCompareCI08x018(a)(b) }
var use_I08x018_deepcopy = func(a, b map[string]bool)  { deriveDeepCopyI08x018(a, b) }
var use_I08x018_equal = func(a, b map[string]bool) bool { return deriveEqualI08x018(a, b) }
var use_I08x018_equalc = func(a, b map[string]bool) bool { return deriveEqualCI08x018(a)(b) }
var use_I08x018_equalclone = func(a map[string]bool) bool { return deriveEqualNI08x018(deriveCloneNI08x018(a), a) }
var use_I08x018_gostring = func(a map[string]bool) string { return deriveGoStringI08x018(a) }
var use_I08x018_hash = func(a map[string]bool) uint64 { return deriveHashI08x018(a) }
var use_I08x018_keys = func(m map[string]bool) int { return len(deriveKeysI08x018(m)) }
var use_I08x018_sortkeys = func(m map[string]bool) int { return len(deriveSortI08x018(deriveKeysI08x018(m))) }
