package p


var use_I01x016L_min2 = func(a, b bool) bool { return deriveMinBI01x016L(a, b) }
