package p


func use_I16x022_clone(a [2]map[int]int) [2]map[int]int { return deriveCloneI16x022(a) }
func use_I16x022_compare(a, b [2]map[int]int) int { return deriveCompareI16x022(a, b) }
func use_I16x022_comparec(a, b [2]map[int]int) int { return deriveCompareCI16x022(a)(b) }
func use_I16x022_equal(a, b [2]map[int]int) bool { return deriveEqualI16x022(a, b) }
func use_I16x022_equalc(a, b [2]map[int]int) bool { return deriveEqualCI16x022(a)(b) }
func use_I16x022_equalclone(a [2]map[int]int) bool { return deriveEqualNI16x022(deriveCloneNI16x022(a), a) }
func use_I16x022_gostring(a [2]map[int]int) string { return deriveGoStringI16x022(a) }
func use_I16x022_hash(a [2]map[int]int) uint64 { return deriveHashI16x022(a) }
