package p


var use_I10x002_clone_a []SP
var use_I10x002_clone_v = deriveCloneI10x002(use_I10x002_clone_a)
var use_I10x002_compare_a []SP
var use_I10x002_compare_b []SP
var use_I10x002_compare_v = deriveCompareI10x002(use_I10x002_compare_a, use_I10x002_compare_b)
var use_I10x002_comparec_a []SP
var use_I10x002_comparec_b []SP
var use_I10x002_comparec_v = deriveCompareCI10x002(use_I10x002_comparec_a)(use_I10x002_comparec_b)
var use_I10x002_deepcopy_a []SP
var use_I10x002_deepcopy_b []SP
func init() { deriveDeepCopyI10x002(use_I10x002_deepcopy_a, use_I10x002_deepcopy_b) }
var use_I10x002_equal_a []SP
var use_I10x002_equal_b []SP
var use_I10x002_equal_v = deriveEqualI10x002(use_I10x002_equal_a, use_I10x002_equal_b)
var use_I10x002_equalc_a []SP
var use_I10x002_equalc_b []SP
var use_I10x002_equalc_v = deriveEqualCI10x002(use_I10x002_equalc_a)(use_I10x002_equalc_b)
var use_I10x002_equalclone_a []SP
var use_I10x002_equalclone_v = deriveEqualNI10x002(deriveCloneNI10x002(use_I10x002_equalclone_a), use_I10x002_equalclone_a)
var use_I10x002_gostring_a []SP
var use_I10x002_gostring_v = deriveGoStringI10x002(use_I10x002_gostring_a)
var use_I10x002_hash_a []SP
var use_I10x002_hash_v = deriveHashI10x002(use_I10x002_hash_a)
