package p


func use_I08x004_clone(a map[string]string) map[string]string { return deriveCloneI08x004(a) }
func use_I08x004_compare(a, b map[string]string) int { return deriveCompareI08x004(a, b) }
func use_I08x004_comparec(a, b map[string]string) int { return deriveCompareCI08x004(a)(b) }
func use_I08x004_deepcopy(a, b map[string]string)  { deriveDeepCopyI08x004(a, b) }
func use_I08x004_equal(a, b map[string]string) bool { return deriveEqualI08x004(a, b) }
func use_I08x004_equalc(a, b map[string]string) bool { return deriveEqualCI08x004(a)(b) }
func use_I08x004_equalclone(a map[string]string) bool { return deriveEqualNI08x004(deriveCloneNI08x004(a), a) }
func use_I08x004_gostring(a map[string]string) string { return deriveGoStringI08x004(a) }
func use_I08x004_hash(a map[string]string) uint64 { return deriveHashI08x004(a) }
func use_I08x004_keys(m map[string]string) int { return len(deriveKeysI08x004(m)) }
func use_I08x004_sortkeys(m map[string]string) int { return len(deriveSortI08x004(deriveKeysI08x004(m))) }
