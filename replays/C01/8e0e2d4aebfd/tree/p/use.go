package p


func use_I04x000_clone(a uint8) uint8 { return deriveCloneI04x000(a) }
func use_I04x000_compare(a, b uint8) int { return deriveCompareI04x000(a, b) }
func use_I04x000_comparec(a, b uint8) int { return deriveCompareCI04x000(a)(b) }
func use_I04x000_equal(a, b uint8) bool { return deriveEqualI04x000(a, b) }
func use_I04x000_equalc(a, b uint8) bool { return deriveEqualCI04x000(a)(b) }
func use_I04x000_equalclone(a uint8) bool { return deriveEqualNI04x000(deriveCloneNI04x000(a), a) }
func use_I04x000_gostring(a uint8) string { return deriveGoStringI04x000(a) }
func use_I04x000_hash(a uint8) uint64 { return deriveHashI04x000(a) }
