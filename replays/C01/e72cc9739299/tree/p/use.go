package p

import (
	ext "scratch/ext"
)

var use_I02x012_clone_a map[int][]ext.Priv
var use_I02x012_clone_v = deriveCloneI02x012(use_I02x012_clone_a)
var use_I02x012_compare_a map[int][]ext.Priv
var use_I02x012_compare_b map[int][]ext.Priv
var use_I02x012_compare_v = deriveCompareI02x012(use_I02x012_compare_a, use_I02x012_compare_b)
var use_I02x012_comparec_a map[int][]ext.Priv
var use_I02x012_comparec_b map[int][]ext.Priv
var use_I02x012_comparec_v = deriveCompareCI02x012(use_I02x012_comparec_a)(use_I02x012_comparec_b)
var use_I02x012_deepcopy_a map[int][]ext.Priv
var use_I02x012_deepcopy_b map[int][]ext.Priv
func init() { deriveDeepCopyI02x012(use_I02x012_deepcopy_a, use_I02x012_deepcopy_b) }
var use_I02x012_equal_a map[int][]ext.Priv
var use_I02x012_equal_b map[int][]ext.Priv
var use_I02x012_equal_v = deriveEqualI02x012(use_I02x012_equal_a, use_I02x012_equal_b)
var use_I02x012_equalc_a map[int][]ext.Priv
var use_I02x012_equalc_b map[int][]ext.Priv
var use_I02x012_equalc_v = deriveEqualCI02x012(use_I02x012_equalc_a)(use_I02x012_equalc_b)
var use_I02x012_equalclone_a map[int][]ext.Priv
var use_I02x012_equalclone_v = deriveEqualNI02x012(deriveCloneNI02x012(use_I02x012_equalclone_a), use_I02x012_equalclone_a)
var use_I02x012_hash_a map[int][]ext.Priv
var use_I02x012_hash_v = deriveHashI02x012(use_I02x012_hash_a)
var use_I02x012_keys_m map[int][]ext.Priv
var use_I02x012_keys_v = len(deriveKeysI02x012(use_I02x012_keys_m))
var use_I02x012_sortkeys_m map[int][]ext.Priv
var use_I02x012_sortkeys_v = len(deriveSortI02x012(deriveKeysI02x012(use_I02x012_sortkeys_m)))
