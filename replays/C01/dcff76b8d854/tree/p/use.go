package p


var use_I17x016_clone = func(a map[int]map[string]string) map[int]map[string]string { return deriveCloneI17x016(a) }
var use_I17x016_compare = func(a, b map[int]map[string]string) int { return deriveCompareI17x016(a, b) }
var use_I17x016_comparec = func(a, b map[int]map[string]string) int { return deriveCompareCI17x016(a)(b) }
var use_I17x016_deepcopy = func(a, b map[int]map[string]string)  { deriveDeepCopyI17x016(a, b) }
var use_I17x016_equal = func(a, b map[int]map[string]string) bool { return deriveEqualI17x016(a, b) }
var use_I17x016_equalc = func(a, b map[int]map[string]string) bool { return deriveEqualCI17x016(a)(b) }
var use_I17x016_equalclone = func(a map[int]map[string]string) bool { return deriveEqualNI17x016(deriveCloneNI17x016(a), a) }
var use_I17x016_gostring = func(a map[int]map[string]string) string { return deriveGoStringI17x016(a) }
var use_I17x016_hash = func(a map[int]map[string]string) uint64 { return deriveHashI17x016(a) }
var use_I17x016_keys = func(m map[int]map[string]string) int { return len(deriveKeysI17x016(m)) }
var use_I17x016_sortkeys = func(m map[int]map[string]string) int { return len(deriveSortI17x016(deriveKeysI17x016(m))) }
