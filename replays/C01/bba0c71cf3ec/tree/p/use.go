package p


var use_I06x018_clone = func(a **bool) **bool { return deriveCloneI06x018(a) }
var use_I06x018_compare = func(a, b **bool) int { return deriveCompareI06x018(a, b) }
var use_I06x018_comparec = func(a, b **bool) int { return deriveCompareCI06x018(a)(b) }
var use_I06x018_deepcopy = func(a, b **bool)  { deriveDeepCopyI06x018(a, b) }
var use_I06x018_equal = func(a, b **bool) bool { return deriveEqualI06x018(a, b) }
var use_I06x018_equalc = func(a, b **bool) bool { return deriveEqualCI06x018(a)(b) }
var use_I06x018_equalclone = func(a **bool) bool { return deriveEqualNI06x018(deriveCloneNI06x018(a), a) }
var use_I06x018_gostring = func(a **bool) string { return deriveGoStringI06x018(a) }
var use_I06x018_hash = func(a **bool) uint64 { return deriveHashI06x018(a) }
