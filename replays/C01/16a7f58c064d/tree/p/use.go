package p


var use_I06x004_clone_a *rune
var use_I06x004_clone_v = deriveCloneI06x004(use_I06x004_clone_a)
var use_I06x004_compare_a *rune
var use_I06x004_compare_b *rune
var use_I06x004_compare_v = deriveCompareI06x004(use_I06x004_compare_a, use_I06x004_compare_b)
var use_I06x004_comparec_a *rune
var use_I06x004_comparec_b *rune
var use_I06x004_comparec_v = deriveCompareCI06x004(use_I06x004_comparec_a)(use_I06x004_comparec_b)
var use_I06x004_deepcopy_a *rune
var use_I06x004_deepcopy_b *rune
func init() { deriveDeepCopyI06x004(use_I06x004_deepcopy_a, use_I06x004_deepcopy_b) }
var use_I06x004_equal_a *rune
var use_I06x004_equal_b *rune
var use_I06x004_equal_v = deriveEqualI06x004(use_I06x004_equal_a, use_I06x004_equal_b)
var use_I06x004_equalc_a *rune
var use_I06x004_equalc_b *rune
var use_I06x004_equalc_v = deriveEqualCI06x004(use_I06x004_equalc_a)(use_I06x004_equalc_b)
var use_I06x004_equalclone_a *rune
var use_I06x004_equalclone_v = deriveEqualNI06x004(deriveCloneNI06x004(use_I06x004_equalclone_a), use_I06x004_equalclone_a)
var use_I06x004_gostring_a *rune
var use_I06x004_gostring_v = deriveGoStringI06x004(use_I06x004_gostring_a)
var use_I06x004_hash_a *rune
var use_I06x004_hash_v = deriveHashI06x004(use_I06x004_hash_a)
