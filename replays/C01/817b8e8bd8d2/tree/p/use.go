package p

import (
	ext "scratch/ext"
)

func use_I16x008_clone(a []ext.Priv) []ext.Priv { return deriveCloneI16x008(a) }
func use_I16x008_compare(a, b []ext.Priv) int { return deriveCompareI16x008(a, b) }
func use_I16x008_comparec(a, b []ext.Priv) int { return deriveCompareCI16x008(a)(b) }
func use_I16x008_deepcopy(a, b []ext.Priv)  { deriveDeepCopyI16x008(a, b) }
func use_I16x008_equal(a, b []ext.Priv) bool { return deriveEqualI16x008(a, b) }
func use_I16x008_equalc(a, b []ext.Priv) bool { return deriveEqualCI16x008(a)(b) }
func use_I16x008_equalclone(a []ext.Priv) bool { return deriveEqualNI16x008(deriveCloneNI16x008(a), a) }
func use_I16x008_hash(a []ext.Priv) uint64 { return deriveHashI16x008(a) }
