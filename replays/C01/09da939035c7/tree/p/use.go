package p


func use_I11x014_clone(a [][2]rune) [][2]rune { return deriveCloneI11x014(a) }
func use_I11x014_compare(a, b [][2]rune) int { return deriveCompareI11x014(a, b) }
func use_I11x014_comparec(a, b [][2]rune) int { return deriveCompareCI11x014(a)(b) }
func use_I11x014_deepcopy(a, b [][2]rune)  { deriveDeepCopyI11x014(a, b) }
func use_I11x014_equal(a, b [][2]rune) bool { return deriveEqualI11x014(a, b) }
func use_I11x014_equalc(a, b [][2]rune) bool { return deriveEqualCI11x014(a)(b) }
func use_I11x014_equalclone(a [][2]rune) bool { return deriveEqualNI11x014(deriveCloneNI11x014(a), a) }
func use_I11x014_gostring(a [][2]rune) string { return deriveGoStringI11x014(a) }
func use_I11x014_hash(a [][2]rune) uint64 { return deriveHashI11x014(a) }
