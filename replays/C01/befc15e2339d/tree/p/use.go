package p


func use_I10x004_clone(a [][2]bool) [][2]bool { return deriveCloneI10x004(a) }
func use_I10x004_compare(a, b [][2]bool) int { return deriveCompareI10x004(a, b) }
func use_I10x004_comparec(a, b [][2]bool) int { return deriveCompareCI10x004(a)(b) }
func use_I10x004_deepcopy(a, b [][2]bool)  { deriveDeepCopyI10x004(a, b) }
func use_I10x004_equal(a, b [][2]bool) bool { return deriveEqualI10x004(a, b) }
func use_I10x004_equalc(a, b [][2]bool) bool { return deriveEqualCI10x004(a)(b) }
func use_I10x004_equalclone(a [][2]bool) bool { return deriveEqualNI10x004(deriveCloneNI10x004(a), a) }
func use_I10x004_gostring(a [][2]bool) string { return deriveGoStringI10x004(a) }
func use_I10x004_hash(a [][2]bool) uint64 { return deriveHashI10x004(a) }
