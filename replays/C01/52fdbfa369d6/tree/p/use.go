package p


