package p

import (
	"testing"
)

func TestNothing(t *testing.T) {}

func use_I12x021_clone(a *W11) *W11 { return deriveCloneI12x021(a) }
func use_I12x021_compare(a, b *W11) int { return deriveCompareI12x021(a, b) }
func use_I12x021_comparec(a, b *W11) int { return deriveCompareCI12x021(a)(b) }
func use_I12x021_deepcopy(a, b *W11)  { deriveDeepCopyI12x021(a, b) }
func use_I12x021_equal(a, b *W11) bool { return deriveEqualI12x021(a, b) }
func use_I12x021_equalc(a, b *W11) bool { return deriveEqualCI12x021(a)(b) }
func use_I12x021_equalclone(a *W11) bool { return deriveEqualI12x021(deriveCloneI12x021(a), a) }
func use_I12x021_gostring(a *W11) string { return deriveGoStringI12x021(a) }
func use_I12x021_hash(a *W11) uint64 { return deriveHashI12x021(a) }
