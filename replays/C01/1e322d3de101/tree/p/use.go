package p


var use_I02x018_clone = func(a map[int]float64) map[int]float64 { return deriveCloneI02x018(a) }
var use_I02x018_compare = func(a, b map[int]float64) int { return deriveCompareI02x018(a, b) }
var use_I02x018_comparec = func(a, b map[int]float64) int { return deriveCompareCI02x018(a)(b) }
var use_I02x018_deepcopy = func(a, b map[int]float64)  { deriveDeepCopyI02x018(a, b) }
var use_I02x018_equal = func(a, b map[int]float64) bool { return deriveEqualI02x018(a, b) }
var use_I02x018_equalc = func(a, b map[int]float64) bool { return deriveEqualCI02x018(a)(b) }
var use_I02x018_equalclone = func(a map[int]float64) bool { return deriveEqualNI02x018(deriveCloneNI02x018(a), a) }
var use_I02x018_gostring = func(a map[int]float64) string { return deriveGoStringI02x018(a) }
var use_I02x018_hash = func(a map[int]float64) uint64 { return deriveHashI02x018(a) }
var use_I02x018_keys = func(m map[int]float64) int { return len(deriveKeysI02x018(m)) }
var use_I02x018_sortkeys = func(m map[int]float64) int { return len(deriveSortI02x018(deriveKeysI02x018(m))) }
