package p

import (
	"testing"
)

func TestNothing(t *testing.T) {}

func use_I10x012L_all(p func(map[int]NInt) bool, l []map[int]NInt) bool { return deriveAllI10x012L(p, l) }
func use_I10x012L_any(p func(map[int]NInt) bool, l []map[int]NInt) bool { return deriveAnyI10x012L(p, l) }
func use_I10x012L_contains(l []map[int]NInt, x map[int]NInt) bool { return deriveContainsI10x012L(l, x) }
func use_I10x012L_filter(p func(map[int]NInt) bool, l []map[int]NInt) []map[int]NInt { return deriveFilterI10x012L(p, l) }
func use_I10x012L_intersect(a, b []map[int]NInt) []map[int]NInt { return deriveIntersectI10x012L(a, b) }
func use_I10x012L_max(l []map[int]NInt, d map[int]NInt) map[int]NInt { return deriveMaxI10x012L(l, d) }
func use_I10x012L_max2(a, b map[int]NInt) map[int]NInt { return deriveMaxBI10x012L(a, b) }
func use_I10x012L_min(l []map[int]NInt, d map[int]NInt) map[int]NInt { return deriveMinI10x012L(l, d) }
func use_I10x012L_min2(a, b map[int]NInt) map[int]NInt { return deriveMinBI10x012L(a, b) }
func use_I10x012L_sort(l []map[int]NInt) []map[int]NInt { return deriveSortI10x012L(l) }
func use_I10x012L_takewhile(p func(map[int]NInt) bool, l []map[int]NInt) []map[int]NInt { return deriveTakeWhileI10x012L(p, l) }
func use_I10x012L_union(a, b []map[int]NInt) []map[int]NInt { return deriveUnionI10x012L(a, b) }
func use_I10x012L_unique(l []map[int]NInt) []map[int]NInt { return deriveUniqueI10x012L(l) }
