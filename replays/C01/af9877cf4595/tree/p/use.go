package p


