package p


var use_I13x010_clone = func(a []rune) []rune { return deriveCloneI13x010(a) }
var use_I13x010_compare = func(a, b []rune) int { return deriveCompareI13x010(a, b) }
var use_I13x010_comparec = func(a, b []rune) int { return deriveCompareCI13x010(a)(b) }
var use_I13x010_deepcopy = func(a, b []rune)  { deriveDeepCopyI13x010(a, b) }
var use_I13x010_equal = func(a, b []rune) bool { return deriveEqualI13x010(a, b) }
var use_I13x010_equalc = func(a, b []rune) bool { return deriveEqualCI13x010(a)(b) }
var use_I13x010_equalclone = func(a []rune) bool { return deriveEqualNI13x010(deriveCloneNI13x010(a), a) }
var use_I13x010_gostring = func(a []rune) string { return deriveGoStringI13x010(a) }
var use_I13x010_hash = func(a []rune) uint64 { return deriveHashI13x010(a) }
