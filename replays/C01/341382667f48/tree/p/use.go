package p


func use_I12x010_clone(a [2]map[string]int) [2]map[string]int { return deriveCloneI12x010(a) }
func use_I12x010_compare(a, b [2]map[string]int) int { return deriveCompareI12x010(a, b) }
func use_I12x010_comparec(a, b [2]map[string]int) int { return deriveCompareCI12x010(a)(b) }
func use_I12x010_equal(a, b [2]map[string]int) bool { return deriveEqualI12x010(a, b) }
func use_I12x010_equalc(a, b [2]map[string]int) bool { return deriveEqualCI12x010(a)(b) }
func use_I12x010_equalclone(a [2]map[string]int) bool { return deriveEqualNI12x010(deriveCloneNI12x010(a), a) }
func use_I12x010_gostring(a [2]map[string]int) string { return deriveGoStringI12x010(a) }
func use_I12x010_hash(a [2]map[string]int) uint64 { return deriveHashI12x010(a) }
