package p


var use_I03x007_equalclone = func(a *W4) bool { return deriveEqualI03x007(deriveCloneI03x007(a), a) }
