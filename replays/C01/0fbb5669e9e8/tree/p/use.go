package p


