package p


var use_I17x020_clone_a [2]map[int]NInt
var use_I17x020_clone_v = deriveCloneI17x020(use_I17x020_clone_a)
var use_I17x020_compare_a [2]map[int]NInt
var use_I17x020_compare_b [2]map[int]NInt
var use_I17x020_compare_v = deriveCompareI17x020(use_I17x020_compare_a, use_I17x020_compare_b)
var use_I17x020_comparec_a [2]map[int]NInt
var use_I17x020_comparec_b [2]map[int]NInt
var use_I17x020_comparec_v = deriveCompareCI17x020(use_I17x020_comparec_a)(use_I17x020_comparec_b)
var use_I17x020_equal_a [2]map[int]NInt
var use_I17x020_equal_b [2]map[int]NInt
var use_I17x020_equal_v = deriveEqualI17x020(use_I17x020_equal_a, use_I17x020_equal_b)
var use_I17x020_equalc_a [2]map[int]NInt
var use_I17x020_equalc_b [2]map[int]NInt
var use_I17x020_equalc_v = deriveEqualCI17x020(use_I17x020_equalc_a)(use_I17x020_equalc_b)
var use_I17x020_equalclone_a [2]map[int]NInt
var use_I17x020_equalclone_v = deriveEqualNI17x020(deriveCloneNI17x020(use_I17x020_equalclone_a), use_I17x020_equalclone_a)
var use_I17x020_gostring_a [2]map[int]NInt
var use_I17x020_gostring_v = deriveGoStringI17x020(use_I17x020_gostring_a)
var use_I17x020_hash_a [2]map[int]NInt
var use_I17x020_hash_v = deriveHashI17x020(use_I17x020_hash_a)
