package p


var use_I12x002_clone = func(a map[NInt]string) map[NInt]string { return deriveCloneI12x002(a) }
var use_I12x002_compare = func(a, b map[NInt]string) int { return deriveCompareI12x002(a, b) }
var use_I12x002_comparec = func(a, b map[NInt]string) int { return deriveCompareCI12x002(a)(b) }
var use_I12x002_deepcopy = func(a, b map[NInt]string)  { deriveDeepCopyI12x002(a, b) }
var use_I12x002_equal = func(a, b map[NInt]string) bool { return deriveEqualI12x002(a, b) }
var use_I12x002_equalc = func(a, b map[NInt]string) bool { return deriveEqualCI12x002(a)(b) }
var use_I12x002_equalclone = func(a map[NInt]string) bool { return deriveEqualNI12x002(deriveCloneNI12x002(a), a) }
var use_I12x002_gostring = func(a map[NInt]string) string { return deriveGoStringI12x002(a) }
var use_I12x002_hash = func(a map[NInt]string) uint64 { return deriveHashI12x002(a) }
var use_I12x002_keys = func(m map[NInt]string) int { return len(deriveKeysI12x002(m)) }
var use_I12x002_sortkeys = func(m map[NInt]string) int { return len(deriveSortI12x002(deriveKeysI12x002(m))) }
