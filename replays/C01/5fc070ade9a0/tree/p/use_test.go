package p

import (
	"testing"
)

func TestNothing(t *testing.T) {}

func use_I07x012L_min2(a, b complex128) complex128 { return deriveMinBI07x012L(a, b) }
