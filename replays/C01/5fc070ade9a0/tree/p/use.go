package p


