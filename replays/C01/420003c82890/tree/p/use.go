package p

import (
	ext "scratch/ext"
)

func use_I09x000_clone(a []map[string]ext.Pub) []map[string]ext.Pub { return deriveCloneI09x000(a) }
func use_I09x000_compare(a, b []map[string]ext.Pub) int { return deriveCompareI09x000(a, b) }
func use_I09x000_comparec(a, b []map[string]ext.Pub) int { return deriveCompareCI09x000(a)(b) }
func use_I09x000_deepcopy(a, b []map[string]ext.Pub)  { deriveDeepCopyI09x000(a, b) }
func use_I09x000_equal(a, b []map[string]ext.Pub) bool { return deriveEqualI09x000(a, b) }
func use_I09x000_equalc(a, b []map[string]ext.Pub) bool { return deriveEqualCI09x000(a)(b) }
func use_I09x000_equalclone(a []map[string]ext.Pub) bool { return deriveEqualNI09x000(deriveCloneNI09x000(a), a) }
func use_I09x000_gostring(a []map[string]ext.Pub) string { return deriveGoStringI09x000(a) }
func use_I09x000_hash(a []map[string]ext.Pub) uint64 { return deriveHashI09x000(a) }
