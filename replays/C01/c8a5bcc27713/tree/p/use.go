package p


var use_I01x006_clone = func(a []bool) []bool { return deriveCloneI01x006(a) }
var use_I01x006_compare = func(a, b []bool) int { return deriveCompareI01x006(a, b) }
var use_I01x006_comparec = func(a, b []bool) int { return deriveCompareCI01x006(a)(b) }
var use_I01x006_deepcopy = func(a, b []bool)  { deriveDeepCopyI01x006(a, b) }
var use_I01x006_equal = func(a, b []bool) bool { return deriveEqualI01x006(a, b) }
var use_I01x006_equalc = func(a, b []bool) bool { return deriveEqualCI01x006(a)(b) }
var use_I01x006_equalclone = func(a []bool) bool { return deriveEqualNI01x006(deriveCloneNI01x006(a), a) }
var use_I01x006_gostring = func(a []bool) string { return deriveGoStringI01x006(a) }
var use_I01x006_hash = func(a []bool) uint64 { return deriveHashI01x006(a) }
