package p


