package p

import (
	"testing"
)

func TestNothing(t *testing.T) {}

func use_I10x006_clone(a [2]map[string]NInt) [2]map[string]NInt { return deriveCloneI10x006(a) }
func use_I10x006_compare(a, b [2]map[string]NInt) int { return deriveCompareI10x006(a, b) }
func use_I10x006_comparec(a, b [2]map[string]NInt) int { return deriveCompareCI10x006(a)(b) }
func use_I10x006_equal(a, b [2]map[string]NInt) bool { return deriveEqualI10x006(a, b) }
func use_I10x006_equalc(a, b [2]map[string]NInt) bool { return deriveEqualCI10x006(a)(b) }
func use_I10x006_equalclone(a [2]map[string]NInt) bool { return deriveEqualNI10x006(deriveCloneNI10x006(a), a) }
func use_I10x006_gostring(a [2]map[string]NInt) string { return deriveGoStringI10x006(a) }
func use_I10x006_hash(a [2]map[string]NInt) uint64 { return deriveHashI10x006(a) }
