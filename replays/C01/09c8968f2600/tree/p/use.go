package p


var use_I00x006_clone = func(a *complex128) *complex128 { return deriveCloneI00x006(a) }
var use_I00x006_compare = func(a, b *complex128) int { return deriveCompareI00x006(a, b) }
var use_I00x006_comparec = func(a, b *complex128) int { return deriveCompareCI00x006(a)(b) }
var use_I00x006_deepcopy = func(a, b *complex128)  { deriveDeepCopyI00x006(a, b) }
var use_I00x006_equal = func(a, b *complex128) bool { return deriveEqualI00x006(a, b) }
var use_I00x006_equalc = func(a, b *complex128) bool { return deriveEqualCI00x006(a)(b) }
var use_I00x006_equalclone = func(a *complex128) bool { return deriveEqualNI00x006(deriveCloneNI00x006(a), a) }
var use_I00x006_gostring = func(a *complex128) string { return deriveGoStringI00x006(a) }
var use_I00x006_hash = func(a *complex128) uint64 { return deriveHashI00x006(a) }
