package p


func use_I17x008_clone(a SR) SR { return deriveCloneI17x008(a) }
func use_I17x008_compare(a, b SR) int { return deriveCompareI17x008(a, b) }
func use_I17x008_comparec(a, b SR) int { return deriveCompareCI17x008(a)(b) }
func use_I17x008_equal(a, b SR) bool { return deriveEqualI17x008(a, b) }
func use_I17x008_equalc(a, b SR) bool { return deriveEqualCI17x008(a)(b) }
func use_I17x008_equalclone(a SR) bool { return deriveEqualNI17x008(deriveCloneNI17x008(a), a) }
func use_I17x008_gostring(a SR) string { return deriveGoStringI17x008(a) }
func use_I17x008_hash(a SR) uint64 { return deriveHashI17x008(a) }
