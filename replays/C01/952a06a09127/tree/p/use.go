package p


var use_I15x010_clone = func(a map[string]uint8) map[string]uint8 { return deriveCloneI15x010(a) }
var use_I15x010_compare = func(a, b map[string]uint8) int { return deriveCompareI15x010(a, b) }
var use_I15x010_comparec = func(a, b map[string]uint8) int { return deriveCompareCI15x010(a)(b) }
var use_I15x010_deepcopy = func(a, b map[string]uint8)  { deriveDeepCopyI15x010(a, b) }
var use_I15x010_equal = func(a, b map[string]uint8) bool { return deriveEqualI15x010(a, b) }
var use_I15x010_equalc = func(a, b map[string]uint8) bool { return deriveEqualCI15x010(a)(b) }
var use_I15x010_equalclone = func(a map[string]uint8) bool { return deriveEqualNI15x010(deriveCloneNI15x010(a), a) }
var use_I15x010_gostring = func(a map[string]uint8) string { return deriveGoStringI15x010(a) }
var use_I15x010_hash = func(a map[string]uint8) uint64 { return deriveHashI15x010(a) }
var use_I15x010_keys = func(m map[string]uint8) int { return len(deriveKeysI15x010(m)) }
var use_I15x010_sortkeys = func(m map[string]uint8) int { return len(deriveSortI15x010(deriveKeysI15x010(m))) }
