package p

import (
	"testing"
)

func TestNothing(t *testing.T) {}

func use_I01x000_clone(a map[string]SR) map[string]SR { return deriveCloneI01x000(a) }
func use_I01x000_compare(a, b map[string]SR) int { return deriveCompareI01x000(a, b) }
func use_I01x000_comparec(a, b map[string]SR) int { return deriveCompareCI01x000(a)(b) }
func use_I01x000_deepcopy(a, b map[string]SR)  { deriveDeepCopyI01x000(a, b) }
func use_I01x000_equal(a, b map[string]SR) bool { return deriveEqualI01x000(a, b) }
func use_I01x000_equalc(a, b map[string]SR) bool { return deriveEqualCI01x000(a)(b) }
func use_I01x000_equalclone(a map[string]SR) bool { return deriveEqualNI01x000(deriveCloneNI01x000(a), a) }
func use_I01x000_gostring(a map[string]SR) string { return deriveGoStringI01x000(a) }
func use_I01x000_hash(a map[string]SR) uint64 { return deriveHashI01x000(a) }
func use_I01x000_keys(m map[string]SR) int { return len(deriveKeysI01x000(m)) }
func use_I01x000_sortkeys(m map[string]SR) int { return len(deriveSortI01x000(deriveKeysI01x000(m))) }
