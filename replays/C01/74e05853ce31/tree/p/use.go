package p


