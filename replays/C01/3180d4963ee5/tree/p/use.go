package p


var use_I05x012_clone = func(a map[int]rune) map[int]rune { return deriveCloneI05x012(a) }
var use_I05x012_compare = func(a, b map[int]rune) int { return deriveCompareI05x012(a, b) }
var use_I05x012_comparec = func(a, b map[int]rune) int { return deriveCompareCI05x012(a)(b) }
var use_I05x012_deepcopy = func(a, b map[int]rune)  { deriveDeepCopyI05x012(a, b) }
var use_I05x012_equal = func(a, b map[int]rune) bool { return deriveEqualI05x012(a, b) }
var use_I05x012_equalc = func(a, b map[int]rune) bool { return deriveEqualCI05x012(a)(b) }
var use_I05x012_equalclone = func(a map[int]rune) bool { return deriveEqualNI05x012(deriveCloneNI05x012(a), a) }
var use_I05x012_gostring = func(a map[int]rune) string { return deriveGoStringI05x012(a) }
var use_I05x012_hash = func(a map[int]rune) uint64 { return deriveHashI05x012(a) }
var use_I05x012_keys = func(m map[int]rune) int { return len(deriveKeysI05x012(m)) }
var use_I05x012_sortkeys = func(m map[int]rune) int { return len(deriveSortI05x012(deriveKeysI05x012(m))) }
