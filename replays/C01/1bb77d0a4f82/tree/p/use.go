package p


var use_I03x007_clone = func(a *W4) *W4 { return deriveCloneI03x007(a) }
