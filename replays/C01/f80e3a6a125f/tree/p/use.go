package p


var use_I00x017_clone_a *W9
var use_I00x017_clone_v = deriveCloneI00x017(use_I00x017_clone_a)
var use_I00x017_compare_a *W9
var use_I00x017_compare_b *W9
var use_I00x017_compare_v = deriveCompareI00x017(use_I00x017_compare_a, use_I00x017_compare_b)
var use_I00x017_comparec_a *W9
var use_I00x017_comparec_b *W9
var use_I00x017_comparec_v = deriveCompareCI00x017(use_I00x017_comparec_a)(use_I00x017_comparec_b)
var use_I00x017_deepcopy_a *W9
var use_I00x017_deepcopy_b *W9
func init() { deriveDeepCopyI00x017(use_I00x017_deepcopy_a, use_I00x017_deepcopy_b) }
var use_I00x017_equal_a *W9
var use_I00x017_equal_b *W9
var use_I00x017_equal_v = deriveEqualI00x017(use_I00x017_equal_a, use_I00x017_equal_b)
var use_I00x017_equalc_a *W9
var use_I00x017_equalc_b *W9
var use_I00x017_equalc_v = deriveEqualCI00x017(use_I00x017_equalc_a)(use_I00x017_equalc_b)
var use_I00x017_equalclone_a *W9
var use_I00x017_equalclone_v = deriveEqualNI00x017(deriveCloneNI00x017(use_I00x017_equalclone_a), use_I00x017_equalclone_a)
var use_I00x017_gostring_a *W9
var use_I00x017_gostring_v = deriveGoStringI00x017(use_I00x017_gostring_a)
var use_I00x017_hash_a *W9
var use_I00x017_hash_v = deriveHashI00x017(use_I00x017_hash_a)
