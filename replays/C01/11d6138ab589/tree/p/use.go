package p

import (
	ext "scratch/ext"
)

var use_I09x020_clone = func(a map[int]ext.Priv) map[int]ext.Priv { return deriveCloneI09x020(a) }
var use_I09x020_compare = func(a, b map[int]ext.Priv) int { return deriveCompareI09x020(a, b) }
var use_I09x020_comparec = func(a, b map[int]ext.Priv) int { return deriveCompareCI09x020(a)(b) }
var use_I09x020_deepcopy = func(a, b map[int]ext.Priv)  { deriveDeepCopyI09x020(a, b) }
var use_I09x020_equal = func(a, b map[int]ext.Priv) bool { return deriveEqualI09x020(a, b) }
var use_I09x020_equalc = func(a, b map[int]ext.Priv) bool { return deriveEqualCI09x020(a)(b) }
var use_I09x020_equalclone = func(a map[int]ext.Priv) bool { return deriveEqualNI09x020(deriveCloneNI09x020(a), a) }
var use_I09x020_hash = func(a map[int]ext.Priv) uint64 { return deriveHashI09x020(a) }
var use_I09x020_keys = func(m map[int]ext.Priv) int { return len(deriveKeysI09x020(m)) }
var use_I09x020_sortkeys = func(m map[int]ext.Priv) int { return len(deriveSortI09x020(deriveKeysI09x020(m))) }
