package p


func use_I00x005_clone(a *W3) *W3 { return deriveCloneI00x005(a) }
func use_I00x005_compare(a, b *W3) int { return deriveCompareI00x005(a, b) }
func use_I00x005_comparec(a, b *W3) int { return deriveCompareCI00x005(a)(b) }
func use_I00x005_deepcopy(a, b *W3)  { deriveDeepCopyI00x005(a, b) }
func use_I00x005_equal(a, b *W3) bool { return deriveEqualI00x005(a, b) }
func use_I00x005_equalc(a, b *W3) bool { return deriveEqualCI00x005(a)(b) }
func use_I00x005_equalclone(a *W3) bool { return deriveEqualNI00x005(deriveCloneNI00x005(a), a) }
func use_I00x005_gostring(a *W3) string { return deriveGoStringI00x005(a) }
func use_I00x005_hash(a *W3) uint64 { return deriveHashI00x005(a) }
