package p


var use_I00x001_clone = func(a *W1) *W1 { return deriveCloneI00x001(a) }
var use_I00x001_compare = func(a, b *W1) int { return deriveCompareI00x001(a, b) }
var use_I00x001_comparec = func(a, b *W1) int { return deriveCompareCI00x001(a)(b) }
var use_I00x001_deepcopy = func(a, b *W1)  { deriveDeepCopyI00x001(a, b) }
var use_I00x001_equal = func(a, b *W1) bool { return deriveEqualI00x001(a, b) }
var use_I00x001_equalc = func(a, b *W1) bool { return deriveEqualCI00x001(a)(b) }
var use_I00x001_equalclone = func(a *W1) bool { return deriveEqualNI00x001(deriveCloneNI00x001(a), a) }
var use_I00x001_gostring = func(a *W1) string { return deriveGoStringI00x001(a) }
var use_I00x001_hash = func(a *W1) uint64 { return deriveHashI00x001(a) }
