package p

import (
	ext "scratch/ext"
)

var use_I16x014_clone = func(a ext.Priv) ext.Priv { return deriveCloneI16x014(a) }
var use_I16x014_compare = func(a, b ext.Priv) int { return deriveCompareI16x014(a, b) }
var use_I16x014_comparec = func(a, b ext.Priv) int { return deriveCompareCI16x014(a)(b) }
var use_I16x014_equal = func(a, b ext.Priv) bool { return deriveEqualI16x014(a, b) }
var use_I16x014_equalc = func(a, b ext.Priv) bool { return deriveEqualCI16x014(a)(b) }
var use_I16x014_equalclone = func(a ext.Priv) bool { return deriveEqualNI16x014(deriveCloneNI16x014(a), a) }
var use_I16x014_hash = func(a ext.Priv) uint64 { return deriveHashI16x014(a) }
