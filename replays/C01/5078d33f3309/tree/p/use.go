package p


var use_I01x010_clone = func(a map[int][2]bool) map[int][2]bool { return deriveCloneI01x010(a) }
var use_I01x010_compare = func(a, b map[int][2]bool) int { return deriveCompareI01x010(a, b) }
var use_I01x010_comparec = func(a, b map[int][2]bool) int { return deriveCompareCI01x010(a)(b) }
var use_I01x010_deepcopy = func(a, b map[int][2]bool)  { deriveDeepCopyI01x010(a, b) }
var use_I01x010_equal = func(a, b map[int][2]bool) bool { return deriveEqualI01x010(a, b) }
var use_I01x010_equalc = func(a, b map[int][2]bool) bool { return deriveEqualCI01x010(a)(b) }
var use_I01x010_equalclone = func(a map[int][2]bool) bool { return deriveEqualNI01x010(deriveCloneNI01x010(a), a) }
var use_I01x010_gostring = func(a map[int][2]bool) string { return deriveGoStringI01x010(a) }
var use_I01x010_hash = func(a map[int][2]bool) uint64 { return deriveHashI01x010(a) }
var use_I01x010_keys = func(m map[int][2]bool) int { return len(deriveKeysI01x010(m)) }
var use_I01x010_sortkeys = func(m map[int][2]bool) int { return len(deriveSortI01x010(deriveKeysI01x010(m))) }
