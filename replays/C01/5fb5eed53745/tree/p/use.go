package p


func use_I02x022_clone(a map[NFloat]int) map[NFloat]int { return deriveCloneI02x022(a) }
func use_I02x022_compare(a, b map[NFloat]int) int { return deriveCompareI02x022(a, b) }
func use_I02x022_comparec(a, b map[NFloat]int) int { return deriveCompareCI02x022(a)(b) }
func use_I02x022_deepcopy(a, b map[NFloat]int)  { deriveDeepCopyI02x022(a, b) }
func use_I02x022_equal(a, b map[NFloat]int) bool { return deriveEqualI02x022(a, b) }
func use_I02x022_equalc(a, b map[NFloat]int) bool { return deriveEqualCI02x022(a)(b) }
func use_I02x022_equalclone(a map[NFloat]int) bool { return deriveEqualI02x022(deriveCloneI02x022(a), a) }
func use_I02x022_gostring(a map[NFloat]int) string { return deriveGoStringI02x022(a) }
func use_I02x022_hash(a map[NFloat]int) uint64 { return deriveHashI02x022(a) }
func use_I02x022_keys(m map[NFloat]int) int { return len(deriveKeysI02x022(m)) }
func use_I02x022_sortkeys(m map[NFloat]int) int { return len(deriveSortI02x022(deriveKeysI02x022(m))) }
