package p

import (
	ext "scratch/ext"
)

func use_I06x000L_all(p func(map[string][2]bool) bool, l []map[string][2]bool) bool { return deriveAllI06x000L(p, l) }
func use_I06x000L_any(p func(map[string][2]bool) bool, l []map[string][2]bool) bool { return deriveAnyI06x000L(p, l) }
func use_I06x000L_contains(l []map[string][2]bool, x map[string][2]bool) bool { return deriveContainsI06x000L(l, x) }
func use_I06x000L_filter(p func(map[string][2]bool) bool, l []map[string][2]bool) []map[string][2]bool { return deriveFilterI06x000L(p, l) }
func use_I06x000L_intersect(a, b []map[string][2]bool) []map[string][2]bool { return deriveIntersectI06x000L(a, b) }
func use_I06x000L_max(l []map[string][2]bool, d map[string][2]bool) map[string][2]bool { return deriveMaxI06x000L(l, d) }
func use_I06x000L_max2(a, b map[string][2]bool) map[string][2]bool { return deriveMaxBI06x000L(a, b) }
func use_I06x000L_min(l []map[string][2]bool, d map[string][2]bool) map[string][2]bool { return deriveMinI06x000L(l, d) }
func use_I06x000L_min2(a, b map[string][2]bool) map[string][2]bool { return deriveMinBI06x000L(a, b) }
func use_I06x000L_sort(l []map[string][2]bool) []map[string][2]bool { return deriveSortI06x000L(l) }
func use_I06x000L_takewhile(p func(map[string][2]bool) bool, l []map[string][2]bool) []map[string][2]bool { return deriveTakeWhileI06x000L(p, l) }
func use_I06x000L_union(a, b []map[string][2]bool) []map[string][2]bool { return deriveUnionI06x000L(a, b) }
func use_I06x000L_unique(l []map[string][2]bool) []map[string][2]bool { return deriveUniqueI06x000L(l) }
var use_I06x001_clone = func(a *W1) *W1 { return deriveCloneI06x001(a) }
var use_I06x001_compare = func(a, b *W1) int { return deriveCompareI06x001(a, b) }
var use_I06x001_comparec = func(a, b *W1) int { return deriveCompareCI06x001(a)(b) }
var use_I06x001_deepcopy = func(a, b *W1)  { deriveDeepCopyI06x001(a, b) }
var use_I06x001_equal = func(a, b *W1) bool { return deriveEqualI06x001(a, b) }
var use_I06x001_equalc = func(a, b *W1) bool { return deriveEqualCI06x001(a)(b) }
var use_I06x001_equalclone = func(a *W1) bool { return deriveEqualI06x001(deriveCloneI06x001(a), a) }
var use_I06x001_gostring = func(a *W1) string { return deriveGoStringI06x001(a) }
var use_I06x001_hash = func(a *W1) uint64 { return deriveHashI06x001(a) }
func use_I06x002_clone(a *map[string]SV) *map[string]SV { return deriveCloneI06x002(a) }
func use_I06x002_compare(a, b *map[string]SV) int { return deriveCompareI06x002(a, b) }
func use_I06x002_comparec(a, b *map[string]SV) int { return deriveCompareCI06x002(a)(b) }
func use_I06x002_deepcopy(a, b *map[string]SV)  { deriveDeepCopyI06x002(a, b) }
func use_I06x002_equal(a, b *map[string]SV) bool { return deriveEqualI06x002(a, b) }
func use_I06x002_equalc(a, b *map[string]SV) bool { return deriveEqualCI06x002(a)(b) }
func use_I06x002_equalclone(a *map[string]SV) bool { return deriveEqualI06x002(deriveCloneI06x002(a), a) }
func use_I06x002_gostring(a *map[string]SV) string { return deriveGoStringI06x002(a) }
func use_I06x002_hash(a *map[string]SV) uint64 { return deriveHashI06x002(a) }
func use_I06x002L_all(p func(*map[string]SV) bool, l []*map[string]SV) bool { return deriveAllI06x002L(p, l) }
func use_I06x002L_any(p func(*map[string]SV) bool, l []*map[string]SV) bool { return deriveAnyI06x002L(p, l) }
func use_I06x002L_contains(l []*map[string]SV, x *map[string]SV) bool { return deriveContainsI06x002L(l, x) }
func use_I06x002L_filter(p func(*map[string]SV) bool, l []*map[string]SV) []*map[string]SV { return deriveFilterI06x002L(p, l) }
func use_I06x002L_intersect(a, b []*map[string]SV) []*map[string]SV { return deriveIntersectI06x002L(a, b) }
func use_I06x002L_max(l []*map[string]SV, d *map[string]SV) *map[string]SV { return deriveMaxI06x002L(l, d) }
func use_I06x002L_max2(a, b *map[string]SV) *map[string]SV { return deriveMaxBI06x002L(a, b) }
func use_I06x002L_min(l []*map[string]SV, d *map[string]SV) *map[string]SV { return deriveMinI06x002L(l, d) }
func use_I06x002L_min2(a, b *map[string]SV) *map[string]SV { return deriveMinBI06x002L(a, b) }
func use_I06x002L_sort(l []*map[string]SV) []*map[string]SV { return deriveSortI06x002L(l) }
func use_I06x002L_takewhile(p func(*map[string]SV) bool, l []*map[string]SV) []*map[string]SV { return deriveTakeWhileI06x002L(p, l) }
func use_I06x002L_union(a, b []*map[string]SV) []*map[string]SV { return deriveUnionI06x002L(a, b) }
func use_I06x002L_unique(l []*map[string]SV) []*map[string]SV { return deriveUniqueI06x002L(l) }
var use_I06x004_clone_a *rune
var use_I06x004_clone_v = deriveCloneI06x004(use_I06x004_clone_a)
var use_I06x004_compare_a *rune
var use_I06x004_compare_b *rune
var use_I06x004_compare_v = deriveCompareI06x004(use_I06x004_compare_a, use_I06x004_compare_b)
var use_I06x004_comparec_a *rune
var use_I06x004_comparec_b *rune
var use_I06x004_comparec_v = deriveCompareCI06x004(use_I06x004_comparec_a)(use_I06x004_comparec_b)
var use_I06x004_deepcopy_a *rune
var use_I06x004_deepcopy_b *rune
func init() { deriveDeepCopyI06x004(use_I06x004_deepcopy_a, use_I06x004_deepcopy_b) }
var use_I06x004_equal_a *rune
var use_I06x004_equal_b *rune
var use_I06x004_equal_v = deriveEqualI06x004(use_I06x004_equal_a, use_I06x004_equal_b)
var use_I06x004_equalc_a *rune
var use_I06x004_equalc_b *rune
var use_I06x004_equalc_v = deriveEqualCI06x004(use_I06x004_equalc_a)(use_I06x004_equalc_b)
var use_I06x004_equalclone_a *rune
var use_I06x004_equalclone_v = deriveEqualI06x004(deriveCloneI06x004(use_I06x004_equalclone_a), use_I06x004_equalclone_a)
var use_I06x004_gostring_a *rune
var use_I06x004_gostring_v = deriveGoStringI06x004(use_I06x004_gostring_a)
var use_I06x004_hash_a *rune
var use_I06x004_hash_v = deriveHashI06x004(use_I06x004_hash_a)
var use_I06x004L_all = func(p func(*rune) bool, l []*rune) bool { return deriveAllI06x004L(p, l) }
var use_I06x004L_any = func(p func(*rune) bool, l []*rune) bool { return deriveAnyI06x004L(p, l) }
var use_I06x004L_contains = func(l []*rune, x *rune) bool { return deriveContainsI06x004L(l, x) }
var use_I06x004L_filter = func(p func(*rune) bool, l []*rune) []*rune { return deriveFilterI06x004L(p, l) }
var use_I06x004L_intersect = func(a, b []*rune) []*rune { return deriveIntersectI06x004L(a, b) }
var use_I06x004L_max = func(l []*rune, d *rune) *rune { return deriveMaxI06x004L(l, d) }
var use_I06x004L_max2 = func(a, b *rune) *rune { return deriveMaxBI06x004L(a, b) }
var use_I06x004L_min = func(l []*rune, d *rune) *rune { return deriveMinI06x004L(l, d) }
var use_I06x004L_min2 = func(a, b *rune) *rune { return deriveMinBI06x004L(a, b) }
var use_I06x004L_sort = func(l []*rune) []*rune { return deriveSortI06x004L(l) }
var use_I06x004L_takewhile = func(p func(*rune) bool, l []*rune) []*rune { return deriveTakeWhileI06x004L(p, l) }
var use_I06x004L_union = func(a, b []*rune) []*rune { return deriveUnionI06x004L(a, b) }
var use_I06x004L_unique = func(l []*rune) []*rune { return deriveUniqueI06x004L(l) }
var use_I06x005_clone_a *W3
var use_I06x005_clone_v = deriveCloneI06x005(use_I06x005_clone_a)
var use_I06x005_compare_a *W3
var use_I06x005_compare_b *W3
var use_I06x005_compare_v = deriveCompareI06x005(use_I06x005_compare_a, use_I06x005_compare_b)
var use_I06x005_comparec_a *W3
var use_I06x005_comparec_b *W3
var use_I06x005_comparec_v = deriveCompareCI06x005(use_I06x005_comparec_a)(use_I06x005_comparec_b)
var use_I06x005_deepcopy_a *W3
var use_I06x005_deepcopy_b *W3
func init() { deriveDeepCopyI06x005(use_I06x005_deepcopy_a, use_I06x005_deepcopy_b) }
var use_I06x005_equal_a *W3
var use_I06x005_equal_b *W3
var use_I06x005_equal_v = deriveEqualI06x005(use_I06x005_equal_a, use_I06x005_equal_b)
var use_I06x005_equalc_a *W3
var use_I06x005_equalc_b *W3
var use_I06x005_equalc_v = deriveEqualCI06x005(use_I06x005_equalc_a)(use_I06x005_equalc_b)
var use_I06x005_equalclone_a *W3
var use_I06x005_equalclone_v = deriveEqualI06x005(deriveCloneI06x005(use_I06x005_equalclone_a), use_I06x005_equalclone_a)
var use_I06x005_gostring_a *W3
var use_I06x005_gostring_v = deriveGoStringI06x005(use_I06x005_gostring_a)
var use_I06x005_hash_a *W3
var use_I06x005_hash_v = deriveHashI06x005(use_I06x005_hash_a)
var use_I06x006L_all_p func([2]uint8) bool
var use_I06x006L_all_l [][2]uint8
var use_I06x006L_all_v = deriveAllI06x006L(use_I06x006L_all_p, use_I06x006L_all_l)
var use_I06x006L_any_p func([2]uint8) bool
var use_I06x006L_any_l [][2]uint8
var use_I06x006L_any_v = deriveAnyI06x006L(use_I06x006L_any_p, use_I06x006L_any_l)
var use_I06x006L_contains_l [][2]uint8
var use_I06x006L_contains_x [2]uint8
var use_I06x006L_contains_v = deriveContainsI06x006L(use_I06x006L_contains_l, use_I06x006L_contains_x)
var use_I06x006L_filter_p func([2]uint8) bool
var use_I06x006L_filter_l [][2]uint8
var use_I06x006L_filter_v = deriveFilterI06x006L(use_I06x006L_filter_p, use_I06x006L_filter_l)
var use_I06x006L_intermap_a map[[2]uint8]struct{}
var use_I06x006L_intermap_b map[[2]uint8]struct{}
var use_I06x006L_intermap_v = deriveIntersectMI06x006L(use_I06x006L_intermap_a, use_I06x006L_intermap_b)
var use_I06x006L_intersect_a [][2]uint8
var use_I06x006L_intersect_b [][2]uint8
var use_I06x006L_intersect_v = deriveIntersectI06x006L(use_I06x006L_intersect_a, use_I06x006L_intersect_b)
var use_I06x006L_max_l [][2]uint8
var use_I06x006L_max_d [2]uint8
var use_I06x006L_max_v = deriveMaxI06x006L(use_I06x006L_max_l, use_I06x006L_max_d)
var use_I06x006L_max2_a [2]uint8
var use_I06x006L_max2_b [2]uint8
var use_I06x006L_max2_v = deriveMaxBI06x006L(use_I06x006L_max2_a, use_I06x006L_max2_b)
var use_I06x006L_min_l [][2]uint8
var use_I06x006L_min_d [2]uint8
var use_I06x006L_min_v = deriveMinI06x006L(use_I06x006L_min_l, use_I06x006L_min_d)
var use_I06x006L_min2_a [2]uint8
var use_I06x006L_min2_b [2]uint8
var use_I06x006L_min2_v = deriveMinBI06x006L(use_I06x006L_min2_a, use_I06x006L_min2_b)
var use_I06x006L_set_l [][2]uint8
var use_I06x006L_set_v = deriveSetI06x006L(use_I06x006L_set_l)
var use_I06x006L_sort_l [][2]uint8
var use_I06x006L_sort_v = deriveSortI06x006L(use_I06x006L_sort_l)
var use_I06x006L_takewhile_p func([2]uint8) bool
var use_I06x006L_takewhile_l [][2]uint8
var use_I06x006L_takewhile_v = deriveTakeWhileI06x006L(use_I06x006L_takewhile_p, use_I06x006L_takewhile_l)
var use_I06x006L_union_a [][2]uint8
var use_I06x006L_union_b [][2]uint8
var use_I06x006L_union_v = deriveUnionI06x006L(use_I06x006L_union_a, use_I06x006L_union_b)
var use_I06x006L_unionmap_a map[[2]uint8]struct{}
var use_I06x006L_unionmap_b map[[2]uint8]struct{}
var use_I06x006L_unionmap_v = deriveUnionMI06x006L(use_I06x006L_unionmap_a, use_I06x006L_unionmap_b)
var use_I06x006L_unique_l [][2]uint8
var use_I06x006L_unique_v = deriveUniqueI06x006L(use_I06x006L_unique_l)
var use_I06x007_clone_a *W4
var use_I06x007_clone_v = deriveCloneI06x007(use_I06x007_clone_a)
var use_I06x007_compare_a *W4
var use_I06x007_compare_b *W4
var use_I06x007_compare_v = deriveCompareI06x007(use_I06x007_compare_a, use_I06x007_compare_b)
var use_I06x007_comparec_a *W4
var use_I06x007_comparec_b *W4
var use_I06x007_comparec_v = deriveCompareCI06x007(use_I06x007_comparec_a)(use_I06x007_comparec_b)
var use_I06x007_deepcopy_a *W4
var use_I06x007_deepcopy_b *W4
func init() { deriveDeepCopyI06x007(use_I06x007_deepcopy_a, use_I06x007_deepcopy_b) }
var use_I06x007_equal_a *W4
var use_I06x007_equal_b *W4
var use_I06x007_equal_v = deriveEqualI06x007(use_I06x007_equal_a, use_I06x007_equal_b)
var use_I06x007_equalc_a *W4
var use_I06x007_equalc_b *W4
var use_I06x007_equalc_v = deriveEqualCI06x007(use_I06x007_equalc_a)(use_I06x007_equalc_b)
var use_I06x007_equalclone_a *W4
var use_I06x007_equalclone_v = deriveEqualI06x007(deriveCloneI06x007(use_I06x007_equalclone_a), use_I06x007_equalclone_a)
var use_I06x007_gostring_a *W4
var use_I06x007_gostring_v = deriveGoStringI06x007(use_I06x007_gostring_a)
var use_I06x007_hash_a *W4
var use_I06x007_hash_v = deriveHashI06x007(use_I06x007_hash_a)
func use_I06x008_clone(a map[NStr]string) map[NStr]string { return deriveCloneI06x008(a) }
func use_I06x008_compare(a, b map[NStr]string) int { return deriveCompareI06x008(a, b) }
func use_I06x008_comparec(a, b map[NStr]string) int { return deriveCompareCI06x008(a)(b) }
func use_I06x008_deepcopy(a, b map[NStr]string)  { deriveDeepCopyI06x008(a, b) }
func use_I06x008_equal(a, b map[NStr]string) bool { return deriveEqualI06x008(a, b) }
func use_I06x008_equalc(a, b map[NStr]string) bool { return deriveEqualCI06x008(a)(b) }
func use_I06x008_equalclone(a map[NStr]string) bool { return deriveEqualI06x008(deriveCloneI06x008(a), a) }
func use_I06x008_gostring(a map[NStr]string) string { return deriveGoStringI06x008(a) }
func use_I06x008_hash(a map[NStr]string) uint64 { return deriveHashI06x008(a) }
func use_I06x008_keys(m map[NStr]string) int { return len(deriveKeysI06x008(m)) }
func use_I06x008_sortkeys(m map[NStr]string) int { return len(deriveSortI06x008(deriveKeysI06x008(m))) }
var use_I06x009_clone = func(a *W5) *W5 { return deriveCloneI06x009(a) }
var use_I06x009_compare = func(a, b *W5) int { return deriveCompareI06x009(a, b) }
var use_I06x009_comparec = func(a, b *W5) int { return deriveCompareCI06x009(a)(b) }
var use_I06x009_deepcopy = func(a, b *W5)  { deriveDeepCopyI06x009(a, b) }
var use_I06x009_equal = func(a, b *W5) bool { return deriveEqualI06x009(a, b) }
var use_I06x009_equalc = func(a, b *W5) bool { return deriveEqualCI06x009(a)(b) }
var use_I06x009_equalclone = func(a *W5) bool { return deriveEqualI06x009(deriveCloneI06x009(a), a) }
var use_I06x009_gostring = func(a *W5) string { return deriveGoStringI06x009(a) }
var use_I06x009_hash = func(a *W5) uint64 { return deriveHashI06x009(a) }
var use_I06x010L_all = func(p func([2]rune) bool, l [][2]rune) bool { return deriveAllI06x010L(p, l) }
var use_I06x010L_any = func(p func([2]rune) bool, l [][2]rune) bool { return deriveAnyI06x010L(p, l) }
var use_I06x010L_contains = func(l [][2]rune, x [2]rune) bool { return deriveContainsI06x010L(l, x) }
var use_I06x010L_filter = func(p func([2]rune) bool, l [][2]rune) [][2]rune { return deriveFilterI06x010L(p, l) }
var use_I06x010L_intermap = func(a, b map[[2]rune]struct{}) map[[2]rune]struct{} { return deriveIntersectMI06x010L(a, b) }
var use_I06x010L_intersect = func(a, b [][2]rune) [][2]rune { return deriveIntersectI06x010L(a, b) }
var use_I06x010L_max = func(l [][2]rune, d [2]rune) [2]rune { return deriveMaxI06x010L(l, d) }
var use_I06x010L_max2 = func(a, b [2]rune) [2]rune { return deriveMaxBI06x010L(a, b) }
var use_I06x010L_min = func(l [][2]rune, d [2]rune) [2]rune { return deriveMinI06x010L(l, d) }
var use_I06x010L_min2 = func(a, b [2]rune) [2]rune { return deriveMinBI06x010L(a, b) }
var use_I06x010L_set = func(l [][2]rune) map[[2]rune]struct{} { return deriveSetI06x010L(l) }
var use_I06x010L_sort = func(l [][2]rune) [][2]rune { return deriveSortI06x010L(l) }
var use_I06x010L_takewhile = func(p func([2]rune) bool, l [][2]rune) [][2]rune { return deriveTakeWhileI06x010L(p, l) }
var use_I06x010L_union = func(a, b [][2]rune) [][2]rune { return deriveUnionI06x010L(a, b) }
var use_I06x010L_unionmap = func(a, b map[[2]rune]struct{}) map[[2]rune]struct{} { return deriveUnionMI06x010L(a, b) }
var use_I06x010L_unique = func(l [][2]rune) [][2]rune { return deriveUniqueI06x010L(l) }
var use_I06x011_clone_a *W6
var use_I06x011_clone_v = deriveCloneI06x011(use_I06x011_clone_a)
var use_I06x011_compare_a *W6
var use_I06x011_compare_b *W6
var use_I06x011_compare_v = deriveCompareI06x011(use_I06x011_compare_a, use_I06x011_compare_b)
var use_I06x011_comparec_a *W6
var use_I06x011_comparec_b *W6
var use_I06x011_comparec_v = deriveCompareCI06x011(use_I06x011_comparec_a)(use_I06x011_comparec_b)
var use_I06x011_deepcopy_a *W6
var use_I06x011_deepcopy_b *W6
func init() { deriveDeepCopyI06x011(use_I06x011_deepcopy_a, use_I06x011_deepcopy_b) }
var use_I06x011_equal_a *W6
var use_I06x011_equal_b *W6
var use_I06x011_equal_v = deriveEqualI06x011(use_I06x011_equal_a, use_I06x011_equal_b)
var use_I06x011_equalc_a *W6
var use_I06x011_equalc_b *W6
var use_I06x011_equalc_v = deriveEqualCI06x011(use_I06x011_equalc_a)(use_I06x011_equalc_b)
var use_I06x011_equalclone_a *W6
var use_I06x011_equalclone_v = deriveEqualI06x011(deriveCloneI06x011(use_I06x011_equalclone_a), use_I06x011_equalclone_a)
var use_I06x011_gostring_a *W6
var use_I06x011_gostring_v = deriveGoStringI06x011(use_I06x011_gostring_a)
var use_I06x011_hash_a *W6
var use_I06x011_hash_v = deriveHashI06x011(use_I06x011_hash_a)
var use_I06x012_clone = func(a *map[string]ext.Pub) *map[string]ext.Pub { return deriveCloneI06x012(a) }
var use_I06x012_compare = func(a, b *map[string]ext.Pub) int { return deriveCompareI06x012(a, b) }
var use_I06x012_comparec = func(a, b *map[string]ext.Pub) int { return deriveCompareCI06x012(a)(b) }
var use_I06x012_deepcopy = func(a, b *map[string]ext.Pub)  { deriveDeepCopyI06x012(a, b) }
var use_I06x012_equal = func(a, b *map[string]ext.Pub) bool { return deriveEqualI06x012(a, b) }
var use_I06x012_equalc = func(a, b *map[string]ext.Pub) bool { return deriveEqualCI06x012(a)(b) }
var use_I06x012_equalclone = func(a *map[string]ext.Pub) bool { return deriveEqualI06x012(deriveCloneI06x012(a), a) }
var use_I06x012_gostring = func(a *map[string]ext.Pub) string { return deriveGoStringI06x012(a) }
var use_I06x012_hash = func(a *map[string]ext.Pub) uint64 { return deriveHashI06x012(a) }
func use_I06x012L_all(p func(*map[string]ext.Pub) bool, l []*map[string]ext.Pub) bool { return deriveAllI06x012L(p, l) }
func use_I06x012L_any(p func(*map[string]ext.Pub) bool, l []*map[string]ext.Pub) bool { return deriveAnyI06x012L(p, l) }
func use_I06x012L_contains(l []*map[string]ext.Pub, x *map[string]ext.Pub) bool { return deriveContainsI06x012L(l, x) }
func use_I06x012L_filter(p func(*map[string]ext.Pub) bool, l []*map[string]ext.Pub) []*map[string]ext.Pub { return deriveFilterI06x012L(p, l) }
func use_I06x012L_intersect(a, b []*map[string]ext.Pub) []*map[string]ext.Pub { return deriveIntersectI06x012L(a, b) }
func use_I06x012L_max(l []*map[string]ext.Pub, d *map[string]ext.Pub) *map[string]ext.Pub { return deriveMaxI06x012L(l, d) }
func use_I06x012L_max2(a, b *map[string]ext.Pub) *map[string]ext.Pub { return deriveMaxBI06x012L(a, b) }
func use_I06x012L_min(l []*map[string]ext.Pub, d *map[string]ext.Pub) *map[string]ext.Pub { return deriveMinI06x012L(l, d) }
func use_I06x012L_min2(a, b *map[string]ext.Pub) *map[string]ext.Pub { return deriveMinBI06x012L(a, b) }
func use_I06x012L_sort(l []*map[string]ext.Pub) []*map[string]ext.Pub { return deriveSortI06x012L(l) }
func use_I06x012L_takewhile(p func(*map[string]ext.Pub) bool, l []*map[string]ext.Pub) []*map[string]ext.Pub { return deriveTakeWhileI06x012L(p, l) }
func use_I06x012L_union(a, b []*map[string]ext.Pub) []*map[string]ext.Pub { return deriveUnionI06x012L(a, b) }
func use_I06x012L_unique(l []*map[string]ext.Pub) []*map[string]ext.Pub { return deriveUniqueI06x012L(l) }
var use_I06x013_clone_a *W7
var use_I06x013_clone_v = deriveCloneI06x013(use_I06x013_clone_a)
var use_I06x013_compare_a *W7
var use_I06x013_compare_b *W7
var use_I06x013_compare_v = deriveCompareI06x013(use_I06x013_compare_a, use_I06x013_compare_b)
var use_I06x013_comparec_a *W7
var use_I06x013_comparec_b *W7
var use_I06x013_comparec_v = deriveCompareCI06x013(use_I06x013_comparec_a)(use_I06x013_comparec_b)
var use_I06x013_deepcopy_a *W7
var use_I06x013_deepcopy_b *W7
func init() { deriveDeepCopyI06x013(use_I06x013_deepcopy_a, use_I06x013_deepcopy_b) }
var use_I06x013_equal_a *W7
var use_I06x013_equal_b *W7
var use_I06x013_equal_v = deriveEqualI06x013(use_I06x013_equal_a, use_I06x013_equal_b)
var use_I06x013_equalc_a *W7
var use_I06x013_equalc_b *W7
var use_I06x013_equalc_v = deriveEqualCI06x013(use_I06x013_equalc_a)(use_I06x013_equalc_b)
var use_I06x013_equalclone_a *W7
var use_I06x013_equalclone_v = deriveEqualI06x013(deriveCloneI06x013(use_I06x013_equalclone_a), use_I06x013_equalclone_a)
var use_I06x013_gostring_a *W7
var use_I06x013_gostring_v = deriveGoStringI06x013(use_I06x013_gostring_a)
var use_I06x013_hash_a *W7
var use_I06x013_hash_v = deriveHashI06x013(use_I06x013_hash_a)
var use_I06x014_clone_a [2]int
var use_I06x014_clone_v = deriveCloneI06x014(use_I06x014_clone_a)
var use_I06x014_compare_a [2]int
var use_I06x014_compare_b [2]int
var use_I06x014_compare_v = deriveCompareI06x014(use_I06x014_compare_a, use_I06x014_compare_b)
var use_I06x014_comparec_a [2]int
var use_I06x014_comparec_b [2]int
var use_I06x014_comparec_v = deriveCompareCI06x014(use_I06x014_comparec_a)(use_I06x014_comparec_b)
var use_I06x014_equal_a [2]int
var use_I06x014_equal_b [2]int
var use_I06x014_equal_v = deriveEqualI06x014(use_I06x014_equal_a, use_I06x014_equal_b)
var use_I06x014_equalc_a [2]int
var use_I06x014_equalc_b [2]int
var use_I06x014_equalc_v = deriveEqualCI06x014(use_I06x014_equalc_a)(use_I06x014_equalc_b)
var use_I06x014_equalclone_a [2]int
var use_I06x014_equalclone_v = deriveEqualI06x014(deriveCloneI06x014(use_I06x014_equalclone_a), use_I06x014_equalclone_a)
var use_I06x014_gostring_a [2]int
var use_I06x014_gostring_v = deriveGoStringI06x014(use_I06x014_gostring_a)
var use_I06x014_hash_a [2]int
var use_I06x014_hash_v = deriveHashI06x014(use_I06x014_hash_a)
var use_I06x014L_all_p func([2]int) bool
var use_I06x014L_all_l [][2]int
var use_I06x014L_all_v = deriveAllI06x014L(use_I06x014L_all_p, use_I06x014L_all_l)
var use_I06x014L_any_p func([2]int) bool
var use_I06x014L_any_l [][2]int
var use_I06x014L_any_v = deriveAnyI06x014L(use_I06x014L_any_p, use_I06x014L_any_l)
var use_I06x014L_contains_l [][2]int
var use_I06x014L_contains_x [2]int
var use_I06x014L_contains_v = deriveContainsI06x014L(use_I06x014L_contains_l, use_I06x014L_contains_x)
var use_I06x014L_filter_p func([2]int) bool
var use_I06x014L_filter_l [][2]int
var use_I06x014L_filter_v = deriveFilterI06x014L(use_I06x014L_filter_p, use_I06x014L_filter_l)
var use_I06x014L_intermap_a map[[2]int]struct{}
var use_I06x014L_intermap_b map[[2]int]struct{}
var use_I06x014L_intermap_v = deriveIntersectMI06x014L(use_I06x014L_intermap_a, use_I06x014L_intermap_b)
var use_I06x014L_intersect_a [][2]int
var use_I06x014L_intersect_b [][2]int
var use_I06x014L_intersect_v = deriveIntersectI06x014L(use_I06x014L_intersect_a, use_I06x014L_intersect_b)
var use_I06x014L_max_l [][2]int
var use_I06x014L_max_d [2]int
var use_I06x014L_max_v = deriveMaxI06x014L(use_I06x014L_max_l, use_I06x014L_max_d)
var use_I06x014L_max2_a [2]int
var use_I06x014L_max2_b [2]int
var use_I06x014L_max2_v = deriveMaxBI06x014L(use_I06x014L_max2_a, use_I06x014L_max2_b)
var use_I06x014L_min_l [][2]int
var use_I06x014L_min_d [2]int
var use_I06x014L_min_v = deriveMinI06x014L(use_I06x014L_min_l, use_I06x014L_min_d)
var use_I06x014L_min2_a [2]int
var use_I06x014L_min2_b [2]int
var use_I06x014L_min2_v = deriveMinBI06x014L(use_I06x014L_min2_a, use_I06x014L_min2_b)
var use_I06x014L_set_l [][2]int
var use_I06x014L_set_v = deriveSetI06x014L(use_I06x014L_set_l)
var use_I06x014L_sort_l [][2]int
var use_I06x014L_sort_v = deriveSortI06x014L(use_I06x014L_sort_l)
var use_I06x014L_takewhile_p func([2]int) bool
var use_I06x014L_takewhile_l [][2]int
var use_I06x014L_takewhile_v = deriveTakeWhileI06x014L(use_I06x014L_takewhile_p, use_I06x014L_takewhile_l)
var use_I06x014L_union_a [][2]int
var use_I06x014L_union_b [][2]int
var use_I06x014L_union_v = deriveUnionI06x014L(use_I06x014L_union_a, use_I06x014L_union_b)
var use_I06x014L_unionmap_a map[[2]int]struct{}
var use_I06x014L_unionmap_b map[[2]int]struct{}
var use_I06x014L_unionmap_v = deriveUnionMI06x014L(use_I06x014L_unionmap_a, use_I06x014L_unionmap_b)
var use_I06x014L_unique_l [][2]int
var use_I06x014L_unique_v = deriveUniqueI06x014L(use_I06x014L_unique_l)
func use_I06x016L_all(p func(map[NStr]SP) bool, l []map[NStr]SP) bool { return deriveAllI06x016L(p, l) }
func use_I06x016L_any(p func(map[NStr]SP) bool, l []map[NStr]SP) bool { return deriveAnyI06x016L(p, l) }
func use_I06x016L_contains(l []map[NStr]SP, x map[NStr]SP) bool { return deriveContainsI06x016L(l, x) }
func use_I06x016L_filter(p func(map[NStr]SP) bool, l []map[NStr]SP) []map[NStr]SP { return deriveFilterI06x016L(p, l) }
func use_I06x016L_intersect(a, b []map[NStr]SP) []map[NStr]SP { return deriveIntersectI06x016L(a, b) }
func use_I06x016L_max(l []map[NStr]SP, d map[NStr]SP) map[NStr]SP { return deriveMaxI06x016L(l, d) }
func use_I06x016L_max2(a, b map[NStr]SP) map[NStr]SP { return deriveMaxBI06x016L(a, b) }
func use_I06x016L_min(l []map[NStr]SP, d map[NStr]SP) map[NStr]SP { return deriveMinI06x016L(l, d) }
func use_I06x016L_min2(a, b map[NStr]SP) map[NStr]SP { return deriveMinBI06x016L(a, b) }
func use_I06x016L_sort(l []map[NStr]SP) []map[NStr]SP { return deriveSortI06x016L(l) }
func use_I06x016L_takewhile(p func(map[NStr]SP) bool, l []map[NStr]SP) []map[NStr]SP { return deriveTakeWhileI06x016L(p, l) }
func use_I06x016L_union(a, b []map[NStr]SP) []map[NStr]SP { return deriveUnionI06x016L(a, b) }
func use_I06x016L_unique(l []map[NStr]SP) []map[NStr]SP { return deriveUniqueI06x016L(l) }
func use_I06x017_clone(a *W9) *W9 { return deriveCloneI06x017(a) }
func use_I06x017_compare(a, b *W9) int { return deriveCompareI06x017(a, b) }
func use_I06x017_comparec(a, b *W9) int { return deriveCompareCI06x017(a)(b) }
func use_I06x017_deepcopy(a, b *W9)  { deriveDeepCopyI06x017(a, b) }
func use_I06x017_equal(a, b *W9) bool { return deriveEqualI06x017(a, b) }
func use_I06x017_equalc(a, b *W9) bool { return deriveEqualCI06x017(a)(b) }
func use_I06x017_equalclone(a *W9) bool { return deriveEqualI06x017(deriveCloneI06x017(a), a) }
func use_I06x017_gostring(a *W9) string { return deriveGoStringI06x017(a) }
func use_I06x017_hash(a *W9) uint64 { return deriveHashI06x017(a) }
var use_I06x018_clone = func(a **bool) **bool { return deriveCloneI06x018(a) }
var use_I06x018_compare = func(a, b **bool) int { return deriveCompareI06x018(a, b) }
var use_I06x018_comparec = func(a, b **bool) int { return deriveCompareCI06x018(a)(b) }
var use_I06x018_deepcopy = func(a, b **bool)  { deriveDeepCopyI06x018(a, b) }
var use_I06x018_equal = func(a, b **bool) bool { return deriveEqualI06x018(a, b) }
var use_I06x018_equalc = func(a, b **bool) bool { return deriveEqualCI06x018(a)(b) }
var use_I06x018_equalclone = func(a **bool) bool { return deriveEqualI06x018(deriveCloneI06x018(a), a) }
var use_I06x018_gostring = func(a **bool) string { return deriveGoStringI06x018(a) }
var use_I06x018_hash = func(a **bool) uint64 { return deriveHashI06x018(a) }
var use_I06x019_clone_a *W10
var use_I06x019_clone_v = deriveCloneI06x019(use_I06x019_clone_a)
var use_I06x019_compare_a *W10
var use_I06x019_compare_b *W10
var use_I06x019_compare_v = deriveCompareI06x019(use_I06x019_compare_a, use_I06x019_compare_b)
var use_I06x019_comparec_a *W10
var use_I06x019_comparec_b *W10
var use_I06x019_comparec_v = deriveCompareCI06x019(use_I06x019_comparec_a)(use_I06x019_comparec_b)
var use_I06x019_deepcopy_a *W10
var use_I06x019_deepcopy_b *W10
func init() { deriveDeepCopyI06x019(use_I06x019_deepcopy_a, use_I06x019_deepcopy_b) }
var use_I06x019_equal_a *W10
var use_I06x019_equal_b *W10
var use_I06x019_equal_v = deriveEqualI06x019(use_I06x019_equal_a, use_I06x019_equal_b)
var use_I06x019_equalc_a *W10
var use_I06x019_equalc_b *W10
var use_I06x019_equalc_v = deriveEqualCI06x019(use_I06x019_equalc_a)(use_I06x019_equalc_b)
var use_I06x019_equalclone_a *W10
var use_I06x019_equalclone_v = deriveEqualI06x019(deriveCloneI06x019(use_I06x019_equalclone_a), use_I06x019_equalclone_a)
var use_I06x019_gostring_a *W10
var use_I06x019_gostring_v = deriveGoStringI06x019(use_I06x019_gostring_a)
var use_I06x019_hash_a *W10
var use_I06x019_hash_v = deriveHashI06x019(use_I06x019_hash_a)
func use_I06x020_clone(a map[string]NInt) map[string]NInt { return deriveCloneI06x020(a) }
func use_I06x020_compare(a, b map[string]NInt) int { return deriveCompareI06x020(a, b) }
func use_I06x020_comparec(a, b map[string]NInt) int { return deriveCompareCI06x020(a)(b) }
func use_I06x020_deepcopy(a, b map[string]NInt)  { deriveDeepCopyI06x020(a, b) }
func use_I06x020_equal(a, b map[string]NInt) bool { return deriveEqualI06x020(a, b) }
func use_I06x020_equalc(a, b map[string]NInt) bool { return deriveEqualCI06x020(a)(b) }
func use_I06x020_equalclone(a map[string]NInt) bool { return deriveEqualI06x020(deriveCloneI06x020(a), a) }
func use_I06x020_gostring(a map[string]NInt) string { return deriveGoStringI06x020(a) }
func use_I06x020_hash(a map[string]NInt) uint64 { return deriveHashI06x020(a) }
func use_I06x020_keys(m map[string]NInt) int { return len(deriveKeysI06x020(m)) }
func use_I06x020_sortkeys(m map[string]NInt) int { return len(deriveSortI06x020(deriveKeysI06x020(m))) }
func use_I06x021_clone(a *W11) *W11 { return deriveCloneI06x021(a) }
func use_I06x021_compare(a, b *W11) int { return deriveCompareI06x021(a, b) }
func use_I06x021_comparec(a, b *W11) int { return deriveCompareCI06x021(a)(b) }
func use_I06x021_deepcopy(a, b *W11)  { deriveDeepCopyI06x021(a, b) }
func use_I06x021_equal(a, b *W11) bool { return deriveEqualI06x021(a, b) }
func use_I06x021_equalc(a, b *W11) bool { return deriveEqualCI06x021(a)(b) }
func use_I06x021_equalclone(a *W11) bool { return deriveEqualI06x021(deriveCloneI06x021(a), a) }
func use_I06x021_gostring(a *W11) string { return deriveGoStringI06x021(a) }
func use_I06x021_hash(a *W11) uint64 { return deriveHashI06x021(a) }
func use_I06x022_clone(a map[string]NStr) map[string]NStr { return deriveCloneI06x022(a) }
func use_I06x022_compare(a, b map[string]NStr) int { return deriveCompareI06x022(a, b) }
func use_I06x022_comparec(a, b map[string]NStr) int { return deriveCompareCI06x022(a)(b) }
func use_I06x022_deepcopy(a, b map[string]NStr)  { deriveDeepCopyI06x022(a, b) }
func use_I06x022_equal(a, b map[string]NStr) bool { return deriveEqualI06x022(a, b) }
func use_I06x022_equalc(a, b map[string]NStr) bool { return deriveEqualCI06x022(a)(b) }
func use_I06x022_equalclone(a map[string]NStr) bool { return deriveEqualI06x022(deriveCloneI06x022(a), a) }
func use_I06x022_gostring(a map[string]NStr) string { return deriveGoStringI06x022(a) }
func use_I06x022_hash(a map[string]NStr) uint64 { return deriveHashI06x022(a) }
func use_I06x022_keys(m map[string]NStr) int { return len(deriveKeysI06x022(m)) }
func use_I06x022_sortkeys(m map[string]NStr) int { return len(deriveSortI06x022(deriveKeysI06x022(m))) }
var use_I06x022L_all_p func(map[string]NStr) bool
var use_I06x022L_all_l []map[string]NStr
var use_I06x022L_all_v = deriveAllI06x022L(use_I06x022L_all_p, use_I06x022L_all_l)
var use_I06x022L_any_p func(map[string]NStr) bool
var use_I06x022L_any_l []map[string]NStr
var use_I06x022L_any_v = deriveAnyI06x022L(use_I06x022L_any_p, use_I06x022L_any_l)
var use_I06x022L_contains_l []map[string]NStr
var use_I06x022L_contains_x map[string]NStr
var use_I06x022L_contains_v = deriveContainsI06x022L(use_I06x022L_contains_l, use_I06x022L_contains_x)
var use_I06x022L_filter_p func(map[string]NStr) bool
var use_I06x022L_filter_l []map[string]NStr
var use_I06x022L_filter_v = deriveFilterI06x022L(use_I06x022L_filter_p, use_I06x022L_filter_l)
var use_I06x022L_intersect_a []map[string]NStr
var use_I06x022L_intersect_b []map[string]NStr
var use_I06x022L_intersect_v = deriveIntersectI06x022L(use_I06x022L_intersect_a, use_I06x022L_intersect_b)
var use_I06x022L_max_l []map[string]NStr
var use_I06x022L_max_d map[string]NStr
var use_I06x022L_max_v = deriveMaxI06x022L(use_I06x022L_max_l, use_I06x022L_max_d)
var use_I06x022L_max2_a map[string]NStr
var use_I06x022L_max2_b map[string]NStr
var use_I06x022L_max2_v = deriveMaxBI06x022L(use_I06x022L_max2_a, use_I06x022L_max2_b)
var use_I06x022L_min_l []map[string]NStr
var use_I06x022L_min_d map[string]NStr
var use_I06x022L_min_v = deriveMinI06x022L(use_I06x022L_min_l, use_I06x022L_min_d)
var use_I06x022L_min2_a map[string]NStr
var use_I06x022L_min2_b map[string]NStr
var use_I06x022L_min2_v = deriveMinBI06x022L(use_I06x022L_min2_a, use_I06x022L_min2_b)
var use_I06x022L_sort_l []map[string]NStr
var use_I06x022L_sort_v = deriveSortI06x022L(use_I06x022L_sort_l)
var use_I06x022L_takewhile_p func(map[string]NStr) bool
var use_I06x022L_takewhile_l []map[string]NStr
var use_I06x022L_takewhile_v = deriveTakeWhileI06x022L(use_I06x022L_takewhile_p, use_I06x022L_takewhile_l)
var use_I06x022L_union_a []map[string]NStr
var use_I06x022L_union_b []map[string]NStr
var use_I06x022L_union_v = deriveUnionI06x022L(use_I06x022L_union_a, use_I06x022L_union_b)
var use_I06x022L_unique_l []map[string]NStr
var use_I06x022L_unique_v = deriveUniqueI06x022L(use_I06x022L_unique_l)
