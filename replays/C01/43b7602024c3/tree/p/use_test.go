package p

import (
	"testing"
)

func TestNothing(t *testing.T) {}

func use_I06x000_clone(a map[string][2]bool) map[string][2]bool { return deriveCloneI06x000(a) }
func use_I06x000_compare(a, b map[string][2]bool) int { return deriveCompareI06x000(a, b) }
func use_I06x000_comparec(a, b map[string][2]bool) int { return deriveCompareCI06x000(a)(b) }
func use_I06x000_deepcopy(a, b map[string][2]bool)  { deriveDeepCopyI06x000(a, b) }
func use_I06x000_equal(a, b map[string][2]bool) bool { return deriveEqualI06x000(a, b) }
func use_I06x000_equalc(a, b map[string][2]bool) bool { return deriveEqualCI06x000(a)(b) }
func use_I06x000_equalclone(a map[string][2]bool) bool { return deriveEqualI06x000(deriveCloneI06x000(a), a) }
func use_I06x000_gostring(a map[string][2]bool) string { return deriveGoStringI06x000(a) }
func use_I06x000_hash(a map[string][2]bool) uint64 { return deriveHashI06x000(a) }
func use_I06x000_keys(m map[string][2]bool) int { return len(deriveKeysI06x000(m)) }
func use_I06x000_sortkeys(m map[string][2]bool) int { return len(deriveSortI06x000(deriveKeysI06x000(m))) }
func use_I06x003_clone(a *W2) *W2 { return deriveCloneI06x003(a) }
func use_I06x003_compare(a, b *W2) int { return deriveCompareI06x003(a, b) }
func use_I06x003_comparec(a, b *W2) int { return deriveCompareCI06x003(a)(b) }
func use_I06x003_deepcopy(a, b *W2)  { deriveDeepCopyI06x003(a, b) }
func use_I06x003_equal(a, b *W2) bool { return deriveEqualI06x003(a, b) }
func use_I06x003_equalc(a, b *W2) bool { return deriveEqualCI06x003(a)(b) }
func use_I06x003_equalclone(a *W2) bool { return deriveEqualI06x003(deriveCloneI06x003(a), a) }
func use_I06x003_gostring(a *W2) string { return deriveGoStringI06x003(a) }
func use_I06x003_hash(a *W2) uint64 { return deriveHashI06x003(a) }
func use_I06x006_clone(a [2]uint8) [2]uint8 { return deriveCloneI06x006(a) }
func use_I06x006_compare(a, b [2]uint8) int { return deriveCompareI06x006(a, b) }
func use_I06x006_comparec(a, b [2]uint8) int { return deriveCompareCI06x006(a)(b) }
func use_I06x006_equal(a, b [2]uint8) bool { return deriveEqualI06x006(a, b) }
func use_I06x006_equalc(a, b [2]uint8) bool { return deriveEqualCI06x006(a)(b) }
func use_I06x006_equalclone(a [2]uint8) bool { return deriveEqualI06x006(deriveCloneI06x006(a), a) }
func use_I06x006_gostring(a [2]uint8) string { return deriveGoStringI06x006(a) }
func use_I06x006_hash(a [2]uint8) uint64 { return deriveHashI06x006(a) }
func use_I06x008L_all(p func(map[NStr]string) bool, l []map[NStr]string) bool { return deriveAllI06x008L(p, l) }
func use_I06x008L_any(p func(map[NStr]string) bool, l []map[NStr]string) bool { return deriveAnyI06x008L(p, l) }
func use_I06x008L_contains(l []map[NStr]string, x map[NStr]string) bool { return deriveContainsI06x008L(l, x) }
func use_I06x008L_filter(p func(map[NStr]string) bool, l []map[NStr]string) []map[NStr]string { return deriveFilterI06x008L(p, l) }
func use_I06x008L_intersect(a, b []map[NStr]string) []map[NStr]string { return deriveIntersectI06x008L(a, b) }
func use_I06x008L_max(l []map[NStr]string, d map[NStr]string) map[NStr]string { return deriveMaxI06x008L(l, d) }
func use_I06x008L_max2(a, b map[NStr]string) map[NStr]string { return deriveMaxBI06x008L(a, b) }
func use_I06x008L_min(l []map[NStr]string, d map[NStr]string) map[NStr]string { return deriveMinI06x008L(l, d) }
func use_I06x008L_min2(a, b map[NStr]string) map[NStr]string { return deriveMinBI06x008L(a, b) }
func use_I06x008L_sort(l []map[NStr]string) []map[NStr]string { return deriveSortI06x008L(l) }
func use_I06x008L_takewhile(p func(map[NStr]string) bool, l []map[NStr]string) []map[NStr]string { return deriveTakeWhileI06x008L(p, l) }
func use_I06x008L_union(a, b []map[NStr]string) []map[NStr]string { return deriveUnionI06x008L(a, b) }
func use_I06x008L_unique(l []map[NStr]string) []map[NStr]string { return deriveUniqueI06x008L(l) }
func use_I06x010_clone(a [2]rune) [2]rune { return deriveCloneI06x010(a) }
func use_I06x010_compare(a, b [2]rune) int { return deriveCompareI06x010(a, b) }
func use_I06x010_comparec(a, b [2]rune) int { return deriveCompareCI06x010(a)(b) }
func use_I06x010_equal(a, b [2]rune) bool { return deriveEqualI06x010(a, b) }
func use_I06x010_equalc(a, b [2]rune) bool { return deriveEqualCI06x010(a)(b) }
func use_I06x010_equalclone(a [2]rune) bool { return deriveEqualI06x010(deriveCloneI06x010(a), a) }
func use_I06x010_gostring(a [2]rune) string { return deriveGoStringI06x010(a) }
func use_I06x010_hash(a [2]rune) uint64 { return deriveHashI06x010(a) }
func use_I06x015_clone(a *W8) *W8 { return deriveCloneI06x015(a) }
func use_I06x015_compare(a, b *W8) int { return deriveCompareI06x015(a, b) }
func use_I06x015_comparec(a, b *W8) int { return deriveCompareCI06x015(a)(b) }
func use_I06x015_deepcopy(a, b *W8)  { deriveDeepCopyI06x015(a, b) }
func use_I06x015_equal(a, b *W8) bool { return deriveEqualI06x015(a, b) }
func use_I06x015_equalc(a, b *W8) bool { return deriveEqualCI06x015(a)(b) }
func use_I06x015_equalclone(a *W8) bool { return deriveEqualI06x015(deriveCloneI06x015(a), a) }
func use_I06x015_gostring(a *W8) string { return deriveGoStringI06x015(a) }
func use_I06x015_hash(a *W8) uint64 { return deriveHashI06x015(a) }
func use_I06x016_clone(a map[NStr]SP) map[NStr]SP { return deriveCloneI06x016(a) }
func use_I06x016_compare(a, b map[NStr]SP) int { return deriveCompareI06x016(a, b) }
func use_I06x016_comparec(a, b map[NStr]SP) int { return deriveCompareCI06x016(a)(b) }
func use_I06x016_deepcopy(a, b map[NStr]SP)  { deriveDeepCopyI06x016(a, b) }
func use_I06x016_equal(a, b map[NStr]SP) bool { return deriveEqualI06x016(a, b) }
func use_I06x016_equalc(a, b map[NStr]SP) bool { return deriveEqualCI06x016(a)(b) }
func use_I06x016_equalclone(a map[NStr]SP) bool { return deriveEqualI06x016(deriveCloneI06x016(a), a) }
func use_I06x016_gostring(a map[NStr]SP) string { return deriveGoStringI06x016(a) }
func use_I06x016_hash(a map[NStr]SP) uint64 { return deriveHashI06x016(a) }
func use_I06x016_keys(m map[NStr]SP) int { return len(deriveKeysI06x016(m)) }
func use_I06x016_sortkeys(m map[NStr]SP) int { return len(deriveSortI06x016(deriveKeysI06x016(m))) }
func use_I06x018L_all(p func(**bool) bool, l []**bool) bool { return deriveAllI06x018L(p, l) }
func use_I06x018L_any(p func(**bool) bool, l []**bool) bool { return deriveAnyI06x018L(p, l) }
func use_I06x018L_contains(l []**bool, x **bool) bool { return deriveContainsI06x018L(l, x) }
func use_I06x018L_filter(p func(**bool) bool, l []**bool) []**bool { return deriveFilterI06x018L(p, l) }
func use_I06x018L_intersect(a, b []**bool) []**bool { return deriveIntersectI06x018L(a, b) }
func use_I06x018L_max(l []**bool, d **bool) **bool { return deriveMaxI06x018L(l, d) }
func use_I06x018L_max2(a, b **bool) **bool { return deriveMaxBI06x018L(a, b) }
func use_I06x018L_min(l []**bool, d **bool) **bool { return deriveMinI06x018L(l, d) }
func use_I06x018L_min2(a, b **bool) **bool { return deriveMinBI06x018L(a, b) }
func use_I06x018L_sort(l []**bool) []**bool { return deriveSortI06x018L(l) }
func use_I06x018L_takewhile(p func(**bool) bool, l []**bool) []**bool { return deriveTakeWhileI06x018L(p, l) }
func use_I06x018L_union(a, b []**bool) []**bool { return deriveUnionI06x018L(a, b) }
func use_I06x018L_unique(l []**bool) []**bool { return deriveUniqueI06x018L(l) }
func use_I06x020L_all(p func(map[string]NInt) bool, l []map[string]NInt) bool { return deriveAllI06x020L(p, l) }
func use_I06x020L_any(p func(map[string]NInt) bool, l []map[string]NInt) bool { return deriveAnyI06x020L(p, l) }
func use_I06x020L_contains(l []map[string]NInt, x map[string]NInt) bool { return deriveContainsI06x020L(l, x) }
func use_I06x020L_filter(p func(map[string]NInt) bool, l []map[string]NInt) []map[string]NInt { return deriveFilterI06x020L(p, l) }
func use_I06x020L_intersect(a, b []map[string]NInt) []map[string]NInt { return deriveIntersectI06x020L(a, b) }
func use_I06x020L_max(l []map[string]NInt, d map[string]NInt) map[string]NInt { return deriveMaxI06x020L(l, d) }
func use_I06x020L_max2(a, b map[string]NInt) map[string]NInt { return deriveMaxBI06x020L(a, b) }
func use_I06x020L_min(l []map[string]NInt, d map[string]NInt) map[string]NInt { return deriveMinI06x020L(l, d) }
func use_I06x020L_min2(a, b map[string]NInt) map[string]NInt { return deriveMinBI06x020L(a, b) }
func use_I06x020L_sort(l []map[string]NInt) []map[string]NInt { return deriveSortI06x020L(l) }
func use_I06x020L_takewhile(p func(map[string]NInt) bool, l []map[string]NInt) []map[string]NInt { return deriveTakeWhileI06x020L(p, l) }
func use_I06x020L_union(a, b []map[string]NInt) []map[string]NInt { return deriveUnionI06x020L(a, b) }
func use_I06x020L_unique(l []map[string]NInt) []map[string]NInt { return deriveUniqueI06x020L(l) }
func use_I06x023_clone(a *W12) *W12 { return deriveCloneI06x023(a) }
func use_I06x023_compare(a, b *W12) int { return deriveCompareI06x023(a, b) }
func use_I06x023_comparec(a, b *W12) int { return deriveCompareCI06x023(a)(b) }
func use_I06x023_deepcopy(a, b *W12)  { deriveDeepCopyI06x023(a, b) }
func use_I06x023_equal(a, b *W12) bool { return deriveEqualI06x023(a, b) }
func use_I06x023_equalc(a, b *W12) bool { return deriveEqualCI06x023(a)(b) }
func use_I06x023_equalclone(a *W12) bool { return deriveEqualI06x023(deriveCloneI06x023(a), a) }
func use_I06x023_gostring(a *W12) string { return deriveGoStringI06x023(a) }
func use_I06x023_hash(a *W12) uint64 { return deriveHashI06x023(a) }
