package p

import (
	ext "scratch/ext"
)

var use_I09x008_equalclone_a map[string][2]ext.Priv
var use_I09x008_equalclone_v = deriveEqualI09x008(deriveCloneI09x008(use_I09x008_equalclone_a), use_I09x008_equalclone_a)
