package p


