package p

import (
	"testing"
)

func TestNothing(t *testing.T) {}

func use_I03x008_clone(a map[int]SV) map[int]SV { return deriveCloneI03x008(a) }
func use_I03x008_compare(a, b map[int]SV) int { return deriveCompareI03x008(a, b) }
func use_I03x008_comparec(a, b map[int]SV) int { return deriveCompareCI03x008(a)(b) }
func use_I03x008_deepcopy(a, b map[int]SV)  { deriveDeepCopyI03x008(a, b) }
func use_I03x008_equal(a, b map[int]SV) bool { return deriveEqualI03x008(a, b) }
func use_I03x008_equalc(a, b map[int]SV) bool { return deriveEqualCI03x008(a)(b) }
func use_I03x008_equalclone(a map[int]SV) bool { return deriveEqualNI03x008(deriveCloneNI03x008(a), a) }
func use_I03x008_gostring(a map[int]SV) string { return deriveGoStringI03x008(a) }
func use_I03x008_hash(a map[int]SV) uint64 { return deriveHashI03x008(a) }
func use_I03x008_keys(m map[int]SV) int { return len(deriveKeysI03x008(m)) }
func use_I03x008_sortkeys(m map[int]SV) int { return len(deriveSortI03x008(deriveKeysI03x008(m))) }
