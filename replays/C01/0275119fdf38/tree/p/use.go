package p


func use_I02x002_clone(a map[int]uint8) map[int]uint8 { return deriveCloneI02x002(a) }
func use_I02x002_compare(a, b map[int]uint8) int { return deriveCompareI02x002(a, b) }
func use_I02x002_comparec(a, b map[int]uint8) int { return deriveCompareCI02x002(a)(b) }
func use_I02x002_deepcopy(a, b map[int]uint8)  { deriveDeepCopyI02x002(a, b) }
func use_I02x002_equal(a, b map[int]uint8) bool { return deriveEqualI02x002(a, b) }
func use_I02x002_equalc(a, b map[int]uint8) bool { return deriveEqualCI02x002(a)(b) }
func use_I02x002_equalclone(a map[int]uint8) bool { return deriveEqualNI02x002(deriveCloneNI02x002(a), a) }
func use_I02x002_gostring(a map[int]uint8) string { return deriveGoStringI02x002(a) }
func use_I02x002_hash(a map[int]uint8) uint64 { return deriveHashI02x002(a) }
func use_I02x002_keys(m map[int]uint8) int { return len(deriveKeysI02x002(m)) }
func use_I02x002_sortkeys(m map[int]uint8) int { return len(deriveSortI02x002(deriveKeysI02x002(m))) }
