package p


