package p

import (
	"testing"
)

func TestNothing(t *testing.T) {}

func use_I03x016_clone(a []map[float64]int) []map[float64]int { return deriveCloneI03x016(a) }
func use_I03x016_compare(a, b []map[float64]int) int { return deriveCompareI03x016(a, b) }
func use_I03x016_comparec(a, b []map[float64]int) int { return deriveCompareCI03x016(a)(b) }
func use_I03x016_deepcopy(a, b []map[float64]int)  { deriveDeepCopyI03x016(a, b) }
func use_I03x016_equal(a, b []map[float64]int) bool { return deriveEqualI03x016(a, b) }
func use_I03x016_equalc(a, b []map[float64]int) bool { return deriveEqualCI03x016(a)(b) }
func use_I03x016_equalclone(a []map[float64]int) bool { return deriveEqualNI03x016(deriveCloneNI03x016(a), a) }
func use_I03x016_gostring(a []map[float64]int) string { return deriveGoStringI03x016(a) }
func use_I03x016_hash(a []map[float64]int) uint64 { return deriveHashI03x016(a) }
