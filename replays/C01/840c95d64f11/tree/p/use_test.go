package p

import (
	"testing"
)

func TestNothing(t *testing.T) {}

func use_I12x022_clone(a map[float64]string) map[float64]string { return deriveCloneI12x022(a) }
func use_I12x022_compare(a, b map[float64]string) int { return deriveCompareI12x022(a, b) }
func use_I12x022_comparec(a, b map[float64]string) int { return deriveCompareCI12x022(a)(b) }
func use_I12x022_deepcopy(a, b map[float64]string)  { deriveDeepCopyI12x022(a, b) }
func use_I12x022_equal(a, b map[float64]string) bool { return deriveEqualI12x022(a, b) }
func use_I12x022_equalc(a, b map[float64]string) bool { return deriveEqualCI12x022(a)(b) }
func use_I12x022_equalclone(a map[float64]string) bool { return deriveEqualNI12x022(deriveCloneNI12x022(a), a) }
func use_I12x022_gostring(a map[float64]string) string { return deriveGoStringI12x022(a) }
func use_I12x022_hash(a map[float64]string) uint64 { return deriveHashI12x022(a) }
func use_I12x022_keys(m map[float64]string) int { return len(deriveKeysI12x022(m)) }
func use_I12x022_sortkeys(m map[float64]string) int { return len(deriveSortI12x022(deriveKeysI12x022(m))) }
