package p


