package p


func use_Knamed-composites1_keys(m NMap) int { return len(deriveKeysKnamed-composites1(m)) }
