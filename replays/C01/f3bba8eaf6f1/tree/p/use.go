package p


func use_I13x008L_all(p func(map[int]NFloat) bool, l []map[int]NFloat) bool { return deriveAllI13x008L(p, l) }
func use_I13x008L_any(p func(map[int]NFloat) bool, l []map[int]NFloat) bool { return deriveAnyI13x008L(p, l) }
func use_I13x008L_contains(l []map[int]NFloat, x map[int]NFloat) bool { return deriveContainsI13x008L(l, x) }
func use_I13x008L_filter(p func(map[int]NFloat) bool, l []map[int]NFloat) []map[int]NFloat { return deriveFilterI13x008L(p, l) }
func use_I13x008L_intersect(a, b []map[int]NFloat) []map[int]NFloat { return deriveIntersectI13x008L(a, b) }
func use_I13x008L_max(l []map[int]NFloat, d map[int]NFloat) map[int]NFloat { return deriveMaxI13x008L(l, d) }
func use_I13x008L_max2(a, b map[int]NFloat) map[int]NFloat { return deriveMaxBI13x008L(a, b) }
func use_I13x008L_min(l []map[int]NFloat, d map[int]NFloat) map[int]NFloat { return deriveMinI13x008L(l, d) }
func use_I13x008L_min2(a, b map[int]NFloat) map[int]NFloat { return deriveMinBI13x008L(a, b) }
func use_I13x008L_sort(l []map[int]NFloat) []map[int]NFloat { return deriveSortI13x008L(l) }
func use_I13x008L_takewhile(p func(map[int]NFloat) bool, l []map[int]NFloat) []map[int]NFloat { return deriveTakeWhileI13x008L(p, l) }
func use_I13x008L_union(a, b []map[int]NFloat) []map[int]NFloat { return deriveUnionI13x008L(a, b) }
func use_I13x008L_unique(l []map[int]NFloat) []map[int]NFloat { return deriveUniqueI13x008L(l) }
