package p


var use_I13x002_clone = func(a *map[int]SV) *map[int]SV { return deriveCloneI13x002(a) }
var use_I13x002_compare = func(a, b *map[int]SV) int { return deriveCompareI13x002(a, b) }
var use_I13x002_comparec = func(a, b *map[int]SV) int { return deriveCompareCI13x002(a)(b) }
var use_I13x002_deepcopy = func(a, b *map[int]SV)  { deriveDeepCopyI13x002(a, b) }
var use_I13x002_equal = func(a, b *map[int]SV) bool { return deriveEqualI13x002(a, b) }
var use_I13x002_equalc = func(a, b *map[int]SV) bool { return deriveEqualCI13x002(a)(b) }
var use_I13x002_equalclone = func(a *map[int]SV) bool { return deriveEqualNI13x002(deriveCloneNI13x002(a), a) }
var use_I13x002_gostring = func(a *map[int]SV) string { return deriveGoStringI13x002(a) }
var use_I13x002_hash = func(a *map[int]SV) uint64 { return deriveHashI13x002(a) }
