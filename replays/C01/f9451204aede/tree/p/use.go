package p


