package p

import (
	"testing"
)

func TestNothing(t *testing.T) {}

func use_I14x007_gostring(a *W6) string { return deriveGoStringI14x007(a) }
