package p


var use_I13x000_clone_a []map[NStr]int
var use_I13x000_clone_v = deriveCloneI13x000(use_I13x000_clone_a)
var use_I13x000_compare_a []map[NStr]int
var use_I13x000_compare_b []map[NStr]int
var use_I13x000_compare_v = deriveCompareI13x000(use_I13x000_compare_a, use_I13x000_compare_b)
var use_I13x000_comparec_a []map[NStr]int
var use_I13x000_comparec_b []map[NStr]int
var use_I13x000_comparec_v = deriveCompareCI13x000(use_I13x000_comparec_a)(use_I13x000_comparec_b)
var use_I13x000_deepcopy_a []map[NStr]int
var use_I13x000_deepcopy_b []map[NStr]int
func init() { deriveDeepCopyI13x000(use_I13x000_deepcopy_a, use_I13x000_deepcopy_b) }
var use_I13x000_equal_a []map[NStr]int
var use_I13x000_equal_b []map[NStr]int
var use_I13x000_equal_v = deriveEqualI13x000(use_I13x000_equal_a, use_I13x000_equal_b)
var use_I13x000_equalc_a []map[NStr]int
var use_I13x000_equalc_b []map[NStr]int
var use_I13x000_equalc_v = deriveEqualCI13x000(use_I13x000_equalc_a)(use_I13x000_equalc_b)
var use_I13x000_equalclone_a []map[NStr]int
var use_I13x000_equalclone_v = deriveEqualNI13x000(deriveCloneNI13x000(use_I13x000_equalclone_a), use_I13x000_equalclone_a)
var use_I13x000_gostring_a []map[NStr]int
var use_I13x000_gostring_v = deriveGoStringI13x000(use_I13x000_gostring_a)
var use_I13x000_hash_a []map[NStr]int
var use_I13x000_hash_v = deriveHashI13x000(use_I13x000_hash_a)
