package p

import (
	ext "scratch/ext"
)

func use_I04x022_clone(a map[string]ext.Pub) map[string]ext.Pub { return deriveCloneI04x022(a) }
func use_I04x022_compare(a, b map[string]ext.Pub) int { return deriveCompareI04x022(a, b) }
func use_I04x022_comparec(a, b map[string]ext.Pub) int { return deriveCompareCI04x022(a)(b) }
func use_I04x022_deepcopy(a, b map[string]ext.Pub)  { deriveDeepCopyI04x022(a, b) }
func use_I04x022_equal(a, b map[string]ext.Pub) bool { return deriveEqualI04x022(a, b) }
func use_I04x022_equalc(a, b map[string]ext.Pub) bool { return deriveEqualCI04x022(a)(b) }
func use_I04x022_equalclone(a map[string]ext.Pub) bool { return deriveEqualNI04x022(deriveCloneNI04x022(a), a) }
func use_I04x022_gostring(a map[string]ext.Pub) string { return deriveGoStringI04x022(a) }
func use_I04x022_hash(a map[string]ext.Pub) uint64 { return deriveHashI04x022(a) }
func use_I04x022_keys(m map[string]ext.Pub) int { return len(deriveKeysI04x022(m)) }
func use_I04x022_sortkeys(m map[string]ext.Pub) int { return len(deriveSortI04x022(deriveKeysI04x022(m))) }
