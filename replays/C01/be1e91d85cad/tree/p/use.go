package p


var use_I04x014_clone = func(a []complex128) []complex128 { return deriveCloneI04x014(a) }
var use_I04x014_compare = func(a, b []complex128) int { return deriveCompareI04x014(a, b) }
var use_I04x014_comparec = func(a, b []complex128) int { return deriveCompareCI04x014(a)(b) }
var use_I04x014_deepcopy = func(a, b []complex128)  { deriveDeepCopyI04x014(a, b) }
var use_I04x014_equal = func(a, b []complex128) bool { return deriveEqualI04x014(a, b) }
var use_I04x014_equalc = func(a, b []complex128) bool { return deriveEqualCI04x014(a)(b) }
var use_I04x014_equalclone = func(a []complex128) bool { return deriveEqualNI04x014(deriveCloneNI04x014(a), a) }
var use_I04x014_gostring = func(a []complex128) string { return deriveGoStringI04x014(a) }
var use_I04x014_hash = func(a []complex128) uint64 { return deriveHashI04x014(a) }
