package p


var use_I01x008_clone_a *float64
var use_I01x008_clone_v = deriveCloneI01x008(use_I01x008_clone_a)
var use_I01x008_compare_a *float64
var use_I01x008_compare_b *float64
var use_I01x008_compare_v = deriveCompareI01x008(use_I01x008_compare_a, use_I01x008_compare_b)
var use_I01x008_comparec_a *float64
var use_I01x008_comparec_b *float64
var use_I01x008_comparec_v = deriveCompareCI01x008(use_I01x008_comparec_a)(use_I01x008_comparec_b)
var use_I01x008_deepcopy_a *float64
var use_I01x008_deepcopy_b *float64
func init() { deriveDeepCopyI01x008(use_I01x008_deepcopy_a, use_I01x008_deepcopy_b) }
var use_I01x008_equal_a *float64
var use_I01x008_equal_b *float64
var use_I01x008_equal_v = deriveEqualI01x008(use_I01x008_equal_a, use_I01x008_equal_b)
var use_I01x008_equalc_a *float64
var use_I01x008_equalc_b *float64
var use_I01x008_equalc_v = deriveEqualCI01x008(use_I01x008_equalc_a)(use_I01x008_equalc_b)
var use_I01x008_equalclone_a *float64
var use_I01x008_equalclone_v = deriveEqualNI01x008(deriveCloneNI01x008(use_I01x008_equalclone_a), use_I01x008_equalclone_a)
var use_I01x008_gostring_a *float64
var use_I01x008_gostring_v = deriveGoStringI01x008(use_I01x008_gostring_a)
var use_I01x008_hash_a *float64
var use_I01x008_hash_v = deriveHashI01x008(use_I01x008_hash_a)
