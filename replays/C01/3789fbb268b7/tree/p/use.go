package p


