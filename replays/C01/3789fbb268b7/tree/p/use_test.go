package p

import (
	"testing"
)

func TestNothing(t *testing.T) {}

func use_I09x016_clone(a []map[NInt]int) []map[NInt]int { return deriveCloneI09x016(a) }
func use_I09x016_compare(a, b []map[NInt]int) int { return deriveCompareI09x016(a, b) }
func use_I09x016_comparec(a, b []map[NInt]int) int { return deriveCompareCI09x016(a)(b) }
func use_I09x016_deepcopy(a, b []map[NInt]int)  { deriveDeepCopyI09x016(a, b) }
func use_I09x016_equal(a, b []map[NInt]int) bool { return deriveEqualI09x016(a, b) }
func use_I09x016_equalc(a, b []map[NInt]int) bool { return deriveEqualCI09x016(a)(b) }
func use_I09x016_equalclone(a []map[NInt]int) bool { return deriveEqualNI09x016(deriveCloneNI09x016(a), a) }
func use_I09x016_gostring(a []map[NInt]int) string { return deriveGoStringI09x016(a) }
func use_I09x016_hash(a []map[NInt]int) uint64 { return deriveHashI09x016(a) }
