package p

import (
	ext "scratch/ext"
	"testing"
)

func TestNothing(t *testing.T) {}

func use_I02x004_clone(a map[int]ext.Pub) map[int]ext.Pub { return deriveCloneI02x004(a) }
func use_I02x004_compare(a, b map[int]ext.Pub) int { return deriveCompareI02x004(a, b) }
func use_I02x004_comparec(a, b map[int]ext.Pub) int { return deriveCompareCI02x004(a)(b) }
func use_I02x004_deepcopy(a, b map[int]ext.Pub)  { deriveDeepCopyI02x004(a, b) }
func use_I02x004_equal(a, b map[int]ext.Pub) bool { return deriveEqualI02x004(a, b) }
func use_I02x004_equalc(a, b map[int]ext.Pub) bool { return deriveEqualCI02x004(a)(b) }
func use_I02x004_equalclone(a map[int]ext.Pub) bool { return deriveEqualNI02x004(deriveCloneNI02x004(a), a) }
func use_I02x004_gostring(a map[int]ext.Pub) string { return deriveGoStringI02x004(a) }
func use_I02x004_hash(a map[int]ext.Pub) uint64 { return deriveHashI02x004(a) }
func use_I02x004_keys(m map[int]ext.Pub) int { return len(deriveKeysI02x004(m)) }
func use_I02x004_sortkeys(m map[int]ext.Pub) int { return len(deriveSortI02x004(deriveKeysI02x004(m))) }
