package p


