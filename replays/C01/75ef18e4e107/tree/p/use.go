package p


func use_Knamed-composites0_compare(a, b NSlice) int { return deriveCompareKnamed-composites0(a, b) }
