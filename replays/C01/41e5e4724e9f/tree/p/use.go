package p


func use_Knamed-composites0_clone(a NSlice) NSlice { return deriveCloneKnamed-composites0(a) }
func use_Knamed-composites0_compare(a, b NSlice) int { return deriveCompareKnamed-composites0(a, b) }
func use_Knamed-composites0_comparec(a, b NSlice) int { return deriveCompareCKnamed-composites0(a)(b) }
func use_Knamed-composites0_deepcopy(a, b NSlice)  { deriveDeepCopyKnamed-composites0(a, b) }
func use_Knamed-composites0_equal(a, b NSlice) bool { return deriveEqualKnamed-composites0(a, b) }
func use_Knamed-composites0_equalc(a, b NSlice) bool { return deriveEqualCKnamed-composites0(a)(b) }
func use_Knamed-composites0_equalclone(a NSlice) bool { return deriveEqualKnamed-composites0(deriveCloneKnamed-composites0(a), a) }
func use_Knamed-composites0_gostring(a NSlice) string { return deriveGoStringKnamed-composites0(a) }
func use_Knamed-composites0_hash(a NSlice) uint64 { return deriveHashKnamed-composites0(a) }
func use_Knamed-composites1_clone(a NMap) NMap { return deriveCloneKnamed-composites1(a) }
func use_Knamed-composites1_compare(a, b NMap) int { return deriveCompareKnamed-composites1(a, b) }
func use_Knamed-composites1_comparec(a, b NMap) int { return deriveCompareCKnamed-composites1(a)(b) }
func use_Knamed-composites1_deepcopy(a, b NMap)  { deriveDeepCopyKnamed-composites1(a, b) }
func use_Knamed-composites1_equal(a, b NMap) bool { return deriveEqualKnamed-composites1(a, b) }
func use_Knamed-composites1_equalc(a, b NMap) bool { return deriveEqualCKnamed-composites1(a)(b) }
func use_Knamed-composites1_equalclone(a NMap) bool { return deriveEqualKnamed-composites1(deriveCloneKnamed-composites1(a), a) }
func use_Knamed-composites1_gostring(a NMap) string { return deriveGoStringKnamed-composites1(a) }
func use_Knamed-composites1_hash(a NMap) uint64 { return deriveHashKnamed-composites1(a) }
func use_Knamed-composites1_keys(m NMap) int { return len(deriveKeysKnamed-composites1(m)) }
func use_Knamed-composites1_sortkeys(m NMap) int { return len(deriveSortKnamed-composites1(deriveKeysKnamed-composites1(m))) }
func use_Knamed-composites2_clone(a NArr) NArr { return deriveCloneKnamed-composites2(a) }
func use_Knamed-composites2_compare(a, b NArr) int { return deriveCompareKnamed-composites2(a, b) }
func use_Knamed-composites2_comparec(a, b NArr) int { return deriveCompareCKnamed-composites2(a)(b) }
func use_Knamed-composites2_equal(a, b NArr) bool { return deriveEqualKnamed-composites2(a, b) }
func use_Knamed-composites2_equalc(a, b NArr) bool { return deriveEqualCKnamed-composites2(a)(b) }
func use_Knamed-composites2_equalclone(a NArr) bool { return deriveEqualKnamed-composites2(deriveCloneKnamed-composites2(a), a) }
func use_Knamed-composites2_gostring(a NArr) string { return deriveGoStringKnamed-composites2(a) }
func use_Knamed-composites2_hash(a NArr) uint64 { return deriveHashKnamed-composites2(a) }
func use_Knamed-composites3_clone(a NPtr) NPtr { return deriveCloneKnamed-composites3(a) }
func use_Knamed-composites3_compare(a, b NPtr) int { return deriveCompareKnamed-composites3(a, b) }
func use_Knamed-composites3_comparec(a, b NPtr) int { return deriveCompareCKnamed-composites3(a)(b) }
func use_Knamed-composites3_deepcopy(a, b NPtr)  { deriveDeepCopyKnamed-composites3(a, b) }
func use_Knamed-composites3_equal(a, b NPtr) bool { return deriveEqualKnamed-composites3(a, b) }
func use_Knamed-composites3_equalc(a, b NPtr) bool { return deriveEqualCKnamed-composites3(a)(b) }
func use_Knamed-composites3_equalclone(a NPtr) bool { return deriveEqualKnamed-composites3(deriveCloneKnamed-composites3(a), a) }
func use_Knamed-composites3_gostring(a NPtr) string { return deriveGoStringKnamed-composites3(a) }
func use_Knamed-composites3_hash(a NPtr) uint64 { return deriveHashKnamed-composites3(a) }
func use_Knamed-composites4_clone(a SE) SE { return deriveCloneKnamed-composites4(a) }
func use_Knamed-composites4_compare(a, b SE) int { return deriveCompareKnamed-composites4(a, b) }
func use_Knamed-composites4_comparec(a, b SE) int { return deriveCompareCKnamed-composites4(a)(b) }
func use_Knamed-composites4_equal(a, b SE) bool { return deriveEqualKnamed-composites4(a, b) }
func use_Knamed-composites4_equalc(a, b SE) bool { return deriveEqualCKnamed-composites4(a)(b) }
func use_Knamed-composites4_equalclone(a SE) bool { return deriveEqualKnamed-composites4(deriveCloneKnamed-composites4(a), a) }
func use_Knamed-composites4_gostring(a SE) string { return deriveGoStringKnamed-composites4(a) }
func use_Knamed-composites4_hash(a SE) uint64 { return deriveHashKnamed-composites4(a) }
func use_Knamed-composites5_clone(a SEq) SEq { return deriveCloneKnamed-composites5(a) }
func use_Knamed-composites5_compare(a, b SEq) int { return deriveCompareKnamed-composites5(a, b) }
func use_Knamed-composites5_comparec(a, b SEq) int { return deriveCompareCKnamed-composites5(a)(b) }
func use_Knamed-composites5_equal(a, b SEq) bool { return deriveEqualKnamed-composites5(a, b) }
func use_Knamed-composites5_equalc(a, b SEq) bool { return deriveEqualCKnamed-composites5(a)(b) }
func use_Knamed-composites5_equalclone(a SEq) bool { return deriveEqualKnamed-composites5(deriveCloneKnamed-composites5(a), a) }
func use_Knamed-composites5_gostring(a SEq) string { return deriveGoStringKnamed-composites5(a) }
func use_Knamed-composites5_hash(a SEq) uint64 { return deriveHashKnamed-composites5(a) }
