package p


var use_I14x006_clone = func(a map[int][2]float64) map[int][2]float64 { return deriveCloneI14x006(a) }
var use_I14x006_compare = func(a, b map[int][2]float64) int { return deriveCompareI14x006(a, b) }
var use_I14x006_comparec = func(a, b map[int][2]float64) int { return deriveCompareCI14x006(a)(b) }
var use_I14x006_deepcopy = func(a, b map[int][2]float64)  { deriveDeepCopyI14x006(a, b) }
var use_I14x006_equal = func(a, b map[int][2]float64) bool { return deriveEqualI14x006(a, b) }
var use_I14x006_equalc = func(a, b map[int][2]float64) bool { return deriveEqualCI14x006(a)(b) }
var use_I14x006_equalclone = func(a map[int][2]float64) bool { return deriveEqualNI14x006(deriveCloneNI14x006(a), a) }
var use_I14x006_gostring = func(a map[int][2]float64) string { return deriveGoStringI14x006(a) }
var use_I14x006_hash = func(a map[int][2]float64) uint64 { return deriveHashI14x006(a) }
var use_I14x006_keys = func(m map[int][2]float64) int { return len(deriveKeysI14x006(m)) }
var use_I14x006_sortkeys = func(m map[int][2]float64) int { return len(deriveSortI14x006(deriveKeysI14x006(m))) }
