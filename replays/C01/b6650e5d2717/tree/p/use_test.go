package p

import (
	"testing"
)

func TestNothing(t *testing.T) {}

func use_I07x012L_max(l []complex128, d complex128) complex128 { return deriveMaxI07x012L(l, d) }
