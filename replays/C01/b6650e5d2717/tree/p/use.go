package p


