package p

import (
	"testing"
)

func TestNothing(t *testing.T) {}

func use_I03x002_clone(a map[int]*bool) map[int]*bool { return deriveCloneI03x002(a) }
func use_I03x002_compare(a, b map[int]*bool) int { return deriveCompareI03x002(a, b) }
func use_I03x002_comparec(a, b map[int]*bool) int { return deriveCompareCI03x002(a)(b) }
func use_I03x002_deepcopy(a, b map[int]*bool)  { deriveDeepCopyI03x002(a, b) }
func use_I03x002_equal(a, b map[int]*bool) bool { return deriveEqualI03x002(a, b) }
func use_I03x002_equalc(a, b map[int]*bool) bool { return deriveEqualCI03x002(a)(b) }
func use_I03x002_equalclone(a map[int]*bool) bool { return deriveEqualNI03x002(deriveCloneNI03x002(a), a) }
func use_I03x002_gostring(a map[int]*bool) string { return deriveGoStringI03x002(a) }
func use_I03x002_hash(a map[int]*bool) uint64 { return deriveHashI03x002(a) }
func use_I03x002_keys(m map[int]*bool) int { return len(deriveKeysI03x002(m)) }
func use_I03x002_sortkeys(m map[int]*bool) int { return len(deriveSortI03x002(deriveKeysI03x002(m))) }
