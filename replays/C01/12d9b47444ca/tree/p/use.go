package p


