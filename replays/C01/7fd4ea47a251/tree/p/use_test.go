package p

import (
	"testing"
)

func TestNothing(t *testing.T) {}

func use_I15x022_clone(a [2]float64) [2]float64 { return deriveCloneI15x022(a) }
func use_I15x022_compare(a, b [2]float64) int { return deriveCompareI15x022(a, b) }
func use_I15x022_comparec(a, b [2]float64) int { return deriveCompareCI15x022(a)(b) }
func use_I15x022_equal(a, b [2]float64) bool { return deriveEqualI15x022(a, b) }
func use_I15x022_equalc(a, b [2]float64) bool { return deriveEqualCI15x022(a)(b) }
func use_I15x022_equalclone(a [2]float64) bool { return deriveEqualNI15x022(deriveCloneNI15x022(a), a) }
func use_I15x022_gostring(a [2]float64) string { return deriveGoStringI15x022(a) }
func use_I15x022_hash(a [2]float64) uint64 { return deriveHashI15x022(a) }
