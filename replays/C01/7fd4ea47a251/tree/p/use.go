package p


