package p


var use_I10x000_clone = func(a map[bool]string) map[bool]string { return deriveCloneI10x000(a) }
var use_I10x000_compare = func(a, b map[bool]string) int { return deriveCompareI10x000(a, b) }
var use_I10x000_comparec = func(a, b map[bool]string) int { return deriveCompareCI10x000(a)(b) }
var use_I10x000_deepcopy = func(a, b map[bool]string)  { deriveDeepCopyI10x000(a, b) }
var use_I10x000_equal = func(a, b map[bool]string) bool { return deriveEqualI10x000(a, b) }
var use_I10x000_equalc = func(a, b map[bool]string) bool { return deriveEqualCI10x000(a)(b) }
var use_I10x000_equalclone = func(a map[bool]string) bool { return deriveEqualI10x000(deriveCloneI10x000(a), a) }
var use_I10x000_gostring = func(a map[bool]string) string { return deriveGoStringI10x000(a) }
var use_I10x000_hash = func(a map[bool]string) uint64 { return deriveHashI10x000(a) }
var use_I10x000_keys = func(m map[bool]string) int { return len(deriveKeysI10x000(m)) }
var use_I10x000_sortkeys = func(m map[bool]string) int { return len(deriveSortI10x000(deriveKeysI10x000(m))) }
var use_I10x000L_all = func(p func(map[bool]string) bool, l []map[bool]string) bool { return deriveAllI10x000L(p, l) }
var use_I10x000L_any = func(p func(map[bool]string) bool, l []map[bool]string) bool { return deriveAnyI10x000L(p, l) }
var use_I10x000L_contains = func(l []map[bool]string, x map[bool]string) bool { return deriveContainsI10x000L(l, x) }
var use_I10x000L_filter = func(p func(map[bool]string) bool, l []map[bool]string) []map[bool]string { return deriveFilterI10x000L(p, l) }
var use_I10x000L_intersect = func(a, b []map[bool]string) []map[bool]string { return deriveIntersectI10x000L(a, b) }
var use_I10x000L_max = func(l []map[bool]string, d map[bool]string) map[bool]string { return deriveMaxI10x000L(l, d) }
var use_I10x000L_max2 = func(a, b map[bool]string) map[bool]string { return deriveMaxBI10x000L(a, b) }
var use_I10x000L_min = func(l []map[bool]string, d map[bool]string) map[bool]string { return deriveMinI10x000L(l, d) }
var use_I10x000L_min2 = func(a, b map[bool]string) map[bool]string { return deriveMinBI10x000L(a, b) }
var use_I10x000L_sort = func(l []map[bool]string) []map[bool]string { return deriveSortI10x000L(l) }
var use_I10x000L_takewhile = func(p func(map[bool]string) bool, l []map[bool]string) []map[bool]string { return deriveTakeWhileI10x000L(p, l) }
var use_I10x000L_union = func(a, b []map[bool]string) []map[bool]string { return deriveUnionI10x000L(a, b) }
var use_I10x000L_unique = func(l []map[bool]string) []map[bool]string { return deriveUniqueI10x000L(l) }
var use_I10x001_clone = func(a *W1) *W1 { return deriveCloneI10x001(a) }
var use_I10x001_compare = func(a, b *W1) int { return deriveCompareI10x001(a, b) }
var use_I10x001_comparec = func(a, b *W1) int { return deriveCompareCI10x001(a)(b) }
var use_I10x001_deepcopy = func(a, b *W1)  { deriveDeepCopyI10x001(a, b) }
var use_I10x001_equal = func(a, b *W1) bool { return deriveEqualI10x001(a, b) }
var use_I10x001_equalc = func(a, b *W1) bool { return deriveEqualCI10x001(a)(b) }
var use_I10x001_equalclone = func(a *W1) bool { return deriveEqualI10x001(deriveCloneI10x001(a), a) }
var use_I10x001_gostring = func(a *W1) string { return deriveGoStringI10x001(a) }
var use_I10x001_hash = func(a *W1) uint64 { return deriveHashI10x001(a) }
var use_I10x002_clone_a []SP
var use_I10x002_clone_v = deriveCloneI10x002(use_I10x002_clone_a)
var use_I10x002_compare_a []SP
var use_I10x002_compare_b []SP
var use_I10x002_compare_v = deriveCompareI10x002(use_I10x002_compare_a, use_I10x002_compare_b)
var use_I10x002_comparec_a []SP
var use_I10x002_comparec_b []SP
var use_I10x002_comparec_v = deriveCompareCI10x002(use_I10x002_comparec_a)(use_I10x002_comparec_b)
var use_I10x002_deepcopy_a []SP
var use_I10x002_deepcopy_b []SP
func init() { deriveDeepCopyI10x002(use_I10x002_deepcopy_a, use_I10x002_deepcopy_b) }
var use_I10x002_equal_a []SP
var use_I10x002_equal_b []SP
var use_I10x002_equal_v = deriveEqualI10x002(use_I10x002_equal_a, use_I10x002_equal_b)
var use_I10x002_equalc_a []SP
var use_I10x002_equalc_b []SP
var use_I10x002_equalc_v = deriveEqualCI10x002(use_I10x002_equalc_a)(use_I10x002_equalc_b)
var use_I10x002_equalclone_a []SP
var use_I10x002_equalclone_v = deriveEqualI10x002(deriveCloneI10x002(use_I10x002_equalclone_a), use_I10x002_equalclone_a)
var use_I10x002_gostring_a []SP
var use_I10x002_gostring_v = deriveGoStringI10x002(use_I10x002_gostring_a)
var use_I10x002_hash_a []SP
var use_I10x002_hash_v = deriveHashI10x002(use_I10x002_hash_a)
func use_I10x003_clone(a *W2) *W2 { return deriveCloneI10x003(a) }
func use_I10x003_compare(a, b *W2) int { return deriveCompareI10x003(a, b) }
func use_I10x003_comparec(a, b *W2) int { return deriveCompareCI10x003(a)(b) }
func use_I10x003_deepcopy(a, b *W2)  { deriveDeepCopyI10x003(a, b) }
func use_I10x003_equal(a, b *W2) bool { return deriveEqualI10x003(a, b) }
func use_I10x003_equalc(a, b *W2) bool { return deriveEqualCI10x003(a)(b) }
func use_I10x003_equalclone(a *W2) bool { return deriveEqualI10x003(deriveCloneI10x003(a), a) }
func use_I10x003_gostring(a *W2) string { return deriveGoStringI10x003(a) }
func use_I10x003_hash(a *W2) uint64 { return deriveHashI10x003(a) }
func use_I10x004_clone(a [][2]bool) [][2]bool { return deriveCloneI10x004(a) }
func use_I10x004_compare(a, b [][2]bool) int { return deriveCompareI10x004(a, b) }
func use_I10x004_comparec(a, b [][2]bool) int { return deriveCompareCI10x004(a)(b) }
func use_I10x004_deepcopy(a, b [][2]bool)  { deriveDeepCopyI10x004(a, b) }
func use_I10x004_equal(a, b [][2]bool) bool { return deriveEqualI10x004(a, b) }
func use_I10x004_equalc(a, b [][2]bool) bool { return deriveEqualCI10x004(a)(b) }
func use_I10x004_equalclone(a [][2]bool) bool { return deriveEqualI10x004(deriveCloneI10x004(a), a) }
func use_I10x004_gostring(a [][2]bool) string { return deriveGoStringI10x004(a) }
func use_I10x004_hash(a [][2]bool) uint64 { return deriveHashI10x004(a) }
func use_I10x004L_all(p func([][2]bool) bool, l [][][2]bool) bool { return deriveAllI10x004L(p, l) }
func use_I10x004L_any(p func([][2]bool) bool, l [][][2]bool) bool { return deriveAnyI10x004L(p, l) }
func use_I10x004L_contains(l [][][2]bool, x [][2]bool) bool { return deriveContainsI10x004L(l, x) }
func use_I10x004L_filter(p func([][2]bool) bool, l [][][2]bool) [][][2]bool { return deriveFilterI10x004L(p, l) }
func use_I10x004L_intersect(a, b [][][2]bool) [][][2]bool { return deriveIntersectI10x004L(a, b) }
func use_I10x004L_max(l [][][2]bool, d [][2]bool) [][2]bool { return deriveMaxI10x004L(l, d) }
func use_I10x004L_max2(a, b [][2]bool) [][2]bool { return deriveMaxBI10x004L(a, b) }
func use_I10x004L_min(l [][][2]bool, d [][2]bool) [][2]bool { return deriveMinI10x004L(l, d) }
func use_I10x004L_min2(a, b [][2]bool) [][2]bool { return deriveMinBI10x004L(a, b) }
func use_I10x004L_sort(l [][][2]bool) [][][2]bool { return deriveSortI10x004L(l) }
func use_I10x004L_takewhile(p func([][2]bool) bool, l [][][2]bool) [][][2]bool { return deriveTakeWhileI10x004L(p, l) }
func use_I10x004L_union(a, b [][][2]bool) [][][2]bool { return deriveUnionI10x004L(a, b) }
func use_I10x004L_unique(l [][][2]bool) [][][2]bool { return deriveUniqueI10x004L(l) }
var use_I10x005_clone = func(a *W3) *W3 { return deriveCloneI10x005(a) }
var use_I10x005_compare = func(a, b *W3) int { return deriveCompareI10x005(a, b) }
var use_I10x005_comparec = func(a, b *W3) int { return deriveCompareCI10x005(a)(b) }
var use_I10x005_deepcopy = func(a, b *W3)  { deriveDeepCopyI10x005(a, b) }
var use_I10x005_equal = func(a, b *W3) bool { return deriveEqualI10x005(a, b) }
var use_I10x005_equalc = func(a, b *W3) bool { return deriveEqualCI10x005(a)(b) }
var use_I10x005_equalclone = func(a *W3) bool { return deriveEqualI10x005(deriveCloneI10x005(a), a) }
var use_I10x005_gostring = func(a *W3) string { return deriveGoStringI10x005(a) }
var use_I10x005_hash = func(a *W3) uint64 { return deriveHashI10x005(a) }
var use_I10x006L_all_p func([2]map[string]NInt) bool
var use_I10x006L_all_l [][2]map[string]NInt
var use_I10x006L_all_v = deriveAllI10x006L(use_I10x006L_all_p, use_I10x006L_all_l)
var use_I10x006L_any_p func([2]map[string]NInt) bool
var use_I10x006L_any_l [][2]map[string]NInt
var use_I10x006L_any_v = deriveAnyI10x006L(use_I10x006L_any_p, use_I10x006L_any_l)
var use_I10x006L_contains_l [][2]map[string]NInt
var use_I10x006L_contains_x [2]map[string]NInt
var use_I10x006L_contains_v = deriveContainsI10x006L(use_I10x006L_contains_l, use_I10x006L_contains_x)
var use_I10x006L_filter_p func([2]map[string]NInt) bool
var use_I10x006L_filter_l [][2]map[string]NInt
var use_I10x006L_filter_v = deriveFilterI10x006L(use_I10x006L_filter_p, use_I10x006L_filter_l)
var use_I10x006L_intersect_a [][2]map[string]NInt
var use_I10x006L_intersect_b [][2]map[string]NInt
var use_I10x006L_intersect_v = deriveIntersectI10x006L(use_I10x006L_intersect_a, use_I10x006L_intersect_b)
var use_I10x006L_max_l [][2]map[string]NInt
var use_I10x006L_max_d [2]map[string]NInt
var use_I10x006L_max_v = deriveMaxI10x006L(use_I10x006L_max_l, use_I10x006L_max_d)
var use_I10x006L_max2_a [2]map[string]NInt
var use_I10x006L_max2_b [2]map[string]NInt
var use_I10x006L_max2_v = deriveMaxBI10x006L(use_I10x006L_max2_a, use_I10x006L_max2_b)
var use_I10x006L_min_l [][2]map[string]NInt
var use_I10x006L_min_d [2]map[string]NInt
var use_I10x006L_min_v = deriveMinI10x006L(use_I10x006L_min_l, use_I10x006L_min_d)
var use_I10x006L_min2_a [2]map[string]NInt
var use_I10x006L_min2_b [2]map[string]NInt
var use_I10x006L_min2_v = deriveMinBI10x006L(use_I10x006L_min2_a, use_I10x006L_min2_b)
var use_I10x006L_sort_l [][2]map[string]NInt
var use_I10x006L_sort_v = deriveSortI10x006L(use_I10x006L_sort_l)
var use_I10x006L_takewhile_p func([2]map[string]NInt) bool
var use_I10x006L_takewhile_l [][2]map[string]NInt
var use_I10x006L_takewhile_v = deriveTakeWhileI10x006L(use_I10x006L_takewhile_p, use_I10x006L_takewhile_l)
var use_I10x006L_union_a [][2]map[string]NInt
var use_I10x006L_union_b [][2]map[string]NInt
var use_I10x006L_union_v = deriveUnionI10x006L(use_I10x006L_union_a, use_I10x006L_union_b)
var use_I10x006L_unique_l [][2]map[string]NInt
var use_I10x006L_unique_v = deriveUniqueI10x006L(use_I10x006L_unique_l)
var use_I10x007_clone_a *W4
var use_I10x007_clone_v = deriveCloneI10x007(use_I10x007_clone_a)
var use_I10x007_compare_a *W4
var use_I10x007_compare_b *W4
var use_I10x007_compare_v = deriveCompareI10x007(use_I10x007_compare_a, use_I10x007_compare_b)
var use_I10x007_comparec_a *W4
var use_I10x007_comparec_b *W4
var use_I10x007_comparec_v = deriveCompareCI10x007(use_I10x007_comparec_a)(use_I10x007_comparec_b)
var use_I10x007_deepcopy_a *W4
var use_I10x007_deepcopy_b *W4
func init() { deriveDeepCopyI10x007(use_I10x007_deepcopy_a, use_I10x007_deepcopy_b) }
var use_I10x007_equal_a *W4
var use_I10x007_equal_b *W4
var use_I10x007_equal_v = deriveEqualI10x007(use_I10x007_equal_a, use_I10x007_equal_b)
var use_I10x007_equalc_a *W4
var use_I10x007_equalc_b *W4
var use_I10x007_equalc_v = deriveEqualCI10x007(use_I10x007_equalc_a)(use_I10x007_equalc_b)
var use_I10x007_equalclone_a *W4
var use_I10x007_equalclone_v = deriveEqualI10x007(deriveCloneI10x007(use_I10x007_equalclone_a), use_I10x007_equalclone_a)
var use_I10x007_gostring_a *W4
var use_I10x007_gostring_v = deriveGoStringI10x007(use_I10x007_gostring_a)
var use_I10x007_hash_a *W4
var use_I10x007_hash_v = deriveHashI10x007(use_I10x007_hash_a)
var use_I10x008_clone_a *map[int]int
var use_I10x008_clone_v = deriveCloneI10x008(use_I10x008_clone_a)
var use_I10x008_compare_a *map[int]int
var use_I10x008_compare_b *map[int]int
var use_I10x008_compare_v = deriveCompareI10x008(use_I10x008_compare_a, use_I10x008_compare_b)
var use_I10x008_comparec_a *map[int]int
var use_I10x008_comparec_b *map[int]int
var use_I10x008_comparec_v = deriveCompareCI10x008(use_I10x008_comparec_a)(use_I10x008_comparec_b)
var use_I10x008_deepcopy_a *map[int]int
var use_I10x008_deepcopy_b *map[int]int
func init() { deriveDeepCopyI10x008(use_I10x008_deepcopy_a, use_I10x008_deepcopy_b) }
var use_I10x008_equal_a *map[int]int
var use_I10x008_equal_b *map[int]int
var use_I10x008_equal_v = deriveEqualI10x008(use_I10x008_equal_a, use_I10x008_equal_b)
var use_I10x008_equalc_a *map[int]int
var use_I10x008_equalc_b *map[int]int
var use_I10x008_equalc_v = deriveEqualCI10x008(use_I10x008_equalc_a)(use_I10x008_equalc_b)
var use_I10x008_equalclone_a *map[int]int
var use_I10x008_equalclone_v = deriveEqualI10x008(deriveCloneI10x008(use_I10x008_equalclone_a), use_I10x008_equalclone_a)
var use_I10x008_gostring_a *map[int]int
var use_I10x008_gostring_v = deriveGoStringI10x008(use_I10x008_gostring_a)
var use_I10x008_hash_a *map[int]int
var use_I10x008_hash_v = deriveHashI10x008(use_I10x008_hash_a)
var use_I10x008L_all_p func(*map[int]int) bool
var use_I10x008L_all_l []*map[int]int
var use_I10x008L_all_v = deriveAllI10x008L(use_I10x008L_all_p, use_I10x008L_all_l)
var use_I10x008L_any_p func(*map[int]int) bool
var use_I10x008L_any_l []*map[int]int
var use_I10x008L_any_v = deriveAnyI10x008L(use_I10x008L_any_p, use_I10x008L_any_l)
var use_I10x008L_contains_l []*map[int]int
var use_I10x008L_contains_x *map[int]int
var use_I10x008L_contains_v = deriveContainsI10x008L(use_I10x008L_contains_l, use_I10x008L_contains_x)
var use_I10x008L_filter_p func(*map[int]int) bool
var use_I10x008L_filter_l []*map[int]int
var use_I10x008L_filter_v = deriveFilterI10x008L(use_I10x008L_filter_p, use_I10x008L_filter_l)
var use_I10x008L_intersect_a []*map[int]int
var use_I10x008L_intersect_b []*map[int]int
var use_I10x008L_intersect_v = deriveIntersectI10x008L(use_I10x008L_intersect_a, use_I10x008L_intersect_b)
var use_I10x008L_max_l []*map[int]int
var use_I10x008L_max_d *map[int]int
var use_I10x008L_max_v = deriveMaxI10x008L(use_I10x008L_max_l, use_I10x008L_max_d)
var use_I10x008L_max2_a *map[int]int
var use_I10x008L_max2_b *map[int]int
var use_I10x008L_max2_v = deriveMaxBI10x008L(use_I10x008L_max2_a, use_I10x008L_max2_b)
var use_I10x008L_min_l []*map[int]int
var use_I10x008L_min_d *map[int]int
var use_I10x008L_min_v = deriveMinI10x008L(use_I10x008L_min_l, use_I10x008L_min_d)
var use_I10x008L_min2_a *map[int]int
var use_I10x008L_min2_b *map[int]int
var use_I10x008L_min2_v = deriveMinBI10x008L(use_I10x008L_min2_a, use_I10x008L_min2_b)
var use_I10x008L_sort_l []*map[int]int
var use_I10x008L_sort_v = deriveSortI10x008L(use_I10x008L_sort_l)
var use_I10x008L_takewhile_p func(*map[int]int) bool
var use_I10x008L_takewhile_l []*map[int]int
var use_I10x008L_takewhile_v = deriveTakeWhileI10x008L(use_I10x008L_takewhile_p, use_I10x008L_takewhile_l)
var use_I10x008L_union_a []*map[int]int
var use_I10x008L_union_b []*map[int]int
var use_I10x008L_union_v = deriveUnionI10x008L(use_I10x008L_union_a, use_I10x008L_union_b)
var use_I10x008L_unique_l []*map[int]int
var use_I10x008L_unique_v = deriveUniqueI10x008L(use_I10x008L_unique_l)
func use_I10x009_clone(a *W5) *W5 { return deriveCloneI10x009(a) }
func use_I10x009_compare(a, b *W5) int { return deriveCompareI10x009(a, b) }
func use_I10x009_comparec(a, b *W5) int { return deriveCompareCI10x009(a)(b) }
func use_I10x009_deepcopy(a, b *W5)  { deriveDeepCopyI10x009(a, b) }
func use_I10x009_equal(a, b *W5) bool { return deriveEqualI10x009(a, b) }
func use_I10x009_equalc(a, b *W5) bool { return deriveEqualCI10x009(a)(b) }
func use_I10x009_equalclone(a *W5) bool { return deriveEqualI10x009(deriveCloneI10x009(a), a) }
func use_I10x009_gostring(a *W5) string { return deriveGoStringI10x009(a) }
func use_I10x009_hash(a *W5) uint64 { return deriveHashI10x009(a) }
var use_I10x010_clone = func(a map[float64]int) map[float64]int { return deriveCloneI10x010(a) }
var use_I10x010_compare = func(a, b map[float64]int) int { return deriveCompareI10x010(a, b) }
var use_I10x010_comparec = func(a, b map[float64]int) int { return deriveCompareCI10x010(a)(b) }
var use_I10x010_deepcopy = func(a, b map[float64]int)  { deriveDeepCopyI10x010(a, b) }
var use_I10x010_equal = func(a, b map[float64]int) bool { return deriveEqualI10x010(a, b) }
var use_I10x010_equalc = func(a, b map[float64]int) bool { return deriveEqualCI10x010(a)(b) }
var use_I10x010_equalclone = func(a map[float64]int) bool { return deriveEqualI10x010(deriveCloneI10x010(a), a) }
var use_I10x010_gostring = func(a map[float64]int) string { return deriveGoStringI10x010(a) }
var use_I10x010_hash = func(a map[float64]int) uint64 { return deriveHashI10x010(a) }
var use_I10x010_keys = func(m map[float64]int) int { return len(deriveKeysI10x010(m)) }
var use_I10x010_sortkeys = func(m map[float64]int) int { return len(deriveSortI10x010(deriveKeysI10x010(m))) }
var use_I10x010L_all = func(p func(map[float64]int) bool, l []map[float64]int) bool { return deriveAllI10x010L(p, l) }
var use_I10x010L_any = func(p func(map[float64]int) bool, l []map[float64]int) bool { return deriveAnyI10x010L(p, l) }
var use_I10x010L_contains = func(l []map[float64]int, x map[float64]int) bool { return deriveContainsI10x010L(l, x) }
var use_I10x010L_filter = func(p func(map[float64]int) bool, l []map[float64]int) []map[float64]int { return deriveFilterI10x010L(p, l) }
var use_I10x010L_intersect = func(a, b []map[float64]int) []map[float64]int { return deriveIntersectI10x010L(a, b) }
var use_I10x010L_max = func(l []map[float64]int, d map[float64]int) map[float64]int { return deriveMaxI10x010L(l, d) }
var use_I10x010L_max2 = func(a, b map[float64]int) map[float64]int { return deriveMaxBI10x010L(a, b) }
var use_I10x010L_min = func(l []map[float64]int, d map[float64]int) map[float64]int { return deriveMinI10x010L(l, d) }
var use_I10x010L_min2 = func(a, b map[float64]int) map[float64]int { return deriveMinBI10x010L(a, b) }
var use_I10x010L_sort = func(l []map[float64]int) []map[float64]int { return deriveSortI10x010L(l) }
var use_I10x010L_takewhile = func(p func(map[float64]int) bool, l []map[float64]int) []map[float64]int { return deriveTakeWhileI10x010L(p, l) }
var use_I10x010L_union = func(a, b []map[float64]int) []map[float64]int { return deriveUnionI10x010L(a, b) }
var use_I10x010L_unique = func(l []map[float64]int) []map[float64]int { return deriveUniqueI10x010L(l) }
var use_I10x011_clone_a *W6
var use_I10x011_clone_v = deriveCloneI10x011(use_I10x011_clone_a)
var use_I10x011_compare_a *W6
var use_I10x011_compare_b *W6
var use_I10x011_compare_v = deriveCompareI10x011(use_I10x011_compare_a, use_I10x011_compare_b)
var use_I10x011_comparec_a *W6
var use_I10x011_comparec_b *W6
var use_I10x011_comparec_v = deriveCompareCI10x011(use_I10x011_comparec_a)(use_I10x011_comparec_b)
var use_I10x011_deepcopy_a *W6
var use_I10x011_deepcopy_b *W6
func init() { deriveDeepCopyI10x011(use_I10x011_deepcopy_a, use_I10x011_deepcopy_b) }
var use_I10x011_equal_a *W6
var use_I10x011_equal_b *W6
var use_I10x011_equal_v = deriveEqualI10x011(use_I10x011_equal_a, use_I10x011_equal_b)
var use_I10x011_equalc_a *W6
var use_I10x011_equalc_b *W6
var use_I10x011_equalc_v = deriveEqualCI10x011(use_I10x011_equalc_a)(use_I10x011_equalc_b)
var use_I10x011_equalclone_a *W6
var use_I10x011_equalclone_v = deriveEqualI10x011(deriveCloneI10x011(use_I10x011_equalclone_a), use_I10x011_equalclone_a)
var use_I10x011_gostring_a *W6
var use_I10x011_gostring_v = deriveGoStringI10x011(use_I10x011_gostring_a)
var use_I10x011_hash_a *W6
var use_I10x011_hash_v = deriveHashI10x011(use_I10x011_hash_a)
var use_I10x012_clone = func(a map[int]NInt) map[int]NInt { return deriveCloneI10x012(a) }
var use_I10x012_compare = func(a, b map[int]NInt) int { return deriveCompareI10x012(a, b) }
var use_I10x012_comparec = func(a, b map[int]NInt) int { return deriveCompareCI10x012(a)(b) }
var use_I10x012_deepcopy = func(a, b map[int]NInt)  { deriveDeepCopyI10x012(a, b) }
var use_I10x012_equal = func(a, b map[int]NInt) bool { return deriveEqualI10x012(a, b) }
var use_I10x012_equalc = func(a, b map[int]NInt) bool { return deriveEqualCI10x012(a)(b) }
var use_I10x012_equalclone = func(a map[int]NInt) bool { return deriveEqualI10x012(deriveCloneI10x012(a), a) }
var use_I10x012_gostring = func(a map[int]NInt) string { return deriveGoStringI10x012(a) }
var use_I10x012_hash = func(a map[int]NInt) uint64 { return deriveHashI10x012(a) }
var use_I10x012_keys = func(m map[int]NInt) int { return len(deriveKeysI10x012(m)) }
var use_I10x012_sortkeys = func(m map[int]NInt) int { return len(deriveSortI10x012(deriveKeysI10x012(m))) }
var use_I10x014_clone = func(a uint64) uint64 { return deriveCloneI10x014(a) }
var use_I10x014_compare = func(a, b uint64) int { return deriveCompareI10x014(a, b) }
var use_I10x014_comparec = func(a, b uint64) int { return deriveCompareCI10x014(a)(b) }
var use_I10x014_equal = func(a, b uint64) bool { return deriveEqualI10x014(a, b) }
var use_I10x014_equalc = func(a, b uint64) bool { return deriveEqualCI10x014(a)(b) }
var use_I10x014_equalclone = func(a uint64) bool { return deriveEqualI10x014(deriveCloneI10x014(a), a) }
var use_I10x014_gostring = func(a uint64) string { return deriveGoStringI10x014(a) }
var use_I10x014_hash = func(a uint64) uint64 { return deriveHashI10x014(a) }
var use_I10x015_clone_a *W8
var use_I10x015_clone_v = deriveCloneI10x015(use_I10x015_clone_a)
var use_I10x015_compare_a *W8
var use_I10x015_compare_b *W8
var use_I10x015_compare_v = deriveCompareI10x015(use_I10x015_compare_a, use_I10x015_compare_b)
var use_I10x015_comparec_a *W8
var use_I10x015_comparec_b *W8
var use_I10x015_comparec_v = deriveCompareCI10x015(use_I10x015_comparec_a)(use_I10x015_comparec_b)
var use_I10x015_deepcopy_a *W8
var use_I10x015_deepcopy_b *W8
func init() { deriveDeepCopyI10x015(use_I10x015_deepcopy_a, use_I10x015_deepcopy_b) }
var use_I10x015_equal_a *W8
var use_I10x015_equal_b *W8
var use_I10x015_equal_v = deriveEqualI10x015(use_I10x015_equal_a, use_I10x015_equal_b)
var use_I10x015_equalc_a *W8
var use_I10x015_equalc_b *W8
var use_I10x015_equalc_v = deriveEqualCI10x015(use_I10x015_equalc_a)(use_I10x015_equalc_b)
var use_I10x015_equalclone_a *W8
var use_I10x015_equalclone_v = deriveEqualI10x015(deriveCloneI10x015(use_I10x015_equalclone_a), use_I10x015_equalclone_a)
var use_I10x015_gostring_a *W8
var use_I10x015_gostring_v = deriveGoStringI10x015(use_I10x015_gostring_a)
var use_I10x015_hash_a *W8
var use_I10x015_hash_v = deriveHashI10x015(use_I10x015_hash_a)
var use_I10x016_clone = func(a R9) R9 { return deriveCloneI10x016(a) }
var use_I10x016_compare = func(a, b R9) int { return deriveCompareI10x016(a, b) }
var use_I10x016_comparec = func(a, b R9) int { return deriveCompareCI10x016(a)(b) }
var use_I10x016_equal = func(a, b R9) bool { return deriveEqualI10x016(a, b) }
var use_I10x016_equalc = func(a, b R9) bool { return deriveEqualCI10x016(a)(b) }
var use_I10x016_equalclone = func(a R9) bool { return deriveEqualI10x016(deriveCloneI10x016(a), a) }
var use_I10x016_gostring = func(a R9) string { return deriveGoStringI10x016(a) }
var use_I10x016_hash = func(a R9) uint64 { return deriveHashI10x016(a) }
func use_I10x017_clone(a *W10) *W10 { return deriveCloneI10x017(a) }
func use_I10x017_compare(a, b *W10) int { return deriveCompareI10x017(a, b) }
func use_I10x017_comparec(a, b *W10) int { return deriveCompareCI10x017(a)(b) }
func use_I10x017_deepcopy(a, b *W10)  { deriveDeepCopyI10x017(a, b) }
func use_I10x017_equal(a, b *W10) bool { return deriveEqualI10x017(a, b) }
func use_I10x017_equalc(a, b *W10) bool { return deriveEqualCI10x017(a)(b) }
func use_I10x017_equalclone(a *W10) bool { return deriveEqualI10x017(deriveCloneI10x017(a), a) }
func use_I10x017_gostring(a *W10) string { return deriveGoStringI10x017(a) }
func use_I10x017_hash(a *W10) uint64 { return deriveHashI10x017(a) }
var use_I10x018_clone = func(a map[NInt]rune) map[NInt]rune { return deriveCloneI10x018(a) }
var use_I10x018_compare = func(a, b map[NInt]rune) int { return deriveCompareI10x018(a, b) }
var use_I10x018_comparec = func(a, b map[NInt]rune) int { return deriveCompareCI10x018(a)(b) }
var use_I10x018_deepcopy = func(a, b map[NInt]rune)  { deriveDeepCopyI10x018(a, b) }
var use_I10x018_equal = func(a, b map[NInt]rune) bool { return deriveEqualI10x018(a, b) }
var use_I10x018_equalc = func(a, b map[NInt]rune) bool { return deriveEqualCI10x018(a)(b) }
var use_I10x018_equalclone = func(a map[NInt]rune) bool { return deriveEqualI10x018(deriveCloneI10x018(a), a) }
var use_I10x018_gostring = func(a map[NInt]rune) string { return deriveGoStringI10x018(a) }
var use_I10x018_hash = func(a map[NInt]rune) uint64 { return deriveHashI10x018(a) }
var use_I10x018_keys = func(m map[NInt]rune) int { return len(deriveKeysI10x018(m)) }
var use_I10x018_sortkeys = func(m map[NInt]rune) int { return len(deriveSortI10x018(deriveKeysI10x018(m))) }
var use_I10x018L_all = func(p func(map[NInt]rune) bool, l []map[NInt]rune) bool { return deriveAllI10x018L(p, l) }
var use_I10x018L_any = func(p func(map[NInt]rune) bool, l []map[NInt]rune) bool { return deriveAnyI10x018L(p, l) }
var use_I10x018L_contains = func(l []map[NInt]rune, x map[NInt]rune) bool { return deriveContainsI10x018L(l, x) }
var use_I10x018L_filter = func(p func(map[NInt]rune) bool, l []map[NInt]rune) []map[NInt]rune { return deriveFilterI10x018L(p, l) }
var use_I10x018L_intersect = func(a, b []map[NInt]rune) []map[NInt]rune { return deriveIntersectI10x018L(a, b) }
var use_I10x018L_max = func(l []map[NInt]rune, d map[NInt]rune) map[NInt]rune { return deriveMaxI10x018L(l, d) }
var use_I10x018L_max2 = func(a, b map[NInt]rune) map[NInt]rune { return deriveMaxBI10x018L(a, b) }
var use_I10x018L_min = func(l []map[NInt]rune, d map[NInt]rune) map[NInt]rune { return deriveMinI10x018L(l, d) }
var use_I10x018L_min2 = func(a, b map[NInt]rune) map[NInt]rune { return deriveMinBI10x018L(a, b) }
var use_I10x018L_sort = func(l []map[NInt]rune) []map[NInt]rune { return deriveSortI10x018L(l) }
var use_I10x018L_takewhile = func(p func(map[NInt]rune) bool, l []map[NInt]rune) []map[NInt]rune { return deriveTakeWhileI10x018L(p, l) }
var use_I10x018L_union = func(a, b []map[NInt]rune) []map[NInt]rune { return deriveUnionI10x018L(a, b) }
var use_I10x018L_unique = func(l []map[NInt]rune) []map[NInt]rune { return deriveUniqueI10x018L(l) }
func use_I10x020_clone(a *bool) *bool { return deriveCloneI10x020(a) }
func use_I10x020_compare(a, b *bool) int { return deriveCompareI10x020(a, b) }
func use_I10x020_comparec(a, b *bool) int { return deriveCompareCI10x020(a)(b) }
func use_I10x020_deepcopy(a, b *bool)  { deriveDeepCopyI10x020(a, b) }
func use_I10x020_equal(a, b *bool) bool { return deriveEqualI10x020(a, b) }
func use_I10x020_equalc(a, b *bool) bool { return deriveEqualCI10x020(a)(b) }
func use_I10x020_equalclone(a *bool) bool { return deriveEqualI10x020(deriveCloneI10x020(a), a) }
func use_I10x020_gostring(a *bool) string { return deriveGoStringI10x020(a) }
func use_I10x020_hash(a *bool) uint64 { return deriveHashI10x020(a) }
var use_I10x020L_all = func(p func(*bool) bool, l []*bool) bool { return deriveAllI10x020L(p, l) }
var use_I10x020L_any = func(p func(*bool) bool, l []*bool) bool { return deriveAnyI10x020L(p, l) }
var use_I10x020L_contains = func(l []*bool, x *bool) bool { return deriveContainsI10x020L(l, x) }
var use_I10x020L_filter = func(p func(*bool) bool, l []*bool) []*bool { return deriveFilterI10x020L(p, l) }
var use_I10x020L_intersect = func(a, b []*bool) []*bool { return deriveIntersectI10x020L(a, b) }
var use_I10x020L_max = func(l []*bool, d *bool) *bool { return deriveMaxI10x020L(l, d) }
var use_I10x020L_max2 = func(a, b *bool) *bool { return deriveMaxBI10x020L(a, b) }
var use_I10x020L_min = func(l []*bool, d *bool) *bool { return deriveMinI10x020L(l, d) }
var use_I10x020L_min2 = func(a, b *bool) *bool { return deriveMinBI10x020L(a, b) }
var use_I10x020L_sort = func(l []*bool) []*bool { return deriveSortI10x020L(l) }
var use_I10x020L_takewhile = func(p func(*bool) bool, l []*bool) []*bool { return deriveTakeWhileI10x020L(p, l) }
var use_I10x020L_union = func(a, b []*bool) []*bool { return deriveUnionI10x020L(a, b) }
var use_I10x020L_unique = func(l []*bool) []*bool { return deriveUniqueI10x020L(l) }
var use_I10x021_clone = func(a *W12) *W12 { return deriveCloneI10x021(a) }
var use_I10x021_compare = func(a, b *W12) int { return deriveCompareI10x021(a, b) }
var use_I10x021_comparec = func(a, b *W12) int { return deriveCompareCI10x021(a)(b) }
var use_I10x021_deepcopy = func(a, b *W12)  { deriveDeepCopyI10x021(a, b) }
var use_I10x021_equal = func(a, b *W12) bool { return deriveEqualI10x021(a, b) }
var use_I10x021_equalc = func(a, b *W12) bool { return deriveEqualCI10x021(a)(b) }
var use_I10x021_equalclone = func(a *W12) bool { return deriveEqualI10x021(deriveCloneI10x021(a), a) }
var use_I10x021_gostring = func(a *W12) string { return deriveGoStringI10x021(a) }
var use_I10x021_hash = func(a *W12) uint64 { return deriveHashI10x021(a) }
func use_I10x022_clone(a map[string][]bool) map[string][]bool { return deriveCloneI10x022(a) }
func use_I10x022_compare(a, b map[string][]bool) int { return deriveCompareI10x022(a, b) }
func use_I10x022_comparec(a, b map[string][]bool) int { return deriveCompareCI10x022(a)(b) }
func use_I10x022_deepcopy(a, b map[string][]bool)  { deriveDeepCopyI10x022(a, b) }
func use_I10x022_equal(a, b map[string][]bool) bool { return deriveEqualI10x022(a, b) }
func use_I10x022_equalc(a, b map[string][]bool) bool { return deriveEqualCI10x022(a)(b) }
func use_I10x022_equalclone(a map[string][]bool) bool { return deriveEqualI10x022(deriveCloneI10x022(a), a) }
func use_I10x022_gostring(a map[string][]bool) string { return deriveGoStringI10x022(a) }
func use_I10x022_hash(a map[string][]bool) uint64 { return deriveHashI10x022(a) }
func use_I10x022_keys(m map[string][]bool) int { return len(deriveKeysI10x022(m)) }
func use_I10x022_sortkeys(m map[string][]bool) int { return len(deriveSortI10x022(deriveKeysI10x022(m))) }
func use_I10x022L_all(p func(map[string][]bool) bool, l []map[string][]bool) bool { return deriveAllI10x022L(p, l) }
func use_I10x022L_any(p func(map[string][]bool) bool, l []map[string][]bool) bool { return deriveAnyI10x022L(p, l) }
func use_I10x022L_contains(l []map[string][]bool, x map[string][]bool) bool { return deriveContainsI10x022L(l, x) }
func use_I10x022L_filter(p func(map[string][]bool) bool, l []map[string][]bool) []map[string][]bool { return deriveFilterI10x022L(p, l) }
func use_I10x022L_intersect(a, b []map[string][]bool) []map[string][]bool { return deriveIntersectI10x022L(a, b) }
func use_I10x022L_max(l []map[string][]bool, d map[string][]bool) map[string][]bool { return deriveMaxI10x022L(l, d) }
func use_I10x022L_max2(a, b map[string][]bool) map[string][]bool { return deriveMaxBI10x022L(a, b) }
func use_I10x022L_min(l []map[string][]bool, d map[string][]bool) map[string][]bool { return deriveMinI10x022L(l, d) }
func use_I10x022L_min2(a, b map[string][]bool) map[string][]bool { return deriveMinBI10x022L(a, b) }
func use_I10x022L_sort(l []map[string][]bool) []map[string][]bool { return deriveSortI10x022L(l) }
func use_I10x022L_takewhile(p func(map[string][]bool) bool, l []map[string][]bool) []map[string][]bool { return deriveTakeWhileI10x022L(p, l) }
func use_I10x022L_union(a, b []map[string][]bool) []map[string][]bool { return deriveUnionI10x022L(a, b) }
func use_I10x022L_unique(l []map[string][]bool) []map[string][]bool { return deriveUniqueI10x022L(l) }
var use_I10x023_clone = func(a *W13) *W13 { return deriveCloneI10x023(a) }
var use_I10x023_compare = func(a, b *W13) int { return deriveCompareI10x023(a, b) }
var use_I10x023_comparec = func(a, b *W13) int { return deriveCompareCI10x023(a)(b) }
var use_I10x023_deepcopy = func(a, b *W13)  { deriveDeepCopyI10x023(a, b) }
var use_I10x023_equal = func(a, b *W13) bool { return deriveEqualI10x023(a, b) }
var use_I10x023_equalc = func(a, b *W13) bool { return deriveEqualCI10x023(a)(b) }
var use_I10x023_equalclone = func(a *W13) bool { return deriveEqualI10x023(deriveCloneI10x023(a), a) }
var use_I10x023_gostring = func(a *W13) string { return deriveGoStringI10x023(a) }
var use_I10x023_hash = func(a *W13) uint64 { return deriveHashI10x023(a) }
