package p

import (
	"testing"
)

func TestNothing(t *testing.T) {}

func use_I10x002L_all(p func([]SP) bool, l [][]SP) bool { return deriveAllI10x002L(p, l) }
func use_I10x002L_any(p func([]SP) bool, l [][]SP) bool { return deriveAnyI10x002L(p, l) }
func use_I10x002L_contains(l [][]SP, x []SP) bool { return deriveContainsI10x002L(l, x) }
func use_I10x002L_filter(p func([]SP) bool, l [][]SP) [][]SP { return deriveFilterI10x002L(p, l) }
func use_I10x002L_intersect(a, b [][]SP) [][]SP { return deriveIntersectI10x002L(a, b) }
func use_I10x002L_max(l [][]SP, d []SP) []SP { return deriveMaxI10x002L(l, d) }
func use_I10x002L_max2(a, b []SP) []SP { return deriveMaxBI10x002L(a, b) }
func use_I10x002L_min(l [][]SP, d []SP) []SP { return deriveMinI10x002L(l, d) }
func use_I10x002L_min2(a, b []SP) []SP { return deriveMinBI10x002L(a, b) }
func use_I10x002L_sort(l [][]SP) [][]SP { return deriveSortI10x002L(l) }
func use_I10x002L_takewhile(p func([]SP) bool, l [][]SP) [][]SP { return deriveTakeWhileI10x002L(p, l) }
func use_I10x002L_union(a, b [][]SP) [][]SP { return deriveUnionI10x002L(a, b) }
func use_I10x002L_unique(l [][]SP) [][]SP { return deriveUniqueI10x002L(l) }
func use_I10x006_clone(a [2]map[string]NInt) [2]map[string]NInt { return deriveCloneI10x006(a) }
func use_I10x006_compare(a, b [2]map[string]NInt) int { return deriveCompareI10x006(a, b) }
func use_I10x006_comparec(a, b [2]map[string]NInt) int { return deriveCompareCI10x006(a)(b) }
func use_I10x006_equal(a, b [2]map[string]NInt) bool { return deriveEqualI10x006(a, b) }
func use_I10x006_equalc(a, b [2]map[string]NInt) bool { return deriveEqualCI10x006(a)(b) }
func use_I10x006_equalclone(a [2]map[string]NInt) bool { return deriveEqualI10x006(deriveCloneI10x006(a), a) }
func use_I10x006_gostring(a [2]map[string]NInt) string { return deriveGoStringI10x006(a) }
func use_I10x006_hash(a [2]map[string]NInt) uint64 { return deriveHashI10x006(a) }
func use_I10x012L_all(p func(map[int]NInt) bool, l []map[int]NInt) bool { return deriveAllI10x012L(p, l) }
func use_I10x012L_any(p func(map[int]NInt) bool, l []map[int]NInt) bool { return deriveAnyI10x012L(p, l) }
func use_I10x012L_contains(l []map[int]NInt, x map[int]NInt) bool { return deriveContainsI10x012L(l, x) }
func use_I10x012L_filter(p func(map[int]NInt) bool, l []map[int]NInt) []map[int]NInt { return deriveFilterI10x012L(p, l) }
func use_I10x012L_intersect(a, b []map[int]NInt) []map[int]NInt { return deriveIntersectI10x012L(a, b) }
func use_I10x012L_max(l []map[int]NInt, d map[int]NInt) map[int]NInt { return deriveMaxI10x012L(l, d) }
func use_I10x012L_max2(a, b map[int]NInt) map[int]NInt { return deriveMaxBI10x012L(a, b) }
func use_I10x012L_min(l []map[int]NInt, d map[int]NInt) map[int]NInt { return deriveMinI10x012L(l, d) }
func use_I10x012L_min2(a, b map[int]NInt) map[int]NInt { return deriveMinBI10x012L(a, b) }
func use_I10x012L_sort(l []map[int]NInt) []map[int]NInt { return deriveSortI10x012L(l) }
func use_I10x012L_takewhile(p func(map[int]NInt) bool, l []map[int]NInt) []map[int]NInt { return deriveTakeWhileI10x012L(p, l) }
func use_I10x012L_union(a, b []map[int]NInt) []map[int]NInt { return deriveUnionI10x012L(a, b) }
func use_I10x012L_unique(l []map[int]NInt) []map[int]NInt { return deriveUniqueI10x012L(l) }
func use_I10x013_clone(a *W7) *W7 { return deriveCloneI10x013(a) }
func use_I10x013_compare(a, b *W7) int { return deriveCompareI10x013(a, b) }
func use_I10x013_comparec(a, b *W7) int { return deriveCompareCI10x013(a)(b) }
func use_I10x013_deepcopy(a, b *W7)  { deriveDeepCopyI10x013(a, b) }
func use_I10x013_equal(a, b *W7) bool { return deriveEqualI10x013(a, b) }
func use_I10x013_equalc(a, b *W7) bool { return deriveEqualCI10x013(a)(b) }
func use_I10x013_equalclone(a *W7) bool { return deriveEqualI10x013(deriveCloneI10x013(a), a) }
func use_I10x013_gostring(a *W7) string { return deriveGoStringI10x013(a) }
func use_I10x013_hash(a *W7) uint64 { return deriveHashI10x013(a) }
func use_I10x014L_all(p func(uint64) bool, l []uint64) bool { return deriveAllI10x014L(p, l) }
func use_I10x014L_any(p func(uint64) bool, l []uint64) bool { return deriveAnyI10x014L(p, l) }
func use_I10x014L_contains(l []uint64, x uint64) bool { return deriveContainsI10x014L(l, x) }
func use_I10x014L_filter(p func(uint64) bool, l []uint64) []uint64 { return deriveFilterI10x014L(p, l) }
func use_I10x014L_intermap(a, b map[uint64]struct{}) map[uint64]struct{} { return deriveIntersectMI10x014L(a, b) }
func use_I10x014L_intersect(a, b []uint64) []uint64 { return deriveIntersectI10x014L(a, b) }
func use_I10x014L_max(l []uint64, d uint64) uint64 { return deriveMaxI10x014L(l, d) }
func use_I10x014L_max2(a, b uint64) uint64 { return deriveMaxBI10x014L(a, b) }
func use_I10x014L_min(l []uint64, d uint64) uint64 { return deriveMinI10x014L(l, d) }
func use_I10x014L_min2(a, b uint64) uint64 { return deriveMinBI10x014L(a, b) }
func use_I10x014L_set(l []uint64) map[uint64]struct{} { return deriveSetI10x014L(l) }
func use_I10x014L_sort(l []uint64) []uint64 { return deriveSortI10x014L(l) }
func use_I10x014L_takewhile(p func(uint64) bool, l []uint64) []uint64 { return deriveTakeWhileI10x014L(p, l) }
func use_I10x014L_union(a, b []uint64) []uint64 { return deriveUnionI10x014L(a, b) }
func use_I10x014L_unionmap(a, b map[uint64]struct{}) map[uint64]struct{} { return deriveUnionMI10x014L(a, b) }
func use_I10x014L_unique(l []uint64) []uint64 { return deriveUniqueI10x014L(l) }
func use_I10x016L_all(p func(R9) bool, l []R9) bool { return deriveAllI10x016L(p, l) }
func use_I10x016L_any(p func(R9) bool, l []R9) bool { return deriveAnyI10x016L(p, l) }
func use_I10x016L_contains(l []R9, x R9) bool { return deriveContainsI10x016L(l, x) }
func use_I10x016L_filter(p func(R9) bool, l []R9) []R9 { return deriveFilterI10x016L(p, l) }
func use_I10x016L_intersect(a, b []R9) []R9 { return deriveIntersectI10x016L(a, b) }
func use_I10x016L_max(l []R9, d R9) R9 { return deriveMaxI10x016L(l, d) }
func use_I10x016L_max2(a, b R9) R9 { return deriveMaxBI10x016L(a, b) }
func use_I10x016L_min(l []R9, d R9) R9 { return deriveMinI10x016L(l, d) }
func use_I10x016L_min2(a, b R9) R9 { return deriveMinBI10x016L(a, b) }
func use_I10x016L_sort(l []R9) []R9 { return deriveSortI10x016L(l) }
func use_I10x016L_takewhile(p func(R9) bool, l []R9) []R9 { return deriveTakeWhileI10x016L(p, l) }
func use_I10x016L_union(a, b []R9) []R9 { return deriveUnionI10x016L(a, b) }
func use_I10x016L_unique(l []R9) []R9 { return deriveUniqueI10x016L(l) }
func use_I10x019_clone(a *W11) *W11 { return deriveCloneI10x019(a) }
func use_I10x019_compare(a, b *W11) int { return deriveCompareI10x019(a, b) }
func use_I10x019_comparec(a, b *W11) int { return deriveCompareCI10x019(a)(b) }
func use_I10x019_deepcopy(a, b *W11)  { deriveDeepCopyI10x019(a, b) }
func use_I10x019_equal(a, b *W11) bool { return deriveEqualI10x019(a, b) }
func use_I10x019_equalc(a, b *W11) bool { return deriveEqualCI10x019(a)(b) }
func use_I10x019_equalclone(a *W11) bool { return deriveEqualI10x019(deriveCloneI10x019(a), a) }
func use_I10x019_gostring(a *W11) string { return deriveGoStringI10x019(a) }
func use_I10x019_hash(a *W11) uint64 { return deriveHashI10x019(a) }
