package p

import (
	"testing"
)

func TestNothing(t *testing.T) {}

func use_I12x006_sortkeys(m map[[2]int]SP) int { return len(deriveSortI12x006(deriveKeysI12x006(m))) }
