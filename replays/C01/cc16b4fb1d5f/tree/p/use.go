package p


