package p


func use_I06x008_clone(a map[NStr]string) map[NStr]string { return deriveCloneI06x008(a) }
func use_I06x008_compare(a, b map[NStr]string) int { return deriveCompareI06x008(a, b) }
func use_I06x008_comparec(a, b map[NStr]string) int { return deriveCompareCI06x008(a)(b) }
func use_I06x008_deepcopy(a, b map[NStr]string)  { deriveDeepCopyI06x008(a, b) }
func use_I06x008_equal(a, b map[NStr]string) bool { return deriveEqualI06x008(a, b) }
func use_I06x008_equalc(a, b map[NStr]string) bool { return deriveEqualCI06x008(a)(b) }
func use_I06x008_equalclone(a map[NStr]string) bool { return deriveEqualNI06x008(deriveCloneNI06x008(a), a) }
func use_I06x008_gostring(a map[NStr]string) string { return deriveGoStringI06x008(a) }
func use_I06x008_hash(a map[NStr]string) uint64 { return deriveHashI06x008(a) }
func use_I06x008_keys(m map[NStr]string) int { return len(deriveKeysI06x008(m)) }
func use_I06x008_sortkeys(m map[NStr]string) int { return len(deriveSortI06x008(deriveKeysI06x008(m))) }
