package p


func use_I06x020_clone(a map[string]NInt) map[string]NInt { return deriveCloneI06x020(a) }
func use_I06x020_compare(a, b map[string]NInt) int { return deriveCompareI06x020(a, b) }
func use_I06x020_comparec(a, b map[string]NInt) int { return deriveCompareCI06x020(a)(b) }
func use_I06x020_deepcopy(a, b map[string]NInt)  { deriveDeepCopyI06x020(a, b) }
func use_I06x020_equal(a, b map[string]NInt) bool { return deriveEqualI06x020(a, b) }
func use_I06x020_equalc(a, b map[string]NInt) bool { return deriveEqualCI06x020(a)(b) }
func use_I06x020_equalclone(a map[string]NInt) bool { return deriveEqualNI06x020(deriveCloneNI06x020(a), a) }
func use_I06x020_gostring(a map[string]NInt) string { return deriveGoStringI06x020(a) }
func use_I06x020_hash(a map[string]NInt) uint64 { return deriveHashI06x020(a) }
func use_I06x020_keys(m map[string]NInt) int { return len(deriveKeysI06x020(m)) }
func use_I06x020_sortkeys(m map[string]NInt) int { return len(deriveSortI06x020(deriveKeysI06x020(m))) }
