package p


func use_I08x016_clone(a map[int]bool) map[int]bool { return deriveCloneI08x016(a) }
func use_I08x016_compare(a, b map[int]bool) int { return deriveCompareI08x016(a, b) }
func use_I08x016_comparec(a, b map[int]bool) int { return deriveCompareCI08x016(a)(b) }
func use_I08x016_deepcopy(a, b map[int]bool)  { deriveDeepCopyI08x016(a, b) }
func use_I08x016_equal(a, b map[int]bool) bool { return deriveEqualI08x016(a, b) }
func use_I08x016_equalc(a, b map[int]bool) bool { return deriveEqualCI08x016(a)(b) }
func use_I08x016_equalclone(a map[int]bool) bool { return deriveEqualNI08x016(deriveCloneNI08x016(a), a) }
func use_I08x016_gostring(a map[int]bool) string { return deriveGoStringI08x016(a) }
func use_I08x016_hash(a map[int]bool) uint64 { return deriveHashI08x016(a) }
func use_I08x016_keys(m map[int]bool) int { return len(deriveKeysI08x016(m)) }
func use_I08x016_sortkeys(m map[int]bool) int { return len(deriveSortI08x016(deriveKeysI08x016(m))) }
