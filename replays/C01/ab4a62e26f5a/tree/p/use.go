package p


var use_I09x009_deepcopy_a *W5
var use_I09x009_deepcopy_b *W5
func init() { deriveDeepCopyI09x009(use_I09x009_deepcopy_a, use_I09x009_deepcopy_b) }
