package p


func use_I00x018_clone(a []uint8) []uint8 { return deriveCloneI00x018(a) }
func use_I00x018_compare(a, b []uint8) int { return deriveCompareI00x018(a, b) }
func use_I00x018_comparec(a, b []uint8) int { return deriveCompareCI00x018(a)(b) }
func use_I00x018_deepcopy(a, b []uint8)  { deriveDeepCopyI00x018(a, b) }
func use_I00x018_equal(a, b []uint8) bool { return deriveEqualI00x018(a, b) }
func use_I00x018_equalc(a, b []uint8) bool { return deriveEqualCI00x018(a)(b) }
func use_I00x018_equalclone(a []uint8) bool { return deriveEqualNI00x018(deriveCloneNI00x018(a), a) }
func use_I00x018_gostring(a []uint8) string { return deriveGoStringI00x018(a) }
func use_I00x018_hash(a []uint8) uint64 { return deriveHashI00x018(a) }
