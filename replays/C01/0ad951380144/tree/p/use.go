package p

import (
	ext "scratch/ext"
)

var use_I03x006_deepcopy_a map[int][2]ext.Pub
var use_I03x006_deepcopy_b map[int][2]ext.Pub
func init() { deriveDeepCopyI03x006(use_I03x006_deepcopy_a, use_I03x006_deepcopy_b) }
