package p


func use_I02x008_clone(a []*bool) []*bool { return deriveCloneI02x008(a) }
func use_I02x008_compare(a, b []*bool) int { return deriveCompareI02x008(a, b) }
func use_I02x008_comparec(a, b []*bool) int { return deriveCompareCI02x008(a)(b) }
func use_I02x008_deepcopy(a, b []*bool)  { deriveDeepCopyI02x008(a, b) }
func use_I02x008_equal(a, b []*bool) bool { return deriveEqualI02x008(a, b) }
func use_I02x008_equalc(a, b []*bool) bool { return deriveEqualCI02x008(a)(b) }
func use_I02x008_equalclone(a []*bool) bool { return deriveEqualNI02x008(deriveCloneNI02x008(a), a) }
func use_I02x008_gostring(a []*bool) string { return deriveGoStringI02x008(a) }
func use_I02x008_hash(a []*bool) uint64 { return deriveHashI02x008(a) }
