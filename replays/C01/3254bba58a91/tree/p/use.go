package p


