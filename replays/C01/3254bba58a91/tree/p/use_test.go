package p

import (
	"testing"
)

func TestNothing(t *testing.T) {}

func use_I03x010_clone(a NStr) NStr { return deriveCloneI03x010(a) }
func use_I03x010_compare(a, b NStr) int { return deriveCompareI03x010(a, b) }
func use_I03x010_comparec(a, b NStr) int { return deriveCompareCI03x010(a)(b) }
func use_I03x010_equal(a, b NStr) bool { return deriveEqualI03x010(a, b) }
func use_I03x010_equalc(a, b NStr) bool { return deriveEqualCI03x010(a)(b) }
func use_I03x010_equalclone(a NStr) bool { return deriveEqualNI03x010(deriveCloneNI03x010(a), a) }
func use_I03x010_gostring(a NStr) string { return deriveGoStringI03x010(a) }
func use_I03x010_hash(a NStr) uint64 { return deriveHashI03x010(a) }
