package p


