package p

import (
	"testing"
)

func TestNothing(t *testing.T) {}

func use_I06x010_clone(a [2]rune) [2]rune { return deriveCloneI06x010(a) }
func use_I06x010_compare(a, b [2]rune) int { return deriveCompareI06x010(a, b) }
func use_I06x010_comparec(a, b [2]rune) int { return deriveCompareCI06x010(a)(b) }
func use_I06x010_equal(a, b [2]rune) bool { return deriveEqualI06x010(a, b) }
func use_I06x010_equalc(a, b [2]rune) bool { return deriveEqualCI06x010(a)(b) }
func use_I06x010_equalclone(a [2]rune) bool { return deriveEqualNI06x010(deriveCloneNI06x010(a), a) }
func use_I06x010_gostring(a [2]rune) string { return deriveGoStringI06x010(a) }
func use_I06x010_hash(a [2]rune) uint64 { return deriveHashI06x010(a) }
