package p


