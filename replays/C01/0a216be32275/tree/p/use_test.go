package p

import (
	"testing"
)

func TestNothing(t *testing.T) {}

func use_I04x016_clone(a []int) []int { return deriveCloneI04x016(a) }
func use_I04x016_compare(a, b []int) int { return deriveCompareI04x016(a, b) }
func use_I04x016_comparec(a, b []int) int { return deriveCompareCI04x016(a)(b) }
func use_I04x016_deepcopy(a, b []int)  { deriveDeepCopyI04x016(a, b) }
func use_I04x016_equal(a, b []int) bool { return deriveEqualI04x016(a, b) }
func use_I04x016_equalc(a, b []int) bool { return deriveEqualCI04x016(a)(b) }
func use_I04x016_equalclone(a []int) bool { return deriveEqualNI04x016(deriveCloneNI04x016(a), a) }
func use_I04x016_gostring(a []int) string { return deriveGoStringI04x016(a) }
func use_I04x016_hash(a []int) uint64 { return deriveHashI04x016(a) }
