package p


var use_I03x004_clone = func(a [2]*bool) [2]*bool { return deriveCloneI03x004(a) }
var use_I03x004_compare = func(a, b [2]*bool) int { return deriveCompareI03x004(a, b) }
var use_I03x004_comparec = func(a, b [2]*bool) int { return deriveCompareCI03x004(a)(b) }
var use_I03x004_equal = func(a, b [2]*bool) bool { return deriveEqualI03x004(a, b) }
var use_I03x004_equalc = func(a, b [2]*bool) bool { return deriveEqualCI03x004(a)(b) }
var use_I03x004_equalclone = func(a [2]*bool) bool { return deriveEqualNI03x004(deriveCloneNI03x004(a), a) }
var use_I03x004_gostring = func(a [2]*bool) string { return deriveGoStringI03x004(a) }
var use_I03x004_hash = func(a [2]*bool) uint64 { return deriveHashI03x004(a) }
