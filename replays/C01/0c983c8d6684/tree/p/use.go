package p


func use_I02x023_clone(a *W12) *W12 { return deriveCloneI02x023(a) }
func use_I02x023_compare(a, b *W12) int { return deriveCompareI02x023(a, b) }
func use_I02x023_comparec(a, b *W12) int { return deriveCompareCI02x023(a)(b) }
func use_I02x023_deepcopy(a, b *W12)  { deriveDeepCopyI02x023(a, b) }
func use_I02x023_equal(a, b *W12) bool { return deriveEqualI02x023(a, b) }
func use_I02x023_equalc(a, b *W12) bool { return deriveEqualCI02x023(a)(b) }
func use_I02x023_equalclone(a *W12) bool { return deriveEqualI02x023(deriveCloneI02x023(a), a) }
func use_I02x023_gostring(a *W12) string { return deriveGoStringI02x023(a) }
func use_I02x023_hash(a *W12) uint64 { return deriveHashI02x023(a) }
