package p


var use_I18x004_clone = func(a [2]map[float64]int) [2]map[float64]int { return deriveCloneI18x004(a) }
var use_I18x004_compare = func(a, b [2]map[float64]int) int { return deriveCompareI18x004(a, b) }
var use_I18x004_comparec = func(a, b [2]map[float64]int) int { return deriveCompareCI18x004(a)(b) }
var use_I18x004_equal = func(a, b [2]map[float64]int) bool { return deriveEqualI18x004(a, b) }
var use_I18x004_equalc = func(a, b [2]map[float64]int) bool { return deriveEqualCI18x004(a)(b) }
var use_I18x004_equalclone = func(a [2]map[float64]int) bool { return deriveEqualNI18x004(deriveCloneNI18x004(a), a) }
var use_I18x004_gostring = func(a [2]map[float64]int) string { return deriveGoStringI18x004(a) }
var use_I18x004_hash = func(a [2]map[float64]int) uint64 { return deriveHashI18x004(a) }
