package p


var use_I10x008_clone_a *map[int]int
var use_I10x008_clone_v = deriveCloneI10x008(use_I10x008_clone_a)
var use_I10x008_compare_a *map[int]int
var use_I10x008_compare_b *map[int]int
var use_I10x008_compare_v = deriveCompareI10x008(use_I10x008_compare_a, use_I10x008_compare_b)
var use_I10x008_comparec_a *map[int]int
var use_I10x008_comparec_b *map[int]int
var use_I10x008_comparec_v = deriveCompareCI10x008(use_I10x008_comparec_a)(use_I10x008_comparec_b)
var use_I10x008_deepcopy_a *map[int]int
var use_I10x008_deepcopy_b *map[int]int
func init() { deriveDeepCopyI10x008(use_I10x008_deepcopy_a, use_I10x008_deepcopy_b) }
var use_I10x008_equal_a *map[int]int
var use_I10x008_equal_b *map[int]int
var use_I10x008_equal_v = deriveEqualI10x008(use_I10x008_equal_a, use_I10x008_equal_b)
var use_I10x008_equalc_a *map[int]int
var use_I10x008_equalc_b *map[int]int
var use_I10x008_equalc_v = deriveEqualCI10x008(use_I10x008_equalc_a)(use_I10x008_equalc_b)
var use_I10x008_equalclone_a *map[int]int
var use_I10x008_equalclone_v = deriveEqualNI10x008(deriveCloneNI10x008(use_I10x008_equalclone_a), use_I10x008_equalclone_a)
var use_I10x008_gostring_a *map[int]int
var use_I10x008_gostring_v = deriveGoStringI10x008(use_I10x008_gostring_a)
var use_I10x008_hash_a *map[int]int
var use_I10x008_hash_v = deriveHashI10x008(use_I10x008_hash_a)
