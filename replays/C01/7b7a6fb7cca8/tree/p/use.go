package p


var use_I00x008L_contains = func(l []**SV, x **SV) bool { return deriveContainsI00x008L(l, x) }
