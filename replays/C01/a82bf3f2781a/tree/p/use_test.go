package p

import (
	"testing"
)

func TestNothing(t *testing.T) {}

func use_I11x018_clone(a []NStr) []NStr { return deriveCloneI11x018(a) }
func use_I11x018_compare(a, b []NStr) int { return deriveCompareI11x018(a, b) }
func use_I11x018_comparec(a, b []NStr) int { return deriveCompareCI11x018(a)(b) }
func use_I11x018_deepcopy(a, b []NStr)  { deriveDeepCopyI11x018(a, b) }
func use_I11x018_equal(a, b []NStr) bool { return deriveEqualI11x018(a, b) }
func use_I11x018_equalc(a, b []NStr) bool { return deriveEqualCI11x018(a)(b) }
func use_I11x018_equalclone(a []NStr) bool { return deriveEqualNI11x018(deriveCloneNI11x018(a), a) }
func use_I11x018_gostring(a []NStr) string { return deriveGoStringI11x018(a) }
func use_I11x018_hash(a []NStr) uint64 { return deriveHashI11x018(a) }
