package p


