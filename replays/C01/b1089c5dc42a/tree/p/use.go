package p


var use_I09x012_clone_a []*rune
var use_I09x012_clone_v = deriveCloneI09x012(use_I09x012_clone_a)
var use_I09x012_compare_a []*rune
var use_I09x012_compare_b []*rune
var use_I09x012_compare_v = deriveCompareI09x012(use_I09x012_compare_a, use_I09x012_compare_b)
var use_I09x012_comparec_a []*rune
var use_I09x012_comparec_b []*rune
var use_I09x012_comparec_v = deriveCompareCI09x012(use_I09x012_comparec_a)(use_I09x012_comparec_b)
var use_I09x012_deepcopy_a []*rune
var use_I09x012_deepcopy_b []*rune
func init() { deriveDeepCopyI09x012(use_I09x012_deepcopy_a, use_I09x012_deepcopy_b) }
var use_I09x012_equal_a []*rune
var use_I09x012_equal_b []*rune
var use_I09x012_equal_v = deriveEqualI09x012(use_I09x012_equal_a, use_I09x012_equal_b)
var use_I09x012_equalc_a []*rune
var use_I09x012_equalc_b []*rune
var use_I09x012_equalc_v = deriveEqualCI09x012(use_I09x012_equalc_a)(use_I09x012_equalc_b)
var use_I09x012_equalclone_a []*rune
var use_I09x012_equalclone_v = deriveEqualNI09x012(deriveCloneNI09x012(use_I09x012_equalclone_a), use_I09x012_equalclone_a)
var use_I09x012_gostring_a []*rune
var use_I09x012_gostring_v = deriveGoStringI09x012(use_I09x012_gostring_a)
var use_I09x012_hash_a []*rune
var use_I09x012_hash_v = deriveHashI09x012(use_I09x012_hash_a)
