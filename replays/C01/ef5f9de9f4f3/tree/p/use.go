package p


var use_I13x009_clone = func(a *W5) *W5 { return deriveCloneI13x009(a) }
var use_I13x009_compare = func(a, b *W5) int { return deriveCompareI13x009(a, b) }
var use_I13x009_comparec = func(a, b *W5) int { return deriveCompareCI13x009(a)(b) }
var use_I13x009_deepcopy = func(a, b *W5)  { deriveDeepCopyI13x009(a, b) }
var use_I13x009_equal = func(a, b *W5) bool { return deriveEqualI13x009(a, b) }
var use_I13x009_equalc = func(a, b *W5) bool { return deriveEqualCI13x009(a)(b) }
var use_I13x009_equalclone = func(a *W5) bool { return deriveEqualI13x009(deriveCloneI13x009(a), a) }
var use_I13x009_gostring = func(a *W5) string { return deriveGoStringI13x009(a) }
var use_I13x009_hash = func(a *W5) uint64 { return deriveHashI13x009(a) }
