package p


var use_I09x014_clone_a []map[uint8]int
var use_I09x014_clone_v = deriveCloneI09x014(use_I09x014_clone_a)
var use_I09x014_compare_a []map[uint8]int
var use_I09x014_compare_b []map[uint8]int
var use_I09x014_compare_v = deriveCompareI09x014(use_I09x014_compare_a, use_I09x014_compare_b)
var use_I09x014_comparec_a []map[uint8]int
var use_I09x014_comparec_b []map[uint8]int
var use_I09x014_comparec_v = deriveCompareCI09x014(use_I09x014_comparec_a)(use_I09x014_comparec_b)
var use_I09x014_deepcopy_a []map[uint8]int
var use_I09x014_deepcopy_b []map[uint8]int
func init() { deriveDeepCopyI09x014(use_I09x014_deepcopy_a, use_I09x014_deepcopy_b) }
var use_I09x014_equal_a []map[uint8]int
var use_I09x014_equal_b []map[uint8]int
var use_I09x014_equal_v = deriveEqualI09x014(use_I09x014_equal_a, use_I09x014_equal_b)
var use_I09x014_equalc_a []map[uint8]int
var use_I09x014_equalc_b []map[uint8]int
var use_I09x014_equalc_v = deriveEqualCI09x014(use_I09x014_equalc_a)(use_I09x014_equalc_b)
var use_I09x014_equalclone_a []map[uint8]int
var use_I09x014_equalclone_v = deriveEqualNI09x014(deriveCloneNI09x014(use_I09x014_equalclone_a), use_I09x014_equalclone_a)
var use_I09x014_gostring_a []map[uint8]int
var use_I09x014_gostring_v = deriveGoStringI09x014(use_I09x014_gostring_a)
var use_I09x014_hash_a []map[uint8]int
var use_I09x014_hash_v = deriveHashI09x014(use_I09x014_hash_a)
