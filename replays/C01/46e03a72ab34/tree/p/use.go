package p


var use_I00x008L_intersect = func(a, b []**SV) []**SV { return deriveIntersectI00x008L(a, b) }
