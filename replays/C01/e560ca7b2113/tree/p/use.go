package p


func use_I07x014_hash(a *NFloat) uint64 { return deriveHashI07x014(a) }
