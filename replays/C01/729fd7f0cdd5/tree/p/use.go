package p


var use_I00x020_clone = func(a [2][]int) [2][]int { return deriveCloneI00x020(a) }
var use_I00x020_compare = func(a, b [2][]int) int { return deriveCompareI00x020(a, b) }
var use_I00x020_comparec = func(a, b [2][]int) int { return deriveCompareCI00x020(a)(b) }
var use_I00x020_equal = func(a, b [2][]int) bool { return deriveEqualI00x020(a, b) }
var use_I00x020_equalc = func(a, b [2][]int) bool { return deriveEqualCI00x020(a)(b) }
var use_I00x020_equalclone = func(a [2][]int) bool { return deriveEqualNI00x020(deriveCloneNI00x020(a), a) }
var use_I00x020_gostring = func(a [2][]int) string { return deriveGoStringI00x020(a) }
var use_I00x020_hash = func(a [2][]int) uint64 { return deriveHashI00x020(a) }
