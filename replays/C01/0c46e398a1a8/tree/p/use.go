package p


