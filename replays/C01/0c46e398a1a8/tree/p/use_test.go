package p

import (
	"testing"
)

func TestNothing(t *testing.T) {}

func use_I15x016_clone(a map[uint8]string) map[uint8]string { return deriveCloneI15x016(a) }
func use_I15x016_compare(a, b map[uint8]string) int { return deriveCompareI15x016(a, b) }
func use_I15x016_comparec(a, b map[uint8]string) int { return deriveCompareCI15x016(a)(b) }
func use_I15x016_deepcopy(a, b map[uint8]string)  { deriveDeepCopyI15x016(a, b) }
func use_I15x016_equal(a, b map[uint8]string) bool { return deriveEqualI15x016(a, b) }
func use_I15x016_equalc(a, b map[uint8]string) bool { return deriveEqualCI15x016(a)(b) }
func use_I15x016_equalclone(a map[uint8]string) bool { return deriveEqualNI15x016(deriveCloneNI15x016(a), a) }
func use_I15x016_gostring(a map[uint8]string) string { return deriveGoStringI15x016(a) }
func use_I15x016_hash(a map[uint8]string) uint64 { return deriveHashI15x016(a) }
func use_I15x016_keys(m map[uint8]string) int { return len(deriveKeysI15x016(m)) }
func use_I15x016_sortkeys(m map[uint8]string) int { return len(deriveSortI15x016(deriveKeysI15x016(m))) }
