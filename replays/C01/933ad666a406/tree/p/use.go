package p

import (
	ext "scratch/ext"
)

var use_I03x006_clone_a map[int][2]ext.Pub
var use_I03x006_clone_v = deriveCloneI03x006(use_I03x006_clone_a)
