package p


var use_I05x020L_unique_l []map[string]NFloat
var use_I05x020L_unique_v = deriveUniqueI05x020L(use_I05x020L_unique_l)
