package p


func use_I09x004_clone(a map[int][]bool) map[int][]bool { return deriveCloneI09x004(a) }
func use_I09x004_compare(a, b map[int][]bool) int { return deriveCompareI09x004(a, b) }
func use_I09x004_comparec(a, b map[int][]bool) int { return deriveCompareCI09x004(a)(b) }
func use_I09x004_deepcopy(a, b map[int][]bool)  { deriveDeepCopyI09x004(a, b) }
func use_I09x004_equal(a, b map[int][]bool) bool { return deriveEqualI09x004(a, b) }
func use_I09x004_equalc(a, b map[int][]bool) bool { return deriveEqualCI09x004(a)(b) }
func use_I09x004_equalclone(a map[int][]bool) bool { return deriveEqualNI09x004(deriveCloneNI09x004(a), a) }
func use_I09x004_gostring(a map[int][]bool) string { return deriveGoStringI09x004(a) }
func use_I09x004_hash(a map[int][]bool) uint64 { return deriveHashI09x004(a) }
func use_I09x004_keys(m map[int][]bool) int { return len(deriveKeysI09x004(m)) }
func use_I09x004_sortkeys(m map[int][]bool) int { return len(deriveSortI09x004(deriveKeysI09x004(m))) }
