package p

import (
	ext "scratch/ext"
)

var use_I18x010_clone = func(a []ext.Pub) []ext.Pub { return deriveCloneI18x010(a) }
var use_I18x010_compare = func(a, b []ext.Pub) int { return deriveCompareI18x010(a, b) }
var use_I18x010_comparec = func(a, b []ext.Pub) int { return deriveCompareCI18x010(a)(b) }
var use_I18x010_deepcopy = func(a, b []ext.Pub)  { deriveDeepCopyI18x010(a, b) }
var use_I18x010_equal = func(a, b []ext.Pub) bool { return deriveEqualI18x010(a, b) }
var use_I18x010_equalc = func(a, b []ext.Pub) bool { return deriveEqualCI18x010(a)(b) }
var use_I18x010_equalclone = func(a []ext.Pub) bool { return deriveEqualNI18x010(deriveCloneNI18x010(a), a) }
var use_I18x010_gostring = func(a []ext.Pub) string { return deriveGoStringI18x010(a) }
var use_I18x010_hash = func(a []ext.Pub) uint64 { return deriveHashI18x010(a) }
