package p


var use_I04x006_clone = func(a map[int][]SR) map[int][]SR { return deriveCloneI04x006(a) }
var use_I04x006_compare = func(a, b map[int][]SR) int { return deriveCompareI04x006(a, b) }
var use_I04x006_comparec = func(a, b map[int][]SR) int { return deriveCompareCI04x006(a)(b) }
var use_I04x006_deepcopy = func(a, b map[int][]SR)  { deriveDeepCopyI04x006(a, b) }
var use_I04x006_equal = func(a, b map[int][]SR) bool { return deriveEqualI04x006(a, b) }
var use_I04x006_equalc = func(a, b map[int][]SR) bool { return deriveEqualCI04x006(a)(b) }
var use_I04x006_equalclone = func(a map[int][]SR) bool { return deriveEqualNI04x006(deriveCloneNI04x006(a), a) }
var use_I04x006_gostring = func(a map[int][]SR) string { return deriveGoStringI04x006(a) }
var use_I04x006_hash = func(a map[int][]SR) uint64 { return deriveHashI04x006(a) }
var use_I04x006_keys = func(m map[int][]SR) int { return len(deriveKeysI04x006(m)) }
var use_I04x006_sortkeys = func(m map[int][]SR) int { return len(deriveSortI04x006(deriveKeysI04x006(m))) }
