package p

import (
	"testing"
)

func TestNothing(t *testing.T) {}

func use_I12x021_hash(a *W11) uint64 { return deriveHashI12x021(a) }
