package p


