package p


var use_I07x016_clone_a map[uint8]int
var use_I07x016_clone_v = deriveCloneI07x016(use_I07x016_clone_a)
var use_I07x016_compare_a map[uint8]int
var use_I07x016_compare_b map[uint8]int
var use_I07x016_compare_v = deriveCompareI07x016(use_I07x016_compare_a, use_I07x016_compare_b)
var use_I07x016_comparec_a map[uint8]int
var use_I07x016_comparec_b map[uint8]int
var use_I07x016_comparec_v = deriveCompareCI07x016(use_I07x016_comparec_a)(use_I07x016_comparec_b)
var use_I07x016_deepcopy_a map[uint8]int
var use_I07x016_deepcopy_b map[uint8]int
func init() { deriveDeepCopyI07x016(use_I07x016_deepcopy_a, use_I07x016_deepcopy_b) }
var use_I07x016_equal_a map[uint8]int
var use_I07x016_equal_b map[uint8]int
var use_I07x016_equal_v = deriveEqualI07x016(use_I07x016_equal_a, use_I07x016_equal_b)
var use_I07x016_equalc_a map[uint8]int
var use_I07x016_equalc_b map[uint8]int
var use_I07x016_equalc_v = deriveEqualCI07x016(use_I07x016_equalc_a)(use_I07x016_equalc_b)
var use_I07x016_equalclone_a map[uint8]int
var use_I07x016_equalclone_v = deriveEqualNI07x016(deriveCloneNI07x016(use_I07x016_equalclone_a), use_I07x016_equalclone_a)
var use_I07x016_gostring_a map[uint8]int
var use_I07x016_gostring_v = deriveGoStringI07x016(use_I07x016_gostring_a)
var use_I07x016_hash_a map[uint8]int
var use_I07x016_hash_v = deriveHashI07x016(use_I07x016_hash_a)
var use_I07x016_keys_m map[uint8]int
var use_I07x016_keys_v = len(deriveKeysI07x016(use_I07x016_keys_m))
var use_I07x016_sortkeys_m map[uint8]int
var use_I07x016_sortkeys_v = len(deriveSortI07x016(deriveKeysI07x016(use_I07x016_sortkeys_m)))
