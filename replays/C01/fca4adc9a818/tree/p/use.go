package p


func use_I02x022_hash(a map[NFloat]int) uint64 { return deriveHashI02x022(a) }
