package p


var use_I10x012_compare = func(a, b map[int]NInt) int { return deriveCompareI10x012(a, b) }
