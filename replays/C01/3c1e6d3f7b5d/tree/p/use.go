package p


var use_I05x020L_all_p func(map[string]NFloat) bool
var use_I05x020L_all_l []map[string]NFloat
var use_I05x020L_all_v = deriveAllI05x020L(use_I05x020L_all_p, use_I05x020L_all_l)
var use_I05x020L_any_p func(map[string]NFloat) bool
var use_I05x020L_any_l []map[string]NFloat
var use_I05x020L_any_v = deriveAnyI05x020L(use_I05x020L_any_p, use_I05x020L_any_l)
var use_I05x020L_contains_l []map[string]NFloat
var use_I05x020L_contains_x map[string]NFloat
var use_I05x020L_contains_v = deriveContainsI05x020L(use_I05x020L_contains_l, use_I05x020L_contains_x)
var use_I05x020L_filter_p func(map[string]NFloat) bool
var use_I05x020L_filter_l []map[string]NFloat
var use_I05x020L_filter_v = deriveFilterI05x020L(use_I05x020L_filter_p, use_I05x020L_filter_l)
var use_I05x020L_intersect_a []map[string]NFloat
var use_I05x020L_intersect_b []map[string]NFloat
var use_I05x020L_intersect_v = deriveIntersectI05x020L(use_I05x020L_intersect_a, use_I05x020L_intersect_b)
var use_I05x020L_max_l []map[string]NFloat
var use_I05x020L_max_d map[string]NFloat
var use_I05x020L_max_v = deriveMaxI05x020L(use_I05x020L_max_l, use_I05x020L_max_d)
var use_I05x020L_max2_a map[string]NFloat
var use_I05x020L_max2_b map[string]NFloat
var use_I05x020L_max2_v = deriveMaxBI05x020L(use_I05x020L_max2_a, use_I05x020L_max2_b)
var use_I05x020L_min_l []map[string]NFloat
var use_I05x020L_min_d map[string]NFloat
var use_I05x020L_min_v = deriveMinI05x020L(use_I05x020L_min_l, use_I05x020L_min_d)
var use_I05x020L_min2_a map[string]NFloat
var use_I05x020L_min2_b map[string]NFloat
var use_I05x020L_min2_v = deriveMinBI05x020L(use_I05x020L_min2_a, use_I05x020L_min2_b)
var use_I05x020L_sort_l []map[string]NFloat
var use_I05x020L_sort_v = deriveSortI05x020L(use_I05x020L_sort_l)
var use_I05x020L_takewhile_p func(map[string]NFloat) bool
var use_I05x020L_takewhile_l []map[string]NFloat
var use_I05x020L_takewhile_v = deriveTakeWhileI05x020L(use_I05x020L_takewhile_p, use_I05x020L_takewhile_l)
var use_I05x020L_union_a []map[string]NFloat
var use_I05x020L_union_b []map[string]NFloat
var use_I05x020L_union_v = deriveUnionI05x020L(use_I05x020L_union_a, use_I05x020L_union_b)
var use_I05x020L_unique_l []map[string]NFloat
var use_I05x020L_unique_v = deriveUniqueI05x020L(use_I05x020L_unique_l)
