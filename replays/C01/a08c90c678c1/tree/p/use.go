package p


func use_I01x004_clone(a int32) int32 { return deriveCloneI01x004(a) }
func use_I01x004_compare(a, b int32) int { return deriveCompareI01x004(a, b) }
func use_I01x004_comparec(a, b int32) int { return deriveCompareCI01x004(a)(b) }
func use_I01x004_equal(a, b int32) bool { return deriveEqualI01x004(a, b) }
func use_I01x004_equalc(a, b int32) bool { return deriveEqualCI01x004(a)(b) }
func use_I01x004_equalclone(a int32) bool { return deriveEqualNI01x004(deriveCloneNI01x004(a), a) }
func use_I01x004_gostring(a int32) string { return deriveGoStringI01x004(a) }
func use_I01x004_hash(a int32) uint64 { return deriveHashI01x004(a) }
