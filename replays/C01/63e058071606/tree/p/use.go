package p


var use_I07x008_clone_a *uint8
var use_I07x008_clone_v = deriveCloneI07x008(use_I07x008_clone_a)
var use_I07x008_compare_a *uint8
var use_I07x008_compare_b *uint8
var use_I07x008_compare_v = deriveCompareI07x008(use_I07x008_compare_a, use_I07x008_compare_b)
var use_I07x008_comparec_a *uint8
var use_I07x008_comparec_b *uint8
var use_I07x008_comparec_v = deriveCompareCI07x008(use_I07x008_comparec_a)(use_I07x008_comparec_b)
var use_I07x008_deepcopy_a *uint8
var use_I07x008_deepcopy_b *uint8
func init() { deriveDeepCopyI07x008(use_I07x008_deepcopy_a, use_I07x008_deepcopy_b) }
var use_I07x008_equal_a *uint8
var use_I07x008_equal_b *uint8
var use_I07x008_equal_v = deriveEqualI07x008(use_I07x008_equal_a, use_I07x008_equal_b)
var use_I07x008_equalc_a *uint8
var use_I07x008_equalc_b *uint8
var use_I07x008_equalc_v = deriveEqualCI07x008(use_I07x008_equalc_a)(use_I07x008_equalc_b)
var use_I07x008_equalclone_a *uint8
var use_I07x008_equalclone_v = deriveEqualNI07x008(deriveCloneNI07x008(use_I07x008_equalclone_a), use_I07x008_equalclone_a)
var use_I07x008_gostring_a *uint8
var use_I07x008_gostring_v = deriveGoStringI07x008(use_I07x008_gostring_a)
var use_I07x008_hash_a *uint8
var use_I07x008_hash_v = deriveHashI07x008(use_I07x008_hash_a)
