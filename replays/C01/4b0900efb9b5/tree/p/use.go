package p


func use_Knamed-composites0_deepcopy(a, b NSlice)  { deriveDeepCopyKnamed-composites0(a, b) }
