package p


var use_I00x008L_unique = func(l []**SV) []**SV { return deriveUniqueI00x008L(l) }
