package p


