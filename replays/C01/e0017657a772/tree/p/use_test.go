package p

import (
	"testing"
)

func TestNothing(t *testing.T) {}

func use_I12x004_clone(a map[string]rune) map[string]rune { return deriveCloneI12x004(a) }
func use_I12x004_compare(a, b map[string]rune) int { return deriveCompareI12x004(a, b) }
func use_I12x004_comparec(a, b map[string]rune) int { return deriveCompareCI12x004(a)(b) }
func use_I12x004_deepcopy(a, b map[string]rune)  { deriveDeepCopyI12x004(a, b) }
func use_I12x004_equal(a, b map[string]rune) bool { return deriveEqualI12x004(a, b) }
func use_I12x004_equalc(a, b map[string]rune) bool { return deriveEqualCI12x004(a)(b) }
func use_I12x004_equalclone(a map[string]rune) bool { return deriveEqualNI12x004(deriveCloneNI12x004(a), a) }
func use_I12x004_gostring(a map[string]rune) string { return deriveGoStringI12x004(a) }
func use_I12x004_hash(a map[string]rune) uint64 { return deriveHashI12x004(a) }
func use_I12x004_keys(m map[string]rune) int { return len(deriveKeysI12x004(m)) }
func use_I12x004_sortkeys(m map[string]rune) int { return len(deriveSortI12x004(deriveKeysI12x004(m))) }
