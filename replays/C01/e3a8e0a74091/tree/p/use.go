package p


var use_I14x014_clone_a [2]NStr
var use_I14x014_clone_v = deriveCloneI14x014(use_I14x014_clone_a)
var use_I14x014_compare_a [2]NStr
var use_I14x014_compare_b [2]NStr
var use_I14x014_compare_v = deriveCompareI14x014(use_I14x014_compare_a, use_I14x014_compare_b)
var use_I14x014_comparec_a [2]NStr
var use_I14x014_comparec_b [2]NStr
var use_I14x014_comparec_v = deriveCompareCI14x014(use_I14x014_comparec_a)(use_I14x014_comparec_b)
var use_I14x014_equal_a [2]NStr
var use_I14x014_equal_b [2]NStr
var use_I14x014_equal_v = deriveEqualI14x014(use_I14x014_equal_a, use_I14x014_equal_b)
var use_I14x014_equalc_a [2]NStr
var use_I14x014_equalc_b [2]NStr
var use_I14x014_equalc_v = deriveEqualCI14x014(use_I14x014_equalc_a)(use_I14x014_equalc_b)
var use_I14x014_equalclone_a [2]NStr
var use_I14x014_equalclone_v = deriveEqualNI14x014(deriveCloneNI14x014(use_I14x014_equalclone_a), use_I14x014_equalclone_a)
var use_I14x014_gostring_a [2]NStr
var use_I14x014_gostring_v = deriveGoStringI14x014(use_I14x014_gostring_a)
var use_I14x014_hash_a [2]NStr
var use_I14x014_hash_v = deriveHashI14x014(use_I14x014_hash_a)
