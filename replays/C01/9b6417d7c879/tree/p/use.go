package p


var use_I00x009_clone = func(a *W5) *W5 { return deriveCloneI00x009(a) }
var use_I00x009_compare = func(a, b *W5) int { return deriveCompareI00x009(a, b) }
var use_I00x009_comparec = func(a, b *W5) int { return deriveCompareCI00x009(a)(b) }
var use_I00x009_deepcopy = func(a, b *W5)  { deriveDeepCopyI00x009(a, b) }
var use_I00x009_equal = func(a, b *W5) bool { return deriveEqualI00x009(a, b) }
var use_I00x009_equalc = func(a, b *W5) bool { return deriveEqualCI00x009(a)(b) }
var use_I00x009_equalclone = func(a *W5) bool { return deriveEqualNI00x009(deriveCloneNI00x009(a), a) }
var use_I00x009_gostring = func(a *W5) string { return deriveGoStringI00x009(a) }
var use_I00x009_hash = func(a *W5) uint64 { return deriveHashI00x009(a) }
