package p


func use_Knamed-composites0_hash(a NSlice) uint64 { return deriveHashKnamed-composites0(a) }
