package p


var use_I10x018_clone = func(a map[NInt]rune) map[NInt]rune { return deriveCloneI10x018(a) }
var use_I10x018_compare = func(a, b map[NInt]rune) int { return deriveCompareI10x018(a, b) }
var use_I10x018_comparec = func(a, b map[NInt]rune) int { return deriveCompareCI10x018(a)(b) }
var use_I10x018_deepcopy = func(a, b map[NInt]rune)  { deriveDeepCopyI10x018(a, b) }
var use_I10x018_equal = func(a, b map[NInt]rune) bool { return deriveEqualI10x018(a, b) }
var use_I10x018_equalc = func(a, b map[NInt]rune) bool { return deriveEqualCI10x018(a)(b) }
var use_I10x018_equalclone = func(a map[NInt]rune) bool { return deriveEqualNI10x018(deriveCloneNI10x018(a), a) }
var use_I10x018_gostring = func(a map[NInt]rune) string { return deriveGoStringI10x018(a) }
var use_I10x018_hash = func(a map[NInt]rune) uint64 { return deriveHashI10x018(a) }
var use_I10x018_keys = func(m map[NInt]rune) int { return len(deriveKeysI10x018(m)) }
var use_I10x018_sortkeys = func(m map[NInt]rune) int { return len(deriveSortI10x018(deriveKeysI10x018(m))) }
