package p


func use_I15x012_clone(a [2][2]NInt) [2][2]NInt { return deriveCloneI15x012(a) }
func use_I15x012_compare(a, b [2][2]NInt) int { return deriveCompareI15x012(a, b) }
func use_I15x012_comparec(a, b [2][2]NInt) int { return deriveCompareCI15x012(a)(b) }
func use_I15x012_equal(a, b [2][2]NInt) bool { return deriveEqualI15x012(a, b) }
func use_I15x012_equalc(a, b [2][2]NInt) bool { return deriveEqualCI15x012(a)(b) }
func use_I15x012_equalclone(a [2][2]NInt) bool { return deriveEqualNI15x012(deriveCloneNI15x012(a), a) }
func use_I15x012_gostring(a [2][2]NInt) string { return deriveGoStringI15x012(a) }
func use_I15x012_hash(a [2][2]NInt) uint64 { return deriveHashI15x012(a) }
