package p


var use_I00x023_clone_a *W12
var use_I00x023_clone_v = deriveCloneI00x023(use_I00x023_clone_a)
var use_I00x023_compare_a *W12
var use_I00x023_compare_b *W12
var use_I00x023_compare_v = deriveCompareI00x023(use_I00x023_compare_a, use_I00x023_compare_b)
var use_I00x023_comparec_a *W12
var use_I00x023_comparec_b *W12
var use_I00x023_comparec_v = deriveCompareCI00x023(use_I00x023_comparec_a)(use_I00x023_comparec_b)
var use_I00x023_deepcopy_a *W12
var use_I00x023_deepcopy_b *W12
func init() { deriveDeepCopyI00x023(use_I00x023_deepcopy_a, use_I00x023_deepcopy_b) }
var use_I00x023_equal_a *W12
var use_I00x023_equal_b *W12
var use_I00x023_equal_v = deriveEqualI00x023(use_I00x023_equal_a, use_I00x023_equal_b)
var use_I00x023_equalc_a *W12
var use_I00x023_equalc_b *W12
var use_I00x023_equalc_v = deriveEqualCI00x023(use_I00x023_equalc_a)(use_I00x023_equalc_b)
var use_I00x023_equalclone_a *W12
var use_I00x023_equalclone_v = deriveEqualNI00x023(deriveCloneNI00x023(use_I00x023_equalclone_a), use_I00x023_equalclone_a)
var use_I00x023_gostring_a *W12
var use_I00x023_gostring_v = deriveGoStringI00x023(use_I00x023_gostring_a)
var use_I00x023_hash_a *W12
var use_I00x023_hash_v = deriveHashI00x023(use_I00x023_hash_a)
