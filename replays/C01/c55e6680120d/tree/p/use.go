package p


var use_I10x012_equal = func(a, b map[int]NInt) bool { return deriveEqualI10x012(a, b) }
