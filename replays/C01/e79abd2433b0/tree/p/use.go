package p


func use_I07x014_clone(a *NFloat) *NFloat { return deriveCloneI07x014(a) }
func use_I07x014_compare(a, b *NFloat) int { return deriveCompareI07x014(a, b) }
func use_I07x014_comparec(a, b *NFloat) int { return deriveCompareCI07x014(a)(b) }
func use_I07x014_deepcopy(a, b *NFloat)  { deriveDeepCopyI07x014(a, b) }
func use_I07x014_equal(a, b *NFloat) bool { return deriveEqualI07x014(a, b) }
func use_I07x014_equalc(a, b *NFloat) bool { return deriveEqualCI07x014(a)(b) }
func use_I07x014_equalclone(a *NFloat) bool { return deriveEqualI07x014(deriveCloneI07x014(a), a) }
func use_I07x014_gostring(a *NFloat) string { return deriveGoStringI07x014(a) }
func use_I07x014_hash(a *NFloat) uint64 { return deriveHashI07x014(a) }
