package p


var use_I01x022_clone_a *map[string]uint8
var use_I01x022_clone_v = deriveCloneI01x022(use_I01x022_clone_a)
var use_I01x022_compare_a *map[string]uint8
var use_I01x022_compare_b *map[string]uint8
var use_I01x022_compare_v = deriveCompareI01x022(use_I01x022_compare_a, use_I01x022_compare_b)
var use_I01x022_comparec_a *map[string]uint8
var use_I01x022_comparec_b *map[string]uint8
var use_I01x022_comparec_v = deriveCompareCI01x022(use_I01x022_comparec_a)(use_I01x022_comparec_b)
var use_I01x022_deepcopy_a *map[string]uint8
var use_I01x022_deepcopy_b *map[string]uint8
func init() { deriveDeepCopyI01x022(use_I01x022_deepcopy_a, use_I01x022_deepcopy_b) }
var use_I01x022_equal_a *map[string]uint8
var use_I01x022_equal_b *map[string]uint8
var use_I01x022_equal_v = deriveEqualI01x022(use_I01x022_equal_a, use_I01x022_equal_b)
var use_I01x022_equalc_a *map[string]uint8
var use_I01x022_equalc_b *map[string]uint8
var use_I01x022_equalc_v = deriveEqualCI01x022(use_I01x022_equalc_a)(use_I01x022_equalc_b)
var use_I01x022_equalclone_a *map[string]uint8
var use_I01x022_equalclone_v = deriveEqualNI01x022(deriveCloneNI01x022(use_I01x022_equalclone_a), use_I01x022_equalclone_a)
var use_I01x022_gostring_a *map[string]uint8
var use_I01x022_gostring_v = deriveGoStringI01x022(use_I01x022_gostring_a)
var use_I01x022_hash_a *map[string]uint8
var use_I01x022_hash_v = deriveHashI01x022(use_I01x022_hash_a)
