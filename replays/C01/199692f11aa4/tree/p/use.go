package p


var use_I02x022L_unique_l []map[NFloat]int
var use_I02x022L_unique_v = deriveUniqueI02x022L(use_I02x022L_unique_l)
