package p


var use_I00x014_clone_a [][]uint8
var use_I00x014_clone_v = deriveCloneI00x014(use_I00x014_clone_a)
var use_I00x014_compare_a [][]uint8
var use_I00x014_compare_b [][]uint8
var use_I00x014_compare_v = deriveCompareI00x014(use_I00x014_compare_a, use_I00x014_compare_b)
var use_I00x014_comparec_a [][]uint8
var use_I00x014_comparec_b [][]uint8
var use_I00x014_comparec_v = deriveCompareCI00x014(use_I00x014_comparec_a)(use_I00x014_comparec_b)
var use_I00x014_deepcopy_a [][]uint8
var use_I00x014_deepcopy_b [][]uint8
func init() { deriveDeepCopyI00x014(use_I00x014_deepcopy_a, use_I00x014_deepcopy_b) }
var use_I00x014_equal_a [][]uint8
var use_I00x014_equal_b [][]uint8
var use_I00x014_equal_v = deriveEqualI00x014(use_I00x014_equal_a, use_I00x014_equal_b)
var use_I00x014_equalc_a [][]uint8
var use_I00x014_equalc_b [][]uint8
var use_I00x014_equalc_v = deriveEqualCI00x014(use_I00x014_equalc_a)(use_I00x014_equalc_b)
var use_I00x014_equalclone_a [][]uint8
var use_I00x014_equalclone_v = deriveEqualNI00x014(deriveCloneNI00x014(use_I00x014_equalclone_a), use_I00x014_equalclone_a)
var use_I00x014_gostring_a [][]uint8
var use_I00x014_gostring_v = deriveGoStringI00x014(use_I00x014_gostring_a)
var use_I00x014_hash_a [][]uint8
var use_I00x014_hash_v = deriveHashI00x014(use_I00x014_hash_a)
