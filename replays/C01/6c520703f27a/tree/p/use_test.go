package p

import (
	"testing"
)

func TestNothing(t *testing.T) {}

func use_I11x005_equalclone(a *W3) bool { return deriveEqualNI11x005(deriveCloneNI11x005(a), a) }
