package p


