package p

import (
	"testing"
)

func TestNothing(t *testing.T) {}

func use_I11x000_clone(a map[int]SR) map[int]SR { return deriveCloneI11x000(a) }
func use_I11x000_compare(a, b map[int]SR) int { return deriveCompareI11x000(a, b) }
func use_I11x000_comparec(a, b map[int]SR) int { return deriveCompareCI11x000(a)(b) }
func use_I11x000_deepcopy(a, b map[int]SR)  { deriveDeepCopyI11x000(a, b) }
func use_I11x000_equal(a, b map[int]SR) bool { return deriveEqualI11x000(a, b) }
func use_I11x000_equalc(a, b map[int]SR) bool { return deriveEqualCI11x000(a)(b) }
func use_I11x000_equalclone(a map[int]SR) bool { return deriveEqualNI11x000(deriveCloneNI11x000(a), a) }
func use_I11x000_gostring(a map[int]SR) string { return deriveGoStringI11x000(a) }
func use_I11x000_hash(a map[int]SR) uint64 { return deriveHashI11x000(a) }
func use_I11x000_keys(m map[int]SR) int { return len(deriveKeysI11x000(m)) }
func use_I11x000_sortkeys(m map[int]SR) int { return len(deriveSortI11x000(deriveKeysI11x000(m))) }
