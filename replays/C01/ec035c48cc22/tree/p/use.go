package p


