package p


var use_I13x004_clone_a []float64
var use_I13x004_clone_v = deriveCloneI13x004(use_I13x004_clone_a)
var use_I13x004_compare_a []float64
var use_I13x004_compare_b []float64
var use_I13x004_compare_v = deriveCompareI13x004(use_I13x004_compare_a, use_I13x004_compare_b)
var use_I13x004_comparec_a []float64
var use_I13x004_comparec_b []float64
var use_I13x004_comparec_v = deriveCompareCI13x004(use_I13x004_comparec_a)(use_I13x004_comparec_b)
var use_I13x004_deepcopy_a []float64
var use_I13x004_deepcopy_b []float64
func init() { deriveDeepCopyI13x004(use_I13x004_deepcopy_a, use_I13x004_deepcopy_b) }
var use_I13x004_equal_a []float64
var use_I13x004_equal_b []float64
var use_I13x004_equal_v = deriveEqualI13x004(use_I13x004_equal_a, use_I13x004_equal_b)
var use_I13x004_equalc_a []float64
var use_I13x004_equalc_b []float64
var use_I13x004_equalc_v = deriveEqualCI13x004(use_I13x004_equalc_a)(use_I13x004_equalc_b)
var use_I13x004_equalclone_a []float64
var use_I13x004_equalclone_v = deriveEqualNI13x004(deriveCloneNI13x004(use_I13x004_equalclone_a), use_I13x004_equalclone_a)
var use_I13x004_gostring_a []float64
var use_I13x004_gostring_v = deriveGoStringI13x004(use_I13x004_gostring_a)
var use_I13x004_hash_a []float64
var use_I13x004_hash_v = deriveHashI13x004(use_I13x004_hash_a)
