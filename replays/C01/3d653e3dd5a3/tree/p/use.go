package p


