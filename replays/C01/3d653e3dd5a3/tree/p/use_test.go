package p

import (
	"testing"
)

func TestNothing(t *testing.T) {}

func use_I01x020_clone(a [2]map[int]string) [2]map[int]string { return deriveCloneI01x020(a) }
func use_I01x020_compare(a, b [2]map[int]string) int { return deriveCompareI01x020(a, b) }
func use_I01x020_comparec(a, b [2]map[int]string) int { return deriveCompareCI01x020(a)(b) }
func use_I01x020_equal(a, b [2]map[int]string) bool { return deriveEqualI01x020(a, b) }
func use_I01x020_equalc(a, b [2]map[int]string) bool { return deriveEqualCI01x020(a)(b) }
func use_I01x020_equalclone(a [2]map[int]string) bool { return deriveEqualNI01x020(deriveCloneNI01x020(a), a) }
func use_I01x020_gostring(a [2]map[int]string) string { return deriveGoStringI01x020(a) }
func use_I01x020_hash(a [2]map[int]string) uint64 { return deriveHashI01x020(a) }
