package p

import (
	"testing"
)

func TestNothing(t *testing.T) {}

func use_I06x006_clone(a [2]uint8) [2]uint8 { return deriveCloneI06x006(a) }
func use_I06x006_compare(a, b [2]uint8) int { return deriveCompareI06x006(a, b) }
func use_I06x006_comparec(a, b [2]uint8) int { return deriveCompareCI06x006(a)(b) }
func use_I06x006_equal(a, b [2]uint8) bool { return deriveEqualI06x006(a, b) }
func use_I06x006_equalc(a, b [2]uint8) bool { return deriveEqualCI06x006(a)(b) }
func use_I06x006_equalclone(a [2]uint8) bool { return deriveEqualNI06x006(deriveCloneNI06x006(a), a) }
func use_I06x006_gostring(a [2]uint8) string { return deriveGoStringI06x006(a) }
func use_I06x006_hash(a [2]uint8) uint64 { return deriveHashI06x006(a) }
