package p


