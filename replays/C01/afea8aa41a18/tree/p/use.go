package p


func use_I15x006_clone(a map[string][]SP) map[string][]SP { return deriveCloneI15x006(a) }
func use_I15x006_compare(a, b map[string][]SP) int { return deriveCompareI15x006(a, b) }
func use_I15x006_comparec(a, b map[string][]SP) int { return deriveCompareCI15x006(a)(b) }
func use_I15x006_deepcopy(a, b map[string][]SP)  { deriveDeepCopyI15x006(a, b) }
func use_I15x006_equal(a, b map[string][]SP) bool { return deriveEqualI15x006(a, b) }
func use_I15x006_equalc(a, b map[string][]SP) bool { return deriveEqualCI15x006(a)(b) }
func use_I15x006_equalclone(a map[string][]SP) bool { return deriveEqualNI15x006(deriveCloneNI15x006(a), a) }
func use_I15x006_gostring(a map[string][]SP) string { return deriveGoStringI15x006(a) }
func use_I15x006_hash(a map[string][]SP) uint64 { return deriveHashI15x006(a) }
func use_I15x006_keys(m map[string][]SP) int { return len(deriveKeysI15x006(m)) }
func use_I15x006_sortkeys(m map[string][]SP) int { return len(deriveSortI15x006(deriveKeysI15x006(m))) }
