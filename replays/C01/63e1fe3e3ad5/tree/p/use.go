package p


