package p

import (
	"testing"
)

func TestNothing(t *testing.T) {}

func use_I05x020_hash(a map[string]NFloat) uint64 { return deriveHashI05x020(a) }
