package p


var use_I02x022L_all_p func(map[NFloat]int) bool
var use_I02x022L_all_l []map[NFloat]int
var use_I02x022L_all_v = deriveAllI02x022L(use_I02x022L_all_p, use_I02x022L_all_l)
var use_I02x022L_any_p func(map[NFloat]int) bool
var use_I02x022L_any_l []map[NFloat]int
var use_I02x022L_any_v = deriveAnyI02x022L(use_I02x022L_any_p, use_I02x022L_any_l)
var use_I02x022L_contains_l []map[NFloat]int
var use_I02x022L_contains_x map[NFloat]int
var use_I02x022L_contains_v = deriveContainsI02x022L(use_I02x022L_contains_l, use_I02x022L_contains_x)
var use_I02x022L_filter_p func(map[NFloat]int) bool
var use_I02x022L_filter_l []map[NFloat]int
var use_I02x022L_filter_v = deriveFilterI02x022L(use_I02x022L_filter_p, use_I02x022L_filter_l)
var use_I02x022L_intersect_a []map[NFloat]int
var use_I02x022L_intersect_b []map[NFloat]int
var use_I02x022L_intersect_v = deriveIntersectI02x022L(use_I02x022L_intersect_a, use_I02x022L_intersect_b)
var use_I02x022L_max_l []map[NFloat]int
var use_I02x022L_max_d map[NFloat]int
var use_I02x022L_max_v = deriveMaxI02x022L(use_I02x022L_max_l, use_I02x022L_max_d)
var use_I02x022L_max2_a map[NFloat]int
var use_I02x022L_max2_b map[NFloat]int
var use_I02x022L_max2_v = deriveMaxBI02x022L(use_I02x022L_max2_a, use_I02x022L_max2_b)
var use_I02x022L_min_l []map[NFloat]int
var use_I02x022L_min_d map[NFloat]int
var use_I02x022L_min_v = deriveMinI02x022L(use_I02x022L_min_l, use_I02x022L_min_d)
var use_I02x022L_min2_a map[NFloat]int
var use_I02x022L_min2_b map[NFloat]int
var use_I02x022L_min2_v = deriveMinBI02x022L(use_I02x022L_min2_a, use_I02x022L_min2_b)
var use_I02x022L_sort_l []map[NFloat]int
var use_I02x022L_sort_v = deriveSortI02x022L(use_I02x022L_sort_l)
var use_I02x022L_takewhile_p func(map[NFloat]int) bool
var use_I02x022L_takewhile_l []map[NFloat]int
var use_I02x022L_takewhile_v = deriveTakeWhileI02x022L(use_I02x022L_takewhile_p, use_I02x022L_takewhile_l)
var use_I02x022L_union_a []map[NFloat]int
var use_I02x022L_union_b []map[NFloat]int
var use_I02x022L_union_v = deriveUnionI02x022L(use_I02x022L_union_a, use_I02x022L_union_b)
var use_I02x022L_unique_l []map[NFloat]int
var use_I02x022L_unique_v = deriveUniqueI02x022L(use_I02x022L_unique_l)
