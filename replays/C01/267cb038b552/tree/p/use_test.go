package p

import (
	"testing"
)

func TestNothing(t *testing.T) {}

func use_I12x008_clone(a [2]SR) [2]SR { return deriveCloneI12x008(a) }
func use_I12x008_compare(a, b [2]SR) int { return deriveCompareI12x008(a, b) }
func use_I12x008_comparec(a, b [2]SR) int { return deriveCompareCI12x008(a)(b) }
func use_I12x008_equal(a, b [2]SR) bool { return deriveEqualI12x008(a, b) }
func use_I12x008_equalc(a, b [2]SR) bool { return deriveEqualCI12x008(a)(b) }
func use_I12x008_equalclone(a [2]SR) bool { return deriveEqualNI12x008(deriveCloneNI12x008(a), a) }
func use_I12x008_gostring(a [2]SR) string { return deriveGoStringI12x008(a) }
func use_I12x008_hash(a [2]SR) uint64 { return deriveHashI12x008(a) }
