package p


