package p


func use_I04x018_clone(a map[string]complex128) map[string]complex128 { return deriveCloneI04x018(a) }
func use_I04x018_compare(a, b map[string]complex128) int { return deriveCompareI04x018(a, b) }
func use_I04x018_comparec(a, b map[string]complex128) int { return deriveCompareCI04x018(a)(b) }
func use_I04x018_deepcopy(a, b map[string]complex128)  { deriveDeepCopyI04x018(a, b) }
func use_I04x018_equal(a, b map[string]complex128) bool { return deriveEqualI04x018(a, b) }
func use_I04x018_equalc(a, b map[string]complex128) bool { return deriveEqualCI04x018(a)(b) }
func use_I04x018_equalclone(a map[string]complex128) bool { return deriveEqualNI04x018(deriveCloneNI04x018(a), a) }
func use_I04x018_gostring(a map[string]complex128) string { return deriveGoStringI04x018(a) }
func use_I04x018_hash(a map[string]complex128) uint64 { return deriveHashI04x018(a) }
func use_I04x018_keys(m map[string]complex128) int { return len(deriveKeysI04x018(m)) }
func use_I04x018_sortkeys(m map[string]complex128) int { return len(deriveSortI04x018(deriveKeysI04x018(m))) }
