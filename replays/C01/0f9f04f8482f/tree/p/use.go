package p


func use_Knamed-composites0_gostring(a NSlice) string { return deriveGoStringKnamed-composites0(a) }
