package p

import (
	"testing"
)

func TestNothing(t *testing.T) {}

func use_I00x016_clone(a []SV) []SV { return deriveCloneI00x016(a) }
func use_I00x016_compare(a, b []SV) int { return deriveCompareI00x016(a, b) }
func use_I00x016_comparec(a, b []SV) int { return deriveCompareCI00x016(a)(b) }
func use_I00x016_deepcopy(a, b []SV)  { deriveDeepCopyI00x016(a, b) }
func use_I00x016_equal(a, b []SV) bool { return deriveEqualI00x016(a, b) }
func use_I00x016_equalc(a, b []SV) bool { return deriveEqualCI00x016(a)(b) }
func use_I00x016_equalclone(a []SV) bool { return deriveEqualNI00x016(deriveCloneNI00x016(a), a) }
func use_I00x016_gostring(a []SV) string { return deriveGoStringI00x016(a) }
func use_I00x016_hash(a []SV) uint64 { return deriveHashI00x016(a) }
