package p


