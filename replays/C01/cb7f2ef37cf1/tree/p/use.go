package p


