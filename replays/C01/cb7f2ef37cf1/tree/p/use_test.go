package p

import (
	"testing"
)

func TestNothing(t *testing.T) {}

func use_I05x006_clone(a [2][2]float64) [2][2]float64 { return deriveCloneI05x006(a) }
func use_I05x006_compare(a, b [2][2]float64) int { return deriveCompareI05x006(a, b) }
func use_I05x006_comparec(a, b [2][2]float64) int { return deriveCompareCI05x006(a)(b) }
func use_I05x006_equal(a, b [2][2]float64) bool { return deriveEqualI05x006(a, b) }
func use_I05x006_equalc(a, b [2][2]float64) bool { return deriveEqualCI05x006(a)(b) }
func use_I05x006_equalclone(a [2][2]float64) bool { return deriveEqualNI05x006(deriveCloneNI05x006(a), a) }
func use_I05x006_gostring(a [2][2]float64) string { return deriveGoStringI05x006(a) }
func use_I05x006_hash(a [2][2]float64) uint64 { return deriveHashI05x006(a) }
