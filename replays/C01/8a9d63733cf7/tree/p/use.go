package p


var use_I08x021_clone_a *W11
var use_I08x021_clone_v = deriveCloneI08x021(use_I08x021_clone_a)
var use_I08x021_compare_a *W11
var use_I08x021_compare_b *W11
var use_I08x021_compare_v = deriveCompareI08x021(use_I08x021_compare_a, use_I08x021_compare_b)
var use_I08x021_comparec_a *W11
var use_I08x021_comparec_b *W11
var use_I08x021_comparec_v = deriveCompareCI08x021(use_I08x021_comparec_a)(use_I08x021_comparec_b)
var use_I08x021_deepcopy_a *W11
var use_I08x021_deepcopy_b *W11
func init() { deriveDeepCopyI08x021(use_I08x021_deepcopy_a, use_I08x021_deepcopy_b) }
var use_I08x021_equal_a *W11
var use_I08x021_equal_b *W11
var use_I08x021_equal_v = deriveEqualI08x021(use_I08x021_equal_a, use_I08x021_equal_b)
var use_I08x021_equalc_a *W11
var use_I08x021_equalc_b *W11
var use_I08x021_equalc_v = deriveEqualCI08x021(use_I08x021_equalc_a)(use_I08x021_equalc_b)
var use_I08x021_equalclone_a *W11
var use_I08x021_equalclone_v = deriveEqualI08x021(deriveCloneI08x021(use_I08x021_equalclone_a), use_I08x021_equalclone_a)
var use_I08x021_gostring_a *W11
var use_I08x021_gostring_v = deriveGoStringI08x021(use_I08x021_gostring_a)
var use_I08x021_hash_a *W11
var use_I08x021_hash_v = deriveHashI08x021(use_I08x021_hash_a)
