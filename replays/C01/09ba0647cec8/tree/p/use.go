package p


var use_I03x018_clone_a []map[bool]int
var use_I03x018_clone_v = deriveCloneI03x018(use_I03x018_clone_a)
var use_I03x018_compare_a []map[bool]int
var use_I03x018_compare_b []map[bool]int
var use_I03x018_compare_v = deriveCompareI03x018(use_I03x018_compare_a, use_I03x018_compare_b)
var use_I03x018_comparec_a []map[bool]int
var use_I03x018_comparec_b []map[bool]int
var use_I03x018_comparec_v = deriveCompareCI03x018(use_I03x018_comparec_a)(use_I03x018_comparec_b)
var use_I03x018_deepcopy_a []map[bool]int
var use_I03x018_deepcopy_b []map[bool]int
func init() { deriveDeepCopyI03x018(use_I03x018_deepcopy_a, use_I03x018_deepcopy_b) }
var use_I03x018_equal_a []map[bool]int
var use_I03x018_equal_b []map[bool]int
var use_I03x018_equal_v = deriveEqualI03x018(use_I03x018_equal_a, use_I03x018_equal_b)
var use_I03x018_equalc_a []map[bool]int
var use_I03x018_equalc_b []map[bool]int
var use_I03x018_equalc_v = deriveEqualCI03x018(use_I03x018_equalc_a)(use_I03x018_equalc_b)
var use_I03x018_equalclone_a []map[bool]int
var use_I03x018_equalclone_v = deriveEqualNI03x018(deriveCloneNI03x018(use_I03x018_equalclone_a), use_I03x018_equalclone_a)
var use_I03x018_gostring_a []map[bool]int
var use_I03x018_gostring_v = deriveGoStringI03x018(use_I03x018_gostring_a)
var use_I03x018_hash_a []map[bool]int
var use_I03x018_hash_v = deriveHashI03x018(use_I03x018_hash_a)
