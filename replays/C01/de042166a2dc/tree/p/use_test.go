package p

import (
	ext "scratch/ext"
	"testing"
)

func TestNothing(t *testing.T) {}

func use_I04x004_clone(a [2]bool) [2]bool { return deriveCloneI04x004(a) }
func use_I04x004_compare(a, b [2]bool) int { return deriveCompareI04x004(a, b) }
func use_I04x004_comparec(a, b [2]bool) int { return deriveCompareCI04x004(a)(b) }
func use_I04x004_equal(a, b [2]bool) bool { return deriveEqualI04x004(a, b) }
func use_I04x004_equalc(a, b [2]bool) bool { return deriveEqualCI04x004(a)(b) }
func use_I04x004_equalclone(a [2]bool) bool { return deriveEqualI04x004(deriveCloneI04x004(a), a) }
func use_I04x004_gostring(a [2]bool) string { return deriveGoStringI04x004(a) }
func use_I04x004_hash(a [2]bool) uint64 { return deriveHashI04x004(a) }
func use_I04x007_clone(a *W6) *W6 { return deriveCloneI04x007(a) }
func use_I04x007_compare(a, b *W6) int { return deriveCompareI04x007(a, b) }
func use_I04x007_comparec(a, b *W6) int { return deriveCompareCI04x007(a)(b) }
func use_I04x007_deepcopy(a, b *W6)  { deriveDeepCopyI04x007(a, b) }
func use_I04x007_equal(a, b *W6) bool { return deriveEqualI04x007(a, b) }
func use_I04x007_equalc(a, b *W6) bool { return deriveEqualCI04x007(a)(b) }
func use_I04x007_equalclone(a *W6) bool { return deriveEqualI04x007(deriveCloneI04x007(a), a) }
func use_I04x007_gostring(a *W6) string { return deriveGoStringI04x007(a) }
func use_I04x007_hash(a *W6) uint64 { return deriveHashI04x007(a) }
func use_I04x008_clone(a [2]ext.Priv) [2]ext.Priv { return deriveCloneI04x008(a) }
func use_I04x008_compare(a, b [2]ext.Priv) int { return deriveCompareI04x008(a, b) }
func use_I04x008_comparec(a, b [2]ext.Priv) int { return deriveCompareCI04x008(a)(b) }
func use_I04x008_equal(a, b [2]ext.Priv) bool { return deriveEqualI04x008(a, b) }
func use_I04x008_equalc(a, b [2]ext.Priv) bool { return deriveEqualCI04x008(a)(b) }
func use_I04x008_equalclone(a [2]ext.Priv) bool { return deriveEqualI04x008(deriveCloneI04x008(a), a) }
func use_I04x008_hash(a [2]ext.Priv) uint64 { return deriveHashI04x008(a) }
func use_I04x008L_all(p func([2]ext.Priv) bool, l [][2]ext.Priv) bool { return deriveAllI04x008L(p, l) }
func use_I04x008L_any(p func([2]ext.Priv) bool, l [][2]ext.Priv) bool { return deriveAnyI04x008L(p, l) }
func use_I04x008L_contains(l [][2]ext.Priv, x [2]ext.Priv) bool { return deriveContainsI04x008L(l, x) }
func use_I04x008L_filter(p func([2]ext.Priv) bool, l [][2]ext.Priv) [][2]ext.Priv { return deriveFilterI04x008L(p, l) }
func use_I04x008L_intersect(a, b [][2]ext.Priv) [][2]ext.Priv { return deriveIntersectI04x008L(a, b) }
func use_I04x008L_max(l [][2]ext.Priv, d [2]ext.Priv) [2]ext.Priv { return deriveMaxI04x008L(l, d) }
func use_I04x008L_max2(a, b [2]ext.Priv) [2]ext.Priv { return deriveMaxBI04x008L(a, b) }
func use_I04x008L_min(l [][2]ext.Priv, d [2]ext.Priv) [2]ext.Priv { return deriveMinI04x008L(l, d) }
func use_I04x008L_min2(a, b [2]ext.Priv) [2]ext.Priv { return deriveMinBI04x008L(a, b) }
func use_I04x008L_sort(l [][2]ext.Priv) [][2]ext.Priv { return deriveSortI04x008L(l) }
func use_I04x008L_takewhile(p func([2]ext.Priv) bool, l [][2]ext.Priv) [][2]ext.Priv { return deriveTakeWhileI04x008L(p, l) }
func use_I04x008L_union(a, b [][2]ext.Priv) [][2]ext.Priv { return deriveUnionI04x008L(a, b) }
func use_I04x008L_unique(l [][2]ext.Priv) [][2]ext.Priv { return deriveUniqueI04x008L(l) }
func use_I04x012_clone(a map[string][]float64) map[string][]float64 { return deriveCloneI04x012(a) }
func use_I04x012_compare(a, b map[string][]float64) int { return deriveCompareI04x012(a, b) }
func use_I04x012_comparec(a, b map[string][]float64) int { return deriveCompareCI04x012(a)(b) }
func use_I04x012_deepcopy(a, b map[string][]float64)  { deriveDeepCopyI04x012(a, b) }
func use_I04x012_equal(a, b map[string][]float64) bool { return deriveEqualI04x012(a, b) }
func use_I04x012_equalc(a, b map[string][]float64) bool { return deriveEqualCI04x012(a)(b) }
func use_I04x012_equalclone(a map[string][]float64) bool { return deriveEqualI04x012(deriveCloneI04x012(a), a) }
func use_I04x012_gostring(a map[string][]float64) string { return deriveGoStringI04x012(a) }
func use_I04x012_hash(a map[string][]float64) uint64 { return deriveHashI04x012(a) }
func use_I04x012_keys(m map[string][]float64) int { return len(deriveKeysI04x012(m)) }
func use_I04x012_sortkeys(m map[string][]float64) int { return len(deriveSortI04x012(deriveKeysI04x012(m))) }
func use_I04x015_clone(a *W10) *W10 { return deriveCloneI04x015(a) }
func use_I04x015_compare(a, b *W10) int { return deriveCompareI04x015(a, b) }
func use_I04x015_comparec(a, b *W10) int { return deriveCompareCI04x015(a)(b) }
func use_I04x015_deepcopy(a, b *W10)  { deriveDeepCopyI04x015(a, b) }
func use_I04x015_equal(a, b *W10) bool { return deriveEqualI04x015(a, b) }
func use_I04x015_equalc(a, b *W10) bool { return deriveEqualCI04x015(a)(b) }
func use_I04x015_equalclone(a *W10) bool { return deriveEqualI04x015(deriveCloneI04x015(a), a) }
func use_I04x015_gostring(a *W10) string { return deriveGoStringI04x015(a) }
func use_I04x015_hash(a *W10) uint64 { return deriveHashI04x015(a) }
func use_I04x016_clone(a []int) []int { return deriveCloneI04x016(a) }
func use_I04x016_compare(a, b []int) int { return deriveCompareI04x016(a, b) }
func use_I04x016_comparec(a, b []int) int { return deriveCompareCI04x016(a)(b) }
func use_I04x016_deepcopy(a, b []int)  { deriveDeepCopyI04x016(a, b) }
func use_I04x016_equal(a, b []int) bool { return deriveEqualI04x016(a, b) }
func use_I04x016_equalc(a, b []int) bool { return deriveEqualCI04x016(a)(b) }
func use_I04x016_equalclone(a []int) bool { return deriveEqualI04x016(deriveCloneI04x016(a), a) }
func use_I04x016_gostring(a []int) string { return deriveGoStringI04x016(a) }
func use_I04x016_hash(a []int) uint64 { return deriveHashI04x016(a) }
func use_I04x017_clone(a *W11) *W11 { return deriveCloneI04x017(a) }
func use_I04x017_compare(a, b *W11) int { return deriveCompareI04x017(a, b) }
func use_I04x017_comparec(a, b *W11) int { return deriveCompareCI04x017(a)(b) }
func use_I04x017_deepcopy(a, b *W11)  { deriveDeepCopyI04x017(a, b) }
func use_I04x017_equal(a, b *W11) bool { return deriveEqualI04x017(a, b) }
func use_I04x017_equalc(a, b *W11) bool { return deriveEqualCI04x017(a)(b) }
func use_I04x017_equalclone(a *W11) bool { return deriveEqualI04x017(deriveCloneI04x017(a), a) }
func use_I04x017_gostring(a *W11) string { return deriveGoStringI04x017(a) }
func use_I04x017_hash(a *W11) uint64 { return deriveHashI04x017(a) }
func use_I04x018L_all(p func(map[string]complex128) bool, l []map[string]complex128) bool { return deriveAllI04x018L(p, l) }
func use_I04x018L_any(p func(map[string]complex128) bool, l []map[string]complex128) bool { return deriveAnyI04x018L(p, l) }
func use_I04x018L_contains(l []map[string]complex128, x map[string]complex128) bool { return deriveContainsI04x018L(l, x) }
func use_I04x018L_filter(p func(map[string]complex128) bool, l []map[string]complex128) []map[string]complex128 { return deriveFilterI04x018L(p, l) }
func use_I04x018L_intersect(a, b []map[string]complex128) []map[string]complex128 { return deriveIntersectI04x018L(a, b) }
func use_I04x018L_max(l []map[string]complex128, d map[string]complex128) map[string]complex128 { return deriveMaxI04x018L(l, d) }
func use_I04x018L_max2(a, b map[string]complex128) map[string]complex128 { return deriveMaxBI04x018L(a, b) }
func use_I04x018L_min(l []map[string]complex128, d map[string]complex128) map[string]complex128 { return deriveMinI04x018L(l, d) }
func use_I04x018L_min2(a, b map[string]complex128) map[string]complex128 { return deriveMinBI04x018L(a, b) }
func use_I04x018L_sort(l []map[string]complex128) []map[string]complex128 { return deriveSortI04x018L(l) }
func use_I04x018L_takewhile(p func(map[string]complex128) bool, l []map[string]complex128) []map[string]complex128 { return deriveTakeWhileI04x018L(p, l) }
func use_I04x018L_union(a, b []map[string]complex128) []map[string]complex128 { return deriveUnionI04x018L(a, b) }
func use_I04x018L_unique(l []map[string]complex128) []map[string]complex128 { return deriveUniqueI04x018L(l) }
func use_I04x019_clone(a *W12) *W12 { return deriveCloneI04x019(a) }
func use_I04x019_compare(a, b *W12) int { return deriveCompareI04x019(a, b) }
func use_I04x019_comparec(a, b *W12) int { return deriveCompareCI04x019(a)(b) }
func use_I04x019_deepcopy(a, b *W12)  { deriveDeepCopyI04x019(a, b) }
func use_I04x019_equal(a, b *W12) bool { return deriveEqualI04x019(a, b) }
func use_I04x019_equalc(a, b *W12) bool { return deriveEqualCI04x019(a)(b) }
func use_I04x019_equalclone(a *W12) bool { return deriveEqualI04x019(deriveCloneI04x019(a), a) }
func use_I04x019_gostring(a *W12) string { return deriveGoStringI04x019(a) }
func use_I04x019_hash(a *W12) uint64 { return deriveHashI04x019(a) }
