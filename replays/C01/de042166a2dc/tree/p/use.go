package p

import (
	ext "scratch/ext"
)

func use_I04x000_clone(a uint8) uint8 { return deriveCloneI04x000(a) }
func use_I04x000_compare(a, b uint8) int { return deriveCompareI04x000(a, b) }
func use_I04x000_comparec(a, b uint8) int { return deriveCompareCI04x000(a)(b) }
func use_I04x000_equal(a, b uint8) bool { return deriveEqualI04x000(a, b) }
func use_I04x000_equalc(a, b uint8) bool { return deriveEqualCI04x000(a)(b) }
func use_I04x000_equalclone(a uint8) bool { return deriveEqualI04x000(deriveCloneI04x000(a), a) }
func use_I04x000_gostring(a uint8) string { return deriveGoStringI04x000(a) }
func use_I04x000_hash(a uint8) uint64 { return deriveHashI04x000(a) }
var use_I04x000L_all = func(p func(uint8) bool, l []uint8) bool { return deriveAllI04x000L(p, l) }
var use_I04x000L_any = func(p func(uint8) bool, l []uint8) bool { return deriveAnyI04x000L(p, l) }
var use_I04x000L_contains = func(l []uint8, x uint8) bool { return deriveContainsI04x000L(l, x) }
var use_I04x000L_filter = func(p func(uint8) bool, l []uint8) []uint8 { return deriveFilterI04x000L(p, l) }
var use_I04x000L_intermap = func(a, b map[uint8]struct{}) map[uint8]struct{} { return deriveIntersectMI04x000L(a, b) }
var use_I04x000L_intersect = func(a, b []uint8) []uint8 { return deriveIntersectI04x000L(a, b) }
var use_I04x000L_max = func(l []uint8, d uint8) uint8 { return deriveMaxI04x000L(l, d) }
var use_I04x000L_max2 = func(a, b uint8) uint8 { return deriveMaxBI04x000L(a, b) }
var use_I04x000L_min = func(l []uint8, d uint8) uint8 { return deriveMinI04x000L(l, d) }
var use_I04x000L_min2 = func(a, b uint8) uint8 { return deriveMinBI04x000L(a, b) }
var use_I04x000L_set = func(l []uint8) map[uint8]struct{} { return deriveSetI04x000L(l) }
var use_I04x000L_sort = func(l []uint8) []uint8 { return deriveSortI04x000L(l) }
var use_I04x000L_takewhile = func(p func(uint8) bool, l []uint8) []uint8 { return deriveTakeWhileI04x000L(p, l) }
var use_I04x000L_union = func(a, b []uint8) []uint8 { return deriveUnionI04x000L(a, b) }
var use_I04x000L_unionmap = func(a, b map[uint8]struct{}) map[uint8]struct{} { return deriveUnionMI04x000L(a, b) }
var use_I04x000L_unique = func(l []uint8) []uint8 { return deriveUniqueI04x000L(l) }
var use_I04x001_clone_a *W1
var use_I04x001_clone_v = deriveCloneI04x001(use_I04x001_clone_a)
var use_I04x001_compare_a *W1
var use_I04x001_compare_b *W1
var use_I04x001_compare_v = deriveCompareI04x001(use_I04x001_compare_a, use_I04x001_compare_b)
var use_I04x001_comparec_a *W1
var use_I04x001_comparec_b *W1
var use_I04x001_comparec_v = deriveCompareCI04x001(use_I04x001_comparec_a)(use_I04x001_comparec_b)
var use_I04x001_deepcopy_a *W1
var use_I04x001_deepcopy_b *W1
func init() { deriveDeepCopyI04x001(use_I04x001_deepcopy_a, use_I04x001_deepcopy_b) }
var use_I04x001_equal_a *W1
var use_I04x001_equal_b *W1
var use_I04x001_equal_v = deriveEqualI04x001(use_I04x001_equal_a, use_I04x001_equal_b)
var use_I04x001_equalc_a *W1
var use_I04x001_equalc_b *W1
var use_I04x001_equalc_v = deriveEqualCI04x001(use_I04x001_equalc_a)(use_I04x001_equalc_b)
var use_I04x001_equalclone_a *W1
var use_I04x001_equalclone_v = deriveEqualI04x001(deriveCloneI04x001(use_I04x001_equalclone_a), use_I04x001_equalclone_a)
var use_I04x001_gostring_a *W1
var use_I04x001_gostring_v = deriveGoStringI04x001(use_I04x001_gostring_a)
var use_I04x001_hash_a *W1
var use_I04x001_hash_v = deriveHashI04x001(use_I04x001_hash_a)
var use_I04x002_clone_a R3
var use_I04x002_clone_v = deriveCloneI04x002(use_I04x002_clone_a)
var use_I04x002_compare_a R3
var use_I04x002_compare_b R3
var use_I04x002_compare_v = deriveCompareI04x002(use_I04x002_compare_a, use_I04x002_compare_b)
var use_I04x002_comparec_a R3
var use_I04x002_comparec_b R3
var use_I04x002_comparec_v = deriveCompareCI04x002(use_I04x002_comparec_a)(use_I04x002_comparec_b)
var use_I04x002_equal_a R3
var use_I04x002_equal_b R3
var use_I04x002_equal_v = deriveEqualI04x002(use_I04x002_equal_a, use_I04x002_equal_b)
var use_I04x002_equalc_a R3
var use_I04x002_equalc_b R3
var use_I04x002_equalc_v = deriveEqualCI04x002(use_I04x002_equalc_a)(use_I04x002_equalc_b)
var use_I04x002_equalclone_a R3
var use_I04x002_equalclone_v = deriveEqualI04x002(deriveCloneI04x002(use_I04x002_equalclone_a), use_I04x002_equalclone_a)
var use_I04x002_gostring_a R3
var use_I04x002_gostring_v = deriveGoStringI04x002(use_I04x002_gostring_a)
var use_I04x002_hash_a R3
var use_I04x002_hash_v = deriveHashI04x002(use_I04x002_hash_a)
var use_I04x002L_all_p func(R3) bool
var use_I04x002L_all_l []R3
var use_I04x002L_all_v = deriveAllI04x002L(use_I04x002L_all_p, use_I04x002L_all_l)
var use_I04x002L_any_p func(R3) bool
var use_I04x002L_any_l []R3
var use_I04x002L_any_v = deriveAnyI04x002L(use_I04x002L_any_p, use_I04x002L_any_l)
var use_I04x002L_contains_l []R3
var use_I04x002L_contains_x R3
var use_I04x002L_contains_v = deriveContainsI04x002L(use_I04x002L_contains_l, use_I04x002L_contains_x)
var use_I04x002L_filter_p func(R3) bool
var use_I04x002L_filter_l []R3
var use_I04x002L_filter_v = deriveFilterI04x002L(use_I04x002L_filter_p, use_I04x002L_filter_l)
var use_I04x002L_intersect_a []R3
var use_I04x002L_intersect_b []R3
var use_I04x002L_intersect_v = deriveIntersectI04x002L(use_I04x002L_intersect_a, use_I04x002L_intersect_b)
var use_I04x002L_max_l []R3
var use_I04x002L_max_d R3
var use_I04x002L_max_v = deriveMaxI04x002L(use_I04x002L_max_l, use_I04x002L_max_d)
var use_I04x002L_max2_a R3
var use_I04x002L_max2_b R3
var use_I04x002L_max2_v = deriveMaxBI04x002L(use_I04x002L_max2_a, use_I04x002L_max2_b)
var use_I04x002L_min_l []R3
var use_I04x002L_min_d R3
var use_I04x002L_min_v = deriveMinI04x002L(use_I04x002L_min_l, use_I04x002L_min_d)
var use_I04x002L_min2_a R3
var use_I04x002L_min2_b R3
var use_I04x002L_min2_v = deriveMinBI04x002L(use_I04x002L_min2_a, use_I04x002L_min2_b)
var use_I04x002L_sort_l []R3
var use_I04x002L_sort_v = deriveSortI04x002L(use_I04x002L_sort_l)
var use_I04x002L_takewhile_p func(R3) bool
var use_I04x002L_takewhile_l []R3
var use_I04x002L_takewhile_v = deriveTakeWhileI04x002L(use_I04x002L_takewhile_p, use_I04x002L_takewhile_l)
var use_I04x002L_union_a []R3
var use_I04x002L_union_b []R3
var use_I04x002L_union_v = deriveUnionI04x002L(use_I04x002L_union_a, use_I04x002L_union_b)
var use_I04x002L_unique_l []R3
var use_I04x002L_unique_v = deriveUniqueI04x002L(use_I04x002L_unique_l)
func use_I04x003_clone(a *W4) *W4 { return deriveCloneI04x003(a) }
func use_I04x003_compare(a, b *W4) int { return deriveCompareI04x003(a, b) }
func use_I04x003_comparec(a, b *W4) int { return deriveCompareCI04x003(a)(b) }
func use_I04x003_deepcopy(a, b *W4)  { deriveDeepCopyI04x003(a, b) }
func use_I04x003_equal(a, b *W4) bool { return deriveEqualI04x003(a, b) }
func use_I04x003_equalc(a, b *W4) bool { return deriveEqualCI04x003(a)(b) }
func use_I04x003_equalclone(a *W4) bool { return deriveEqualI04x003(deriveCloneI04x003(a), a) }
func use_I04x003_gostring(a *W4) string { return deriveGoStringI04x003(a) }
func use_I04x003_hash(a *W4) uint64 { return deriveHashI04x003(a) }
var use_I04x004L_all = func(p func([2]bool) bool, l [][2]bool) bool { return deriveAllI04x004L(p, l) }
var use_I04x004L_any = func(p func([2]bool) bool, l [][2]bool) bool { return deriveAnyI04x004L(p, l) }
var use_I04x004L_contains = func(l [][2]bool, x [2]bool) bool { return deriveContainsI04x004L(l, x) }
var use_I04x004L_filter = func(p func([2]bool) bool, l [][2]bool) [][2]bool { return deriveFilterI04x004L(p, l) }
var use_I04x004L_intermap = func(a, b map[[2]bool]struct{}) map[[2]bool]struct{} { return deriveIntersectMI04x004L(a, b) }
var use_I04x004L_intersect = func(a, b [][2]bool) [][2]bool { return deriveIntersectI04x004L(a, b) }
var use_I04x004L_max = func(l [][2]bool, d [2]bool) [2]bool { return deriveMaxI04x004L(l, d) }
var use_I04x004L_max2 = func(a, b [2]bool) [2]bool { return deriveMaxBI04x004L(a, b) }
var use_I04x004L_min = func(l [][2]bool, d [2]bool) [2]bool { return deriveMinI04x004L(l, d) }
var use_I04x004L_min2 = func(a, b [2]bool) [2]bool { return deriveMinBI04x004L(a, b) }
var use_I04x004L_set = func(l [][2]bool) map[[2]bool]struct{} { return deriveSetI04x004L(l) }
var use_I04x004L_sort = func(l [][2]bool) [][2]bool { return deriveSortI04x004L(l) }
var use_I04x004L_takewhile = func(p func([2]bool) bool, l [][2]bool) [][2]bool { return deriveTakeWhileI04x004L(p, l) }
var use_I04x004L_union = func(a, b [][2]bool) [][2]bool { return deriveUnionI04x004L(a, b) }
var use_I04x004L_unionmap = func(a, b map[[2]bool]struct{}) map[[2]bool]struct{} { return deriveUnionMI04x004L(a, b) }
var use_I04x004L_unique = func(l [][2]bool) [][2]bool { return deriveUniqueI04x004L(l) }
func use_I04x005_clone(a *W5) *W5 { return deriveCloneI04x005(a) }
func use_I04x005_compare(a, b *W5) int { return deriveCompareI04x005(a, b) }
func use_I04x005_comparec(a, b *W5) int { return deriveCompareCI04x005(a)(b) }
func use_I04x005_deepcopy(a, b *W5)  { deriveDeepCopyI04x005(a, b) }
func use_I04x005_equal(a, b *W5) bool { return deriveEqualI04x005(a, b) }
func use_I04x005_equalc(a, b *W5) bool { return deriveEqualCI04x005(a)(b) }
func use_I04x005_equalclone(a *W5) bool { return deriveEqualI04x005(deriveCloneI04x005(a), a) }
func use_I04x005_gostring(a *W5) string { return deriveGoStringI04x005(a) }
func use_I04x005_hash(a *W5) uint64 { return deriveHashI04x005(a) }
var use_I04x006_clone = func(a map[int][]SR) map[int][]SR { return deriveCloneI04x006(a) }
var use_I04x006_compare = func(a, b map[int][]SR) int { return deriveCompareI04x006(a, b) }
var use_I04x006_comparec = func(a, b map[int][]SR) int { return deriveCompareCI04x006(a)(b) }
var use_I04x006_deepcopy = func(a, b map[int][]SR)  { deriveDeepCopyI04x006(a, b) }
var use_I04x006_equal = func(a, b map[int][]SR) bool { return deriveEqualI04x006(a, b) }
var use_I04x006_equalc = func(a, b map[int][]SR) bool { return deriveEqualCI04x006(a)(b) }
var use_I04x006_equalclone = func(a map[int][]SR) bool { return deriveEqualI04x006(deriveCloneI04x006(a), a) }
var use_I04x006_gostring = func(a map[int][]SR) string { return deriveGoStringI04x006(a) }
var use_I04x006_hash = func(a map[int][]SR) uint64 { return deriveHashI04x006(a) }
var use_I04x006_keys = func(m map[int][]SR) int { return len(deriveKeysI04x006(m)) }
var use_I04x006_sortkeys = func(m map[int][]SR) int { return len(deriveSortI04x006(deriveKeysI04x006(m))) }
var use_I04x006L_all = func(p func(map[int][]SR) bool, l []map[int][]SR) bool { return deriveAllI04x006L(p, l) }
var use_I04x006L_any = func(p func(map[int][]SR) bool, l []map[int][]SR) bool { return deriveAnyI04x006L(p, l) }
var use_I04x006L_contains = func(l []map[int][]SR, x map[int][]SR) bool { return deriveContainsI04x006L(l, x) }
var use_I04x006L_filter = func(p func(map[int][]SR) bool, l []map[int][]SR) []map[int][]SR { return deriveFilterI04x006L(p, l) }
var use_I04x006L_intersect = func(a, b []map[int][]SR) []map[int][]SR { return deriveIntersectI04x006L(a, b) }
var use_I04x006L_max = func(l []map[int][]SR, d map[int][]SR) map[int][]SR { return deriveMaxI04x006L(l, d) }
var use_I04x006L_max2 = func(a, b map[int][]SR) map[int][]SR { return deriveMaxBI04x006L(a, b) }
var use_I04x006L_min = func(l []map[int][]SR, d map[int][]SR) map[int][]SR { return deriveMinI04x006L(l, d) }
var use_I04x006L_min2 = func(a, b map[int][]SR) map[int][]SR { return deriveMinBI04x006L(a, b) }
var use_I04x006L_sort = func(l []map[int][]SR) []map[int][]SR { return deriveSortI04x006L(l) }
var use_I04x006L_takewhile = func(p func(map[int][]SR) bool, l []map[int][]SR) []map[int][]SR { return deriveTakeWhileI04x006L(p, l) }
var use_I04x006L_union = func(a, b []map[int][]SR) []map[int][]SR { return deriveUnionI04x006L(a, b) }
var use_I04x006L_unique = func(l []map[int][]SR) []map[int][]SR { return deriveUniqueI04x006L(l) }
var use_I04x009_clone_a *W7
var use_I04x009_clone_v = deriveCloneI04x009(use_I04x009_clone_a)
var use_I04x009_compare_a *W7
var use_I04x009_compare_b *W7
var use_I04x009_compare_v = deriveCompareI04x009(use_I04x009_compare_a, use_I04x009_compare_b)
var use_I04x009_comparec_a *W7
var use_I04x009_comparec_b *W7
var use_I04x009_comparec_v = deriveCompareCI04x009(use_I04x009_comparec_a)(use_I04x009_comparec_b)
var use_I04x009_deepcopy_a *W7
var use_I04x009_deepcopy_b *W7
func init() { deriveDeepCopyI04x009(use_I04x009_deepcopy_a, use_I04x009_deepcopy_b) }
var use_I04x009_equal_a *W7
var use_I04x009_equal_b *W7
var use_I04x009_equal_v = deriveEqualI04x009(use_I04x009_equal_a, use_I04x009_equal_b)
var use_I04x009_equalc_a *W7
var use_I04x009_equalc_b *W7
var use_I04x009_equalc_v = deriveEqualCI04x009(use_I04x009_equalc_a)(use_I04x009_equalc_b)
var use_I04x009_equalclone_a *W7
var use_I04x009_equalclone_v = deriveEqualI04x009(deriveCloneI04x009(use_I04x009_equalclone_a), use_I04x009_equalclone_a)
var use_I04x009_hash_a *W7
var use_I04x009_hash_v = deriveHashI04x009(use_I04x009_hash_a)
var use_I04x010_clone_a *map[uint8]int
var use_I04x010_clone_v = deriveCloneI04x010(use_I04x010_clone_a)
var use_I04x010_compare_a *map[uint8]int
var use_I04x010_compare_b *map[uint8]int
var use_I04x010_compare_v = deriveCompareI04x010(use_I04x010_compare_a, use_I04x010_compare_b)
var use_I04x010_comparec_a *map[uint8]int
var use_I04x010_comparec_b *map[uint8]int
var use_I04x010_comparec_v = deriveCompareCI04x010(use_I04x010_comparec_a)(use_I04x010_comparec_b)
var use_I04x010_deepcopy_a *map[uint8]int
var use_I04x010_deepcopy_b *map[uint8]int
func init() { deriveDeepCopyI04x010(use_I04x010_deepcopy_a, use_I04x010_deepcopy_b) }
var use_I04x010_equal_a *map[uint8]int
var use_I04x010_equal_b *map[uint8]int
var use_I04x010_equal_v = deriveEqualI04x010(use_I04x010_equal_a, use_I04x010_equal_b)
var use_I04x010_equalc_a *map[uint8]int
var use_I04x010_equalc_b *map[uint8]int
var use_I04x010_equalc_v = deriveEqualCI04x010(use_I04x010_equalc_a)(use_I04x010_equalc_b)
var use_I04x010_equalclone_a *map[uint8]int
var use_I04x010_equalclone_v = deriveEqualI04x010(deriveCloneI04x010(use_I04x010_equalclone_a), use_I04x010_equalclone_a)
var use_I04x010_gostring_a *map[uint8]int
var use_I04x010_gostring_v = deriveGoStringI04x010(use_I04x010_gostring_a)
var use_I04x010_hash_a *map[uint8]int
var use_I04x010_hash_v = deriveHashI04x010(use_I04x010_hash_a)
var use_I04x010L_all = func(p func(*map[uint8]int) bool, l []*map[uint8]int) bool { return deriveAllI04x010L(p, l) }
var use_I04x010L_any = func(p func(*map[uint8]int) bool, l []*map[uint8]int) bool { return deriveAnyI04x010L(p, l) }
var use_I04x010L_contains = func(l []*map[uint8]int, x *map[uint8]int) bool { return deriveContainsI04x010L(l, x) }
var use_I04x010L_filter = func(p func(*map[uint8]int) bool, l []*map[uint8]int) []*map[uint8]int { return deriveFilterI04x010L(p, l) }
var use_I04x010L_intersect = func(a, b []*map[uint8]int) []*map[uint8]int { return deriveIntersectI04x010L(a, b) }
var use_I04x010L_max = func(l []*map[uint8]int, d *map[uint8]int) *map[uint8]int { return deriveMaxI04x010L(l, d) }
var use_I04x010L_max2 = func(a, b *map[uint8]int) *map[uint8]int { return deriveMaxBI04x010L(a, b) }
var use_I04x010L_min = func(l []*map[uint8]int, d *map[uint8]int) *map[uint8]int { return deriveMinI04x010L(l, d) }
var use_I04x010L_min2 = func(a, b *map[uint8]int) *map[uint8]int { return deriveMinBI04x010L(a, b) }
var use_I04x010L_sort = func(l []*map[uint8]int) []*map[uint8]int { return deriveSortI04x010L(l) }
var use_I04x010L_takewhile = func(p func(*map[uint8]int) bool, l []*map[uint8]int) []*map[uint8]int { return deriveTakeWhileI04x010L(p, l) }
var use_I04x010L_union = func(a, b []*map[uint8]int) []*map[uint8]int { return deriveUnionI04x010L(a, b) }
var use_I04x010L_unique = func(l []*map[uint8]int) []*map[uint8]int { return deriveUniqueI04x010L(l) }
var use_I04x011_clone_a *W8
var use_I04x011_clone_v = deriveCloneI04x011(use_I04x011_clone_a)
var use_I04x011_compare_a *W8
var use_I04x011_compare_b *W8
var use_I04x011_compare_v = deriveCompareI04x011(use_I04x011_compare_a, use_I04x011_compare_b)
var use_I04x011_comparec_a *W8
var use_I04x011_comparec_b *W8
var use_I04x011_comparec_v = deriveCompareCI04x011(use_I04x011_comparec_a)(use_I04x011_comparec_b)
var use_I04x011_deepcopy_a *W8
var use_I04x011_deepcopy_b *W8
func init() { deriveDeepCopyI04x011(use_I04x011_deepcopy_a, use_I04x011_deepcopy_b) }
var use_I04x011_equal_a *W8
var use_I04x011_equal_b *W8
var use_I04x011_equal_v = deriveEqualI04x011(use_I04x011_equal_a, use_I04x011_equal_b)
var use_I04x011_equalc_a *W8
var use_I04x011_equalc_b *W8
var use_I04x011_equalc_v = deriveEqualCI04x011(use_I04x011_equalc_a)(use_I04x011_equalc_b)
var use_I04x011_equalclone_a *W8
var use_I04x011_equalclone_v = deriveEqualI04x011(deriveCloneI04x011(use_I04x011_equalclone_a), use_I04x011_equalclone_a)
var use_I04x011_gostring_a *W8
var use_I04x011_gostring_v = deriveGoStringI04x011(use_I04x011_gostring_a)
var use_I04x011_hash_a *W8
var use_I04x011_hash_v = deriveHashI04x011(use_I04x011_hash_a)
var use_I04x012L_all = func(p func(map[string][]float64) bool, l []map[string][]float64) bool { return deriveAllI04x012L(p, l) }
var use_I04x012L_any = func(p func(map[string][]float64) bool, l []map[string][]float64) bool { return deriveAnyI04x012L(p, l) }
var use_I04x012L_contains = func(l []map[string][]float64, x map[string][]float64) bool { return deriveContainsI04x012L(l, x) }
var use_I04x012L_filter = func(p func(map[string][]float64) bool, l []map[string][]float64) []map[string][]float64 { return deriveFilterI04x012L(p, l) }
var use_I04x012L_intersect = func(a, b []map[string][]float64) []map[string][]float64 { return deriveIntersectI04x012L(a, b) }
var use_I04x012L_max = func(l []map[string][]float64, d map[string][]float64) map[string][]float64 { return deriveMaxI04x012L(l, d) }
var use_I04x012L_max2 = func(a, b map[string][]float64) map[string][]float64 { return deriveMaxBI04x012L(a, b) }
var use_I04x012L_min = func(l []map[string][]float64, d map[string][]float64) map[string][]float64 { return deriveMinI04x012L(l, d) }
var use_I04x012L_min2 = func(a, b map[string][]float64) map[string][]float64 { return deriveMinBI04x012L(a, b) }
var use_I04x012L_sort = func(l []map[string][]float64) []map[string][]float64 { return deriveSortI04x012L(l) }
var use_I04x012L_takewhile = func(p func(map[string][]float64) bool, l []map[string][]float64) []map[string][]float64 { return deriveTakeWhileI04x012L(p, l) }
var use_I04x012L_union = func(a, b []map[string][]float64) []map[string][]float64 { return deriveUnionI04x012L(a, b) }
var use_I04x012L_unique = func(l []map[string][]float64) []map[string][]float64 { return deriveUniqueI04x012L(l) }
func use_I04x013_clone(a *W9) *W9 { return deriveCloneI04x013(a) }
func use_I04x013_compare(a, b *W9) int { return deriveCompareI04x013(a, b) }
func use_I04x013_comparec(a, b *W9) int { return deriveCompareCI04x013(a)(b) }
func use_I04x013_deepcopy(a, b *W9)  { deriveDeepCopyI04x013(a, b) }
func use_I04x013_equal(a, b *W9) bool { return deriveEqualI04x013(a, b) }
func use_I04x013_equalc(a, b *W9) bool { return deriveEqualCI04x013(a)(b) }
func use_I04x013_equalclone(a *W9) bool { return deriveEqualI04x013(deriveCloneI04x013(a), a) }
func use_I04x013_gostring(a *W9) string { return deriveGoStringI04x013(a) }
func use_I04x013_hash(a *W9) uint64 { return deriveHashI04x013(a) }
var use_I04x014_clone = func(a []complex128) []complex128 { return deriveCloneI04x014(a) }
var use_I04x014_compare = func(a, b []complex128) int { return deriveCompareI04x014(a, b) }
var use_I04x014_comparec = func(a, b []complex128) int { return deriveCompareCI04x014(a)(b) }
var use_I04x014_deepcopy = func(a, b []complex128)  { deriveDeepCopyI04x014(a, b) }
var use_I04x014_equal = func(a, b []complex128) bool { return deriveEqualI04x014(a, b) }
var use_I04x014_equalc = func(a, b []complex128) bool { return deriveEqualCI04x014(a)(b) }
var use_I04x014_equalclone = func(a []complex128) bool { return deriveEqualI04x014(deriveCloneI04x014(a), a) }
var use_I04x014_gostring = func(a []complex128) string { return deriveGoStringI04x014(a) }
var use_I04x014_hash = func(a []complex128) uint64 { return deriveHashI04x014(a) }
var use_I04x014L_all = func(p func([]complex128) bool, l [][]complex128) bool { return deriveAllI04x014L(p, l) }
var use_I04x014L_any = func(p func([]complex128) bool, l [][]complex128) bool { return deriveAnyI04x014L(p, l) }
var use_I04x014L_contains = func(l [][]complex128, x []complex128) bool { return deriveContainsI04x014L(l, x) }
var use_I04x014L_filter = func(p func([]complex128) bool, l [][]complex128) [][]complex128 { return deriveFilterI04x014L(p, l) }
var use_I04x014L_intersect = func(a, b [][]complex128) [][]complex128 { return deriveIntersectI04x014L(a, b) }
var use_I04x014L_max = func(l [][]complex128, d []complex128) []complex128 { return deriveMaxI04x014L(l, d) }
var use_I04x014L_max2 = func(a, b []complex128) []complex128 { return deriveMaxBI04x014L(a, b) }
var use_I04x014L_min = func(l [][]complex128, d []complex128) []complex128 { return deriveMinI04x014L(l, d) }
var use_I04x014L_min2 = func(a, b []complex128) []complex128 { return deriveMinBI04x014L(a, b) }
var use_I04x014L_sort = func(l [][]complex128) [][]complex128 { return deriveSortI04x014L(l) }
var use_I04x014L_takewhile = func(p func([]complex128) bool, l [][]complex128) [][]complex128 { return deriveTakeWhileI04x014L(p, l) }
var use_I04x014L_union = func(a, b [][]complex128) [][]complex128 { return deriveUnionI04x014L(a, b) }
var use_I04x014L_unique = func(l [][]complex128) [][]complex128 { return deriveUniqueI04x014L(l) }
var use_I04x016L_all = func(p func([]int) bool, l [][]int) bool { return deriveAllI04x016L(p, l) }
var use_I04x016L_any = func(p func([]int) bool, l [][]int) bool { return deriveAnyI04x016L(p, l) }
var use_I04x016L_contains = func(l [][]int, x []int) bool { return deriveContainsI04x016L(l, x) }
var use_I04x016L_filter = func(p func([]int) bool, l [][]int) [][]int { return deriveFilterI04x016L(p, l) }
var use_I04x016L_intersect = func(a, b [][]int) [][]int { return deriveIntersectI04x016L(a, b) }
var use_I04x016L_max = func(l [][]int, d []int) []int { return deriveMaxI04x016L(l, d) }
var use_I04x016L_max2 = func(a, b []int) []int { return deriveMaxBI04x016L(a, b) }
var use_I04x016L_min = func(l [][]int, d []int) []int { return deriveMinI04x016L(l, d) }
var use_I04x016L_min2 = func(a, b []int) []int { return deriveMinBI04x016L(a, b) }
var use_I04x016L_sort = func(l [][]int) [][]int { return deriveSortI04x016L(l) }
var use_I04x016L_takewhile = func(p func([]int) bool, l [][]int) [][]int { return deriveTakeWhileI04x016L(p, l) }
var use_I04x016L_union = func(a, b [][]int) [][]int { return deriveUnionI04x016L(a, b) }
var use_I04x016L_unique = func(l [][]int) [][]int { return deriveUniqueI04x016L(l) }
func use_I04x018_clone(a map[string]complex128) map[string]complex128 { return deriveCloneI04x018(a) }
func use_I04x018_compare(a, b map[string]complex128) int { return deriveCompareI04x018(a, b) }
func use_I04x018_comparec(a, b map[string]complex128) int { return deriveCompareCI04x018(a)(b) }
func use_I04x018_deepcopy(a, b map[string]complex128)  { deriveDeepCopyI04x018(a, b) }
func use_I04x018_equal(a, b map[string]complex128) bool { return deriveEqualI04x018(a, b) }
func use_I04x018_equalc(a, b map[string]complex128) bool { return deriveEqualCI04x018(a)(b) }
func use_I04x018_equalclone(a map[string]complex128) bool { return deriveEqualI04x018(deriveCloneI04x018(a), a) }
func use_I04x018_gostring(a map[string]complex128) string { return deriveGoStringI04x018(a) }
func use_I04x018_hash(a map[string]complex128) uint64 { return deriveHashI04x018(a) }
func use_I04x018_keys(m map[string]complex128) int { return len(deriveKeysI04x018(m)) }
func use_I04x018_sortkeys(m map[string]complex128) int { return len(deriveSortI04x018(deriveKeysI04x018(m))) }
func use_I04x020_clone(a *R15) *R15 { return deriveCloneI04x020(a) }
func use_I04x020_compare(a, b *R15) int { return deriveCompareI04x020(a, b) }
func use_I04x020_comparec(a, b *R15) int { return deriveCompareCI04x020(a)(b) }
func use_I04x020_deepcopy(a, b *R15)  { deriveDeepCopyI04x020(a, b) }
func use_I04x020_equal(a, b *R15) bool { return deriveEqualI04x020(a, b) }
func use_I04x020_equalc(a, b *R15) bool { return deriveEqualCI04x020(a)(b) }
func use_I04x020_equalclone(a *R15) bool { return deriveEqualI04x020(deriveCloneI04x020(a), a) }
func use_I04x020_hash(a *R15) uint64 { return deriveHashI04x020(a) }
var use_I04x021_clone = func(a *W16) *W16 { return deriveCloneI04x021(a) }
var use_I04x021_compare = func(a, b *W16) int { return deriveCompareI04x021(a, b) }
var use_I04x021_comparec = func(a, b *W16) int { return deriveCompareCI04x021(a)(b) }
var use_I04x021_deepcopy = func(a, b *W16)  { deriveDeepCopyI04x021(a, b) }
var use_I04x021_equal = func(a, b *W16) bool { return deriveEqualI04x021(a, b) }
var use_I04x021_equalc = func(a, b *W16) bool { return deriveEqualCI04x021(a)(b) }
var use_I04x021_equalclone = func(a *W16) bool { return deriveEqualI04x021(deriveCloneI04x021(a), a) }
var use_I04x021_hash = func(a *W16) uint64 { return deriveHashI04x021(a) }
func use_I04x022_clone(a map[string]ext.Pub) map[string]ext.Pub { return deriveCloneI04x022(a) }
func use_I04x022_compare(a, b map[string]ext.Pub) int { return deriveCompareI04x022(a, b) }
func use_I04x022_comparec(a, b map[string]ext.Pub) int { return deriveCompareCI04x022(a)(b) }
func use_I04x022_deepcopy(a, b map[string]ext.Pub)  { deriveDeepCopyI04x022(a, b) }
func use_I04x022_equal(a, b map[string]ext.Pub) bool { return deriveEqualI04x022(a, b) }
func use_I04x022_equalc(a, b map[string]ext.Pub) bool { return deriveEqualCI04x022(a)(b) }
func use_I04x022_equalclone(a map[string]ext.Pub) bool { return deriveEqualI04x022(deriveCloneI04x022(a), a) }
func use_I04x022_gostring(a map[string]ext.Pub) string { return deriveGoStringI04x022(a) }
func use_I04x022_hash(a map[string]ext.Pub) uint64 { return deriveHashI04x022(a) }
func use_I04x022_keys(m map[string]ext.Pub) int { return len(deriveKeysI04x022(m)) }
func use_I04x022_sortkeys(m map[string]ext.Pub) int { return len(deriveSortI04x022(deriveKeysI04x022(m))) }
func use_I04x022L_all(p func(map[string]ext.Pub) bool, l []map[string]ext.Pub) bool { return deriveAllI04x022L(p, l) }
func use_I04x022L_any(p func(map[string]ext.Pub) bool, l []map[string]ext.Pub) bool { return deriveAnyI04x022L(p, l) }
func use_I04x022L_contains(l []map[string]ext.Pub, x map[string]ext.Pub) bool { return deriveContainsI04x022L(l, x) }
func use_I04x022L_filter(p func(map[string]ext.Pub) bool, l []map[string]ext.Pub) []map[string]ext.Pub { return deriveFilterI04x022L(p, l) }
func use_I04x022L_intersect(a, b []map[string]ext.Pub) []map[string]ext.Pub { return deriveIntersectI04x022L(a, b) }
func use_I04x022L_max(l []map[string]ext.Pub, d map[string]ext.Pub) map[string]ext.Pub { return deriveMaxI04x022L(l, d) }
func use_I04x022L_max2(a, b map[string]ext.Pub) map[string]ext.Pub { return deriveMaxBI04x022L(a, b) }
func use_I04x022L_min(l []map[string]ext.Pub, d map[string]ext.Pub) map[string]ext.Pub { return deriveMinI04x022L(l, d) }
func use_I04x022L_min2(a, b map[string]ext.Pub) map[string]ext.Pub { return deriveMinBI04x022L(a, b) }
func use_I04x022L_sort(l []map[string]ext.Pub) []map[string]ext.Pub { return deriveSortI04x022L(l) }
func use_I04x022L_takewhile(p func(map[string]ext.Pub) bool, l []map[string]ext.Pub) []map[string]ext.Pub { return deriveTakeWhileI04x022L(p, l) }
func use_I04x022L_union(a, b []map[string]ext.Pub) []map[string]ext.Pub { return deriveUnionI04x022L(a, b) }
func use_I04x022L_unique(l []map[string]ext.Pub) []map[string]ext.Pub { return deriveUniqueI04x022L(l) }
func use_I04x023_clone(a *W17) *W17 { return deriveCloneI04x023(a) }
func use_I04x023_compare(a, b *W17) int { return deriveCompareI04x023(a, b) }
func use_I04x023_comparec(a, b *W17) int { return deriveCompareCI04x023(a)(b) }
func use_I04x023_deepcopy(a, b *W17)  { deriveDeepCopyI04x023(a, b) }
func use_I04x023_equal(a, b *W17) bool { return deriveEqualI04x023(a, b) }
func use_I04x023_equalc(a, b *W17) bool { return deriveEqualCI04x023(a)(b) }
func use_I04x023_equalclone(a *W17) bool { return deriveEqualI04x023(deriveCloneI04x023(a), a) }
func use_I04x023_gostring(a *W17) string { return deriveGoStringI04x023(a) }
func use_I04x023_hash(a *W17) uint64 { return deriveHashI04x023(a) }
