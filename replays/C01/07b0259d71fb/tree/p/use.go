package p


var use_I01x016L_max = func(l []bool, d bool) bool { return deriveMaxI01x016L(l, d) }
