package p


var use_I13x008_clone_a map[int]NFloat
var use_I13x008_clone_v = deriveCloneI13x008(use_I13x008_clone_a)
var use_I13x008_compare_a map[int]NFloat
var use_I13x008_compare_b map[int]NFloat
var use_I13x008_compare_v = deriveCompareI13x008(use_I13x008_compare_a, use_I13x008_compare_b)
var use_I13x008_comparec_a map[int]NFloat
var use_I13x008_comparec_b map[int]NFloat
var use_I13x008_comparec_v = deriveCompareCI13x008(use_I13x008_comparec_a)(use_I13x008_comparec_b)
var use_I13x008_deepcopy_a map[int]NFloat
var use_I13x008_deepcopy_b map[int]NFloat
func init() { deriveDeepCopyI13x008(use_I13x008_deepcopy_a, use_I13x008_deepcopy_b) }
var use_I13x008_equal_a map[int]NFloat
var use_I13x008_equal_b map[int]NFloat
var use_I13x008_equal_v = deriveEqualI13x008(use_I13x008_equal_a, use_I13x008_equal_b)
var use_I13x008_equalc_a map[int]NFloat
var use_I13x008_equalc_b map[int]NFloat
var use_I13x008_equalc_v = deriveEqualCI13x008(use_I13x008_equalc_a)(use_I13x008_equalc_b)
var use_I13x008_equalclone_a map[int]NFloat
var use_I13x008_equalclone_v = deriveEqualI13x008(deriveCloneI13x008(use_I13x008_equalclone_a), use_I13x008_equalclone_a)
var use_I13x008_gostring_a map[int]NFloat
var use_I13x008_gostring_v = deriveGoStringI13x008(use_I13x008_gostring_a)
var use_I13x008_hash_a map[int]NFloat
var use_I13x008_hash_v = deriveHashI13x008(use_I13x008_hash_a)
var use_I13x008_keys_m map[int]NFloat
var use_I13x008_keys_v = len(deriveKeysI13x008(use_I13x008_keys_m))
var use_I13x008_sortkeys_m map[int]NFloat
var use_I13x008_sortkeys_v = len(deriveSortI13x008(deriveKeysI13x008(use_I13x008_sortkeys_m)))
