package p


var use_I15x008_clone_a map[int]string
var use_I15x008_clone_v = deriveCloneI15x008(use_I15x008_clone_a)
var use_I15x008_compare_a map[int]string
var use_I15x008_compare_b map[int]string
var use_I15x008_compare_v = deriveCompareI15x008(use_I15x008_compare_a, use_I15x008_compare_b)
var use_I15x008_comparec_a map[int]string
var use_I15x008_comparec_b map[int]string
var use_I15x008_comparec_v = deriveCompareCI15x008(use_I15x008_comparec_a)(use_I15x008_comparec_b)
var use_I15x008_deepcopy_a map[int]string
var use_I15x008_deepcopy_b map[int]string
func init() { deriveDeepCopyI15x008(use_I15x008_deepcopy_a, use_I15x008_deepcopy_b) }
var use_I15x008_equal_a map[int]string
var use_I15x008_equal_b map[int]string
var use_I15x008_equal_v = deriveEqualI15x008(use_I15x008_equal_a, use_I15x008_equal_b)
var use_I15x008_equalc_a map[int]string
var use_I15x008_equalc_b map[int]string
var use_I15x008_equalc_v = deriveEqualCI15x008(use_I15x008_equalc_a)(use_I15x008_equalc_b)
var use_I15x008_equalclone_a map[int]string
var use_I15x008_equalclone_v = deriveEqualNI15x008(deriveCloneNI15x008(use_I15x008_equalclone_a), use_I15x008_equalclone_a)
var use_I15x008_gostring_a map[int]string
var use_I15x008_gostring_v = deriveGoStringI15x008(use_I15x008_gostring_a)
var use_I15x008_hash_a map[int]string
var use_I15x008_hash_v = deriveHashI15x008(use_I15x008_hash_a)
var use_I15x008_keys_m map[int]string
var use_I15x008_keys_v = len(deriveKeysI15x008(use_I15x008_keys_m))
var use_I15x008_sortkeys_m map[int]string
var use_I15x008_sortkeys_v = len(deriveSortI15x008(deriveKeysI15x008(use_I15x008_sortkeys_m)))
