package p


var use_I10x010_clone = func(a map[float64]int) map[float64]int { return deriveCloneI10x010(a) }
var use_I10x010_compare = func(a, b map[float64]int) int { return deriveCompareI10x010(a, b) }
var use_I10x010_comparec = func(a, b map[float64]int) int { return deriveCompareCI10x010(a)(b) }
var use_I10x010_deepcopy = func(a, b map[float64]int)  { deriveDeepCopyI10x010(a, b) }
var use_I10x010_equal = func(a, b map[float64]int) bool { return deriveEqualI10x010(a, b) }
var use_I10x010_equalc = func(a, b map[float64]int) bool { return deriveEqualCI10x010(a)(b) }
var use_I10x010_equalclone = func(a map[float64]int) bool { return deriveEqualNI10x010(deriveCloneNI10x010(a), a) }
var use_I10x010_gostring = func(a map[float64]int) string { return deriveGoStringI10x010(a) }
var use_I10x010_hash = func(a map[float64]int) uint64 { return deriveHashI10x010(a) }
var use_I10x010_keys = func(m map[float64]int) int { return len(deriveKeysI10x010(m)) }
var use_I10x010_sortkeys = func(m map[float64]int) int { return len(deriveSortI10x010(deriveKeysI10x010(m))) }
