package p


var use_I14x020_clone_a map[bool]int
var use_I14x020_clone_v = deriveCloneI14x020(use_I14x020_clone_a)
var use_I14x020_compare_a map[bool]int
var use_I14x020_compare_b map[bool]int
var use_I14x020_compare_v = deriveCompareI14x020(use_I14x020_compare_a, use_I14x020_compare_b)
var use_I14x020_comparec_a map[bool]int
var use_I14x020_comparec_b map[bool]int
var use_I14x020_comparec_v = deriveCompareCI14x020(use_I14x020_comparec_a)(use_I14x020_comparec_b)
var use_I14x020_deepcopy_a map[bool]int
var use_I14x020_deepcopy_b map[bool]int
func init() { deriveDeepCopyI14x020(use_I14x020_deepcopy_a, use_I14x020_deepcopy_b) }
var use_I14x020_equal_a map[bool]int
var use_I14x020_equal_b map[bool]int
var use_I14x020_equal_v = deriveEqualI14x020(use_I14x020_equal_a, use_I14x020_equal_b)
var use_I14x020_equalc_a map[bool]int
var use_I14x020_equalc_b map[bool]int
var use_I14x020_equalc_v = deriveEqualCI14x020(use_I14x020_equalc_a)(use_I14x020_equalc_b)
var use_I14x020_equalclone_a map[bool]int
var use_I14x020_equalclone_v = deriveEqualNI14x020(deriveCloneNI14x020(use_I14x020_equalclone_a), use_I14x020_equalclone_a)
var use_I14x020_gostring_a map[bool]int
var use_I14x020_gostring_v = deriveGoStringI14x020(use_I14x020_gostring_a)
var use_I14x020_hash_a map[bool]int
var use_I14x020_hash_v = deriveHashI14x020(use_I14x020_hash_a)
var use_I14x020_keys_m map[bool]int
var use_I14x020_keys_v = len(deriveKeysI14x020(use_I14x020_keys_m))
var use_I14x020_sortkeys_m map[bool]int
var use_I14x020_sortkeys_v = len(deriveSortI14x020(deriveKeysI14x020(use_I14x020_sortkeys_m)))
