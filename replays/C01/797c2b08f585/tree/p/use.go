package p


func use_I11x020_clone(a [2]NFloat) [2]NFloat { return deriveCloneI11x020(a) }
func use_I11x020_compare(a, b [2]NFloat) int { return deriveCompareI11x020(a, b) }
func use_I11x020_comparec(a, b [2]NFloat) int { return deriveCompareCI11x020(a)(b) }
func use_I11x020_equal(a, b [2]NFloat) bool { return deriveEqualI11x020(a, b) }
func use_I11x020_equalc(a, b [2]NFloat) bool { return deriveEqualCI11x020(a)(b) }
func use_I11x020_equalclone(a [2]NFloat) bool { return deriveEqualI11x020(deriveCloneI11x020(a), a) }
func use_I11x020_gostring(a [2]NFloat) string { return deriveGoStringI11x020(a) }
func use_I11x020_hash(a [2]NFloat) uint64 { return deriveHashI11x020(a) }
