package p


var use_I00x007_clone = func(a *W4) *W4 { return deriveCloneI00x007(a) }
var use_I00x007_compare = func(a, b *W4) int { return deriveCompareI00x007(a, b) }
var use_I00x007_comparec = func(a, b *W4) int { return deriveCompareCI00x007(a)(b) }
var use_I00x007_deepcopy = func(a, b *W4)  { deriveDeepCopyI00x007(a, b) }
var use_I00x007_equal = func(a, b *W4) bool { return deriveEqualI00x007(a, b) }
var use_I00x007_equalc = func(a, b *W4) bool { return deriveEqualCI00x007(a)(b) }
var use_I00x007_equalclone = func(a *W4) bool { return deriveEqualNI00x007(deriveCloneNI00x007(a), a) }
var use_I00x007_gostring = func(a *W4) string { return deriveGoStringI00x007(a) }
var use_I00x007_hash = func(a *W4) uint64 { return deriveHashI00x007(a) }
