package p

import (
	"testing"
)

func TestNothing(t *testing.T) {}

func use_I02x000_clone(a [2][]NInt) [2][]NInt { return deriveCloneI02x000(a) }
func use_I02x000_compare(a, b [2][]NInt) int { return deriveCompareI02x000(a, b) }
func use_I02x000_comparec(a, b [2][]NInt) int { return deriveCompareCI02x000(a)(b) }
func use_I02x000_equal(a, b [2][]NInt) bool { return deriveEqualI02x000(a, b) }
func use_I02x000_equalc(a, b [2][]NInt) bool { return deriveEqualCI02x000(a)(b) }
func use_I02x000_equalclone(a [2][]NInt) bool { return deriveEqualNI02x000(deriveCloneNI02x000(a), a) }
func use_I02x000_gostring(a [2][]NInt) string { return deriveGoStringI02x000(a) }
func use_I02x000_hash(a [2][]NInt) uint64 { return deriveHashI02x000(a) }
