package p


