package p


var use_I09x006_clone = func(a [2]map[string]bool) [2]map[string]bool { return deriveCloneI09x006(a) }
var use_I09x006_compare = func(a, b [2]map[string]bool) int { return deriveCompareI09x006(a, b) }
var use_I09x006_comparec = func(a, b [2]map[string]bool) int { return deriveCompareCI09x006(a)(b) }
var use_I09x006_equal = func(a, b [2]map[string]bool) bool { return deriveEqualI09x006(a, b) }
var use_I09x006_equalc = func(a, b [2]map[string]bool) bool { return deriveEqualCI09x006(a)(b) }
var use_I09x006_equalclone = func(a [2]map[string]bool) bool { return deriveEqualNI09x006(deriveCloneNI09x006(a), a) }
var use_I09x006_gostring = func(a [2]map[string]bool) string { return deriveGoStringI09x006(a) }
var use_I09x006_hash = func(a [2]map[string]bool) uint64 { return deriveHashI09x006(a) }
