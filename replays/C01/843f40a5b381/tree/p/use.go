package p


var use_I15x002_clone_a map[NInt]*int
var use_I15x002_clone_v = deriveCloneI15x002(use_I15x002_clone_a)
var use_I15x002_compare_a map[NInt]*int
var use_I15x002_compare_b map[NInt]*int
var use_I15x002_compare_v = deriveCompareI15x002(use_I15x002_compare_a, use_I15x002_compare_b)
var use_I15x002_comparec_a map[NInt]*int
var use_I15x002_comparec_b map[NInt]*int
var use_I15x002_comparec_v = deriveCompareCI15x002(use_I15x002_comparec_a)(use_I15x002_comparec_b)
var use_I15x002_deepcopy_a map[NInt]*int
var use_I15x002_deepcopy_b map[NInt]*int
func init() { deriveDeepCopyI15x002(use_I15x002_deepcopy_a, use_I15x002_deepcopy_b) }
var use_I15x002_equal_a map[NInt]*int
var use_I15x002_equal_b map[NInt]*int
var use_I15x002_equal_v = deriveEqualI15x002(use_I15x002_equal_a, use_I15x002_equal_b)
var use_I15x002_equalc_a map[NInt]*int
var use_I15x002_equalc_b map[NInt]*int
var use_I15x002_equalc_v = deriveEqualCI15x002(use_I15x002_equalc_a)(use_I15x002_equalc_b)
var use_I15x002_equalclone_a map[NInt]*int
var use_I15x002_equalclone_v = deriveEqualNI15x002(deriveCloneNI15x002(use_I15x002_equalclone_a), use_I15x002_equalclone_a)
var use_I15x002_gostring_a map[NInt]*int
var use_I15x002_gostring_v = deriveGoStringI15x002(use_I15x002_gostring_a)
var use_I15x002_hash_a map[NInt]*int
var use_I15x002_hash_v = deriveHashI15x002(use_I15x002_hash_a)
var use_I15x002_keys_m map[NInt]*int
var use_I15x002_keys_v = len(deriveKeysI15x002(use_I15x002_keys_m))
var use_I15x002_sortkeys_m map[NInt]*int
var use_I15x002_sortkeys_v = len(deriveSortI15x002(deriveKeysI15x002(use_I15x002_sortkeys_m)))
