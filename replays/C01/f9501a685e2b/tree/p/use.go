package p


var use_I10x000_clone = func(a map[bool]string) map[bool]string { return deriveCloneI10x000(a) }
var use_I10x000_compare = func(a, b map[bool]string) int { return deriveCompareI10x000(a, b) }
var use_I10x000_comparec = func(a, b map[bool]string) int { return deriveCompareCI10x000(a)(b) }
var use_I10x000_deepcopy = func(a, b map[bool]string)  { deriveDeepCopyI10x000(a, b) }
var use_I10x000_equal = func(a, b map[bool]string) bool { return deriveEqualI10x000(a, b) }
var use_I10x000_equalc = func(a, b map[bool]string) bool { return deriveEqualCI10x000(a)(b) }
var use_I10x000_equalclone = func(a map[bool]string) bool { return deriveEqualNI10x000(deriveCloneNI10x000(a), a) }
var use_I10x000_gostring = func(a map[bool]string) string { return deriveGoStringI10x000(a) }
var use_I10x000_hash = func(a map[bool]string) uint64 { return deriveHashI10x000(a) }
var use_I10x000_keys = func(m map[bool]string) int { return len(deriveKeysI10x000(m)) }
var use_I10x000_sortkeys = func(m map[bool]string) int { return len(deriveSortI10x000(deriveKeysI10x000(m))) }
