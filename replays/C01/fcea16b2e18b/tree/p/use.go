package p


var use_I15x004_clone = func(a map[string][2]int) map[string][2]int { return deriveCloneI15x004(a) }
var use_I15x004_compare = func(a, b map[string][2]int) int { return deriveCompareI15x004(a, b) }
var use_I15x004_comparec = func(a, b map[string][2]int) int { return deriveCompareCI15x004(a)(b) }
var use_I15x004_deepcopy = func(a, b map[string][2]int)  { deriveDeepCopyI15x004(a, b) }
var use_I15x004_equal = func(a, b map[string][2]int) bool { return deriveEqualI15x004(a, b) }
var use_I15x004_equalc = func(a, b map[string][2]int) bool { return deriveEqualCI15x004(a)(b) }
var use_I15x004_equalclone = func(a map[string][2]int) bool { return deriveEqualNI15x004(deriveCloneNI15x004(a), a) }
var use_I15x004_gostring = func(a map[string][2]int) string { return deriveGoStringI15x004(a) }
var use_I15x004_hash = func(a map[string][2]int) uint64 { return deriveHashI15x004(a) }
var use_I15x004_keys = func(m map[string][2]int) int { return len(deriveKeysI15x004(m)) }
var use_I15x004_sortkeys = func(m map[string][2]int) int { return len(deriveSortI15x004(deriveKeysI15x004(m))) }
