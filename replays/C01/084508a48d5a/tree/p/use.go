package p

import (
	ext "scratch/ext"
)

var use_I11x010_clone_a ext.Pub
var use_I11x010_clone_v = deriveCloneI11x010(use_I11x010_clone_a)
var use_I11x010_compare_a ext.Pub
var use_I11x010_compare_b ext.Pub
var use_I11x010_compare_v = deriveCompareI11x010(use_I11x010_compare_a, use_I11x010_compare_b)
var use_I11x010_comparec_a ext.Pub
var use_I11x010_comparec_b ext.Pub
var use_I11x010_comparec_v = deriveCompareCI11x010(use_I11x010_comparec_a)(use_I11x010_comparec_b)
var use_I11x010_equal_a ext.Pub
var use_I11x010_equal_b ext.Pub
var use_I11x010_equal_v = deriveEqualI11x010(use_I11x010_equal_a, use_I11x010_equal_b)
var use_I11x010_equalc_a ext.Pub
var use_I11x010_equalc_b ext.Pub
var use_I11x010_equalc_v = deriveEqualCI11x010(use_I11x010_equalc_a)(use_I11x010_equalc_b)
var use_I11x010_equalclone_a ext.Pub
var use_I11x010_equalclone_v = deriveEqualNI11x010(deriveCloneNI11x010(use_I11x010_equalclone_a), use_I11x010_equalclone_a)
var use_I11x010_gostring_a ext.Pub
var use_I11x010_gostring_v = deriveGoStringI11x010(use_I11x010_gostring_a)
var use_I11x010_hash_a ext.Pub
var use_I11x010_hash_v = deriveHashI11x010(use_I11x010_hash_a)
