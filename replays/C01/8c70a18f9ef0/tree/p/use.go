package p

import (
	ext "scratch/ext"
)

var use_I15x018_clone_a [2]ext.Pub
var use_I15x018_clone_v = deriveCloneI15x018(use_I15x018_clone_a)
var use_I15x018_compare_a [2]ext.Pub
var use_I15x018_compare_b [2]ext.Pub
var use_I15x018_compare_v = deriveCompareI15x018(use_I15x018_compare_a, use_I15x018_compare_b)
var use_I15x018_comparec_a [2]ext.Pub
var use_I15x018_comparec_b [2]ext.Pub
var use_I15x018_comparec_v = deriveCompareCI15x018(use_I15x018_comparec_a)(use_I15x018_comparec_b)
var use_I15x018_equal_a [2]ext.Pub
var use_I15x018_equal_b [2]ext.Pub
var use_I15x018_equal_v = deriveEqualI15x018(use_I15x018_equal_a, use_I15x018_equal_b)
var use_I15x018_equalc_a [2]ext.Pub
var use_I15x018_equalc_b [2]ext.Pub
var use_I15x018_equalc_v = deriveEqualCI15x018(use_I15x018_equalc_a)(use_I15x018_equalc_b)
var use_I15x018_equalclone_a [2]ext.Pub
var use_I15x018_equalclone_v = deriveEqualNI15x018(deriveCloneNI15x018(use_I15x018_equalclone_a), use_I15x018_equalclone_a)
var use_I15x018_gostring_a [2]ext.Pub
var use_I15x018_gostring_v = deriveGoStringI15x018(use_I15x018_gostring_a)
var use_I15x018_hash_a [2]ext.Pub
var use_I15x018_hash_v = deriveHashI15x018(use_I15x018_hash_a)
