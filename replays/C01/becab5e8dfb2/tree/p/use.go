package p


func use_I05x004_clone(a map[string]map[string]NStr) map[string]map[string]NStr { return deriveCloneI05x004(a) }
func use_I05x004_compare(a, b map[string]map[string]NStr) int { return deriveCompareI05x004(a, b) }
func use_I05x004_comparec(a, b map[string]map[string]NStr) int { return deriveCompareCI05x004(a)(b) }
func use_I05x004_deepcopy(a, b map[string]map[string]NStr)  { deriveDeepCopyI05x004(a, b) }
func use_I05x004_equal(a, b map[string]map[string]NStr) bool { return deriveEqualI05x004(a, b) }
func use_I05x004_equalc(a, b map[string]map[string]NStr) bool { return deriveEqualCI05x004(a)(b) }
func use_I05x004_equalclone(a map[string]map[string]NStr) bool { return deriveEqualNI05x004(deriveCloneNI05x004(a), a) }
func use_I05x004_gostring(a map[string]map[string]NStr) string { return deriveGoStringI05x004(a) }
func use_I05x004_hash(a map[string]map[string]NStr) uint64 { return deriveHashI05x004(a) }
func use_I05x004_keys(m map[string]map[string]NStr) int { return len(deriveKeysI05x004(m)) }
func use_I05x004_sortkeys(m map[string]map[string]NStr) int { return len(deriveSortI05x004(deriveKeysI05x004(m))) }
