package p


func use_I06x022_clone(a map[string]NStr) map[string]NStr { return deriveCloneI06x022(a) }
func use_I06x022_compare(a, b map[string]NStr) int { return deriveCompareI06x022(a, b) }
func use_I06x022_comparec(a, b map[string]NStr) int { return deriveCompareCI06x022(a)(b) }
func use_I06x022_deepcopy(a, b map[string]NStr)  { deriveDeepCopyI06x022(a, b) }
func use_I06x022_equal(a, b map[string]NStr) bool { return deriveEqualI06x022(a, b) }
func use_I06x022_equalc(a, b map[string]NStr) bool { return deriveEqualCI06x022(a)(b) }
func use_I06x022_equalclone(a map[string]NStr) bool { return deriveEqualNI06x022(deriveCloneNI06x022(a), a) }
func use_I06x022_gostring(a map[string]NStr) string { return deriveGoStringI06x022(a) }
func use_I06x022_hash(a map[string]NStr) uint64 { return deriveHashI06x022(a) }
func use_I06x022_keys(m map[string]NStr) int { return len(deriveKeysI06x022(m)) }
func use_I06x022_sortkeys(m map[string]NStr) int { return len(deriveSortI06x022(deriveKeysI06x022(m))) }
