package p


var use_I15x020_clone = func(a map[int][2]NInt) map[int][2]NInt { return deriveCloneI15x020(a) }
var use_I15x020_compare = func(a, b map[int][2]NInt) int { return deriveCompareI15x020(a, b) }
var use_I15x020_comparec = func(a, b map[int][2]NInt) int { return deriveCompareCI15x020(a)(b) }
var use_I15x020_deepcopy = func(a, b map[int][2]NInt)  { deriveDeepCopyI15x020(a, b) }
var use_I15x020_equal = func(a, b map[int][2]NInt) bool { return deriveEqualI15x020(a, b) }
var use_I15x020_equalc = func(a, b map[int][2]NInt) bool { return deriveEqualCI15x020(a)(b) }
var use_I15x020_equalclone = func(a map[int][2]NInt) bool { return deriveEqualNI15x020(deriveCloneNI15x020(a), a) }
var use_I15x020_gostring = func(a map[int][2]NInt) string { return deriveGoStringI15x020(a) }
var use_I15x020_hash = func(a map[int][2]NInt) uint64 { return deriveHashI15x020(a) }
var use_I15x020_keys = func(m map[int][2]NInt) int { return len(deriveKeysI15x020(m)) }
var use_I15x020_sortkeys = func(m map[int][2]NInt) int { return len(deriveSortI15x020(deriveKeysI15x020(m))) }
