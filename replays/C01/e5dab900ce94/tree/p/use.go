package p


var use_I00x012_clone_a [2]SP
var use_I00x012_clone_v = deriveCloneI00x012(use_I00x012_clone_a)
var use_I00x012_compare_a [2]SP
var use_I00x012_compare_b [2]SP
var use_I00x012_compare_v = deriveCompareI00x012(use_I00x012_compare_a, use_I00x012_compare_b)
var use_I00x012_comparec_a [2]SP
var use_I00x012_comparec_b [2]SP
var use_I00x012_comparec_v = deriveCompareCI00x012(use_I00x012_comparec_a)(use_I00x012_comparec_b)
var use_I00x012_equal_a [2]SP
var use_I00x012_equal_b [2]SP
var use_I00x012_equal_v = deriveEqualI00x012(use_I00x012_equal_a, use_I00x012_equal_b)
var use_I00x012_equalc_a [2]SP
var use_I00x012_equalc_b [2]SP
var use_I00x012_equalc_v = deriveEqualCI00x012(use_I00x012_equalc_a)(use_I00x012_equalc_b)
var use_I00x012_equalclone_a [2]SP
var use_I00x012_equalclone_v = deriveEqualNI00x012(deriveCloneNI00x012(use_I00x012_equalclone_a), use_I00x012_equalclone_a)
var use_I00x012_gostring_a [2]SP
var use_I00x012_gostring_v = deriveGoStringI00x012(use_I00x012_gostring_a)
var use_I00x012_hash_a [2]SP
var use_I00x012_hash_v = deriveHashI00x012(use_I00x012_hash_a)
