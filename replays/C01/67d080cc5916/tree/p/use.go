package p


var use_I00x002_clone = func(a [2]SV) [2]SV { return deriveCloneI00x002(a) }
var use_I00x002_compare = func(a, b [2]SV) int { return deriveCompareI00x002(a, b) }
var use_I00x002_comparec = func(a, b [2]SV) int { return deriveCompareCI00x002(a)(b) }
var use_I00x002_equal = func(a, b [2]SV) bool { return deriveEqualI00x002(a, b) }
var use_I00x002_equalc = func(a, b [2]SV) bool { return deriveEqualCI00x002(a)(b) }
var use_I00x002_equalclone = func(a [2]SV) bool { return deriveEqualNI00x002(deriveCloneNI00x002(a), a) }
var use_I00x002_gostring = func(a [2]SV) string { return deriveGoStringI00x002(a) }
var use_I00x002_hash = func(a [2]SV) uint64 { return deriveHashI00x002(a) }
