package p


func use_I07x014L_unique(l []*NFloat) []*NFloat { return deriveUniqueI07x014L(l) }
