package p


var use_I18x012_clone_a map[string]float64
var use_I18x012_clone_v = deriveCloneI18x012(use_I18x012_clone_a)
var use_I18x012_compare_a map[string]float64
var use_I18x012_compare_b map[string]float64
var use_I18x012_compare_v = deriveCompareI18x012(use_I18x012_compare_a, use_I18x012_compare_b)
var use_I18x012_comparec_a map[string]float64
var use_I18x012_comparec_b map[string]float64
var use_I18x012_comparec_v = deriveCompareCI18x012(use_I18x012_comparec_a)(use_I18x012_comparec_b)
var use_I18x012_deepcopy_a map[string]float64
var use_I18x012_deepcopy_b map[string]float64
func init() { deriveDeepCopyI18x012(use_I18x012_deepcopy_a, use_I18x012_deepcopy_b) }
var use_I18x012_equal_a map[string]float64
var use_I18x012_equal_b map[string]float64
var use_I18x012_equal_v = deriveEqualI18x012(use_I18x012_equal_a, use_I18x012_equal_b)
var use_I18x012_equalc_a map[string]float64
var use_I18x012_equalc_b map[string]float64
var use_I18x012_equalc_v = deriveEqualCI18x012(use_I18x012_equalc_a)(use_I18x012_equalc_b)
var use_I18x012_equalclone_a map[string]float64
var use_I18x012_equalclone_v = deriveEqualNI18x012(deriveCloneNI18x012(use_I18x012_equalclone_a), use_I18x012_equalclone_a)
var use_I18x012_gostring_a map[string]float64
var use_I18x012_gostring_v = deriveGoStringI18x012(use_I18x012_gostring_a)
var use_I18x012_hash_a map[string]float64
var use_I18x012_hash_v = deriveHashI18x012(use_I18x012_hash_a)
var use_I18x012_keys_m map[string]float64
var use_I18x012_keys_v = len(deriveKeysI18x012(use_I18x012_keys_m))
var use_I18x012_sortkeys_m map[string]float64
var use_I18x012_sortkeys_v = len(deriveSortI18x012(deriveKeysI18x012(use_I18x012_sortkeys_m)))
