package p

import (
	ext "scratch/ext"
)

var use_I09x008_clone_a map[string][2]ext.Priv
var use_I09x008_clone_v = deriveCloneI09x008(use_I09x008_clone_a)
