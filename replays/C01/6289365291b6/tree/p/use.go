package p


var use_I08x014_clone_a map[SV]int
var use_I08x014_clone_v = deriveCloneI08x014(use_I08x014_clone_a)
var use_I08x014_compare_a map[SV]int
var use_I08x014_compare_b map[SV]int
var use_I08x014_compare_v = deriveCompareI08x014(use_I08x014_compare_a, use_I08x014_compare_b)
var use_I08x014_comparec_a map[SV]int
var use_I08x014_comparec_b map[SV]int
var use_I08x014_comparec_v = deriveCompareCI08x014(use_I08x014_comparec_a)(use_I08x014_comparec_b)
var use_I08x014_deepcopy_a map[SV]int
var use_I08x014_deepcopy_b map[SV]int
func init() { deriveDeepCopyI08x014(use_I08x014_deepcopy_a, use_I08x014_deepcopy_b) }
var use_I08x014_equal_a map[SV]int
var use_I08x014_equal_b map[SV]int
var use_I08x014_equal_v = deriveEqualI08x014(use_I08x014_equal_a, use_I08x014_equal_b)
var use_I08x014_equalc_a map[SV]int
var use_I08x014_equalc_b map[SV]int
var use_I08x014_equalc_v = deriveEqualCI08x014(use_I08x014_equalc_a)(use_I08x014_equalc_b)
var use_I08x014_equalclone_a map[SV]int
var use_I08x014_equalclone_v = deriveEqualNI08x014(deriveCloneNI08x014(use_I08x014_equalclone_a), use_I08x014_equalclone_a)
var use_I08x014_gostring_a map[SV]int
var use_I08x014_gostring_v = deriveGoStringI08x014(use_I08x014_gostring_a)
var use_I08x014_hash_a map[SV]int
var use_I08x014_hash_v = deriveHashI08x014(use_I08x014_hash_a)
var use_I08x014_keys_m map[SV]int
var use_I08x014_keys_v = len(deriveKeysI08x014(use_I08x014_keys_m))
var use_I08x014_sortkeys_m map[SV]int
var use_I08x014_sortkeys_v = len(deriveSortI08x014(deriveKeysI08x014(use_I08x014_sortkeys_m)))
