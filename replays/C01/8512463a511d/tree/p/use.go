package p


func use_I10x020_clone(a *bool) *bool { return deriveCloneI10x020(a) }
func use_I10x020_compare(a, b *bool) int { return deriveCompareI10x020(a, b) }
func use_I10x020_comparec(a, b *bool) int { return deriveCompareCI10x020(a)(b) }
func use_I10x020_deepcopy(a, b *bool)  { deriveDeepCopyI10x020(a, b) }
func use_I10x020_equal(a, b *bool) bool { return deriveEqualI10x020(a, b) }
func use_I10x020_equalc(a, b *bool) bool { return deriveEqualCI10x020(a)(b) }
func use_I10x020_equalclone(a *bool) bool { return deriveEqualNI10x020(deriveCloneNI10x020(a), a) }
func use_I10x020_gostring(a *bool) string { return deriveGoStringI10x020(a) }
func use_I10x020_hash(a *bool) uint64 { return deriveHashI10x020(a) }
