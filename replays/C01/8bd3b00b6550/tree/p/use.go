package p


func use_I08x010_clone(a map[float64]SP) map[float64]SP { return deriveCloneI08x010(a) }
func use_I08x010_compare(a, b map[float64]SP) int { return deriveCompareI08x010(a, b) }
func use_I08x010_comparec(a, b map[float64]SP) int { return deriveCompareCI08x010(a)(b) }
func use_I08x010_deepcopy(a, b map[float64]SP)  { deriveDeepCopyI08x010(a, b) }
func use_I08x010_equal(a, b map[float64]SP) bool { return deriveEqualI08x010(a, b) }
func use_I08x010_equalc(a, b map[float64]SP) bool { return deriveEqualCI08x010(a)(b) }
func use_I08x010_equalclone(a map[float64]SP) bool { return deriveEqualNI08x010(deriveCloneNI08x010(a), a) }
func use_I08x010_gostring(a map[float64]SP) string { return deriveGoStringI08x010(a) }
func use_I08x010_hash(a map[float64]SP) uint64 { return deriveHashI08x010(a) }
func use_I08x010_keys(m map[float64]SP) int { return len(deriveKeysI08x010(m)) }
func use_I08x010_sortkeys(m map[float64]SP) int { return len(deriveSortI08x010(deriveKeysI08x010(m))) }
