package p


