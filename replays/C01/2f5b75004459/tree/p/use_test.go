package p

import (
	ext "scratch/ext"
	"testing"
)

func TestNothing(t *testing.T) {}

func use_I04x008_clone(a [2]ext.Priv) [2]ext.Priv { return deriveCloneI04x008(a) }
func use_I04x008_compare(a, b [2]ext.Priv) int { return deriveCompareI04x008(a, b) }
func use_I04x008_comparec(a, b [2]ext.Priv) int { return deriveCompareCI04x008(a)(b) }
func use_I04x008_equal(a, b [2]ext.Priv) bool { return deriveEqualI04x008(a, b) }
func use_I04x008_equalc(a, b [2]ext.Priv) bool { return deriveEqualCI04x008(a)(b) }
func use_I04x008_equalclone(a [2]ext.Priv) bool { return deriveEqualNI04x008(deriveCloneNI04x008(a), a) }
func use_I04x008_hash(a [2]ext.Priv) uint64 { return deriveHashI04x008(a) }
