package p

import (
	a_dup "scratch/a/dup"
	b_dup "scratch/b/dup"
	ext "scratch/ext"
	"strings"
)

type NInt int64

type NStr string

type NFloat float32

type NBool bool

type NU8 uint8

type SV struct {
	A int
	B string
	C [2]bool
	D NInt
}

type SP struct {
	P *int
	S []string
	M map[string]int
	N NStr
	V SV
}

type SE struct {
	SV
	*SP
	X uint16
}

type SR struct {
	V int
	Next *SR
	Kids []SR
	M map[string]*SR
}

type SEq struct {
	A int
	L []int
	Q *string
}

type SCi struct {
	Word string
}

type NSlice []int

type NMap map[string]SV

type NArr [3]string

type NPtr *int

type W1 struct {
	Pre int
	F uint8
	Post string
}

type R2 struct {
	f0 SEq
	F1 SR
	f2 NStr
	F3 uint64
	f4 a_dup.T
	F5 int32
}

type R3 struct {
	F0 [0]complex64
	F1 byte
	F2 map[[2]int]R2
	F3 [3]map[float64]SR
	f4 uint64
	F5 [0]bool
}

type W4 struct {
	Pre int
	F R3
	Post string
}

type W5 struct {
	Pre int
	F [2]bool
	Post string
}

type W6 struct {
	Pre int
	F map[int][]SR
	Post string
}

type W7 struct {
	Pre int
	F [2]ext.Priv
	Post string
}

type W8 struct {
	Pre int
	F *map[uint8]int
	Post string
}

type W9 struct {
	Pre int
	F map[string][]float64
	Post string
}

type W10 struct {
	Pre int
	F []complex128
	Post string
}

type W11 struct {
	Pre int
	F []int
	Post string
}

type W12 struct {
	Pre int
	F map[string]complex128
	Post string
}

type R13 struct {
	F0 NU8
	F1 uint64
	F2 ext.Priv
	F3 uint64
	F4 a_dup.T
	F5 SR
	F6 a_dup.T
}

type R14 struct {
	F0 SV
	f1 b_dup.T
	F2 float64
	F3 NInt
	F4 uint64
	F5 SCi
	F6 float32
	f7 uintptr
}

type R15 struct {
	F0 []SV
	F1 R13
	f2 R14
	F3 [3]int32
}

type W16 struct {
	Pre int
	F *R15
	Post string
}

type W17 struct {
	Pre int
	F map[string]ext.Pub
	Post string
}

func (this *SEq) Equal(that *SEq) bool { return deriveEqualMSEq(this, that) }

func (this *SEq) Compare(that *SEq) int { return deriveCompareMSEq(this, that) }

func (this *SCi) Equal(that *SCi) bool {
	if this == nil || that == nil {
		return this == nil && that == nil
	}
	return strings.EqualFold(this.Word, that.Word)
}

func (this *SCi) Compare(that *SCi) int {
	if this == nil {
		if that == nil {
			return 0
		}
		return -1
	}
	if that == nil {
		return 1
	}
	return strings.Compare(strings.ToLower(this.Word), strings.ToLower(that.Word))
}

