package p


