package p

import (
	"testing"
)

func TestNothing(t *testing.T) {}

func use_I03x020_clone(a *map[uint8]*map[uint8]SE) *map[uint8]*map[uint8]SE { return deriveCloneI03x020(a) }
func use_I03x020_compare(a, b *map[uint8]*map[uint8]SE) int { return deriveCompareI03x020(a, b) }
func use_I03x020_comparec(a, b *map[uint8]*map[uint8]SE) int { return deriveCompareCI03x020(a)(b) }
func use_I03x020_deepcopy(a, b *map[uint8]*map[uint8]SE)  { deriveDeepCopyI03x020(a, b) }
func use_I03x020_equal(a, b *map[uint8]*map[uint8]SE) bool { return deriveEqualI03x020(a, b) }
func use_I03x020_equalc(a, b *map[uint8]*map[uint8]SE) bool { return deriveEqualCI03x020(a)(b) }
func use_I03x020_equalclone(a *map[uint8]*map[uint8]SE) bool { return deriveEqualNI03x020(deriveCloneNI03x020(a), a) }
func use_I03x020_gostring(a *map[uint8]*map[uint8]SE) string { return deriveGoStringI03x020(a) }
func use_I03x020_hash(a *map[uint8]*map[uint8]SE) uint64 { return deriveHashI03x020(a) }
