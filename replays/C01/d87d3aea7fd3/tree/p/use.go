package p


var use_I08x008_clone = func(a map[int][2]complex128) map[int][2]complex128 { return deriveCloneI08x008(a) }
var use_I08x008_compare = func(a, b map[int][2]complex128) int { return deriveCompareI08x008(a, b) }
var use_I08x008_comparec = func(a, b map[int][2]complex128) int { return deriveCompareCI08x008(a)(b) }
var use_I08x008_deepcopy = func(a, b map[int][2]complex128)  { deriveDeepCopyI08x008(a, b) }
var use_I08x008_equal = func(a, b map[int][2]complex128) bool { return deriveEqualI08x008(a, b) }
var use_I08x008_equalc = func(a, b map[int][2]complex128) bool { return deriveEqualCI08x008(a)(b) }
var use_I08x008_equalclone = func(a map[int][2]complex128) bool { return deriveEqualNI08x008(deriveCloneNI08x008(a), a) }
var use_I08x008_gostring = func(a map[int][2]complex128) string { return deriveGoStringI08x008(a) }
var use_I08x008_hash = func(a map[int][2]complex128) uint64 { return deriveHashI08x008(a) }
var use_I08x008_keys = func(m map[int][2]complex128) int { return len(deriveKeysI08x008(m)) }
var use_I08x008_sortkeys = func(m map[int][2]complex128) int { return len(deriveSortI08x008(deriveKeysI08x008(m))) }
