package p


var use_I08x020_clone = func(a map[int][2]SP) map[int][2]SP { return deriveCloneI08x020(a) }
var use_I08x020_compare = func(a, b map[int][2]SP) int { return deriveCompareI08x020(a, b) }
var use_I08x020_comparec = func(a, b map[int][2]SP) int { return deriveCompareCI08x020(a)(b) }
var use_I08x020_deepcopy = func(a, b map[int][2]SP)  { deriveDeepCopyI08x020(a, b) }
var use_I08x020_equal = func(a, b map[int][2]SP) bool { return deriveEqualI08x020(a, b) }
var use_I08x020_equalc = func(a, b map[int][2]SP) bool { return deriveEqualCI08x020(a)(b) }
var use_I08x020_equalclone = func(a map[int][2]SP) bool { return deriveEqualI08x020(deriveCloneI08x020(a), a) }
var use_I08x020_gostring = func(a map[int][2]SP) string { return deriveGoStringI08x020(a) }
var use_I08x020_hash = func(a map[int][2]SP) uint64 { return deriveHashI08x020(a) }
var use_I08x020_keys = func(m map[int][2]SP) int { return len(deriveKeysI08x020(m)) }
