package p


