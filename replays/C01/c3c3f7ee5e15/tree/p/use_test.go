package p

import (
	"testing"
)

func TestNothing(t *testing.T) {}

func use_I14x007_deepcopy(a, b *W6)  { deriveDeepCopyI14x007(a, b) }
