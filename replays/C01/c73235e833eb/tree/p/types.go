package p

import (
	ext "scratch/ext"
	"strings"
)

type NInt int64

type NStr string

type NFloat float32

type NBool bool

type NU8 uint8

type SV struct {
	A int
	B string
	C [2]bool
	D NInt
}

type SP struct {
	P *int
	S []string
	M map[string]int
	N NStr
	V SV
}

type SE struct {
	SV
	*SP
	X uint16
}

type SR struct {
	V int
	Next *SR
	Kids []SR
	M map[string]*SR
}

type SEq struct {
	A int
	L []int
	Q *string
}

type SCi struct {
	Word string
}

type NSlice []int

type NMap map[string]SV

type NArr [3]string

type NPtr *int

type W1 struct {
	Pre int
	F []map[NStr]int
	Post string
}

type W2 struct {
	Pre int
	F *map[int]SV
	Post string
}

type W3 struct {
	Pre int
	F []float64
	Post string
}

type W4 struct {
	Pre int
	F *map[int]string
	Post string
}

type W5 struct {
	Pre int
	F map[int]NFloat
	Post string
}

type W6 struct {
	Pre int
	F []rune
	Post string
}

type W7 struct {
	Pre int
	F [2][2]bool
	Post string
}

type W8 struct {
	Pre int
	F [2][2]string
	Post string
}

type W9 struct {
	Pre int
	F map[int][]NStr
	Post string
}

type W10 struct {
	Pre int
	F map[[2]int]int64
	Post string
}

type W11 struct {
	Pre int
	F *SR
	Post string
}

type W12 struct {
	Pre int
	F *ext.Priv
	Post string
}

func (this *SEq) Equal(that *SEq) bool { return deriveEqualMSEq(this, that) }

func (this *SEq) Compare(that *SEq) int { return deriveCompareMSEq(this, that) }

func (this *SCi) Equal(that *SCi) bool {
	if this == nil || that == nil {
		return this == nil && that == nil
	}
	return strings.EqualFold(this.Word, that.Word)
}

func (this *SCi) Compare(that *SCi) int {
	if this == nil {
		if that == nil {
			return 0
		}
		return -1
	}
	if that == nil {
		return 1
	}
	return strings.Compare(strings.ToLower(this.Word), strings.ToLower(that.Word))
}

