package p


var use_I13x016_clone_a map[int][]NStr
var use_I13x016_clone_v = deriveCloneI13x016(use_I13x016_clone_a)
var use_I13x016_compare_a map[int][]NStr
var use_I13x016_compare_b map[int][]NStr
var use_I13x016_compare_v = deriveCompareI13x016(use_I13x016_compare_a, use_I13x016_compare_b)
var use_I13x016_comparec_a map[int][]NStr
var use_I13x016_comparec_b map[int][]NStr
var use_I13x016_comparec_v = deriveCompareCI13x016(use_I13x016_comparec_a)(use_I13x016_comparec_b)
var use_I13x016_deepcopy_a map[int][]NStr
var use_I13x016_deepcopy_b map[int][]NStr
func init() { deriveDeepCopyI13x016(use_I13x016_deepcopy_a, use_I13x016_deepcopy_b) }
var use_I13x016_equal_a map[int][]NStr
var use_I13x016_equal_b map[int][]NStr
var use_I13x016_equal_v = deriveEqualI13x016(use_I13x016_equal_a, use_I13x016_equal_b)
var use_I13x016_equalc_a map[int][]NStr
var use_I13x016_equalc_b map[int][]NStr
var use_I13x016_equalc_v = deriveEqualCI13x016(use_I13x016_equalc_a)(use_I13x016_equalc_b)
var use_I13x016_equalclone_a map[int][]NStr
var use_I13x016_equalclone_v = deriveEqualNI13x016(deriveCloneNI13x016(use_I13x016_equalclone_a), use_I13x016_equalclone_a)
var use_I13x016_gostring_a map[int][]NStr
var use_I13x016_gostring_v = deriveGoStringI13x016(use_I13x016_gostring_a)
var use_I13x016_hash_a map[int][]NStr
var use_I13x016_hash_v = deriveHashI13x016(use_I13x016_hash_a)
var use_I13x016_keys_m map[int][]NStr
var use_I13x016_keys_v = len(deriveKeysI13x016(use_I13x016_keys_m))
var use_I13x016_sortkeys_m map[int][]NStr
var use_I13x016_sortkeys_v = len(deriveSortI13x016(deriveKeysI13x016(use_I13x016_sortkeys_m)))
