package p

import (
	"testing"
)

func TestNothing(t *testing.T) {}

func use_I00x019_clone(a *W10) *W10 { return deriveCloneI00x019(a) }
func use_I00x019_compare(a, b *W10) int { return deriveCompareI00x019(a, b) }
func use_I00x019_comparec(a, b *W10) int { return deriveCompareCI00x019(a)(b) }
func use_I00x019_deepcopy(a, b *W10)  { deriveDeepCopyI00x019(a, b) }
func use_I00x019_equal(a, b *W10) bool { return deriveEqualI00x019(a, b) }
func use_I00x019_equalc(a, b *W10) bool { return deriveEqualCI00x019(a)(b) }
func use_I00x019_equalclone(a *W10) bool { return deriveEqualNI00x019(deriveCloneNI00x019(a), a) }
func use_I00x019_gostring(a *W10) string { return deriveGoStringI00x019(a) }
func use_I00x019_hash(a *W10) uint64 { return deriveHashI00x019(a) }
