package p


