package p


func use_I14x018_clone(a map[int]complex128) map[int]complex128 { return deriveCloneI14x018(a) }
func use_I14x018_compare(a, b map[int]complex128) int { return deriveCompareI14x018(a, b) }
func use_I14x018_comparec(a, b map[int]complex128) int { return deriveCompareCI14x018(a)(b) }
func use_I14x018_deepcopy(a, b map[int]complex128)  { deriveDeepCopyI14x018(a, b) }
func use_I14x018_equal(a, b map[int]complex128) bool { return deriveEqualI14x018(a, b) }
func use_I14x018_equalc(a, b map[int]complex128) bool { return deriveEqualCI14x018(a)(b) }
func use_I14x018_equalclone(a map[int]complex128) bool { return deriveEqualNI14x018(deriveCloneNI14x018(a), a) }
func use_I14x018_gostring(a map[int]complex128) string { return deriveGoStringI14x018(a) }
func use_I14x018_hash(a map[int]complex128) uint64 { return deriveHashI14x018(a) }
func use_I14x018_keys(m map[int]complex128) int { return len(deriveKeysI14x018(m)) }
func use_I14x018_sortkeys(m map[int]complex128) int { return len(deriveSortI14x018(deriveKeysI14x018(m))) }
