package p


var use_I07x015_clone = func(a *W10) *W10 { return deriveCloneI07x015(a) }
var use_I07x015_compare = func(a, b *W10) int { return deriveCompareI07x015(a, b) }
var use_I07x015_comparec = func(a, b *W10) int { return deriveCompareCI07x015(a)(b) }
var use_I07x015_deepcopy = func(a, b *W10)  { deriveDeepCopyI07x015(a, b) }
var use_I07x015_equal = func(a, b *W10) bool { return deriveEqualI07x015(a, b) }
var use_I07x015_equalc = func(a, b *W10) bool { return deriveEqualCI07x015(a)(b) }
var use_I07x015_equalclone = func(a *W10) bool { return deriveEqualI07x015(deriveCloneI07x015(a), a) }
var use_I07x015_gostring = func(a *W10) string { return deriveGoStringI07x015(a) }
var use_I07x015_hash = func(a *W10) uint64 { return deriveHashI07x015(a) }
