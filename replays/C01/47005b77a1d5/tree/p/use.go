package p


var use_I13x018_clone = func(a map[[2]int]int64) map[[2]int]int64 { return deriveCloneI13x018(a) }
var use_I13x018_compare = func(a, b map[[2]int]int64) int { return deriveCompareI13x018(a, b) }
var use_I13x018_comparec = func(a, b map[[2]int]int64) int { return deriveCompareCI13x018(a)(b) }
var use_I13x018_deepcopy = func(a, b map[[2]int]int64)  { deriveDeepCopyI13x018(a, b) }
var use_I13x018_equal = func(a, b map[[2]int]int64) bool { return deriveEqualI13x018(a, b) }
var use_I13x018_equalc = func(a, b map[[2]int]int64) bool { return deriveEqualCI13x018(a)(b) }
var use_I13x018_equalclone = func(a map[[2]int]int64) bool { return deriveEqualNI13x018(deriveCloneNI13x018(a), a) }
var use_I13x018_gostring = func(a map[[2]int]int64) string { return deriveGoStringI13x018(a) }
var use_I13x018_hash = func(a map[[2]int]int64) uint64 { return deriveHashI13x018(a) }
var use_I13x018_keys = func(m map[[2]int]int64) int { return len(deriveKeysI13x018(m)) }
var use_I13x018_sortkeys = func(m map[[2]int]int64) int { return len(deriveSortI13x018(deriveKeysI13x018(m))) }
