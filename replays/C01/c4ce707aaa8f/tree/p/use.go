package p


var use_I01x016L_max2 = func(a, b bool) bool { return deriveMaxBI01x016L(a, b) }
