package p


var use_I00x003_clone_a *W2
var use_I00x003_clone_v = deriveCloneI00x003(use_I00x003_clone_a)
var use_I00x003_compare_a *W2
var use_I00x003_compare_b *W2
var use_I00x003_compare_v = deriveCompareI00x003(use_I00x003_compare_a, use_I00x003_compare_b)
var use_I00x003_comparec_a *W2
var use_I00x003_comparec_b *W2
var use_I00x003_comparec_v = deriveCompareCI00x003(use_I00x003_comparec_a)(use_I00x003_comparec_b)
var use_I00x003_deepcopy_a *W2
var use_I00x003_deepcopy_b *W2
func init() { deriveDeepCopyI00x003(use_I00x003_deepcopy_a, use_I00x003_deepcopy_b) }
var use_I00x003_equal_a *W2
var use_I00x003_equal_b *W2
var use_I00x003_equal_v = deriveEqualI00x003(use_I00x003_equal_a, use_I00x003_equal_b)
var use_I00x003_equalc_a *W2
var use_I00x003_equalc_b *W2
var use_I00x003_equalc_v = deriveEqualCI00x003(use_I00x003_equalc_a)(use_I00x003_equalc_b)
var use_I00x003_equalclone_a *W2
var use_I00x003_equalclone_v = deriveEqualNI00x003(deriveCloneNI00x003(use_I00x003_equalclone_a), use_I00x003_equalclone_a)
var use_I00x003_gostring_a *W2
var use_I00x003_gostring_v = deriveGoStringI00x003(use_I00x003_gostring_a)
var use_I00x003_hash_a *W2
var use_I00x003_hash_v = deriveHashI00x003(use_I00x003_hash_a)
