package p


func use_I02x020_clone(a NInt) NInt { return deriveCloneI02x020(a) }
func use_I02x020_compare(a, b NInt) int { return deriveCompareI02x020(a, b) }
func use_I02x020_comparec(a, b NInt) int { return deriveCompareCI02x020(a)(b) }
func use_I02x020_equal(a, b NInt) bool { return deriveEqualI02x020(a, b) }
func use_I02x020_equalc(a, b NInt) bool { return deriveEqualCI02x020(a)(b) }
func use_I02x020_equalclone(a NInt) bool { return deriveEqualNI02x020(deriveCloneNI02x020(a), a) }
func use_I02x020_gostring(a NInt) string { return deriveGoStringI02x020(a) }
func use_I02x020_hash(a NInt) uint64 { return deriveHashI02x020(a) }
