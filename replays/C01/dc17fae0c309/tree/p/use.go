package p


var use_I05x010_clone_a *map[string]bool
var use_I05x010_clone_v = deriveCloneI05x010(use_I05x010_clone_a)
var use_I05x010_compare_a *map[string]bool
var use_I05x010_compare_b *map[string]bool
var use_I05x010_compare_v = deriveCompareI05x010(use_I05x010_compare_a, use_I05x010_compare_b)
var use_I05x010_comparec_a *map[string]bool
var use_I05x010_comparec_b *map[string]bool
var use_I05x010_comparec_v = deriveCompareCI05x010(use_I05x010_comparec_a)(use_I05x010_comparec_b)
var use_I05x010_deepcopy_a *map[string]bool
var use_I05x010_deepcopy_b *map[string]bool
func init() { deriveDeepCopyI05x010(use_I05x010_deepcopy_a, use_I05x010_deepcopy_b) }
var use_I05x010_equal_a *map[string]bool
var use_I05x010_equal_b *map[string]bool
var use_I05x010_equal_v = deriveEqualI05x010(use_I05x010_equal_a, use_I05x010_equal_b)
var use_I05x010_equalc_a *map[string]bool
var use_I05x010_equalc_b *map[string]bool
var use_I05x010_equalc_v = deriveEqualCI05x010(use_I05x010_equalc_a)(use_I05x010_equalc_b)
var use_I05x010_equalclone_a *map[string]bool
var use_I05x010_equalclone_v = deriveEqualNI05x010(deriveCloneNI05x010(use_I05x010_equalclone_a), use_I05x010_equalclone_a)
var use_I05x010_gostring_a *map[string]bool
var use_I05x010_gostring_v = deriveGoStringI05x010(use_I05x010_gostring_a)
var use_I05x010_hash_a *map[string]bool
var use_I05x010_hash_v = deriveHashI05x010(use_I05x010_hash_a)
