package p


var use_I00x008L_union = func(a, b []**SV) []**SV { return deriveUnionI00x008L(a, b) }
