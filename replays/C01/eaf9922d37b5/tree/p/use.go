package p


func use_I01x003_clone(a *W2) *W2 { return deriveCloneI01x003(a) }
func use_I01x003_compare(a, b *W2) int { return deriveCompareI01x003(a, b) }
func use_I01x003_comparec(a, b *W2) int { return deriveCompareCI01x003(a)(b) }
func use_I01x003_deepcopy(a, b *W2)  { deriveDeepCopyI01x003(a, b) }
func use_I01x003_equal(a, b *W2) bool { return deriveEqualI01x003(a, b) }
func use_I01x003_equalc(a, b *W2) bool { return deriveEqualCI01x003(a)(b) }
func use_I01x003_equalclone(a *W2) bool { return deriveEqualNI01x003(deriveCloneNI01x003(a), a) }
func use_I01x003_gostring(a *W2) string { return deriveGoStringI01x003(a) }
func use_I01x003_hash(a *W2) uint64 { return deriveHashI01x003(a) }
