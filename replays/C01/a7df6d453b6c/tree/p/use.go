package p


func use_I07x014L_all(p func(*NFloat) bool, l []*NFloat) bool { return deriveAllI07x014L(p, l) }
func use_I07x014L_any(p func(*NFloat) bool, l []*NFloat) bool { return deriveAnyI07x014L(p, l) }
func use_I07x014L_contains(l []*NFloat, x *NFloat) bool { return deriveContainsI07x014L(l, x) }
func use_I07x014L_filter(p func(*NFloat) bool, l []*NFloat) []*NFloat { return deriveFilterI07x014L(p, l) }
func use_I07x014L_intersect(a, b []*NFloat) []*NFloat { return deriveIntersectI07x014L(a, b) }
func use_I07x014L_max(l []*NFloat, d *NFloat) *NFloat { return deriveMaxI07x014L(l, d) }
func use_I07x014L_max2(a, b *NFloat) *NFloat { return deriveMaxBI07x014L(a, b) }
func use_I07x014L_min(l []*NFloat, d *NFloat) *NFloat { return deriveMinI07x014L(l, d) }
func use_I07x014L_min2(a, b *NFloat) *NFloat { return deriveMinBI07x014L(a, b) }
func use_I07x014L_sort(l []*NFloat) []*NFloat { return deriveSortI07x014L(l) }
func use_I07x014L_takewhile(p func(*NFloat) bool, l []*NFloat) []*NFloat { return deriveTakeWhileI07x014L(p, l) }
func use_I07x014L_union(a, b []*NFloat) []*NFloat { return deriveUnionI07x014L(a, b) }
func use_I07x014L_unique(l []*NFloat) []*NFloat { return deriveUniqueI07x014L(l) }
