package p


var use_I14x004_clone = func(a map[NStr]R4) map[NStr]R4 { return deriveCloneI14x004(a) }
var use_I14x004_compare = func(a, b map[NStr]R4) int { return deriveCompareI14x004(a, b) }
var use_I14x004_comparec = func(a, b map[NStr]R4) int { return deriveCompareCI14x004(a)(b) }
var use_I14x004_deepcopy = func(a, b map[NStr]R4)  { deriveDeepCopyI14x004(a, b) }
var use_I14x004_equal = func(a, b map[NStr]R4) bool { return deriveEqualI14x004(a, b) }
var use_I14x004_equalc = func(a, b map[NStr]R4) bool { return deriveEqualCI14x004(a)(b) }
var use_I14x004_equalclone = func(a map[NStr]R4) bool { return deriveEqualNI14x004(deriveCloneNI14x004(a), a) }
var use_I14x004_gostring = func(a map[NStr]R4) string { return deriveGoStringI14x004(a) }
var use_I14x004_hash = func(a map[NStr]R4) uint64 { return deriveHashI14x004(a) }
var use_I14x004_keys = func(m map[NStr]R4) int { return len(deriveKeysI14x004(m)) }
var use_I14x004_sortkeys = func(m map[NStr]R4) int { return len(deriveSortI14x004(deriveKeysI14x004(m))) }
