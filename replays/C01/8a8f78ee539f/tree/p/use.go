package p


var use_I12x018_clone = func(a *[2]bool) *[2]bool { return deriveCloneI12x018(a) }
var use_I12x018_compare = func(a, b *[2]bool) int { return deriveCompareI12x018(a, b) }
var use_I12x018_comparec = func(a, b *[2]bool) int { return deriveCompareCI12x018(a)(b) }
var use_I12x018_deepcopy = func(a, b *[2]bool)  { deriveDeepCopyI12x018(a, b) }
var use_I12x018_equal = func(a, b *[2]bool) bool { return deriveEqualI12x018(a, b) }
var use_I12x018_equalc = func(a, b *[2]bool) bool { return deriveEqualCI12x018(a)(b) }
var use_I12x018_equalclone = func(a *[2]bool) bool { return deriveEqualNI12x018(deriveCloneNI12x018(a), a) }
var use_I12x018_gostring = func(a *[2]bool) string { return deriveGoStringI12x018(a) }
var use_I12x018_hash = func(a *[2]bool) uint64 { return deriveHashI12x018(a) }
