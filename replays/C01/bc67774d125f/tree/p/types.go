package p

import (
	b_dup "scratch/b/dup"
	ext "scratch/ext"
	"strings"
)

type NInt int64

type NStr string

type NFloat float32

type NBool bool

type NU8 uint8

type SV struct {
	A int
	B string
	C [2]bool
	D NInt
}

type SP struct {
	P *int
	S []string
	M map[string]int
	N NStr
	V SV
}

type SE struct {
	SV
	*SP
	X uint16
}

type SR struct {
	V int
	Next *SR
	Kids []SR
	M map[string]*SR
}

type SEq struct {
	A int
	L []int
	Q *string
}

type SCi struct {
	Word string
}

type NSlice []int

type NMap map[string]SV

type NArr [3]string

type NPtr *int

type R1 struct {
	F0 bool
	F1 NBool
	f2 uint8
}

type W2 struct {
	Pre int
	F **[]R1
	Post string
}

type W3 struct {
	Pre int
	F uint
	Post string
}

type W4 struct {
	Pre int
	F map[string]int
	Post string
}

type R5 struct {
	F0 complex64
	f1 SP
	F2 int32
	f3 ext.Num
	F4 uintptr
	F5 uint8
}

type R6 struct {
	f0 uint8
	f1 string
	F2 NMap
	F3 b_dup.T
	F4 byte
}

type R7 struct {
	f0 int32
	F1 R5
	F2 *int64
	F3 rune
	F4 map[int]float32
	F5 R6
}

type W8 struct {
	Pre int
	F map[[2]int]R7
	Post string
}

type W9 struct {
	Pre int
	F SR
	Post string
}

type W10 struct {
	Pre int
	F map[SV]SP
	Post string
}

type W11 struct {
	Pre int
	F *NInt
	Post string
}

type W12 struct {
	Pre int
	F *ext.Num
	Post string
}

type W13 struct {
	Pre int
	F map[int]map[string]string
	Post string
}

type W14 struct {
	Pre int
	F b_dup.T
	Post string
}

type W15 struct {
	Pre int
	F [2]map[int]NInt
	Post string
}

type W16 struct {
	Pre int
	F *[]bool
	Post string
}

func (this *SEq) Equal(that *SEq) bool { return deriveEqualMSEq(this, that) }

func (this *SEq) Compare(that *SEq) int { return deriveCompareMSEq(this, that) }

func (this *SCi) Equal(that *SCi) bool {
	if this == nil || that == nil {
		return this == nil && that == nil
	}
	return strings.EqualFold(this.Word, that.Word)
}

func (this *SCi) Compare(that *SCi) int {
	if this == nil {
		if that == nil {
			return 0
		}
		return -1
	}
	if that == nil {
		return 1
	}
	return strings.Compare(strings.ToLower(this.Word), strings.ToLower(that.Word))
}

