package p


var use_I17x022_clone = func(a *[]bool) *[]bool { return deriveCloneI17x022(a) }
var use_I17x022_compare = func(a, b *[]bool) int { return deriveCompareI17x022(a, b) }
var use_I17x022_comparec = func(a, b *[]bool) int { return deriveCompareCI17x022(a)(b) }
var use_I17x022_deepcopy = func(a, b *[]bool)  { deriveDeepCopyI17x022(a, b) }
var use_I17x022_equal = func(a, b *[]bool) bool { return deriveEqualI17x022(a, b) }
var use_I17x022_equalc = func(a, b *[]bool) bool { return deriveEqualCI17x022(a)(b) }
var use_I17x022_equalclone = func(a *[]bool) bool { return deriveEqualNI17x022(deriveCloneNI17x022(a), a) }
var use_I17x022_gostring = func(a *[]bool) string { return deriveGoStringI17x022(a) }
var use_I17x022_hash = func(a *[]bool) uint64 { return deriveHashI17x022(a) }
