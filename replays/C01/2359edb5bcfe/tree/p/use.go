package p


func use_I12x014_clone(a map[NInt]int) map[NInt]int { return deriveCloneI12x014(a) }
func use_I12x014_compare(a, b map[NInt]int) int { return deriveCompareI12x014(a, b) }
func use_I12x014_comparec(a, b map[NInt]int) int { return deriveCompareCI12x014(a)(b) }
func use_I12x014_deepcopy(a, b map[NInt]int)  { deriveDeepCopyI12x014(a, b) }
func use_I12x014_equal(a, b map[NInt]int) bool { return deriveEqualI12x014(a, b) }
func use_I12x014_equalc(a, b map[NInt]int) bool { return deriveEqualCI12x014(a)(b) }
func use_I12x014_equalclone(a map[NInt]int) bool { return deriveEqualNI12x014(deriveCloneNI12x014(a), a) }
func use_I12x014_gostring(a map[NInt]int) string { return deriveGoStringI12x014(a) }
func use_I12x014_hash(a map[NInt]int) uint64 { return deriveHashI12x014(a) }
func use_I12x014_keys(m map[NInt]int) int { return len(deriveKeysI12x014(m)) }
func use_I12x014_sortkeys(m map[NInt]int) int { return len(deriveSortI12x014(deriveKeysI12x014(m))) }
