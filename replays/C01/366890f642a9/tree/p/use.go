package p


var use_I01x002_clone_a map[string]map[int]SP
var use_I01x002_clone_v = deriveCloneI01x002(use_I01x002_clone_a)
var use_I01x002_compare_a map[string]map[int]SP
var use_I01x002_compare_b map[string]map[int]SP
var use_I01x002_compare_v = deriveCompareI01x002(use_I01x002_compare_a, use_I01x002_compare_b)
var use_I01x002_comparec_a map[string]map[int]SP
var use_I01x002_comparec_b map[string]map[int]SP
var use_I01x002_comparec_v = deriveCompareCI01x002(use_I01x002_comparec_a)(use_I01x002_comparec_b)
var use_I01x002_deepcopy_a map[string]map[int]SP
var use_I01x002_deepcopy_b map[string]map[int]SP
func init() { deriveDeepCopyI01x002(use_I01x002_deepcopy_a, use_I01x002_deepcopy_b) }
var use_I01x002_equal_a map[string]map[int]SP
var use_I01x002_equal_b map[string]map[int]SP
var use_I01x002_equal_v = deriveEqualI01x002(use_I01x002_equal_a, use_I01x002_equal_b)
var use_I01x002_equalc_a map[string]map[int]SP
var use_I01x002_equalc_b map[string]map[int]SP
var use_I01x002_equalc_v = deriveEqualCI01x002(use_I01x002_equalc_a)(use_I01x002_equalc_b)
var use_I01x002_equalclone_a map[string]map[int]SP
var use_I01x002_equalclone_v = deriveEqualNI01x002(deriveCloneNI01x002(use_I01x002_equalclone_a), use_I01x002_equalclone_a)
var use_I01x002_gostring_a map[string]map[int]SP
var use_I01x002_gostring_v = deriveGoStringI01x002(use_I01x002_gostring_a)
var use_I01x002_hash_a map[string]map[int]SP
var use_I01x002_hash_v = deriveHashI01x002(use_I01x002_hash_a)
var use_I01x002_keys_m map[string]map[int]SP
var use_I01x002_keys_v = len(deriveKeysI01x002(use_I01x002_keys_m))
var use_I01x002_sortkeys_m map[string]map[int]SP
var use_I01x002_sortkeys_v = len(deriveSortI01x002(deriveKeysI01x002(use_I01x002_sortkeys_m)))
