package p

import (
	ext "scratch/ext"
	"testing"
)

func TestNothing(t *testing.T) {}

func use_I13x022_clone(a *ext.Priv) *ext.Priv { return deriveCloneI13x022(a) }
func use_I13x022_compare(a, b *ext.Priv) int { return deriveCompareI13x022(a, b) }
func use_I13x022_comparec(a, b *ext.Priv) int { return deriveCompareCI13x022(a)(b) }
func use_I13x022_deepcopy(a, b *ext.Priv)  { deriveDeepCopyI13x022(a, b) }
func use_I13x022_equal(a, b *ext.Priv) bool { return deriveEqualI13x022(a, b) }
func use_I13x022_equalc(a, b *ext.Priv) bool { return deriveEqualCI13x022(a)(b) }
func use_I13x022_equalclone(a *ext.Priv) bool { return deriveEqualNI13x022(deriveCloneNI13x022(a), a) }
func use_I13x022_hash(a *ext.Priv) uint64 { return deriveHashI13x022(a) }
