package p


