package p

import (
	ext "scratch/ext"
)

var use_I03x012_clone = func(a *ext.Pub) *ext.Pub { return deriveCloneI03x012(a) }
var use_I03x012_compare = func(a, b *ext.Pub) int { return deriveCompareI03x012(a, b) }
var use_I03x012_comparec = func(a, b *ext.Pub) int { return deriveCompareCI03x012(a)(b) }
var use_I03x012_deepcopy = func(a, b *ext.Pub)  { deriveDeepCopyI03x012(a, b) }
var use_I03x012_equal = func(a, b *ext.Pub) bool { return deriveEqualI03x012(a, b) }
var use_I03x012_equalc = func(a, b *ext.Pub) bool { return deriveEqualCI03x012(a)(b) }
var use_I03x012_equalclone = func(a *ext.Pub) bool { return deriveEqualNI03x012(deriveCloneNI03x012(a), a) }
var use_I03x012_gostring = func(a *ext.Pub) string { return deriveGoStringI03x012(a) }
var use_I03x012_hash = func(a *ext.Pub) uint64 { return deriveHashI03x012(a) }
