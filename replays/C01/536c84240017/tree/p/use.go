package p

import (
	ext "scratch/ext"
)

var use_I06x012_clone = func(a *map[string]ext.Pub) *map[string]ext.Pub { return deriveCloneI06x012(a) }
var use_I06x012_compare = func(a, b *map[string]ext.Pub) int { return deriveCompareI06x012(a, b) }
var use_I06x012_comparec = func(a, b *map[string]ext.Pub) int { return deriveCompareCI06x012(a)(b) }
var use_I06x012_deepcopy = func(a, b *map[string]ext.Pub)  { deriveDeepCopyI06x012(a, b) }
var use_I06x012_equal = func(a, b *map[string]ext.Pub) bool { return deriveEqualI06x012(a, b) }
var use_I06x012_equalc = func(a, b *map[string]ext.Pub) bool { return deriveEqualCI06x012(a)(b) }
var use_I06x012_equalclone = func(a *map[string]ext.Pub) bool { return deriveEqualNI06x012(deriveCloneNI06x012(a), a) }
var use_I06x012_gostring = func(a *map[string]ext.Pub) string { return deriveGoStringI06x012(a) }
var use_I06x012_hash = func(a *map[string]ext.Pub) uint64 { return deriveHashI06x012(a) }
