package p


var use_I16x020_clone_a map[int][]NInt
var use_I16x020_clone_v = deriveCloneI16x020(use_I16x020_clone_a)
var use_I16x020_compare_a map[int][]NInt
var use_I16x020_compare_b map[int][]NInt
var use_I16x020_compare_v = deriveCompareI16x020(use_I16x020_compare_a, use_I16x020_compare_b)
var use_I16x020_comparec_a map[int][]NInt
var use_I16x020_comparec_b map[int][]NInt
var use_I16x020_comparec_v = deriveCompareCI16x020(use_I16x020_comparec_a)(use_I16x020_comparec_b)
var use_I16x020_deepcopy_a map[int][]NInt
var use_I16x020_deepcopy_b map[int][]NInt
func init() { deriveDeepCopyI16x020(use_I16x020_deepcopy_a, use_I16x020_deepcopy_b) }
var use_I16x020_equal_a map[int][]NInt
var use_I16x020_equal_b map[int][]NInt
var use_I16x020_equal_v = deriveEqualI16x020(use_I16x020_equal_a, use_I16x020_equal_b)
var use_I16x020_equalc_a map[int][]NInt
var use_I16x020_equalc_b map[int][]NInt
var use_I16x020_equalc_v = deriveEqualCI16x020(use_I16x020_equalc_a)(use_I16x020_equalc_b)
var use_I16x020_equalclone_a map[int][]NInt
var use_I16x020_equalclone_v = deriveEqualNI16x020(deriveCloneNI16x020(use_I16x020_equalclone_a), use_I16x020_equalclone_a)
var use_I16x020_gostring_a map[int][]NInt
var use_I16x020_gostring_v = deriveGoStringI16x020(use_I16x020_gostring_a)
var use_I16x020_hash_a map[int][]NInt
var use_I16x020_hash_v = deriveHashI16x020(use_I16x020_hash_a)
var use_I16x020_keys_m map[int][]NInt
var use_I16x020_keys_v = len(deriveKeysI16x020(use_I16x020_keys_m))
var use_I16x020_sortkeys_m map[int][]NInt
var use_I16x020_sortkeys_v = len(deriveSortI16x020(deriveKeysI16x020(use_I16x020_sortkeys_m)))
