package p


func use_I01x014_clone(a []map[NInt]uint32) []map[NInt]uint32 { return deriveCloneI01x014(a) }
func use_I01x014_compare(a, b []map[NInt]uint32) int { return deriveCompareI01x014(a, b) }
func use_I01x014_comparec(a, b []map[NInt]uint32) int { return deriveCompareCI01x014(a)(b) }
func use_I01x014_deepcopy(a, b []map[NInt]uint32)  { deriveDeepCopyI01x014(a, b) }
func use_I01x014_equal(a, b []map[NInt]uint32) bool { return deriveEqualI01x014(a, b) }
func use_I01x014_equalc(a, b []map[NInt]uint32) bool { return deriveEqualCI01x014(a)(b) }
func use_I01x014_equalclone(a []map[NInt]uint32) bool { return deriveEqualNI01x014(deriveCloneNI01x014(a), a) }
func use_I01x014_gostring(a []map[NInt]uint32) string { return deriveGoStringI01x014(a) }
func use_I01x014_hash(a []map[NInt]uint32) uint64 { return deriveHashI01x014(a) }
