package p


var use_I13x000_clone_a []map[NStr]int
var use_I13x000_clone_v = deriveCloneI13x000(use_I13x000_clone_a)
var use_I13x000_compare_a []map[NStr]int
var use_I13x000_compare_b []map[NStr]int
var use_I13x000_compare_v = deriveCompareI13x000(use_I13x000_compare_a, use_I13x000_compare_b)
var use_I13x000_comparec_a []map[NStr]int
var use_I13x000_comparec_b []map[NStr]int
var use_I13x000_comparec_v = deriveCompareCI13x000(use_I13x000_comparec_a)(use_I13x000_comparec_b)
var use_I13x000_deepcopy_a []map[NStr]int
var use_I13x000_deepcopy_b []map[NStr]int
func init() { deriveDeepCopyI13x000(use_I13x000_deepcopy_a, use_I13x000_deepcopy_b) }
var use_I13x000_equal_a []map[NStr]int
var use_I13x000_equal_b []map[NStr]int
var use_I13x000_equal_v = deriveEqualI13x000(use_I13x000_equal_a, use_I13x000_equal_b)
var use_I13x000_equalc_a []map[NStr]int
var use_I13x000_equalc_b []map[NStr]int
var use_I13x000_equalc_v = deriveEqualCI13x000(use_I13x000_equalc_a)(use_I13x000_equalc_b)
var use_I13x000_equalclone_a []map[NStr]int
var use_I13x000_equalclone_v = deriveEqualI13x000(deriveCloneI13x000(use_I13x000_equalclone_a), use_I13x000_equalclone_a)
var use_I13x000_gostring_a []map[NStr]int
var use_I13x000_gostring_v = deriveGoStringI13x000(use_I13x000_gostring_a)
var use_I13x000_hash_a []map[NStr]int
var use_I13x000_hash_v = deriveHashI13x000(use_I13x000_hash_a)
var use_I13x001_clone = func(a *W1) *W1 { return deriveCloneI13x001(a) }
var use_I13x001_compare = func(a, b *W1) int { return deriveCompareI13x001(a, b) }
var use_I13x001_comparec = func(a, b *W1) int { return deriveCompareCI13x001(a)(b) }
var use_I13x001_deepcopy = func(a, b *W1)  { deriveDeepCopyI13x001(a, b) }
var use_I13x001_equal = func(a, b *W1) bool { return deriveEqualI13x001(a, b) }
var use_I13x001_equalc = func(a, b *W1) bool { return deriveEqualCI13x001(a)(b) }
var use_I13x001_equalclone = func(a *W1) bool { return deriveEqualI13x001(deriveCloneI13x001(a), a) }
var use_I13x001_gostring = func(a *W1) string { return deriveGoStringI13x001(a) }
var use_I13x001_hash = func(a *W1) uint64 { return deriveHashI13x001(a) }
var use_I13x002_clone = func(a *map[int]SV) *map[int]SV { return deriveCloneI13x002(a) }
var use_I13x002_compare = func(a, b *map[int]SV) int { return deriveCompareI13x002(a, b) }
var use_I13x002_comparec = func(a, b *map[int]SV) int { return deriveCompareCI13x002(a)(b) }
var use_I13x002_deepcopy = func(a, b *map[int]SV)  { deriveDeepCopyI13x002(a, b) }
var use_I13x002_equal = func(a, b *map[int]SV) bool { return deriveEqualI13x002(a, b) }
var use_I13x002_equalc = func(a, b *map[int]SV) bool { return deriveEqualCI13x002(a)(b) }
var use_I13x002_equalclone = func(a *map[int]SV) bool { return deriveEqualI13x002(deriveCloneI13x002(a), a) }
var use_I13x002_gostring = func(a *map[int]SV) string { return deriveGoStringI13x002(a) }
var use_I13x002_hash = func(a *map[int]SV) uint64 { return deriveHashI13x002(a) }
var use_I13x002L_all_p func(*map[int]SV) bool
var use_I13x002L_all_l []*map[int]SV
var use_I13x002L_all_v = deriveAllI13x002L(use_I13x002L_all_p, use_I13x002L_all_l)
var use_I13x002L_any_p func(*map[int]SV) bool
var use_I13x002L_any_l []*map[int]SV
var use_I13x002L_any_v = deriveAnyI13x002L(use_I13x002L_any_p, use_I13x002L_any_l)
var use_I13x002L_contains_l []*map[int]SV
var use_I13x002L_contains_x *map[int]SV
var use_I13x002L_contains_v = deriveContainsI13x002L(use_I13x002L_contains_l, use_I13x002L_contains_x)
var use_I13x002L_filter_p func(*map[int]SV) bool
var use_I13x002L_filter_l []*map[int]SV
var use_I13x002L_filter_v = deriveFilterI13x002L(use_I13x002L_filter_p, use_I13x002L_filter_l)
var use_I13x002L_intersect_a []*map[int]SV
var use_I13x002L_intersect_b []*map[int]SV
var use_I13x002L_intersect_v = deriveIntersectI13x002L(use_I13x002L_intersect_a, use_I13x002L_intersect_b)
var use_I13x002L_max_l []*map[int]SV
var use_I13x002L_max_d *map[int]SV
var use_I13x002L_max_v = deriveMaxI13x002L(use_I13x002L_max_l, use_I13x002L_max_d)
var use_I13x002L_max2_a *map[int]SV
var use_I13x002L_max2_b *map[int]SV
var use_I13x002L_max2_v = deriveMaxBI13x002L(use_I13x002L_max2_a, use_I13x002L_max2_b)
var use_I13x002L_min_l []*map[int]SV
var use_I13x002L_min_d *map[int]SV
var use_I13x002L_min_v = deriveMinI13x002L(use_I13x002L_min_l, use_I13x002L_min_d)
var use_I13x002L_min2_a *map[int]SV
var use_I13x002L_min2_b *map[int]SV
var use_I13x002L_min2_v = deriveMinBI13x002L(use_I13x002L_min2_a, use_I13x002L_min2_b)
var use_I13x002L_sort_l []*map[int]SV
var use_I13x002L_sort_v = deriveSortI13x002L(use_I13x002L_sort_l)
var use_I13x002L_takewhile_p func(*map[int]SV) bool
var use_I13x002L_takewhile_l []*map[int]SV
var use_I13x002L_takewhile_v = deriveTakeWhileI13x002L(use_I13x002L_takewhile_p, use_I13x002L_takewhile_l)
var use_I13x002L_union_a []*map[int]SV
var use_I13x002L_union_b []*map[int]SV
var use_I13x002L_union_v = deriveUnionI13x002L(use_I13x002L_union_a, use_I13x002L_union_b)
var use_I13x002L_unique_l []*map[int]SV
var use_I13x002L_unique_v = deriveUniqueI13x002L(use_I13x002L_unique_l)
var use_I13x003_clone = func(a *W2) *W2 { return deriveCloneI13x003(a) }
var use_I13x003_compare = func(a, b *W2) int { return deriveCompareI13x003(a, b) }
var use_I13x003_comparec = func(a, b *W2) int { return deriveCompareCI13x003(a)(b) }
var use_I13x003_deepcopy = func(a, b *W2)  { deriveDeepCopyI13x003(a, b) }
var use_I13x003_equal = func(a, b *W2) bool { return deriveEqualI13x003(a, b) }
var use_I13x003_equalc = func(a, b *W2) bool { return deriveEqualCI13x003(a)(b) }
var use_I13x003_equalclone = func(a *W2) bool { return deriveEqualI13x003(deriveCloneI13x003(a), a) }
var use_I13x003_gostring = func(a *W2) string { return deriveGoStringI13x003(a) }
var use_I13x003_hash = func(a *W2) uint64 { return deriveHashI13x003(a) }
var use_I13x004_clone_a []float64
var use_I13x004_clone_v = deriveCloneI13x004(use_I13x004_clone_a)
var use_I13x004_compare_a []float64
var use_I13x004_compare_b []float64
var use_I13x004_compare_v = deriveCompareI13x004(use_I13x004_compare_a, use_I13x004_compare_b)
var use_I13x004_comparec_a []float64
var use_I13x004_comparec_b []float64
var use_I13x004_comparec_v = deriveCompareCI13x004(use_I13x004_comparec_a)(use_I13x004_comparec_b)
var use_I13x004_deepcopy_a []float64
var use_I13x004_deepcopy_b []float64
func init() { deriveDeepCopyI13x004(use_I13x004_deepcopy_a, use_I13x004_deepcopy_b) }
var use_I13x004_equal_a []float64
var use_I13x004_equal_b []float64
var use_I13x004_equal_v = deriveEqualI13x004(use_I13x004_equal_a, use_I13x004_equal_b)
var use_I13x004_equalc_a []float64
var use_I13x004_equalc_b []float64
var use_I13x004_equalc_v = deriveEqualCI13x004(use_I13x004_equalc_a)(use_I13x004_equalc_b)
var use_I13x004_equalclone_a []float64
var use_I13x004_equalclone_v = deriveEqualI13x004(deriveCloneI13x004(use_I13x004_equalclone_a), use_I13x004_equalclone_a)
var use_I13x004_gostring_a []float64
var use_I13x004_gostring_v = deriveGoStringI13x004(use_I13x004_gostring_a)
var use_I13x004_hash_a []float64
var use_I13x004_hash_v = deriveHashI13x004(use_I13x004_hash_a)
func use_I13x005_clone(a *W3) *W3 { return deriveCloneI13x005(a) }
func use_I13x005_compare(a, b *W3) int { return deriveCompareI13x005(a, b) }
func use_I13x005_comparec(a, b *W3) int { return deriveCompareCI13x005(a)(b) }
func use_I13x005_deepcopy(a, b *W3)  { deriveDeepCopyI13x005(a, b) }
func use_I13x005_equal(a, b *W3) bool { return deriveEqualI13x005(a, b) }
func use_I13x005_equalc(a, b *W3) bool { return deriveEqualCI13x005(a)(b) }
func use_I13x005_equalclone(a *W3) bool { return deriveEqualI13x005(deriveCloneI13x005(a), a) }
func use_I13x005_gostring(a *W3) string { return deriveGoStringI13x005(a) }
func use_I13x005_hash(a *W3) uint64 { return deriveHashI13x005(a) }
var use_I13x006_clone_a *map[int]string
var use_I13x006_clone_v = deriveCloneI13x006(use_I13x006_clone_a)
var use_I13x006_compare_a *map[int]string
var use_I13x006_compare_b *map[int]string
var use_I13x006_compare_v = deriveCompareI13x006(use_I13x006_compare_a, use_I13x006_compare_b)
var use_I13x006_comparec_a *map[int]string
var use_I13x006_comparec_b *map[int]string
var use_I13x006_comparec_v = deriveCompareCI13x006(use_I13x006_comparec_a)(use_I13x006_comparec_b)
var use_I13x006_deepcopy_a *map[int]string
var use_I13x006_deepcopy_b *map[int]string
func init() { deriveDeepCopyI13x006(use_I13x006_deepcopy_a, use_I13x006_deepcopy_b) }
var use_I13x006_equal_a *map[int]string
var use_I13x006_equal_b *map[int]string
var use_I13x006_equal_v = deriveEqualI13x006(use_I13x006_equal_a, use_I13x006_equal_b)
var use_I13x006_equalc_a *map[int]string
var use_I13x006_equalc_b *map[int]string
var use_I13x006_equalc_v = deriveEqualCI13x006(use_I13x006_equalc_a)(use_I13x006_equalc_b)
var use_I13x006_equalclone_a *map[int]string
var use_I13x006_equalclone_v = deriveEqualI13x006(deriveCloneI13x006(use_I13x006_equalclone_a), use_I13x006_equalclone_a)
var use_I13x006_gostring_a *map[int]string
var use_I13x006_gostring_v = deriveGoStringI13x006(use_I13x006_gostring_a)
var use_I13x006_hash_a *map[int]string
var use_I13x006_hash_v = deriveHashI13x006(use_I13x006_hash_a)
var use_I13x006L_all = func(p func(*map[int]string) bool, l []*map[int]string) bool { return deriveAllI13x006L(p, l) }
var use_I13x006L_any = func(p func(*map[int]string) bool, l []*map[int]string) bool { return deriveAnyI13x006L(p, l) }
var use_I13x006L_contains = func(l []*map[int]string, x *map[int]string) bool { return deriveContainsI13x006L(l, x) }
var use_I13x006L_filter = func(p func(*map[int]string) bool, l []*map[int]string) []*map[int]string { return deriveFilterI13x006L(p, l) }
var use_I13x006L_intersect = func(a, b []*map[int]string) []*map[int]string { return deriveIntersectI13x006L(a, b) }
var use_I13x006L_max = func(l []*map[int]string, d *map[int]string) *map[int]string { return deriveMaxI13x006L(l, d) }
var use_I13x006L_max2 = func(a, b *map[int]string) *map[int]string { return deriveMaxBI13x006L(a, b) }
var use_I13x006L_min = func(l []*map[int]string, d *map[int]string) *map[int]string { return deriveMinI13x006L(l, d) }
var use_I13x006L_min2 = func(a, b *map[int]string) *map[int]string { return deriveMinBI13x006L(a, b) }
var use_I13x006L_sort = func(l []*map[int]string) []*map[int]string { return deriveSortI13x006L(l) }
var use_I13x006L_takewhile = func(p func(*map[int]string) bool, l []*map[int]string) []*map[int]string { return deriveTakeWhileI13x006L(p, l) }
var use_I13x006L_union = func(a, b []*map[int]string) []*map[int]string { return deriveUnionI13x006L(a, b) }
var use_I13x006L_unique = func(l []*map[int]string) []*map[int]string { return deriveUniqueI13x006L(l) }
var use_I13x008_clone_a map[int]NFloat
var use_I13x008_clone_v = deriveCloneI13x008(use_I13x008_clone_a)
var use_I13x008_compare_a map[int]NFloat
var use_I13x008_compare_b map[int]NFloat
var use_I13x008_compare_v = deriveCompareI13x008(use_I13x008_compare_a, use_I13x008_compare_b)
var use_I13x008_comparec_a map[int]NFloat
var use_I13x008_comparec_b map[int]NFloat
var use_I13x008_comparec_v = deriveCompareCI13x008(use_I13x008_comparec_a)(use_I13x008_comparec_b)
var use_I13x008_deepcopy_a map[int]NFloat
var use_I13x008_deepcopy_b map[int]NFloat
func init() { deriveDeepCopyI13x008(use_I13x008_deepcopy_a, use_I13x008_deepcopy_b) }
var use_I13x008_equal_a map[int]NFloat
var use_I13x008_equal_b map[int]NFloat
var use_I13x008_equal_v = deriveEqualI13x008(use_I13x008_equal_a, use_I13x008_equal_b)
var use_I13x008_equalc_a map[int]NFloat
var use_I13x008_equalc_b map[int]NFloat
var use_I13x008_equalc_v = deriveEqualCI13x008(use_I13x008_equalc_a)(use_I13x008_equalc_b)
var use_I13x008_equalclone_a map[int]NFloat
var use_I13x008_equalclone_v = deriveEqualI13x008(deriveCloneI13x008(use_I13x008_equalclone_a), use_I13x008_equalclone_a)
var use_I13x008_gostring_a map[int]NFloat
var use_I13x008_gostring_v = deriveGoStringI13x008(use_I13x008_gostring_a)
var use_I13x008_hash_a map[int]NFloat
var use_I13x008_hash_v = deriveHashI13x008(use_I13x008_hash_a)
var use_I13x008_keys_m map[int]NFloat
var use_I13x008_keys_v = len(deriveKeysI13x008(use_I13x008_keys_m))
var use_I13x008_sortkeys_m map[int]NFloat
var use_I13x008_sortkeys_v = len(deriveSortI13x008(deriveKeysI13x008(use_I13x008_sortkeys_m)))
func use_I13x008L_all(p func(map[int]NFloat) bool, l []map[int]NFloat) bool { return deriveAllI13x008L(p, l) }
func use_I13x008L_any(p func(map[int]NFloat) bool, l []map[int]NFloat) bool { return deriveAnyI13x008L(p, l) }
func use_I13x008L_contains(l []map[int]NFloat, x map[int]NFloat) bool { return deriveContainsI13x008L(l, x) }
func use_I13x008L_filter(p func(map[int]NFloat) bool, l []map[int]NFloat) []map[int]NFloat { return deriveFilterI13x008L(p, l) }
func use_I13x008L_intersect(a, b []map[int]NFloat) []map[int]NFloat { return deriveIntersectI13x008L(a, b) }
func use_I13x008L_max(l []map[int]NFloat, d map[int]NFloat) map[int]NFloat { return deriveMaxI13x008L(l, d) }
func use_I13x008L_max2(a, b map[int]NFloat) map[int]NFloat { return deriveMaxBI13x008L(a, b) }
func use_I13x008L_min(l []map[int]NFloat, d map[int]NFloat) map[int]NFloat { return deriveMinI13x008L(l, d) }
func use_I13x008L_min2(a, b map[int]NFloat) map[int]NFloat { return deriveMinBI13x008L(a, b) }
func use_I13x008L_sort(l []map[int]NFloat) []map[int]NFloat { return deriveSortI13x008L(l) }
func use_I13x008L_takewhile(p func(map[int]NFloat) bool, l []map[int]NFloat) []map[int]NFloat { return deriveTakeWhileI13x008L(p, l) }
func use_I13x008L_union(a, b []map[int]NFloat) []map[int]NFloat { return deriveUnionI13x008L(a, b) }
func use_I13x008L_unique(l []map[int]NFloat) []map[int]NFloat { return deriveUniqueI13x008L(l) }
var use_I13x009_clone = func(a *W5) *W5 { return deriveCloneI13x009(a) }
var use_I13x009_compare = func(a, b *W5) int { return deriveCompareI13x009(a, b) }
var use_I13x009_comparec = func(a, b *W5) int { return deriveCompareCI13x009(a)(b) }
var use_I13x009_deepcopy = func(a, b *W5)  { deriveDeepCopyI13x009(a, b) }
var use_I13x009_equal = func(a, b *W5) bool { return deriveEqualI13x009(a, b) }
var use_I13x009_equalc = func(a, b *W5) bool { return deriveEqualCI13x009(a)(b) }
var use_I13x009_equalclone = func(a *W5) bool { return deriveEqualI13x009(deriveCloneI13x009(a), a) }
var use_I13x009_gostring = func(a *W5) string { return deriveGoStringI13x009(a) }
var use_I13x009_hash = func(a *W5) uint64 { return deriveHashI13x009(a) }
var use_I13x010_clone = func(a []rune) []rune { return deriveCloneI13x010(a) }
var use_I13x010_compare = func(a, b []rune) int { return deriveCompareI13x010(a, b) }
var use_I13x010_comparec = func(a, b []rune) int { return deriveCompareCI13x010(a)(b) }
var use_I13x010_deepcopy = func(a, b []rune)  { deriveDeepCopyI13x010(a, b) }
var use_I13x010_equal = func(a, b []rune) bool { return deriveEqualI13x010(a, b) }
var use_I13x010_equalc = func(a, b []rune) bool { return deriveEqualCI13x010(a)(b) }
var use_I13x010_equalclone = func(a []rune) bool { return deriveEqualI13x010(deriveCloneI13x010(a), a) }
var use_I13x010_gostring = func(a []rune) string { return deriveGoStringI13x010(a) }
var use_I13x010_hash = func(a []rune) uint64 { return deriveHashI13x010(a) }
var use_I13x010L_all_p func([]rune) bool
var use_I13x010L_all_l [][]rune
var use_I13x010L_all_v = deriveAllI13x010L(use_I13x010L_all_p, use_I13x010L_all_l)
var use_I13x010L_any_p func([]rune) bool
var use_I13x010L_any_l [][]rune
var use_I13x010L_any_v = deriveAnyI13x010L(use_I13x010L_any_p, use_I13x010L_any_l)
var use_I13x010L_contains_l [][]rune
var use_I13x010L_contains_x []rune
var use_I13x010L_contains_v = deriveContainsI13x010L(use_I13x010L_contains_l, use_I13x010L_contains_x)
var use_I13x010L_filter_p func([]rune) bool
var use_I13x010L_filter_l [][]rune
var use_I13x010L_filter_v = deriveFilterI13x010L(use_I13x010L_filter_p, use_I13x010L_filter_l)
var use_I13x010L_intersect_a [][]rune
var use_I13x010L_intersect_b [][]rune
var use_I13x010L_intersect_v = deriveIntersectI13x010L(use_I13x010L_intersect_a, use_I13x010L_intersect_b)
var use_I13x010L_max_l [][]rune
var use_I13x010L_max_d []rune
var use_I13x010L_max_v = deriveMaxI13x010L(use_I13x010L_max_l, use_I13x010L_max_d)
var use_I13x010L_max2_a []rune
var use_I13x010L_max2_b []rune
var use_I13x010L_max2_v = deriveMaxBI13x010L(use_I13x010L_max2_a, use_I13x010L_max2_b)
var use_I13x010L_min_l [][]rune
var use_I13x010L_min_d []rune
var use_I13x010L_min_v = deriveMinI13x010L(use_I13x010L_min_l, use_I13x010L_min_d)
var use_I13x010L_min2_a []rune
var use_I13x010L_min2_b []rune
var use_I13x010L_min2_v = deriveMinBI13x010L(use_I13x010L_min2_a, use_I13x010L_min2_b)
var use_I13x010L_sort_l [][]rune
var use_I13x010L_sort_v = deriveSortI13x010L(use_I13x010L_sort_l)
var use_I13x010L_takewhile_p func([]rune) bool
var use_I13x010L_takewhile_l [][]rune
var use_I13x010L_takewhile_v = deriveTakeWhileI13x010L(use_I13x010L_takewhile_p, use_I13x010L_takewhile_l)
var use_I13x010L_union_a [][]rune
var use_I13x010L_union_b [][]rune
var use_I13x010L_union_v = deriveUnionI13x010L(use_I13x010L_union_a, use_I13x010L_union_b)
var use_I13x010L_unique_l [][]rune
var use_I13x010L_unique_v = deriveUniqueI13x010L(use_I13x010L_unique_l)
var use_I13x011_clone = func(a *W6) *W6 { return deriveCloneI13x011(a) }
var use_I13x011_compare = func(a, b *W6) int { return deriveCompareI13x011(a, b) }
var use_I13x011_comparec = func(a, b *W6) int { return deriveCompareCI13x011(a)(b) }
var use_I13x011_deepcopy = func(a, b *W6)  { deriveDeepCopyI13x011(a, b) }
var use_I13x011_equal = func(a, b *W6) bool { return deriveEqualI13x011(a, b) }
var use_I13x011_equalc = func(a, b *W6) bool { return deriveEqualCI13x011(a)(b) }
var use_I13x011_equalclone = func(a *W6) bool { return deriveEqualI13x011(deriveCloneI13x011(a), a) }
var use_I13x011_gostring = func(a *W6) string { return deriveGoStringI13x011(a) }
var use_I13x011_hash = func(a *W6) uint64 { return deriveHashI13x011(a) }
var use_I13x012L_all = func(p func([2][2]bool) bool, l [][2][2]bool) bool { return deriveAllI13x012L(p, l) }
var use_I13x012L_any = func(p func([2][2]bool) bool, l [][2][2]bool) bool { return deriveAnyI13x012L(p, l) }
var use_I13x012L_contains = func(l [][2][2]bool, x [2][2]bool) bool { return deriveContainsI13x012L(l, x) }
var use_I13x012L_filter = func(p func([2][2]bool) bool, l [][2][2]bool) [][2][2]bool { return deriveFilterI13x012L(p, l) }
var use_I13x012L_intermap = func(a, b map[[2][2]bool]struct{}) map[[2][2]bool]struct{} { return deriveIntersectMI13x012L(a, b) }
var use_I13x012L_intersect = func(a, b [][2][2]bool) [][2][2]bool { return deriveIntersectI13x012L(a, b) }
var use_I13x012L_max = func(l [][2][2]bool, d [2][2]bool) [2][2]bool { return deriveMaxI13x012L(l, d) }
var use_I13x012L_max2 = func(a, b [2][2]bool) [2][2]bool { return deriveMaxBI13x012L(a, b) }
var use_I13x012L_min = func(l [][2][2]bool, d [2][2]bool) [2][2]bool { return deriveMinI13x012L(l, d) }
var use_I13x012L_min2 = func(a, b [2][2]bool) [2][2]bool { return deriveMinBI13x012L(a, b) }
var use_I13x012L_set = func(l [][2][2]bool) map[[2][2]bool]struct{} { return deriveSetI13x012L(l) }
var use_I13x012L_sort = func(l [][2][2]bool) [][2][2]bool { return deriveSortI13x012L(l) }
var use_I13x012L_takewhile = func(p func([2][2]bool) bool, l [][2][2]bool) [][2][2]bool { return deriveTakeWhileI13x012L(p, l) }
var use_I13x012L_union = func(a, b [][2][2]bool) [][2][2]bool { return deriveUnionI13x012L(a, b) }
var use_I13x012L_unionmap = func(a, b map[[2][2]bool]struct{}) map[[2][2]bool]struct{} { return deriveUnionMI13x012L(a, b) }
var use_I13x012L_unique = func(l [][2][2]bool) [][2][2]bool { return deriveUniqueI13x012L(l) }
var use_I13x013_clone_a *W7
var use_I13x013_clone_v = deriveCloneI13x013(use_I13x013_clone_a)
var use_I13x013_compare_a *W7
var use_I13x013_compare_b *W7
var use_I13x013_compare_v = deriveCompareI13x013(use_I13x013_compare_a, use_I13x013_compare_b)
var use_I13x013_comparec_a *W7
var use_I13x013_comparec_b *W7
var use_I13x013_comparec_v = deriveCompareCI13x013(use_I13x013_comparec_a)(use_I13x013_comparec_b)
var use_I13x013_deepcopy_a *W7
var use_I13x013_deepcopy_b *W7
func init() { deriveDeepCopyI13x013(use_I13x013_deepcopy_a, use_I13x013_deepcopy_b) }
var use_I13x013_equal_a *W7
var use_I13x013_equal_b *W7
var use_I13x013_equal_v = deriveEqualI13x013(use_I13x013_equal_a, use_I13x013_equal_b)
var use_I13x013_equalc_a *W7
var use_I13x013_equalc_b *W7
var use_I13x013_equalc_v = deriveEqualCI13x013(use_I13x013_equalc_a)(use_I13x013_equalc_b)
var use_I13x013_equalclone_a *W7
var use_I13x013_equalclone_v = deriveEqualI13x013(deriveCloneI13x013(use_I13x013_equalclone_a), use_I13x013_equalclone_a)
var use_I13x013_gostring_a *W7
var use_I13x013_gostring_v = deriveGoStringI13x013(use_I13x013_gostring_a)
var use_I13x013_hash_a *W7
var use_I13x013_hash_v = deriveHashI13x013(use_I13x013_hash_a)
func use_I13x014_clone(a [2][2]string) [2][2]string { return deriveCloneI13x014(a) }
func use_I13x014_compare(a, b [2][2]string) int { return deriveCompareI13x014(a, b) }
func use_I13x014_comparec(a, b [2][2]string) int { return deriveCompareCI13x014(a)(b) }
func use_I13x014_equal(a, b [2][2]string) bool { return deriveEqualI13x014(a, b) }
func use_I13x014_equalc(a, b [2][2]string) bool { return deriveEqualCI13x014(a)(b) }
func use_I13x014_equalclone(a [2][2]string) bool { return deriveEqualI13x014(deriveCloneI13x014(a), a) }
func use_I13x014_gostring(a [2][2]string) string { return deriveGoStringI13x014(a) }
func use_I13x014_hash(a [2][2]string) uint64 { return deriveHashI13x014(a) }
var use_I13x014L_all_p func([2][2]string) bool
var use_I13x014L_all_l [][2][2]string
var use_I13x014L_all_v = deriveAllI13x014L(use_I13x014L_all_p, use_I13x014L_all_l)
var use_I13x014L_any_p func([2][2]string) bool
var use_I13x014L_any_l [][2][2]string
var use_I13x014L_any_v = deriveAnyI13x014L(use_I13x014L_any_p, use_I13x014L_any_l)
var use_I13x014L_contains_l [][2][2]string
var use_I13x014L_contains_x [2][2]string
var use_I13x014L_contains_v = deriveContainsI13x014L(use_I13x014L_contains_l, use_I13x014L_contains_x)
var use_I13x014L_filter_p func([2][2]string) bool
var use_I13x014L_filter_l [][2][2]string
var use_I13x014L_filter_v = deriveFilterI13x014L(use_I13x014L_filter_p, use_I13x014L_filter_l)
var use_I13x014L_intermap_a map[[2][2]string]struct{}
var use_I13x014L_intermap_b map[[2][2]string]struct{}
var use_I13x014L_intermap_v = deriveIntersectMI13x014L(use_I13x014L_intermap_a, use_I13x014L_intermap_b)
var use_I13x014L_intersect_a [][2][2]string
var use_I13x014L_intersect_b [][2][2]string
var use_I13x014L_intersect_v = deriveIntersectI13x014L(use_I13x014L_intersect_a, use_I13x014L_intersect_b)
var use_I13x014L_max_l [][2][2]string
var use_I13x014L_max_d [2][2]string
var use_I13x014L_max_v = deriveMaxI13x014L(use_I13x014L_max_l, use_I13x014L_max_d)
var use_I13x014L_max2_a [2][2]string
var use_I13x014L_max2_b [2][2]string
var use_I13x014L_max2_v = deriveMaxBI13x014L(use_I13x014L_max2_a, use_I13x014L_max2_b)
var use_I13x014L_min_l [][2][2]string
var use_I13x014L_min_d [2][2]string
var use_I13x014L_min_v = deriveMinI13x014L(use_I13x014L_min_l, use_I13x014L_min_d)
var use_I13x014L_min2_a [2][2]string
var use_I13x014L_min2_b [2][2]string
var use_I13x014L_min2_v = deriveMinBI13x014L(use_I13x014L_min2_a, use_I13x014L_min2_b)
var use_I13x014L_set_l [][2][2]string
var use_I13x014L_set_v = deriveSetI13x014L(use_I13x014L_set_l)
var use_I13x014L_sort_l [][2][2]string
var use_I13x014L_sort_v = deriveSortI13x014L(use_I13x014L_sort_l)
var use_I13x014L_takewhile_p func([2][2]string) bool
var use_I13x014L_takewhile_l [][2][2]string
var use_I13x014L_takewhile_v = deriveTakeWhileI13x014L(use_I13x014L_takewhile_p, use_I13x014L_takewhile_l)
var use_I13x014L_union_a [][2][2]string
var use_I13x014L_union_b [][2][2]string
var use_I13x014L_union_v = deriveUnionI13x014L(use_I13x014L_union_a, use_I13x014L_union_b)
var use_I13x014L_unionmap_a map[[2][2]string]struct{}
var use_I13x014L_unionmap_b map[[2][2]string]struct{}
var use_I13x014L_unionmap_v = deriveUnionMI13x014L(use_I13x014L_unionmap_a, use_I13x014L_unionmap_b)
var use_I13x014L_unique_l [][2][2]string
var use_I13x014L_unique_v = deriveUniqueI13x014L(use_I13x014L_unique_l)
var use_I13x015_clone = func(a *W8) *W8 { return deriveCloneI13x015(a) }
var use_I13x015_compare = func(a, b *W8) int { return deriveCompareI13x015(a, b) }
var use_I13x015_comparec = func(a, b *W8) int { return deriveCompareCI13x015(a)(b) }
var use_I13x015_deepcopy = func(a, b *W8)  { deriveDeepCopyI13x015(a, b) }
var use_I13x015_equal = func(a, b *W8) bool { return deriveEqualI13x015(a, b) }
var use_I13x015_equalc = func(a, b *W8) bool { return deriveEqualCI13x015(a)(b) }
var use_I13x015_equalclone = func(a *W8) bool { return deriveEqualI13x015(deriveCloneI13x015(a), a) }
var use_I13x015_gostring = func(a *W8) string { return deriveGoStringI13x015(a) }
var use_I13x015_hash = func(a *W8) uint64 { return deriveHashI13x015(a) }
var use_I13x016_clone_a map[int][]NStr
var use_I13x016_clone_v = deriveCloneI13x016(use_I13x016_clone_a)
var use_I13x016_compare_a map[int][]NStr
var use_I13x016_compare_b map[int][]NStr
var use_I13x016_compare_v = deriveCompareI13x016(use_I13x016_compare_a, use_I13x016_compare_b)
var use_I13x016_comparec_a map[int][]NStr
var use_I13x016_comparec_b map[int][]NStr
var use_I13x016_comparec_v = deriveCompareCI13x016(use_I13x016_comparec_a)(use_I13x016_comparec_b)
var use_I13x016_deepcopy_a map[int][]NStr
var use_I13x016_deepcopy_b map[int][]NStr
func init() { deriveDeepCopyI13x016(use_I13x016_deepcopy_a, use_I13x016_deepcopy_b) }
var use_I13x016_equal_a map[int][]NStr
var use_I13x016_equal_b map[int][]NStr
var use_I13x016_equal_v = deriveEqualI13x016(use_I13x016_equal_a, use_I13x016_equal_b)
var use_I13x016_equalc_a map[int][]NStr
var use_I13x016_equalc_b map[int][]NStr
var use_I13x016_equalc_v = deriveEqualCI13x016(use_I13x016_equalc_a)(use_I13x016_equalc_b)
var use_I13x016_equalclone_a map[int][]NStr
var use_I13x016_equalclone_v = deriveEqualI13x016(deriveCloneI13x016(use_I13x016_equalclone_a), use_I13x016_equalclone_a)
var use_I13x016_gostring_a map[int][]NStr
var use_I13x016_gostring_v = deriveGoStringI13x016(use_I13x016_gostring_a)
var use_I13x016_hash_a map[int][]NStr
var use_I13x016_hash_v = deriveHashI13x016(use_I13x016_hash_a)
var use_I13x016_keys_m map[int][]NStr
var use_I13x016_keys_v = len(deriveKeysI13x016(use_I13x016_keys_m))
var use_I13x016_sortkeys_m map[int][]NStr
var use_I13x016_sortkeys_v = len(deriveSortI13x016(deriveKeysI13x016(use_I13x016_sortkeys_m)))
var use_I13x016L_all = func(p func(map[int][]NStr) bool, l []map[int][]NStr) bool { return deriveAllI13x016L(p, l) }
var use_I13x016L_any = func(p func(map[int][]NStr) bool, l []map[int][]NStr) bool { return deriveAnyI13x016L(p, l) }
var use_I13x016L_contains = func(l []map[int][]NStr, x map[int][]NStr) bool { return deriveContainsI13x016L(l, x) }
var use_I13x016L_filter = func(p func(map[int][]NStr) bool, l []map[int][]NStr) []map[int][]NStr { return deriveFilterI13x016L(p, l) }
var use_I13x016L_intersect = func(a, b []map[int][]NStr) []map[int][]NStr { return deriveIntersectI13x016L(a, b) }
var use_I13x016L_max = func(l []map[int][]NStr, d map[int][]NStr) map[int][]NStr { return deriveMaxI13x016L(l, d) }
var use_I13x016L_max2 = func(a, b map[int][]NStr) map[int][]NStr { return deriveMaxBI13x016L(a, b) }
var use_I13x016L_min = func(l []map[int][]NStr, d map[int][]NStr) map[int][]NStr { return deriveMinI13x016L(l, d) }
var use_I13x016L_min2 = func(a, b map[int][]NStr) map[int][]NStr { return deriveMinBI13x016L(a, b) }
var use_I13x016L_sort = func(l []map[int][]NStr) []map[int][]NStr { return deriveSortI13x016L(l) }
var use_I13x016L_takewhile = func(p func(map[int][]NStr) bool, l []map[int][]NStr) []map[int][]NStr { return deriveTakeWhileI13x016L(p, l) }
var use_I13x016L_union = func(a, b []map[int][]NStr) []map[int][]NStr { return deriveUnionI13x016L(a, b) }
var use_I13x016L_unique = func(l []map[int][]NStr) []map[int][]NStr { return deriveUniqueI13x016L(l) }
var use_I13x017_clone_a *W9
var use_I13x017_clone_v = deriveCloneI13x017(use_I13x017_clone_a)
var use_I13x017_compare_a *W9
var use_I13x017_compare_b *W9
var use_I13x017_compare_v = deriveCompareI13x017(use_I13x017_compare_a, use_I13x017_compare_b)
var use_I13x017_comparec_a *W9
var use_I13x017_comparec_b *W9
var use_I13x017_comparec_v = deriveCompareCI13x017(use_I13x017_comparec_a)(use_I13x017_comparec_b)
var use_I13x017_deepcopy_a *W9
var use_I13x017_deepcopy_b *W9
func init() { deriveDeepCopyI13x017(use_I13x017_deepcopy_a, use_I13x017_deepcopy_b) }
var use_I13x017_equal_a *W9
var use_I13x017_equal_b *W9
var use_I13x017_equal_v = deriveEqualI13x017(use_I13x017_equal_a, use_I13x017_equal_b)
var use_I13x017_equalc_a *W9
var use_I13x017_equalc_b *W9
var use_I13x017_equalc_v = deriveEqualCI13x017(use_I13x017_equalc_a)(use_I13x017_equalc_b)
var use_I13x017_equalclone_a *W9
var use_I13x017_equalclone_v = deriveEqualI13x017(deriveCloneI13x017(use_I13x017_equalclone_a), use_I13x017_equalclone_a)
var use_I13x017_gostring_a *W9
var use_I13x017_gostring_v = deriveGoStringI13x017(use_I13x017_gostring_a)
var use_I13x017_hash_a *W9
var use_I13x017_hash_v = deriveHashI13x017(use_I13x017_hash_a)
var use_I13x018_clone = func(a map[[2]int]int64) map[[2]int]int64 { return deriveCloneI13x018(a) }
var use_I13x018_compare = func(a, b map[[2]int]int64) int { return deriveCompareI13x018(a, b) }
var use_I13x018_comparec = func(a, b map[[2]int]int64) int { return deriveCompareCI13x018(a)(b) }
var use_I13x018_deepcopy = func(a, b map[[2]int]int64)  { deriveDeepCopyI13x018(a, b) }
var use_I13x018_equal = func(a, b map[[2]int]int64) bool { return deriveEqualI13x018(a, b) }
var use_I13x018_equalc = func(a, b map[[2]int]int64) bool { return deriveEqualCI13x018(a)(b) }
var use_I13x018_equalclone = func(a map[[2]int]int64) bool { return deriveEqualI13x018(deriveCloneI13x018(a), a) }
var use_I13x018_gostring = func(a map[[2]int]int64) string { return deriveGoStringI13x018(a) }
var use_I13x018_hash = func(a map[[2]int]int64) uint64 { return deriveHashI13x018(a) }
var use_I13x018_keys = func(m map[[2]int]int64) int { return len(deriveKeysI13x018(m)) }
var use_I13x018_sortkeys = func(m map[[2]int]int64) int { return len(deriveSortI13x018(deriveKeysI13x018(m))) }
var use_I13x018L_all = func(p func(map[[2]int]int64) bool, l []map[[2]int]int64) bool { return deriveAllI13x018L(p, l) }
var use_I13x018L_any = func(p func(map[[2]int]int64) bool, l []map[[2]int]int64) bool { return deriveAnyI13x018L(p, l) }
var use_I13x018L_contains = func(l []map[[2]int]int64, x map[[2]int]int64) bool { return deriveContainsI13x018L(l, x) }
var use_I13x018L_filter = func(p func(map[[2]int]int64) bool, l []map[[2]int]int64) []map[[2]int]int64 { return deriveFilterI13x018L(p, l) }
var use_I13x018L_intersect = func(a, b []map[[2]int]int64) []map[[2]int]int64 { return deriveIntersectI13x018L(a, b) }
var use_I13x018L_max = func(l []map[[2]int]int64, d map[[2]int]int64) map[[2]int]int64 { return deriveMaxI13x018L(l, d) }
var use_I13x018L_max2 = func(a, b map[[2]int]int64) map[[2]int]int64 { return deriveMaxBI13x018L(a, b) }
var use_I13x018L_min = func(l []map[[2]int]int64, d map[[2]int]int64) map[[2]int]int64 { return deriveMinI13x018L(l, d) }
var use_I13x018L_min2 = func(a, b map[[2]int]int64) map[[2]int]int64 { return deriveMinBI13x018L(a, b) }
var use_I13x018L_sort = func(l []map[[2]int]int64) []map[[2]int]int64 { return deriveSortI13x018L(l) }
var use_I13x018L_takewhile = func(p func(map[[2]int]int64) bool, l []map[[2]int]int64) []map[[2]int]int64 { return deriveTakeWhileI13x018L(p, l) }
var use_I13x018L_union = func(a, b []map[[2]int]int64) []map[[2]int]int64 { return deriveUnionI13x018L(a, b) }
var use_I13x018L_unique = func(l []map[[2]int]int64) []map[[2]int]int64 { return deriveUniqueI13x018L(l) }
var use_I13x019_clone_a *W10
var use_I13x019_clone_v = deriveCloneI13x019(use_I13x019_clone_a)
var use_I13x019_compare_a *W10
var use_I13x019_compare_b *W10
var use_I13x019_compare_v = deriveCompareI13x019(use_I13x019_compare_a, use_I13x019_compare_b)
var use_I13x019_comparec_a *W10
var use_I13x019_comparec_b *W10
var use_I13x019_comparec_v = deriveCompareCI13x019(use_I13x019_comparec_a)(use_I13x019_comparec_b)
var use_I13x019_deepcopy_a *W10
var use_I13x019_deepcopy_b *W10
func init() { deriveDeepCopyI13x019(use_I13x019_deepcopy_a, use_I13x019_deepcopy_b) }
var use_I13x019_equal_a *W10
var use_I13x019_equal_b *W10
var use_I13x019_equal_v = deriveEqualI13x019(use_I13x019_equal_a, use_I13x019_equal_b)
var use_I13x019_equalc_a *W10
var use_I13x019_equalc_b *W10
var use_I13x019_equalc_v = deriveEqualCI13x019(use_I13x019_equalc_a)(use_I13x019_equalc_b)
var use_I13x019_equalclone_a *W10
var use_I13x019_equalclone_v = deriveEqualI13x019(deriveCloneI13x019(use_I13x019_equalclone_a), use_I13x019_equalclone_a)
var use_I13x019_gostring_a *W10
var use_I13x019_gostring_v = deriveGoStringI13x019(use_I13x019_gostring_a)
var use_I13x019_hash_a *W10
var use_I13x019_hash_v = deriveHashI13x019(use_I13x019_hash_a)
var use_I13x020L_all = func(p func(*SR) bool, l []*SR) bool { return deriveAllI13x020L(p, l) }
var use_I13x020L_any = func(p func(*SR) bool, l []*SR) bool { return deriveAnyI13x020L(p, l) }
var use_I13x020L_contains = func(l []*SR, x *SR) bool { return deriveContainsI13x020L(l, x) }
var use_I13x020L_filter = func(p func(*SR) bool, l []*SR) []*SR { return deriveFilterI13x020L(p, l) }
var use_I13x020L_intersect = func(a, b []*SR) []*SR { return deriveIntersectI13x020L(a, b) }
var use_I13x020L_max = func(l []*SR, d *SR) *SR { return deriveMaxI13x020L(l, d) }
var use_I13x020L_max2 = func(a, b *SR) *SR { return deriveMaxBI13x020L(a, b) }
var use_I13x020L_min = func(l []*SR, d *SR) *SR { return deriveMinI13x020L(l, d) }
var use_I13x020L_min2 = func(a, b *SR) *SR { return deriveMinBI13x020L(a, b) }
var use_I13x020L_sort = func(l []*SR) []*SR { return deriveSortI13x020L(l) }
var use_I13x020L_takewhile = func(p func(*SR) bool, l []*SR) []*SR { return deriveTakeWhileI13x020L(p, l) }
var use_I13x020L_union = func(a, b []*SR) []*SR { return deriveUnionI13x020L(a, b) }
var use_I13x020L_unique = func(l []*SR) []*SR { return deriveUniqueI13x020L(l) }
var use_I13x021_clone = func(a *W11) *W11 { return deriveCloneI13x021(a) }
var use_I13x021_compare = func(a, b *W11) int { return deriveCompareI13x021(a, b) }
var use_I13x021_comparec = func(a, b *W11) int { return deriveCompareCI13x021(a)(b) }
var use_I13x021_deepcopy = func(a, b *W11)  { deriveDeepCopyI13x021(a, b) }
var use_I13x021_equal = func(a, b *W11) bool { return deriveEqualI13x021(a, b) }
var use_I13x021_equalc = func(a, b *W11) bool { return deriveEqualCI13x021(a)(b) }
var use_I13x021_equalclone = func(a *W11) bool { return deriveEqualI13x021(deriveCloneI13x021(a), a) }
var use_I13x021_gostring = func(a *W11) string { return deriveGoStringI13x021(a) }
var use_I13x021_hash = func(a *W11) uint64 { return deriveHashI13x021(a) }
var use_I13x023_clone = func(a *W12) *W12 { return deriveCloneI13x023(a) }
var use_I13x023_compare = func(a, b *W12) int { return deriveCompareI13x023(a, b) }
var use_I13x023_comparec = func(a, b *W12) int { return deriveCompareCI13x023(a)(b) }
var use_I13x023_deepcopy = func(a, b *W12)  { deriveDeepCopyI13x023(a, b) }
var use_I13x023_equal = func(a, b *W12) bool { return deriveEqualI13x023(a, b) }
var use_I13x023_equalc = func(a, b *W12) bool { return deriveEqualCI13x023(a)(b) }
var use_I13x023_equalclone = func(a *W12) bool { return deriveEqualI13x023(deriveCloneI13x023(a), a) }
var use_I13x023_hash = func(a *W12) uint64 { return deriveHashI13x023(a) }
