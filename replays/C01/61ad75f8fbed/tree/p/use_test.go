package p

import (
	ext "scratch/ext"
	"testing"
)

func TestNothing(t *testing.T) {}

func use_I13x000L_all(p func([]map[NStr]int) bool, l [][]map[NStr]int) bool { return deriveAllI13x000L(p, l) }
func use_I13x000L_any(p func([]map[NStr]int) bool, l [][]map[NStr]int) bool { return deriveAnyI13x000L(p, l) }
func use_I13x000L_contains(l [][]map[NStr]int, x []map[NStr]int) bool { return deriveContainsI13x000L(l, x) }
func use_I13x000L_filter(p func([]map[NStr]int) bool, l [][]map[NStr]int) [][]map[NStr]int { return deriveFilterI13x000L(p, l) }
func use_I13x000L_intersect(a, b [][]map[NStr]int) [][]map[NStr]int { return deriveIntersectI13x000L(a, b) }
func use_I13x000L_max(l [][]map[NStr]int, d []map[NStr]int) []map[NStr]int { return deriveMaxI13x000L(l, d) }
func use_I13x000L_max2(a, b []map[NStr]int) []map[NStr]int { return deriveMaxBI13x000L(a, b) }
func use_I13x000L_min(l [][]map[NStr]int, d []map[NStr]int) []map[NStr]int { return deriveMinI13x000L(l, d) }
func use_I13x000L_min2(a, b []map[NStr]int) []map[NStr]int { return deriveMinBI13x000L(a, b) }
func use_I13x000L_sort(l [][]map[NStr]int) [][]map[NStr]int { return deriveSortI13x000L(l) }
func use_I13x000L_takewhile(p func([]map[NStr]int) bool, l [][]map[NStr]int) [][]map[NStr]int { return deriveTakeWhileI13x000L(p, l) }
func use_I13x000L_union(a, b [][]map[NStr]int) [][]map[NStr]int { return deriveUnionI13x000L(a, b) }
func use_I13x000L_unique(l [][]map[NStr]int) [][]map[NStr]int { return deriveUniqueI13x000L(l) }
func use_I13x004L_all(p func([]float64) bool, l [][]float64) bool { return deriveAllI13x004L(p, l) }
func use_I13x004L_any(p func([]float64) bool, l [][]float64) bool { return deriveAnyI13x004L(p, l) }
func use_I13x004L_contains(l [][]float64, x []float64) bool { return deriveContainsI13x004L(l, x) }
func use_I13x004L_filter(p func([]float64) bool, l [][]float64) [][]float64 { return deriveFilterI13x004L(p, l) }
func use_I13x004L_intersect(a, b [][]float64) [][]float64 { return deriveIntersectI13x004L(a, b) }
func use_I13x004L_max(l [][]float64, d []float64) []float64 { return deriveMaxI13x004L(l, d) }
func use_I13x004L_max2(a, b []float64) []float64 { return deriveMaxBI13x004L(a, b) }
func use_I13x004L_min(l [][]float64, d []float64) []float64 { return deriveMinI13x004L(l, d) }
func use_I13x004L_min2(a, b []float64) []float64 { return deriveMinBI13x004L(a, b) }
func use_I13x004L_sort(l [][]float64) [][]float64 { return deriveSortI13x004L(l) }
func use_I13x004L_takewhile(p func([]float64) bool, l [][]float64) [][]float64 { return deriveTakeWhileI13x004L(p, l) }
func use_I13x004L_union(a, b [][]float64) [][]float64 { return deriveUnionI13x004L(a, b) }
func use_I13x004L_unique(l [][]float64) [][]float64 { return deriveUniqueI13x004L(l) }
func use_I13x007_clone(a *W4) *W4 { return deriveCloneI13x007(a) }
func use_I13x007_compare(a, b *W4) int { return deriveCompareI13x007(a, b) }
func use_I13x007_comparec(a, b *W4) int { return deriveCompareCI13x007(a)(b) }
func use_I13x007_deepcopy(a, b *W4)  { deriveDeepCopyI13x007(a, b) }
func use_I13x007_equal(a, b *W4) bool { return deriveEqualI13x007(a, b) }
func use_I13x007_equalc(a, b *W4) bool { return deriveEqualCI13x007(a)(b) }
func use_I13x007_equalclone(a *W4) bool { return deriveEqualI13x007(deriveCloneI13x007(a), a) }
func use_I13x007_gostring(a *W4) string { return deriveGoStringI13x007(a) }
func use_I13x007_hash(a *W4) uint64 { return deriveHashI13x007(a) }
func use_I13x012_clone(a [2][2]bool) [2][2]bool { return deriveCloneI13x012(a) }
func use_I13x012_compare(a, b [2][2]bool) int { return deriveCompareI13x012(a, b) }
func use_I13x012_comparec(a, b [2][2]bool) int { return deriveCompareCI13x012(a)(b) }
func use_I13x012_equal(a, b [2][2]bool) bool { return deriveEqualI13x012(a, b) }
func use_I13x012_equalc(a, b [2][2]bool) bool { return deriveEqualCI13x012(a)(b) }
func use_I13x012_equalclone(a [2][2]bool) bool { return deriveEqualI13x012(deriveCloneI13x012(a), a) }
func use_I13x012_gostring(a [2][2]bool) string { return deriveGoStringI13x012(a) }
func use_I13x012_hash(a [2][2]bool) uint64 { return deriveHashI13x012(a) }
func use_I13x020_clone(a *SR) *SR { return deriveCloneI13x020(a) }
func use_I13x020_compare(a, b *SR) int { return deriveCompareI13x020(a, b) }
func use_I13x020_comparec(a, b *SR) int { return deriveCompareCI13x020(a)(b) }
func use_I13x020_deepcopy(a, b *SR)  { deriveDeepCopyI13x020(a, b) }
func use_I13x020_equal(a, b *SR) bool { return deriveEqualI13x020(a, b) }
func use_I13x020_equalc(a, b *SR) bool { return deriveEqualCI13x020(a)(b) }
func use_I13x020_equalclone(a *SR) bool { return deriveEqualI13x020(deriveCloneI13x020(a), a) }
func use_I13x020_gostring(a *SR) string { return deriveGoStringI13x020(a) }
func use_I13x020_hash(a *SR) uint64 { return deriveHashI13x020(a) }
func use_I13x022_clone(a *ext.Priv) *ext.Priv { return deriveCloneI13x022(a) }
func use_I13x022_compare(a, b *ext.Priv) int { return deriveCompareI13x022(a, b) }
func use_I13x022_comparec(a, b *ext.Priv) int { return deriveCompareCI13x022(a)(b) }
func use_I13x022_deepcopy(a, b *ext.Priv)  { deriveDeepCopyI13x022(a, b) }
func use_I13x022_equal(a, b *ext.Priv) bool { return deriveEqualI13x022(a, b) }
func use_I13x022_equalc(a, b *ext.Priv) bool { return deriveEqualCI13x022(a)(b) }
func use_I13x022_equalclone(a *ext.Priv) bool { return deriveEqualI13x022(deriveCloneI13x022(a), a) }
func use_I13x022_hash(a *ext.Priv) uint64 { return deriveHashI13x022(a) }
func use_I13x022L_all(p func(*ext.Priv) bool, l []*ext.Priv) bool { return deriveAllI13x022L(p, l) }
func use_I13x022L_any(p func(*ext.Priv) bool, l []*ext.Priv) bool { return deriveAnyI13x022L(p, l) }
func use_I13x022L_contains(l []*ext.Priv, x *ext.Priv) bool { return deriveContainsI13x022L(l, x) }
func use_I13x022L_filter(p func(*ext.Priv) bool, l []*ext.Priv) []*ext.Priv { return deriveFilterI13x022L(p, l) }
func use_I13x022L_intersect(a, b []*ext.Priv) []*ext.Priv { return deriveIntersectI13x022L(a, b) }
func use_I13x022L_max(l []*ext.Priv, d *ext.Priv) *ext.Priv { return deriveMaxI13x022L(l, d) }
func use_I13x022L_max2(a, b *ext.Priv) *ext.Priv { return deriveMaxBI13x022L(a, b) }
func use_I13x022L_min(l []*ext.Priv, d *ext.Priv) *ext.Priv { return deriveMinI13x022L(l, d) }
func use_I13x022L_min2(a, b *ext.Priv) *ext.Priv { return deriveMinBI13x022L(a, b) }
func use_I13x022L_sort(l []*ext.Priv) []*ext.Priv { return deriveSortI13x022L(l) }
func use_I13x022L_takewhile(p func(*ext.Priv) bool, l []*ext.Priv) []*ext.Priv { return deriveTakeWhileI13x022L(p, l) }
func use_I13x022L_union(a, b []*ext.Priv) []*ext.Priv { return deriveUnionI13x022L(a, b) }
func use_I13x022L_unique(l []*ext.Priv) []*ext.Priv { return deriveUniqueI13x022L(l) }
