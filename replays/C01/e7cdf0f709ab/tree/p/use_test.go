package p

import (
	"testing"
)

func TestNothing(t *testing.T) {}

func use_I01x016_clone(a bool) bool { return deriveCloneI01x016(a) }
func use_I01x016_compare(a, b bool) int { return deriveCompareI01x016(a, b) }
func use_I01x016_comparec(a, b bool) int { return deriveCompareCI01x016(a)(b) }
func use_I01x016_equal(a, b bool) bool { return deriveEqualI01x016(a, b) }
func use_I01x016_equalc(a, b bool) bool { return deriveEqualCI01x016(a)(b) }
func use_I01x016_equalclone(a bool) bool { return deriveEqualNI01x016(deriveCloneNI01x016(a), a) }
func use_I01x016_gostring(a bool) string { return deriveGoStringI01x016(a) }
func use_I01x016_hash(a bool) uint64 { return deriveHashI01x016(a) }
