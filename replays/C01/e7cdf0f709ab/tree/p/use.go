package p


