package p


func use_Knamed-composites1_sortkeys(m NMap) int { return len(deriveSortKnamed-composites1(deriveKeysKnamed-composites1(m))) }
