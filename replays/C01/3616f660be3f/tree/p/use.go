package p


var use_I12x000_clone = func(a []map[[2]int]int) []map[[2]int]int { return deriveCloneI12x000(a) }
var use_I12x000_compare = func(a, b []map[[2]int]int) int { return deriveCompareI12x000(a, b) }
var use_I12x000_comparec = func(a, b []map[[2]int]int) int { return deriveCompareCI12x000(a)(b) }
var use_I12x000_deepcopy = func(a, b []map[[2]int]int)  { deriveDeepCopyI12x000(a, b) }
var use_I12x000_equal = func(a, b []map[[2]int]int) bool { return deriveEqualI12x000(a, b) }
var use_I12x000_equalc = func(a, b []map[[2]int]int) bool { return deriveEqualCI12x000(a)(b) }
var use_I12x000_equalclone = func(a []map[[2]int]int) bool { return deriveEqualNI12x000(deriveCloneNI12x000(a), a) }
var use_I12x000_gostring = func(a []map[[2]int]int) string { return deriveGoStringI12x000(a) }
var use_I12x000_hash = func(a []map[[2]int]int) uint64 { return deriveHashI12x000(a) }
