package p


func use_I07x020_clone(a map[int]NStr) map[int]NStr { return deriveCloneI07x020(a) }
func use_I07x020_compare(a, b map[int]NStr) int { return deriveCompareI07x020(a, b) }
func use_I07x020_comparec(a, b map[int]NStr) int { return deriveCompareCI07x020(a)(b) }
func use_I07x020_deepcopy(a, b map[int]NStr)  { deriveDeepCopyI07x020(a, b) }
func use_I07x020_equal(a, b map[int]NStr) bool { return deriveEqualI07x020(a, b) }
func use_I07x020_equalc(a, b map[int]NStr) bool { return deriveEqualCI07x020(a)(b) }
func use_I07x020_equalclone(a map[int]NStr) bool { return deriveEqualNI07x020(deriveCloneNI07x020(a), a) }
func use_I07x020_gostring(a map[int]NStr) string { return deriveGoStringI07x020(a) }
func use_I07x020_hash(a map[int]NStr) uint64 { return deriveHashI07x020(a) }
func use_I07x020_keys(m map[int]NStr) int { return len(deriveKeysI07x020(m)) }
func use_I07x020_sortkeys(m map[int]NStr) int { return len(deriveSortI07x020(deriveKeysI07x020(m))) }
