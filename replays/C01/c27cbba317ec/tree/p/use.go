package p


var use_I16x012_clone = func(a string) string { return deriveCloneI16x012(a) }
var use_I16x012_compare = func(a, b string) int { return deriveCompareI16x012(a, b) }
var use_I16x012_comparec = func(a, b string) int { return deriveCompareCI16x012(a)(b) }
var use_I16x012_equal = func(a, b string) bool { return deriveEqualI16x012(a, b) }
var use_I16x012_equalc = func(a, b string) bool { return deriveEqualCI16x012(a)(b) }
var use_I16x012_equalclone = func(a string) bool { return deriveEqualNI16x012(deriveCloneNI16x012(a), a) }
var use_I16x012_gostring = func(a string) string { return deriveGoStringI16x012(a) }
var use_I16x012_hash = func(a string) uint64 { return deriveHashI16x012(a) }
