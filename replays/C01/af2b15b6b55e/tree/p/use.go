package p


var use_I11x004_clone_a map[string][]rune
var use_I11x004_clone_v = deriveCloneI11x004(use_I11x004_clone_a)
var use_I11x004_compare_a map[string][]rune
var use_I11x004_compare_b map[string][]rune
var use_I11x004_compare_v = deriveCompareI11x004(use_I11x004_compare_a, use_I11x004_compare_b)
var use_I11x004_comparec_a map[string][]rune
var use_I11x004_comparec_b map[string][]rune
var use_I11x004_comparec_v = deriveCompareCI11x004(use_I11x004_comparec_a)(use_I11x004_comparec_b)
var use_I11x004_deepcopy_a map[string][]rune
var use_I11x004_deepcopy_b map[string][]rune
func init() { deriveDeepCopyI11x004(use_I11x004_deepcopy_a, use_I11x004_deepcopy_b) }
var use_I11x004_equal_a map[string][]rune
var use_I11x004_equal_b map[string][]rune
var use_I11x004_equal_v = deriveEqualI11x004(use_I11x004_equal_a, use_I11x004_equal_b)
var use_I11x004_equalc_a map[string][]rune
var use_I11x004_equalc_b map[string][]rune
var use_I11x004_equalc_v = deriveEqualCI11x004(use_I11x004_equalc_a)(use_I11x004_equalc_b)
var use_I11x004_equalclone_a map[string][]rune
var use_I11x004_equalclone_v = deriveEqualNI11x004(deriveCloneNI11x004(use_I11x004_equalclone_a), use_I11x004_equalclone_a)
var use_I11x004_gostring_a map[string][]rune
var use_I11x004_gostring_v = deriveGoStringI11x004(use_I11x004_gostring_a)
var use_I11x004_hash_a map[string][]rune
var use_I11x004_hash_v = deriveHashI11x004(use_I11x004_hash_a)
var use_I11x004_keys_m map[string][]rune
var use_I11x004_keys_v = len(deriveKeysI11x004(use_I11x004_keys_m))
var use_I11x004_sortkeys_m map[string][]rune
var use_I11x004_sortkeys_v = len(deriveSortI11x004(deriveKeysI11x004(use_I11x004_sortkeys_m)))
