package p


var use_I07x022_clone = func(a [2]complex128) [2]complex128 { return deriveCloneI07x022(a) }
var use_I07x022_compare = func(a, b [2]complex128) int { return deriveCompareI07x022(a, b) }
var use_I07x022_comparec = func(a, b [2]complex128) int { return deriveCompareCI07x022(a)(b) }
var use_I07x022_equal = func(a, b [2]complex128) bool { return deriveEqualI07x022(a, b) }
var use_I07x022_equalc = func(a, b [2]complex128) bool { return deriveEqualCI07x022(a)(b) }
var use_I07x022_equalclone = func(a [2]complex128) bool { return deriveEqualNI07x022(deriveCloneNI07x022(a), a) }
var use_I07x022_gostring = func(a [2]complex128) string { return deriveGoStringI07x022(a) }
var use_I07x022_hash = func(a [2]complex128) uint64 { return deriveHashI07x022(a) }
