package p


func use_I06x002_clone(a *map[string]SV) *map[string]SV { return deriveCloneI06x002(a) }
func use_I06x002_compare(a, b *map[string]SV) int { return deriveCompareI06x002(a, b) }
func use_I06x002_comparec(a, b *map[string]SV) int { return deriveCompareCI06x002(a)(b) }
func use_I06x002_deepcopy(a, b *map[string]SV)  { deriveDeepCopyI06x002(a, b) }
func use_I06x002_equal(a, b *map[string]SV) bool { return deriveEqualI06x002(a, b) }
func use_I06x002_equalc(a, b *map[string]SV) bool { return deriveEqualCI06x002(a)(b) }
func use_I06x002_equalclone(a *map[string]SV) bool { return deriveEqualNI06x002(deriveCloneNI06x002(a), a) }
func use_I06x002_gostring(a *map[string]SV) string { return deriveGoStringI06x002(a) }
func use_I06x002_hash(a *map[string]SV) uint64 { return deriveHashI06x002(a) }
