package p

import (
	"testing"
)

func TestNothing(t *testing.T) {}

func use_I00x004_clone(a []SR) []SR { return deriveCloneI00x004(a) }
func use_I00x004_compare(a, b []SR) int { return deriveCompareI00x004(a, b) }
func use_I00x004_comparec(a, b []SR) int { return deriveCompareCI00x004(a)(b) }
func use_I00x004_deepcopy(a, b []SR)  { deriveDeepCopyI00x004(a, b) }
func use_I00x004_equal(a, b []SR) bool { return deriveEqualI00x004(a, b) }
func use_I00x004_equalc(a, b []SR) bool { return deriveEqualCI00x004(a)(b) }
func use_I00x004_equalclone(a []SR) bool { return deriveEqualNI00x004(deriveCloneNI00x004(a), a) }
func use_I00x004_gostring(a []SR) string { return deriveGoStringI00x004(a) }
func use_I00x004_hash(a []SR) uint64 { return deriveHashI00x004(a) }
