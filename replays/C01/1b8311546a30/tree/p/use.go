package p


