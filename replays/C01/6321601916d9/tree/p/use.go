package p


var use_I16x018_clone_a *int
var use_I16x018_clone_v = deriveCloneI16x018(use_I16x018_clone_a)
var use_I16x018_compare_a *int
var use_I16x018_compare_b *int
var use_I16x018_compare_v = deriveCompareI16x018(use_I16x018_compare_a, use_I16x018_compare_b)
var use_I16x018_comparec_a *int
var use_I16x018_comparec_b *int
var use_I16x018_comparec_v = deriveCompareCI16x018(use_I16x018_comparec_a)(use_I16x018_comparec_b)
var use_I16x018_deepcopy_a *int
var use_I16x018_deepcopy_b *int
func init() { deriveDeepCopyI16x018(use_I16x018_deepcopy_a, use_I16x018_deepcopy_b) }
var use_I16x018_equal_a *int
var use_I16x018_equal_b *int
var use_I16x018_equal_v = deriveEqualI16x018(use_I16x018_equal_a, use_I16x018_equal_b)
var use_I16x018_equalc_a *int
var use_I16x018_equalc_b *int
var use_I16x018_equalc_v = deriveEqualCI16x018(use_I16x018_equalc_a)(use_I16x018_equalc_b)
var use_I16x018_equalclone_a *int
var use_I16x018_equalclone_v = deriveEqualNI16x018(deriveCloneNI16x018(use_I16x018_equalclone_a), use_I16x018_equalclone_a)
var use_I16x018_gostring_a *int
var use_I16x018_gostring_v = deriveGoStringI16x018(use_I16x018_gostring_a)
var use_I16x018_hash_a *int
var use_I16x018_hash_v = deriveHashI16x018(use_I16x018_hash_a)
