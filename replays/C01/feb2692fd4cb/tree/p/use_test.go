package p

import (
	"testing"
)

func TestNothing(t *testing.T) {}

func use_I04x004_clone(a [2]bool) [2]bool { return deriveCloneI04x004(a) }
func use_I04x004_compare(a, b [2]bool) int { return deriveCompareI04x004(a, b) }
func use_I04x004_comparec(a, b [2]bool) int { return deriveCompareCI04x004(a)(b) }
func use_I04x004_equal(a, b [2]bool) bool { return deriveEqualI04x004(a, b) }
func use_I04x004_equalc(a, b [2]bool) bool { return deriveEqualCI04x004(a)(b) }
func use_I04x004_equalclone(a [2]bool) bool { return deriveEqualNI04x004(deriveCloneNI04x004(a), a) }
func use_I04x004_gostring(a [2]bool) string { return deriveGoStringI04x004(a) }
func use_I04x004_hash(a [2]bool) uint64 { return deriveHashI04x004(a) }
