package p


