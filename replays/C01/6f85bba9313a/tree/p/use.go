package p


func use_I05x021_clone(a *W11) *W11 { return deriveCloneI05x021(a) }
func use_I05x021_compare(a, b *W11) int { return deriveCompareI05x021(a, b) }
func use_I05x021_comparec(a, b *W11) int { return deriveCompareCI05x021(a)(b) }
func use_I05x021_deepcopy(a, b *W11)  { deriveDeepCopyI05x021(a, b) }
func use_I05x021_equal(a, b *W11) bool { return deriveEqualI05x021(a, b) }
func use_I05x021_equalc(a, b *W11) bool { return deriveEqualCI05x021(a)(b) }
func use_I05x021_equalclone(a *W11) bool { return deriveEqualI05x021(deriveCloneI05x021(a), a) }
func use_I05x021_gostring(a *W11) string { return deriveGoStringI05x021(a) }
func use_I05x021_hash(a *W11) uint64 { return deriveHashI05x021(a) }
