package p

import (
	"testing"
)

func TestNothing(t *testing.T) {}

func use_I18x002_clone(a [2]string) [2]string { return deriveCloneI18x002(a) }
func use_I18x002_compare(a, b [2]string) int { return deriveCompareI18x002(a, b) }
func use_I18x002_comparec(a, b [2]string) int { return deriveCompareCI18x002(a)(b) }
func use_I18x002_equal(a, b [2]string) bool { return deriveEqualI18x002(a, b) }
func use_I18x002_equalc(a, b [2]string) bool { return deriveEqualCI18x002(a)(b) }
func use_I18x002_equalclone(a [2]string) bool { return deriveEqualNI18x002(deriveCloneNI18x002(a), a) }
func use_I18x002_gostring(a [2]string) string { return deriveGoStringI18x002(a) }
func use_I18x002_hash(a [2]string) uint64 { return deriveHashI18x002(a) }
