package p


