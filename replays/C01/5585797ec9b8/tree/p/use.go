package p


var use_I00x013_clone_a *W7
var use_I00x013_clone_v = deriveCloneI00x013(use_I00x013_clone_a)
var use_I00x013_compare_a *W7
var use_I00x013_compare_b *W7
var use_I00x013_compare_v = deriveCompareI00x013(use_I00x013_compare_a, use_I00x013_compare_b)
var use_I00x013_comparec_a *W7
var use_I00x013_comparec_b *W7
var use_I00x013_comparec_v = deriveCompareCI00x013(use_I00x013_comparec_a)(use_I00x013_comparec_b)
var use_I00x013_deepcopy_a *W7
var use_I00x013_deepcopy_b *W7
func init() { deriveDeepCopyI00x013(use_I00x013_deepcopy_a, use_I00x013_deepcopy_b) }
var use_I00x013_equal_a *W7
var use_I00x013_equal_b *W7
var use_I00x013_equal_v = deriveEqualI00x013(use_I00x013_equal_a, use_I00x013_equal_b)
var use_I00x013_equalc_a *W7
var use_I00x013_equalc_b *W7
var use_I00x013_equalc_v = deriveEqualCI00x013(use_I00x013_equalc_a)(use_I00x013_equalc_b)
var use_I00x013_equalclone_a *W7
var use_I00x013_equalclone_v = deriveEqualNI00x013(deriveCloneNI00x013(use_I00x013_equalclone_a), use_I00x013_equalclone_a)
var use_I00x013_gostring_a *W7
var use_I00x013_gostring_v = deriveGoStringI00x013(use_I00x013_gostring_a)
var use_I00x013_hash_a *W7
var use_I00x013_hash_v = deriveHashI00x013(use_I00x013_hash_a)
