package p


