package p

import (
	"testing"
)

func TestNothing(t *testing.T) {}

func use_I09x010_clone(a *[]string) *[]string { return deriveCloneI09x010(a) }
func use_I09x010_compare(a, b *[]string) int { return deriveCompareI09x010(a, b) }
func use_I09x010_comparec(a, b *[]string) int { return deriveCompareCI09x010(a)(b) }
func use_I09x010_deepcopy(a, b *[]string)  { deriveDeepCopyI09x010(a, b) }
func use_I09x010_equal(a, b *[]string) bool { return deriveEqualI09x010(a, b) }
func use_I09x010_equalc(a, b *[]string) bool { return deriveEqualCI09x010(a)(b) }
func use_I09x010_equalclone(a *[]string) bool { return deriveEqualNI09x010(deriveCloneNI09x010(a), a) }
func use_I09x010_gostring(a *[]string) string { return deriveGoStringI09x010(a) }
func use_I09x010_hash(a *[]string) uint64 { return deriveHashI09x010(a) }
