package p


var use_I12x020_hash = func(a NFloat) uint64 { return deriveHashI12x020(a) }
