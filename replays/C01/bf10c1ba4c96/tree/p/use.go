package p

import (
	ext "scratch/ext"
)

var use_I09x008_deepcopy_a map[string][2]ext.Priv
var use_I09x008_deepcopy_b map[string][2]ext.Priv
func init() { deriveDeepCopyI09x008(use_I09x008_deepcopy_a, use_I09x008_deepcopy_b) }
