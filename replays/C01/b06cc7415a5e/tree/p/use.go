package p


var use_I11x022_clone_a map[[2]bool]int
var use_I11x022_clone_v = deriveCloneI11x022(use_I11x022_clone_a)
var use_I11x022_compare_a map[[2]bool]int
var use_I11x022_compare_b map[[2]bool]int
var use_I11x022_compare_v = deriveCompareI11x022(use_I11x022_compare_a, use_I11x022_compare_b)
var use_I11x022_comparec_a map[[2]bool]int
var use_I11x022_comparec_b map[[2]bool]int
var use_I11x022_comparec_v = deriveCompareCI11x022(use_I11x022_comparec_a)(use_I11x022_comparec_b)
var use_I11x022_deepcopy_a map[[2]bool]int
var use_I11x022_deepcopy_b map[[2]bool]int
func init() { deriveDeepCopyI11x022(use_I11x022_deepcopy_a, use_I11x022_deepcopy_b) }
var use_I11x022_equal_a map[[2]bool]int
var use_I11x022_equal_b map[[2]bool]int
var use_I11x022_equal_v = deriveEqualI11x022(use_I11x022_equal_a, use_I11x022_equal_b)
var use_I11x022_equalc_a map[[2]bool]int
var use_I11x022_equalc_b map[[2]bool]int
var use_I11x022_equalc_v = deriveEqualCI11x022(use_I11x022_equalc_a)(use_I11x022_equalc_b)
var use_I11x022_equalclone_a map[[2]bool]int
var use_I11x022_equalclone_v = deriveEqualNI11x022(deriveCloneNI11x022(use_I11x022_equalclone_a), use_I11x022_equalclone_a)
var use_I11x022_gostring_a map[[2]bool]int
var use_I11x022_gostring_v = deriveGoStringI11x022(use_I11x022_gostring_a)
var use_I11x022_hash_a map[[2]bool]int
var use_I11x022_hash_v = deriveHashI11x022(use_I11x022_hash_a)
var use_I11x022_keys_m map[[2]bool]int
var use_I11x022_keys_v = len(deriveKeysI11x022(use_I11x022_keys_m))
var use_I11x022_sortkeys_m map[[2]bool]int
var use_I11x022_sortkeys_v = len(deriveSortI11x022(deriveKeysI11x022(use_I11x022_sortkeys_m)))
