package p


var use_I07x002_clone = func(a map[rune]int) map[rune]int { return deriveCloneI07x002(a) }
var use_I07x002_compare = func(a, b map[rune]int) int { return deriveCompareI07x002(a, b) }
var use_I07x002_comparec = func(a, b map[rune]int) int { return deriveCompareCI07x002(a)(b) }
var use_I07x002_deepcopy = func(a, b map[rune]int)  { deriveDeepCopyI07x002(a, b) }
var use_I07x002_equal = func(a, b map[rune]int) bool { return deriveEqualI07x002(a, b) }
var use_I07x002_equalc = func(a, b map[rune]int) bool { return deriveEqualCI07x002(a)(b) }
var use_I07x002_equalclone = func(a map[rune]int) bool { return deriveEqualNI07x002(deriveCloneNI07x002(a), a) }
var use_I07x002_gostring = func(a map[rune]int) string { return deriveGoStringI07x002(a) }
var use_I07x002_hash = func(a map[rune]int) uint64 { return deriveHashI07x002(a) }
var use_I07x002_keys = func(m map[rune]int) int { return len(deriveKeysI07x002(m)) }
var use_I07x002_sortkeys = func(m map[rune]int) int { return len(deriveSortI07x002(deriveKeysI07x002(m))) }
