package p


var use_I01x007_clone_a *W4
var use_I01x007_clone_v = deriveCloneI01x007(use_I01x007_clone_a)
var use_I01x007_compare_a *W4
var use_I01x007_compare_b *W4
var use_I01x007_compare_v = deriveCompareI01x007(use_I01x007_compare_a, use_I01x007_compare_b)
var use_I01x007_comparec_a *W4
var use_I01x007_comparec_b *W4
var use_I01x007_comparec_v = deriveCompareCI01x007(use_I01x007_comparec_a)(use_I01x007_comparec_b)
var use_I01x007_deepcopy_a *W4
var use_I01x007_deepcopy_b *W4
func init() { deriveDeepCopyI01x007(use_I01x007_deepcopy_a, use_I01x007_deepcopy_b) }
var use_I01x007_equal_a *W4
var use_I01x007_equal_b *W4
var use_I01x007_equal_v = deriveEqualI01x007(use_I01x007_equal_a, use_I01x007_equal_b)
var use_I01x007_equalc_a *W4
var use_I01x007_equalc_b *W4
var use_I01x007_equalc_v = deriveEqualCI01x007(use_I01x007_equalc_a)(use_I01x007_equalc_b)
var use_I01x007_equalclone_a *W4
var use_I01x007_equalclone_v = deriveEqualNI01x007(deriveCloneNI01x007(use_I01x007_equalclone_a), use_I01x007_equalclone_a)
var use_I01x007_gostring_a *W4
var use_I01x007_gostring_v = deriveGoStringI01x007(use_I01x007_gostring_a)
var use_I01x007_hash_a *W4
var use_I01x007_hash_v = deriveHashI01x007(use_I01x007_hash_a)
