package p


