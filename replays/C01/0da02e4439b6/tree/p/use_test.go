package p

import (
	"testing"
)

func TestNothing(t *testing.T) {}

func use_I05x020_clone(a map[string]NFloat) map[string]NFloat { return deriveCloneI05x020(a) }
func use_I05x020_compare(a, b map[string]NFloat) int { return deriveCompareI05x020(a, b) }
func use_I05x020_comparec(a, b map[string]NFloat) int { return deriveCompareCI05x020(a)(b) }
func use_I05x020_deepcopy(a, b map[string]NFloat)  { deriveDeepCopyI05x020(a, b) }
func use_I05x020_equal(a, b map[string]NFloat) bool { return deriveEqualI05x020(a, b) }
func use_I05x020_equalc(a, b map[string]NFloat) bool { return deriveEqualCI05x020(a)(b) }
func use_I05x020_equalclone(a map[string]NFloat) bool { return deriveEqualI05x020(deriveCloneI05x020(a), a) }
func use_I05x020_gostring(a map[string]NFloat) string { return deriveGoStringI05x020(a) }
func use_I05x020_hash(a map[string]NFloat) uint64 { return deriveHashI05x020(a) }
func use_I05x020_keys(m map[string]NFloat) int { return len(deriveKeysI05x020(m)) }
func use_I05x020_sortkeys(m map[string]NFloat) int { return len(deriveSortI05x020(deriveKeysI05x020(m))) }
