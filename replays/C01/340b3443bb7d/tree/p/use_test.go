package p

import (
	"testing"
)

func TestNothing(t *testing.T) {}

func use_I06x000_clone(a map[string][2]bool) map[string][2]bool { return deriveCloneI06x000(a) }
func use_I06x000_compare(a, b map[string][2]bool) int { return deriveCompareI06x000(a, b) }
func use_I06x000_comparec(a, b map[string][2]bool) int { return deriveCompareCI06x000(a)(b) }
func use_I06x000_deepcopy(a, b map[string][2]bool)  { deriveDeepCopyI06x000(a, b) }
func use_I06x000_equal(a, b map[string][2]bool) bool { return deriveEqualI06x000(a, b) }
func use_I06x000_equalc(a, b map[string][2]bool) bool { return deriveEqualCI06x000(a)(b) }
func use_I06x000_equalclone(a map[string][2]bool) bool { return deriveEqualNI06x000(deriveCloneNI06x000(a), a) }
func use_I06x000_gostring(a map[string][2]bool) string { return deriveGoStringI06x000(a) }
func use_I06x000_hash(a map[string][2]bool) uint64 { return deriveHashI06x000(a) }
func use_I06x000_keys(m map[string][2]bool) int { return len(deriveKeysI06x000(m)) }
func use_I06x000_sortkeys(m map[string][2]bool) int { return len(deriveSortI06x000(deriveKeysI06x000(m))) }
