package p


