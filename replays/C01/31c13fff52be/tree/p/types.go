package p

import (
	"strings"
)

type NInt int64

type NStr string

type NFloat float32

type NBool bool

type NU8 uint8

type SV struct {
	A int
	B string
	C [2]bool
	D NInt
}

type SP struct {
	P *int
	S []string
	M map[string]int
	N NStr
	V SV
}

type SE struct {
	SV
	*SP
	X uint16
}

type SR struct {
	V int
	Next *SR
	Kids []SR
	M map[string]*SR
}

type SEq struct {
	A int
	L []int
	Q *string
}

type SCi struct {
	Word string
}

type NSlice []int

type NMap map[string]SV

type NArr [3]string

type NPtr *int

type W1 struct {
	Pre int
	F map[string]SR
	Post string
}

type W2 struct {
	Pre int
	F map[string]map[int]SP
	Post string
}

type W3 struct {
	Pre int
	F int32
	Post string
}

type W4 struct {
	Pre int
	F []bool
	Post string
}

type W5 struct {
	Pre int
	F *float64
	Post string
}

type W6 struct {
	Pre int
	F map[int][2]bool
	Post string
}

type W7 struct {
	Pre int
	F map[int]int
	Post string
}

type W8 struct {
	Pre int
	F []map[NInt]uint32
	Post string
}

type W9 struct {
	Pre int
	F bool
	Post string
}

type W10 struct {
	Pre int
	F SP
	Post string
}

type W11 struct {
	Pre int
	F [2]map[int]string
	Post string
}

type W12 struct {
	Pre int
	F *map[string]uint8
	Post string
}

func (this *SEq) Compare(that *SEq) int { return deriveCompareMSEq(this, that) }

func (this *SCi) Compare(that *SCi) int {
	if this == nil {
		if that == nil {
			return 0
		}
		return -1
	}
	if that == nil {
		return 1
	}
	return strings.Compare(strings.ToLower(this.Word), strings.ToLower(that.Word))
}

