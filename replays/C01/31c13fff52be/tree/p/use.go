package p


var use_I01x016L_min = func(l []bool, d bool) bool { return deriveMinI01x016L(l, d) }
