package p


var use_I00x008_equalclone_a **SV
var use_I00x008_equalclone_v = deriveEqualI00x008(deriveCloneI00x008(use_I00x008_equalclone_a), use_I00x008_equalclone_a)
