package p


var use_I15x014_clone_a map[string]int
var use_I15x014_clone_v = deriveCloneI15x014(use_I15x014_clone_a)
var use_I15x014_compare_a map[string]int
var use_I15x014_compare_b map[string]int
var use_I15x014_compare_v = deriveCompareI15x014(use_I15x014_compare_a, use_I15x014_compare_b)
var use_I15x014_comparec_a map[string]int
var use_I15x014_comparec_b map[string]int
var use_I15x014_comparec_v = deriveCompareCI15x014(use_I15x014_comparec_a)(use_I15x014_comparec_b)
var use_I15x014_deepcopy_a map[string]int
var use_I15x014_deepcopy_b map[string]int
func init() { deriveDeepCopyI15x014(use_I15x014_deepcopy_a, use_I15x014_deepcopy_b) }
var use_I15x014_equal_a map[string]int
var use_I15x014_equal_b map[string]int
var use_I15x014_equal_v = deriveEqualI15x014(use_I15x014_equal_a, use_I15x014_equal_b)
var use_I15x014_equalc_a map[string]int
var use_I15x014_equalc_b map[string]int
var use_I15x014_equalc_v = deriveEqualCI15x014(use_I15x014_equalc_a)(use_I15x014_equalc_b)
var use_I15x014_equalclone_a map[string]int
var use_I15x014_equalclone_v = deriveEqualNI15x014(deriveCloneNI15x014(use_I15x014_equalclone_a), use_I15x014_equalclone_a)
var use_I15x014_gostring_a map[string]int
var use_I15x014_gostring_v = deriveGoStringI15x014(use_I15x014_gostring_a)
var use_I15x014_hash_a map[string]int
var use_I15x014_hash_v = deriveHashI15x014(use_I15x014_hash_a)
var use_I15x014_keys_m map[string]int
var use_I15x014_keys_v = len(deriveKeysI15x014(use_I15x014_keys_m))
var use_I15x014_sortkeys_m map[string]int
var use_I15x014_sortkeys_v = len(deriveSortI15x014(deriveKeysI15x014(use_I15x014_sortkeys_m)))
