package p


