package p

import (
	"testing"
)

func TestNothing(t *testing.T) {}

func use_I04x012_clone(a map[string][]float64) map[string][]float64 { return deriveCloneI04x012(a) }
func use_I04x012_compare(a, b map[string][]float64) int { return deriveCompareI04x012(a, b) }
func use_I04x012_comparec(a, b map[string][]float64) int { return deriveCompareCI04x012(a)(b) }
func use_I04x012_deepcopy(a, b map[string][]float64)  { deriveDeepCopyI04x012(a, b) }
func use_I04x012_equal(a, b map[string][]float64) bool { return deriveEqualI04x012(a, b) }
func use_I04x012_equalc(a, b map[string][]float64) bool { return deriveEqualCI04x012(a)(b) }
func use_I04x012_equalclone(a map[string][]float64) bool { return deriveEqualNI04x012(deriveCloneNI04x012(a), a) }
func use_I04x012_gostring(a map[string][]float64) string { return deriveGoStringI04x012(a) }
func use_I04x012_hash(a map[string][]float64) uint64 { return deriveHashI04x012(a) }
func use_I04x012_keys(m map[string][]float64) int { return len(deriveKeysI04x012(m)) }
func use_I04x012_sortkeys(m map[string][]float64) int { return len(deriveSortI04x012(deriveKeysI04x012(m))) }
