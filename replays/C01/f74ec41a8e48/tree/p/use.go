package p


var use_I05x022_clone = func(a map[[2]int]string) map[[2]int]string { return deriveCloneI05x022(a) }
var use_I05x022_compare = func(a, b map[[2]int]string) int { return deriveCompareI05x022(a, b) }
var use_I05x022_comparec = func(a, b map[[2]int]string) int { return deriveCompareCI05x022(a)(b) }
var use_I05x022_deepcopy = func(a, b map[[2]int]string)  { deriveDeepCopyI05x022(a, b) }
var use_I05x022_equal = func(a, b map[[2]int]string) bool { return deriveEqualI05x022(a, b) }
var use_I05x022_equalc = func(a, b map[[2]int]string) bool { return deriveEqualCI05x022(a)(b) }
var use_I05x022_equalclone = func(a map[[2]int]string) bool { return deriveEqualNI05x022(deriveCloneNI05x022(a), a) }
var use_I05x022_gostring = func(a map[[2]int]string) string { return deriveGoStringI05x022(a) }
var use_I05x022_hash = func(a map[[2]int]string) uint64 { return deriveHashI05x022(a) }
var use_I05x022_keys = func(m map[[2]int]string) int { return len(deriveKeysI05x022(m)) }
var use_I05x022_sortkeys = func(m map[[2]int]string) int { return len(deriveSortI05x022(deriveKeysI05x022(m))) }
