package p


var use_I02x014_clone_a []string
var use_I02x014_clone_v = deriveCloneI02x014(use_I02x014_clone_a)
var use_I02x014_compare_a []string
var use_I02x014_compare_b []string
var use_I02x014_compare_v = deriveCompareI02x014(use_I02x014_compare_a, use_I02x014_compare_b)
var use_I02x014_comparec_a []string
var use_I02x014_comparec_b []string
var use_I02x014_comparec_v = deriveCompareCI02x014(use_I02x014_comparec_a)(use_I02x014_comparec_b)
var use_I02x014_deepcopy_a []string
var use_I02x014_deepcopy_b []string
func init() { deriveDeepCopyI02x014(use_I02x014_deepcopy_a, use_I02x014_deepcopy_b) }
var use_I02x014_equal_a []string
var use_I02x014_equal_b []string
var use_I02x014_equal_v = deriveEqualI02x014(use_I02x014_equal_a, use_I02x014_equal_b)
var use_I02x014_equalc_a []string
var use_I02x014_equalc_b []string
var use_I02x014_equalc_v = deriveEqualCI02x014(use_I02x014_equalc_a)(use_I02x014_equalc_b)
var use_I02x014_equalclone_a []string
var use_I02x014_equalclone_v = deriveEqualNI02x014(deriveCloneNI02x014(use_I02x014_equalclone_a), use_I02x014_equalclone_a)
var use_I02x014_gostring_a []string
var use_I02x014_gostring_v = deriveGoStringI02x014(use_I02x014_gostring_a)
var use_I02x014_hash_a []string
var use_I02x014_hash_v = deriveHashI02x014(use_I02x014_hash_a)
