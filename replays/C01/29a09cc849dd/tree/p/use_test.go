package p

import (
	"testing"
)

func TestNothing(t *testing.T) {}

func use_I13x020_clone(a *SR) *SR { return deriveCloneI13x020(a) }
func use_I13x020_compare(a, b *SR) int { return deriveCompareI13x020(a, b) }
func use_I13x020_comparec(a, b *SR) int { return deriveCompareCI13x020(a)(b) }
func use_I13x020_deepcopy(a, b *SR)  { deriveDeepCopyI13x020(a, b) }
func use_I13x020_equal(a, b *SR) bool { return deriveEqualI13x020(a, b) }
func use_I13x020_equalc(a, b *SR) bool { return deriveEqualCI13x020(a)(b) }
func use_I13x020_equalclone(a *SR) bool { return deriveEqualNI13x020(deriveCloneNI13x020(a), a) }
func use_I13x020_gostring(a *SR) string { return deriveGoStringI13x020(a) }
func use_I13x020_hash(a *SR) uint64 { return deriveHashI13x020(a) }
