package p


