package p


var use_I00x008_equalc_a **SV
var use_I00x008_equalc_b **SV
var use_I00x008_equalc_v = deriveEqualCI00x008(use_I00x008_equalc_a)(use_I00x008_equalc_b)
