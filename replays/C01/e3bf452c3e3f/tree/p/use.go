package p


var use_I10x012_equalc = func(a, b map[int]NInt) bool { return deriveEqualCI10x012(a)(b) }
