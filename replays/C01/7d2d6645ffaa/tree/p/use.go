package p


func use_I16x006_clone(a [2]NInt) [2]NInt { return deriveCloneI16x006(a) }
func use_I16x006_compare(a, b [2]NInt) int { return deriveCompareI16x006(a, b) }
func use_I16x006_comparec(a, b [2]NInt) int { return deriveCompareCI16x006(a)(b) }
func use_I16x006_equal(a, b [2]NInt) bool { return deriveEqualI16x006(a, b) }
func use_I16x006_equalc(a, b [2]NInt) bool { return deriveEqualCI16x006(a)(b) }
func use_I16x006_equalclone(a [2]NInt) bool { return deriveEqualNI16x006(deriveCloneNI16x006(a), a) }
func use_I16x006_gostring(a [2]NInt) string { return deriveGoStringI16x006(a) }
func use_I16x006_hash(a [2]NInt) uint64 { return deriveHashI16x006(a) }
