package p


var use_I00x021_clone_a *W11
var use_I00x021_clone_v = deriveCloneI00x021(use_I00x021_clone_a)
var use_I00x021_compare_a *W11
var use_I00x021_compare_b *W11
var use_I00x021_compare_v = deriveCompareI00x021(use_I00x021_compare_a, use_I00x021_compare_b)
var use_I00x021_comparec_a *W11
var use_I00x021_comparec_b *W11
var use_I00x021_comparec_v = deriveCompareCI00x021(use_I00x021_comparec_a)(use_I00x021_comparec_b)
var use_I00x021_deepcopy_a *W11
var use_I00x021_deepcopy_b *W11
func init() { deriveDeepCopyI00x021(use_I00x021_deepcopy_a, use_I00x021_deepcopy_b) }
var use_I00x021_equal_a *W11
var use_I00x021_equal_b *W11
var use_I00x021_equal_v = deriveEqualI00x021(use_I00x021_equal_a, use_I00x021_equal_b)
var use_I00x021_equalc_a *W11
var use_I00x021_equalc_b *W11
var use_I00x021_equalc_v = deriveEqualCI00x021(use_I00x021_equalc_a)(use_I00x021_equalc_b)
var use_I00x021_equalclone_a *W11
var use_I00x021_equalclone_v = deriveEqualNI00x021(deriveCloneNI00x021(use_I00x021_equalclone_a), use_I00x021_equalclone_a)
var use_I00x021_gostring_a *W11
var use_I00x021_gostring_v = deriveGoStringI00x021(use_I00x021_gostring_a)
var use_I00x021_hash_a *W11
var use_I00x021_hash_v = deriveHashI00x021(use_I00x021_hash_a)
