package p


var use_I16x016_clone = func(a map[string]SP) map[string]SP { return deriveCloneI16x016(a) }
var use_I16x016_compare = func(a, b map[string]SP) int { return deriveCompareI16x016(a, b) }
var use_I16x016_comparec = func(a, b map[string]SP) int { return deriveCompareCI16x016(a)(b) }
var use_I16x016_deepcopy = func(a, b map[string]SP)  { deriveDeepCopyI16x016(a, b) }
var use_I16x016_equal = func(a, b map[string]SP) bool { return deriveEqualI16x016(a, b) }
var use_I16x016_equalc = func(a, b map[string]SP) bool { return deriveEqualCI16x016(a)(b) }
var use_I16x016_equalclone = func(a map[string]SP) bool { return deriveEqualNI16x016(deriveCloneNI16x016(a), a) }
var use_I16x016_gostring = func(a map[string]SP) string { return deriveGoStringI16x016(a) }
var use_I16x016_hash = func(a map[string]SP) uint64 { return deriveHashI16x016(a) }
var use_I16x016_keys = func(m map[string]SP) int { return len(deriveKeysI16x016(m)) }
var use_I16x016_sortkeys = func(m map[string]SP) int { return len(deriveSortI16x016(deriveKeysI16x016(m))) }
