package p

import (
	a_dup "scratch/a/dup"
	ext "scratch/ext"
	"strings"
)

type NInt int64

type NStr string

type NFloat float32

type NBool bool

type NU8 uint8

type SV struct {
	A int
	B string
	C [2]bool
	D NInt
}

type SP struct {
	P *int
	S []string
	M map[string]int
	N NStr
	V SV
}

type SE struct {
	SV
	*SP
	X uint16
}

type SR struct {
	V int
	Next *SR
	Kids []SR
	M map[string]*SR
}

type SEq struct {
	A int
	L []int
	Q *string
}

type SCi struct {
	Word string
}

type NSlice []int

type NMap map[string]SV

type NArr [3]string

type NPtr *int

type W1 struct {
	Pre int
	F map[string][]float64
	Post string
}

type W2 struct {
	Pre int
	F map[string]*bool
	Post string
}

type W3 struct {
	Pre int
	F map[string][2]SP
	Post string
}

type W4 struct {
	Pre int
	F [2]NInt
	Post string
}

type W5 struct {
	Pre int
	F []ext.Priv
	Post string
}

type R6 struct {
	F0 NStr
	F1 ext.Priv
}

type R7 struct {
	F0 *NInt
	F1 map[[2]int]byte
	f2 R6
	f3 []a_dup.T
	F4 float32
	F5 []int64
}

type R8 struct {
	F0 SP
	F1 uintptr
	F2 NPtr
	F3 NSlice
	f4 NMap
	f5 int16
	F6 a_dup.T
	F7 NArr
}

type R9 struct {
	F0 *NU8
	F1 []float32
	F2 SP
	F3 ext.Pub
}

type R10 struct {
	F0 SR
	F1 R7
	F2 []R8
	f3 R9
	f4 complex128
	F5 map[SV]map[uint8]SCi
}

type W11 struct {
	Pre int
	F R10
	Post string
}

type W12 struct {
	Pre int
	F string
	Post string
}

type W13 struct {
	Pre int
	F ext.Priv
	Post string
}

type W14 struct {
	Pre int
	F map[string]SP
	Post string
}

type W15 struct {
	Pre int
	F *int
	Post string
}

type W16 struct {
	Pre int
	F map[int][]NInt
	Post string
}

type W17 struct {
	Pre int
	F [2]map[int]int
	Post string
}

func (this *SEq) Equal(that *SEq) bool { return deriveEqualMSEq(this, that) }

func (this *SEq) Compare(that *SEq) int { return deriveCompareMSEq(this, that) }

func (this *SCi) Equal(that *SCi) bool {
	if this == nil || that == nil {
		return this == nil && that == nil
	}
	return strings.EqualFold(this.Word, that.Word)
}

func (this *SCi) Compare(that *SCi) int {
	if this == nil {
		if that == nil {
			return 0
		}
		return -1
	}
	if that == nil {
		return 1
	}
	return strings.Compare(strings.ToLower(this.Word), strings.ToLower(that.Word))
}

