package p


func use_I01x005_clone(a *W3) *W3 { return deriveCloneI01x005(a) }
func use_I01x005_compare(a, b *W3) int { return deriveCompareI01x005(a, b) }
func use_I01x005_comparec(a, b *W3) int { return deriveCompareCI01x005(a)(b) }
func use_I01x005_deepcopy(a, b *W3)  { deriveDeepCopyI01x005(a, b) }
func use_I01x005_equal(a, b *W3) bool { return deriveEqualI01x005(a, b) }
func use_I01x005_equalc(a, b *W3) bool { return deriveEqualCI01x005(a)(b) }
func use_I01x005_equalclone(a *W3) bool { return deriveEqualNI01x005(deriveCloneNI01x005(a), a) }
func use_I01x005_gostring(a *W3) string { return deriveGoStringI01x005(a) }
func use_I01x005_hash(a *W3) uint64 { return deriveHashI01x005(a) }
