package p


var use_I10x012_comparec = func(a, b map[int]NInt) int { return deriveCompareCI10x012(a)(b) }
