package p


var use_I09x009_equalclone_a *W5
var use_I09x009_equalclone_v = deriveEqualI09x009(deriveCloneI09x009(use_I09x009_equalclone_a), use_I09x009_equalclone_a)
