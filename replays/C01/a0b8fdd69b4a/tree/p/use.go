package p


var use_I04x010_clone_a *map[uint8]int
var use_I04x010_clone_v = deriveCloneI04x010(use_I04x010_clone_a)
var use_I04x010_compare_a *map[uint8]int
var use_I04x010_compare_b *map[uint8]int
var use_I04x010_compare_v = deriveCompareI04x010(use_I04x010_compare_a, use_I04x010_compare_b)
var use_I04x010_comparec_a *map[uint8]int
var use_I04x010_comparec_b *map[uint8]int
var use_I04x010_comparec_v = deriveCompareCI04x010(use_I04x010_comparec_a)(use_I04x010_comparec_b)
var use_I04x010_deepcopy_a *map[uint8]int
var use_I04x010_deepcopy_b *map[uint8]int
func init() { deriveDeepCopyI04x010(use_I04x010_deepcopy_a, use_I04x010_deepcopy_b) }
var use_I04x010_equal_a *map[uint8]int
var use_I04x010_equal_b *map[uint8]int
var use_I04x010_equal_v = deriveEqualI04x010(use_I04x010_equal_a, use_I04x010_equal_b)
var use_I04x010_equalc_a *map[uint8]int
var use_I04x010_equalc_b *map[uint8]int
var use_I04x010_equalc_v = deriveEqualCI04x010(use_I04x010_equalc_a)(use_I04x010_equalc_b)
var use_I04x010_equalclone_a *map[uint8]int
var use_I04x010_equalclone_v = deriveEqualNI04x010(deriveCloneNI04x010(use_I04x010_equalclone_a), use_I04x010_equalclone_a)
var use_I04x010_gostring_a *map[uint8]int
var use_I04x010_gostring_v = deriveGoStringI04x010(use_I04x010_gostring_a)
var use_I04x010_hash_a *map[uint8]int
var use_I04x010_hash_v = deriveHashI04x010(use_I04x010_hash_a)
