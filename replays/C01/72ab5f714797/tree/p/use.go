package p


