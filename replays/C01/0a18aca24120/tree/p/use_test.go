package p

import (
	"testing"
)

func TestNothing(t *testing.T) {}

func use_I08x006_clone(a map[bool]SP) map[bool]SP { return deriveCloneI08x006(a) }
func use_I08x006_compare(a, b map[bool]SP) int { return deriveCompareI08x006(a, b) }
func use_I08x006_comparec(a, b map[bool]SP) int { return deriveCompareCI08x006(a)(b) }
func use_I08x006_deepcopy(a, b map[bool]SP)  { deriveDeepCopyI08x006(a, b) }
func use_I08x006_equal(a, b map[bool]SP) bool { return deriveEqualI08x006(a, b) }
func use_I08x006_equalc(a, b map[bool]SP) bool { return deriveEqualCI08x006(a)(b) }
func use_I08x006_equalclone(a map[bool]SP) bool { return deriveEqualNI08x006(deriveCloneNI08x006(a), a) }
func use_I08x006_gostring(a map[bool]SP) string { return deriveGoStringI08x006(a) }
func use_I08x006_hash(a map[bool]SP) uint64 { return deriveHashI08x006(a) }
func use_I08x006_keys(m map[bool]SP) int { return len(deriveKeysI08x006(m)) }
func use_I08x006_sortkeys(m map[bool]SP) int { return len(deriveSortI08x006(deriveKeysI08x006(m))) }
