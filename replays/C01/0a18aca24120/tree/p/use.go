package p


