package p


