package p

import (
	"testing"
)

func TestNothing(t *testing.T) {}

func use_I11x002_clone(a []map[int]NInt) []map[int]NInt { return deriveCloneI11x002(a) }
func use_I11x002_compare(a, b []map[int]NInt) int { return deriveCompareI11x002(a, b) }
func use_I11x002_comparec(a, b []map[int]NInt) int { return deriveCompareCI11x002(a)(b) }
func use_I11x002_deepcopy(a, b []map[int]NInt)  { deriveDeepCopyI11x002(a, b) }
func use_I11x002_equal(a, b []map[int]NInt) bool { return deriveEqualI11x002(a, b) }
func use_I11x002_equalc(a, b []map[int]NInt) bool { return deriveEqualCI11x002(a)(b) }
func use_I11x002_equalclone(a []map[int]NInt) bool { return deriveEqualNI11x002(deriveCloneNI11x002(a), a) }
func use_I11x002_gostring(a []map[int]NInt) string { return deriveGoStringI11x002(a) }
func use_I11x002_hash(a []map[int]NInt) uint64 { return deriveHashI11x002(a) }
