package p


var use_I03x007_deepcopy = func(a, b *W4)  { deriveDeepCopyI03x007(a, b) }
