package p


func use_I10x022_clone(a map[string][]bool) map[string][]bool { return deriveCloneI10x022(a) }
func use_I10x022_compare(a, b map[string][]bool) int { return deriveCompareI10x022(a, b) }
func use_I10x022_comparec(a, b map[string][]bool) int { return deriveCompareCI10x022(a)(b) }
func use_I10x022_deepcopy(a, b map[string][]bool)  { deriveDeepCopyI10x022(a, b) }
func use_I10x022_equal(a, b map[string][]bool) bool { return deriveEqualI10x022(a, b) }
func use_I10x022_equalc(a, b map[string][]bool) bool { return deriveEqualCI10x022(a)(b) }
func use_I10x022_equalclone(a map[string][]bool) bool { return deriveEqualNI10x022(deriveCloneNI10x022(a), a) }
func use_I10x022_gostring(a map[string][]bool) string { return deriveGoStringI10x022(a) }
func use_I10x022_hash(a map[string][]bool) uint64 { return deriveHashI10x022(a) }
func use_I10x022_keys(m map[string][]bool) int { return len(deriveKeysI10x022(m)) }
func use_I10x022_sortkeys(m map[string][]bool) int { return len(deriveSortI10x022(deriveKeysI10x022(m))) }
