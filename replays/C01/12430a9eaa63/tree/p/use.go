package p

import (
	ext "scratch/ext"
)

var use_I12x000_clone = func(a []map[[2]int]int) []map[[2]int]int { return deriveCloneI12x000(a) }
var use_I12x000_compare = func(a, b []map[[2]int]int) int { return deriveCompareI12x000(a, b) }
var use_I12x000_comparec = func(a, b []map[[2]int]int) int { return deriveCompareCI12x000(a)(b) }
var use_I12x000_deepcopy = func(a, b []map[[2]int]int)  { deriveDeepCopyI12x000(a, b) }
var use_I12x000_equal = func(a, b []map[[2]int]int) bool { return deriveEqualI12x000(a, b) }
var use_I12x000_equalc = func(a, b []map[[2]int]int) bool { return deriveEqualCI12x000(a)(b) }
var use_I12x000_equalclone = func(a []map[[2]int]int) bool { return deriveEqualI12x000(deriveCloneI12x000(a), a) }
var use_I12x000_gostring = func(a []map[[2]int]int) string { return deriveGoStringI12x000(a) }
var use_I12x000_hash = func(a []map[[2]int]int) uint64 { return deriveHashI12x000(a) }
var use_I12x000L_all_p func([]map[[2]int]int) bool
var use_I12x000L_all_l [][]map[[2]int]int
var use_I12x000L_all_v = deriveAllI12x000L(use_I12x000L_all_p, use_I12x000L_all_l)
var use_I12x000L_any_p func([]map[[2]int]int) bool
var use_I12x000L_any_l [][]map[[2]int]int
var use_I12x000L_any_v = deriveAnyI12x000L(use_I12x000L_any_p, use_I12x000L_any_l)
var use_I12x000L_contains_l [][]map[[2]int]int
var use_I12x000L_contains_x []map[[2]int]int
var use_I12x000L_contains_v = deriveContainsI12x000L(use_I12x000L_contains_l, use_I12x000L_contains_x)
var use_I12x000L_filter_p func([]map[[2]int]int) bool
var use_I12x000L_filter_l [][]map[[2]int]int
var use_I12x000L_filter_v = deriveFilterI12x000L(use_I12x000L_filter_p, use_I12x000L_filter_l)
var use_I12x000L_intersect_a [][]map[[2]int]int
var use_I12x000L_intersect_b [][]map[[2]int]int
var use_I12x000L_intersect_v = deriveIntersectI12x000L(use_I12x000L_intersect_a, use_I12x000L_intersect_b)
var use_I12x000L_max_l [][]map[[2]int]int
var use_I12x000L_max_d []map[[2]int]int
var use_I12x000L_max_v = deriveMaxI12x000L(use_I12x000L_max_l, use_I12x000L_max_d)
var use_I12x000L_max2_a []map[[2]int]int
var use_I12x000L_max2_b []map[[2]int]int
var use_I12x000L_max2_v = deriveMaxBI12x000L(use_I12x000L_max2_a, use_I12x000L_max2_b)
var use_I12x000L_min_l [][]map[[2]int]int
var use_I12x000L_min_d []map[[2]int]int
var use_I12x000L_min_v = deriveMinI12x000L(use_I12x000L_min_l, use_I12x000L_min_d)
var use_I12x000L_min2_a []map[[2]int]int
var use_I12x000L_min2_b []map[[2]int]int
var use_I12x000L_min2_v = deriveMinBI12x000L(use_I12x000L_min2_a, use_I12x000L_min2_b)
var use_I12x000L_sort_l [][]map[[2]int]int
var use_I12x000L_sort_v = deriveSortI12x000L(use_I12x000L_sort_l)
var use_I12x000L_takewhile_p func([]map[[2]int]int) bool
var use_I12x000L_takewhile_l [][]map[[2]int]int
var use_I12x000L_takewhile_v = deriveTakeWhileI12x000L(use_I12x000L_takewhile_p, use_I12x000L_takewhile_l)
var use_I12x000L_union_a [][]map[[2]int]int
var use_I12x000L_union_b [][]map[[2]int]int
var use_I12x000L_union_v = deriveUnionI12x000L(use_I12x000L_union_a, use_I12x000L_union_b)
var use_I12x000L_unique_l [][]map[[2]int]int
var use_I12x000L_unique_v = deriveUniqueI12x000L(use_I12x000L_unique_l)
var use_I12x001_clone_a *W1
var use_I12x001_clone_v = deriveCloneI12x001(use_I12x001_clone_a)
var use_I12x001_compare_a *W1
var use_I12x001_compare_b *W1
var use_I12x001_compare_v = deriveCompareI12x001(use_I12x001_compare_a, use_I12x001_compare_b)
var use_I12x001_comparec_a *W1
var use_I12x001_comparec_b *W1
var use_I12x001_comparec_v = deriveCompareCI12x001(use_I12x001_comparec_a)(use_I12x001_comparec_b)
var use_I12x001_deepcopy_a *W1
var use_I12x001_deepcopy_b *W1
func init() { deriveDeepCopyI12x001(use_I12x001_deepcopy_a, use_I12x001_deepcopy_b) }
var use_I12x001_equal_a *W1
var use_I12x001_equal_b *W1
var use_I12x001_equal_v = deriveEqualI12x001(use_I12x001_equal_a, use_I12x001_equal_b)
var use_I12x001_equalc_a *W1
var use_I12x001_equalc_b *W1
var use_I12x001_equalc_v = deriveEqualCI12x001(use_I12x001_equalc_a)(use_I12x001_equalc_b)
var use_I12x001_equalclone_a *W1
var use_I12x001_equalclone_v = deriveEqualI12x001(deriveCloneI12x001(use_I12x001_equalclone_a), use_I12x001_equalclone_a)
var use_I12x001_gostring_a *W1
var use_I12x001_gostring_v = deriveGoStringI12x001(use_I12x001_gostring_a)
var use_I12x001_hash_a *W1
var use_I12x001_hash_v = deriveHashI12x001(use_I12x001_hash_a)
var use_I12x002_clone = func(a map[NInt]string) map[NInt]string { return deriveCloneI12x002(a) }
var use_I12x002_compare = func(a, b map[NInt]string) int { return deriveCompareI12x002(a, b) }
var use_I12x002_comparec = func(a, b map[NInt]string) int { return deriveCompareCI12x002(a)(b) }
var use_I12x002_deepcopy = func(a, b map[NInt]string)  { deriveDeepCopyI12x002(a, b) }
var use_I12x002_equal = func(a, b map[NInt]string) bool { return deriveEqualI12x002(a, b) }
var use_I12x002_equalc = func(a, b map[NInt]string) bool { return deriveEqualCI12x002(a)(b) }
var use_I12x002_equalclone = func(a map[NInt]string) bool { return deriveEqualI12x002(deriveCloneI12x002(a), a) }
var use_I12x002_gostring = func(a map[NInt]string) string { return deriveGoStringI12x002(a) }
var use_I12x002_hash = func(a map[NInt]string) uint64 { return deriveHashI12x002(a) }
var use_I12x002_keys = func(m map[NInt]string) int { return len(deriveKeysI12x002(m)) }
var use_I12x002_sortkeys = func(m map[NInt]string) int { return len(deriveSortI12x002(deriveKeysI12x002(m))) }
var use_I12x002L_all = func(p func(map[NInt]string) bool, l []map[NInt]string) bool { return deriveAllI12x002L(p, l) }
var use_I12x002L_any = func(p func(map[NInt]string) bool, l []map[NInt]string) bool { return deriveAnyI12x002L(p, l) }
var use_I12x002L_contains = func(l []map[NInt]string, x map[NInt]string) bool { return deriveContainsI12x002L(l, x) }
var use_I12x002L_filter = func(p func(map[NInt]string) bool, l []map[NInt]string) []map[NInt]string { return deriveFilterI12x002L(p, l) }
var use_I12x002L_intersect = func(a, b []map[NInt]string) []map[NInt]string { return deriveIntersectI12x002L(a, b) }
var use_I12x002L_max = func(l []map[NInt]string, d map[NInt]string) map[NInt]string { return deriveMaxI12x002L(l, d) }
var use_I12x002L_max2 = func(a, b map[NInt]string) map[NInt]string { return deriveMaxBI12x002L(a, b) }
var use_I12x002L_min = func(l []map[NInt]string, d map[NInt]string) map[NInt]string { return deriveMinI12x002L(l, d) }
var use_I12x002L_min2 = func(a, b map[NInt]string) map[NInt]string { return deriveMinBI12x002L(a, b) }
var use_I12x002L_sort = func(l []map[NInt]string) []map[NInt]string { return deriveSortI12x002L(l) }
var use_I12x002L_takewhile = func(p func(map[NInt]string) bool, l []map[NInt]string) []map[NInt]string { return deriveTakeWhileI12x002L(p, l) }
var use_I12x002L_union = func(a, b []map[NInt]string) []map[NInt]string { return deriveUnionI12x002L(a, b) }
var use_I12x002L_unique = func(l []map[NInt]string) []map[NInt]string { return deriveUniqueI12x002L(l) }
var use_I12x003_clone_a *W2
var use_I12x003_clone_v = deriveCloneI12x003(use_I12x003_clone_a)
var use_I12x003_compare_a *W2
var use_I12x003_compare_b *W2
var use_I12x003_compare_v = deriveCompareI12x003(use_I12x003_compare_a, use_I12x003_compare_b)
var use_I12x003_comparec_a *W2
var use_I12x003_comparec_b *W2
var use_I12x003_comparec_v = deriveCompareCI12x003(use_I12x003_comparec_a)(use_I12x003_comparec_b)
var use_I12x003_deepcopy_a *W2
var use_I12x003_deepcopy_b *W2
func init() { deriveDeepCopyI12x003(use_I12x003_deepcopy_a, use_I12x003_deepcopy_b) }
var use_I12x003_equal_a *W2
var use_I12x003_equal_b *W2
var use_I12x003_equal_v = deriveEqualI12x003(use_I12x003_equal_a, use_I12x003_equal_b)
var use_I12x003_equalc_a *W2
var use_I12x003_equalc_b *W2
var use_I12x003_equalc_v = deriveEqualCI12x003(use_I12x003_equalc_a)(use_I12x003_equalc_b)
var use_I12x003_equalclone_a *W2
var use_I12x003_equalclone_v = deriveEqualI12x003(deriveCloneI12x003(use_I12x003_equalclone_a), use_I12x003_equalclone_a)
var use_I12x003_gostring_a *W2
var use_I12x003_gostring_v = deriveGoStringI12x003(use_I12x003_gostring_a)
var use_I12x003_hash_a *W2
var use_I12x003_hash_v = deriveHashI12x003(use_I12x003_hash_a)
var use_I12x004L_all_p func(map[string]rune) bool
var use_I12x004L_all_l []map[string]rune
var use_I12x004L_all_v = deriveAllI12x004L(use_I12x004L_all_p, use_I12x004L_all_l)
var use_I12x004L_any_p func(map[string]rune) bool
var use_I12x004L_any_l []map[string]rune
var use_I12x004L_any_v = deriveAnyI12x004L(use_I12x004L_any_p, use_I12x004L_any_l)
var use_I12x004L_contains_l []map[string]rune
var use_I12x004L_contains_x map[string]rune
var use_I12x004L_contains_v = deriveContainsI12x004L(use_I12x004L_contains_l, use_I12x004L_contains_x)
var use_I12x004L_filter_p func(map[string]rune) bool
var use_I12x004L_filter_l []map[string]rune
var use_I12x004L_filter_v = deriveFilterI12x004L(use_I12x004L_filter_p, use_I12x004L_filter_l)
var use_I12x004L_intersect_a []map[string]rune
var use_I12x004L_intersect_b []map[string]rune
var use_I12x004L_intersect_v = deriveIntersectI12x004L(use_I12x004L_intersect_a, use_I12x004L_intersect_b)
var use_I12x004L_max_l []map[string]rune
var use_I12x004L_max_d map[string]rune
var use_I12x004L_max_v = deriveMaxI12x004L(use_I12x004L_max_l, use_I12x004L_max_d)
var use_I12x004L_max2_a map[string]rune
var use_I12x004L_max2_b map[string]rune
var use_I12x004L_max2_v = deriveMaxBI12x004L(use_I12x004L_max2_a, use_I12x004L_max2_b)
var use_I12x004L_min_l []map[string]rune
var use_I12x004L_min_d map[string]rune
var use_I12x004L_min_v = deriveMinI12x004L(use_I12x004L_min_l, use_I12x004L_min_d)
var use_I12x004L_min2_a map[string]rune
var use_I12x004L_min2_b map[string]rune
var use_I12x004L_min2_v = deriveMinBI12x004L(use_I12x004L_min2_a, use_I12x004L_min2_b)
var use_I12x004L_sort_l []map[string]rune
var use_I12x004L_sort_v = deriveSortI12x004L(use_I12x004L_sort_l)
var use_I12x004L_takewhile_p func(map[string]rune) bool
var use_I12x004L_takewhile_l []map[string]rune
var use_I12x004L_takewhile_v = deriveTakeWhileI12x004L(use_I12x004L_takewhile_p, use_I12x004L_takewhile_l)
var use_I12x004L_union_a []map[string]rune
var use_I12x004L_union_b []map[string]rune
var use_I12x004L_union_v = deriveUnionI12x004L(use_I12x004L_union_a, use_I12x004L_union_b)
var use_I12x004L_unique_l []map[string]rune
var use_I12x004L_unique_v = deriveUniqueI12x004L(use_I12x004L_unique_l)
var use_I12x006L_all_p func(map[[2]int]SP) bool
var use_I12x006L_all_l []map[[2]int]SP
var use_I12x006L_all_v = deriveAllI12x006L(use_I12x006L_all_p, use_I12x006L_all_l)
var use_I12x006L_any_p func(map[[2]int]SP) bool
var use_I12x006L_any_l []map[[2]int]SP
var use_I12x006L_any_v = deriveAnyI12x006L(use_I12x006L_any_p, use_I12x006L_any_l)
var use_I12x006L_contains_l []map[[2]int]SP
var use_I12x006L_contains_x map[[2]int]SP
var use_I12x006L_contains_v = deriveContainsI12x006L(use_I12x006L_contains_l, use_I12x006L_contains_x)
var use_I12x006L_filter_p func(map[[2]int]SP) bool
var use_I12x006L_filter_l []map[[2]int]SP
var use_I12x006L_filter_v = deriveFilterI12x006L(use_I12x006L_filter_p, use_I12x006L_filter_l)
var use_I12x006L_intersect_a []map[[2]int]SP
var use_I12x006L_intersect_b []map[[2]int]SP
var use_I12x006L_intersect_v = deriveIntersectI12x006L(use_I12x006L_intersect_a, use_I12x006L_intersect_b)
var use_I12x006L_max_l []map[[2]int]SP
var use_I12x006L_max_d map[[2]int]SP
var use_I12x006L_max_v = deriveMaxI12x006L(use_I12x006L_max_l, use_I12x006L_max_d)
var use_I12x006L_max2_a map[[2]int]SP
var use_I12x006L_max2_b map[[2]int]SP
var use_I12x006L_max2_v = deriveMaxBI12x006L(use_I12x006L_max2_a, use_I12x006L_max2_b)
var use_I12x006L_min_l []map[[2]int]SP
var use_I12x006L_min_d map[[2]int]SP
var use_I12x006L_min_v = deriveMinI12x006L(use_I12x006L_min_l, use_I12x006L_min_d)
var use_I12x006L_min2_a map[[2]int]SP
var use_I12x006L_min2_b map[[2]int]SP
var use_I12x006L_min2_v = deriveMinBI12x006L(use_I12x006L_min2_a, use_I12x006L_min2_b)
var use_I12x006L_sort_l []map[[2]int]SP
var use_I12x006L_sort_v = deriveSortI12x006L(use_I12x006L_sort_l)
var use_I12x006L_takewhile_p func(map[[2]int]SP) bool
var use_I12x006L_takewhile_l []map[[2]int]SP
var use_I12x006L_takewhile_v = deriveTakeWhileI12x006L(use_I12x006L_takewhile_p, use_I12x006L_takewhile_l)
var use_I12x006L_union_a []map[[2]int]SP
var use_I12x006L_union_b []map[[2]int]SP
var use_I12x006L_union_v = deriveUnionI12x006L(use_I12x006L_union_a, use_I12x006L_union_b)
var use_I12x006L_unique_l []map[[2]int]SP
var use_I12x006L_unique_v = deriveUniqueI12x006L(use_I12x006L_unique_l)
var use_I12x007_clone = func(a *W4) *W4 { return deriveCloneI12x007(a) }
var use_I12x007_compare = func(a, b *W4) int { return deriveCompareI12x007(a, b) }
var use_I12x007_comparec = func(a, b *W4) int { return deriveCompareCI12x007(a)(b) }
var use_I12x007_deepcopy = func(a, b *W4)  { deriveDeepCopyI12x007(a, b) }
var use_I12x007_equal = func(a, b *W4) bool { return deriveEqualI12x007(a, b) }
var use_I12x007_equalc = func(a, b *W4) bool { return deriveEqualCI12x007(a)(b) }
var use_I12x007_equalclone = func(a *W4) bool { return deriveEqualI12x007(deriveCloneI12x007(a), a) }
var use_I12x007_gostring = func(a *W4) string { return deriveGoStringI12x007(a) }
var use_I12x007_hash = func(a *W4) uint64 { return deriveHashI12x007(a) }
var use_I12x008L_all_p func([2]SR) bool
var use_I12x008L_all_l [][2]SR
var use_I12x008L_all_v = deriveAllI12x008L(use_I12x008L_all_p, use_I12x008L_all_l)
var use_I12x008L_any_p func([2]SR) bool
var use_I12x008L_any_l [][2]SR
var use_I12x008L_any_v = deriveAnyI12x008L(use_I12x008L_any_p, use_I12x008L_any_l)
var use_I12x008L_contains_l [][2]SR
var use_I12x008L_contains_x [2]SR
var use_I12x008L_contains_v = deriveContainsI12x008L(use_I12x008L_contains_l, use_I12x008L_contains_x)
var use_I12x008L_filter_p func([2]SR) bool
var use_I12x008L_filter_l [][2]SR
var use_I12x008L_filter_v = deriveFilterI12x008L(use_I12x008L_filter_p, use_I12x008L_filter_l)
var use_I12x008L_intersect_a [][2]SR
var use_I12x008L_intersect_b [][2]SR
var use_I12x008L_intersect_v = deriveIntersectI12x008L(use_I12x008L_intersect_a, use_I12x008L_intersect_b)
var use_I12x008L_max_l [][2]SR
var use_I12x008L_max_d [2]SR
var use_I12x008L_max_v = deriveMaxI12x008L(use_I12x008L_max_l, use_I12x008L_max_d)
var use_I12x008L_max2_a [2]SR
var use_I12x008L_max2_b [2]SR
var use_I12x008L_max2_v = deriveMaxBI12x008L(use_I12x008L_max2_a, use_I12x008L_max2_b)
var use_I12x008L_min_l [][2]SR
var use_I12x008L_min_d [2]SR
var use_I12x008L_min_v = deriveMinI12x008L(use_I12x008L_min_l, use_I12x008L_min_d)
var use_I12x008L_min2_a [2]SR
var use_I12x008L_min2_b [2]SR
var use_I12x008L_min2_v = deriveMinBI12x008L(use_I12x008L_min2_a, use_I12x008L_min2_b)
var use_I12x008L_sort_l [][2]SR
var use_I12x008L_sort_v = deriveSortI12x008L(use_I12x008L_sort_l)
var use_I12x008L_takewhile_p func([2]SR) bool
var use_I12x008L_takewhile_l [][2]SR
var use_I12x008L_takewhile_v = deriveTakeWhileI12x008L(use_I12x008L_takewhile_p, use_I12x008L_takewhile_l)
var use_I12x008L_union_a [][2]SR
var use_I12x008L_union_b [][2]SR
var use_I12x008L_union_v = deriveUnionI12x008L(use_I12x008L_union_a, use_I12x008L_union_b)
var use_I12x008L_unique_l [][2]SR
var use_I12x008L_unique_v = deriveUniqueI12x008L(use_I12x008L_unique_l)
var use_I12x009_clone = func(a *W5) *W5 { return deriveCloneI12x009(a) }
var use_I12x009_compare = func(a, b *W5) int { return deriveCompareI12x009(a, b) }
var use_I12x009_comparec = func(a, b *W5) int { return deriveCompareCI12x009(a)(b) }
var use_I12x009_deepcopy = func(a, b *W5)  { deriveDeepCopyI12x009(a, b) }
var use_I12x009_equal = func(a, b *W5) bool { return deriveEqualI12x009(a, b) }
var use_I12x009_equalc = func(a, b *W5) bool { return deriveEqualCI12x009(a)(b) }
var use_I12x009_equalclone = func(a *W5) bool { return deriveEqualI12x009(deriveCloneI12x009(a), a) }
var use_I12x009_gostring = func(a *W5) string { return deriveGoStringI12x009(a) }
var use_I12x009_hash = func(a *W5) uint64 { return deriveHashI12x009(a) }
func use_I12x010_clone(a [2]map[string]int) [2]map[string]int { return deriveCloneI12x010(a) }
func use_I12x010_compare(a, b [2]map[string]int) int { return deriveCompareI12x010(a, b) }
func use_I12x010_comparec(a, b [2]map[string]int) int { return deriveCompareCI12x010(a)(b) }
func use_I12x010_equal(a, b [2]map[string]int) bool { return deriveEqualI12x010(a, b) }
func use_I12x010_equalc(a, b [2]map[string]int) bool { return deriveEqualCI12x010(a)(b) }
func use_I12x010_equalclone(a [2]map[string]int) bool { return deriveEqualI12x010(deriveCloneI12x010(a), a) }
func use_I12x010_gostring(a [2]map[string]int) string { return deriveGoStringI12x010(a) }
func use_I12x010_hash(a [2]map[string]int) uint64 { return deriveHashI12x010(a) }
var use_I12x010L_all_p func([2]map[string]int) bool
var use_I12x010L_all_l [][2]map[string]int
var use_I12x010L_all_v = deriveAllI12x010L(use_I12x010L_all_p, use_I12x010L_all_l)
var use_I12x010L_any_p func([2]map[string]int) bool
var use_I12x010L_any_l [][2]map[string]int
var use_I12x010L_any_v = deriveAnyI12x010L(use_I12x010L_any_p, use_I12x010L_any_l)
var use_I12x010L_contains_l [][2]map[string]int
var use_I12x010L_contains_x [2]map[string]int
var use_I12x010L_contains_v = deriveContainsI12x010L(use_I12x010L_contains_l, use_I12x010L_contains_x)
var use_I12x010L_filter_p func([2]map[string]int) bool
var use_I12x010L_filter_l [][2]map[string]int
var use_I12x010L_filter_v = deriveFilterI12x010L(use_I12x010L_filter_p, use_I12x010L_filter_l)
var use_I12x010L_intersect_a [][2]map[string]int
var use_I12x010L_intersect_b [][2]map[string]int
var use_I12x010L_intersect_v = deriveIntersectI12x010L(use_I12x010L_intersect_a, use_I12x010L_intersect_b)
var use_I12x010L_max_l [][2]map[string]int
var use_I12x010L_max_d [2]map[string]int
var use_I12x010L_max_v = deriveMaxI12x010L(use_I12x010L_max_l, use_I12x010L_max_d)
var use_I12x010L_max2_a [2]map[string]int
var use_I12x010L_max2_b [2]map[string]int
var use_I12x010L_max2_v = deriveMaxBI12x010L(use_I12x010L_max2_a, use_I12x010L_max2_b)
var use_I12x010L_min_l [][2]map[string]int
var use_I12x010L_min_d [2]map[string]int
var use_I12x010L_min_v = deriveMinI12x010L(use_I12x010L_min_l, use_I12x010L_min_d)
var use_I12x010L_min2_a [2]map[string]int
var use_I12x010L_min2_b [2]map[string]int
var use_I12x010L_min2_v = deriveMinBI12x010L(use_I12x010L_min2_a, use_I12x010L_min2_b)
var use_I12x010L_sort_l [][2]map[string]int
var use_I12x010L_sort_v = deriveSortI12x010L(use_I12x010L_sort_l)
var use_I12x010L_takewhile_p func([2]map[string]int) bool
var use_I12x010L_takewhile_l [][2]map[string]int
var use_I12x010L_takewhile_v = deriveTakeWhileI12x010L(use_I12x010L_takewhile_p, use_I12x010L_takewhile_l)
var use_I12x010L_union_a [][2]map[string]int
var use_I12x010L_union_b [][2]map[string]int
var use_I12x010L_union_v = deriveUnionI12x010L(use_I12x010L_union_a, use_I12x010L_union_b)
var use_I12x010L_unique_l [][2]map[string]int
var use_I12x010L_unique_v = deriveUniqueI12x010L(use_I12x010L_unique_l)
func use_I12x011_clone(a *W6) *W6 { return deriveCloneI12x011(a) }
func use_I12x011_compare(a, b *W6) int { return deriveCompareI12x011(a, b) }
func use_I12x011_comparec(a, b *W6) int { return deriveCompareCI12x011(a)(b) }
func use_I12x011_deepcopy(a, b *W6)  { deriveDeepCopyI12x011(a, b) }
func use_I12x011_equal(a, b *W6) bool { return deriveEqualI12x011(a, b) }
func use_I12x011_equalc(a, b *W6) bool { return deriveEqualCI12x011(a)(b) }
func use_I12x011_equalclone(a *W6) bool { return deriveEqualI12x011(deriveCloneI12x011(a), a) }
func use_I12x011_gostring(a *W6) string { return deriveGoStringI12x011(a) }
func use_I12x011_hash(a *W6) uint64 { return deriveHashI12x011(a) }
func use_I12x012_clone(a [][2]ext.Pub) [][2]ext.Pub { return deriveCloneI12x012(a) }
func use_I12x012_compare(a, b [][2]ext.Pub) int { return deriveCompareI12x012(a, b) }
func use_I12x012_comparec(a, b [][2]ext.Pub) int { return deriveCompareCI12x012(a)(b) }
func use_I12x012_deepcopy(a, b [][2]ext.Pub)  { deriveDeepCopyI12x012(a, b) }
func use_I12x012_equal(a, b [][2]ext.Pub) bool { return deriveEqualI12x012(a, b) }
func use_I12x012_equalc(a, b [][2]ext.Pub) bool { return deriveEqualCI12x012(a)(b) }
func use_I12x012_equalclone(a [][2]ext.Pub) bool { return deriveEqualI12x012(deriveCloneI12x012(a), a) }
func use_I12x012_gostring(a [][2]ext.Pub) string { return deriveGoStringI12x012(a) }
func use_I12x012_hash(a [][2]ext.Pub) uint64 { return deriveHashI12x012(a) }
var use_I12x012L_all = func(p func([][2]ext.Pub) bool, l [][][2]ext.Pub) bool { return deriveAllI12x012L(p, l) }
var use_I12x012L_any = func(p func([][2]ext.Pub) bool, l [][][2]ext.Pub) bool { return deriveAnyI12x012L(p, l) }
var use_I12x012L_contains = func(l [][][2]ext.Pub, x [][2]ext.Pub) bool { return deriveContainsI12x012L(l, x) }
var use_I12x012L_filter = func(p func([][2]ext.Pub) bool, l [][][2]ext.Pub) [][][2]ext.Pub { return deriveFilterI12x012L(p, l) }
var use_I12x012L_intersect = func(a, b [][][2]ext.Pub) [][][2]ext.Pub { return deriveIntersectI12x012L(a, b) }
var use_I12x012L_max = func(l [][][2]ext.Pub, d [][2]ext.Pub) [][2]ext.Pub { return deriveMaxI12x012L(l, d) }
var use_I12x012L_max2 = func(a, b [][2]ext.Pub) [][2]ext.Pub { return deriveMaxBI12x012L(a, b) }
var use_I12x012L_min = func(l [][][2]ext.Pub, d [][2]ext.Pub) [][2]ext.Pub { return deriveMinI12x012L(l, d) }
var use_I12x012L_min2 = func(a, b [][2]ext.Pub) [][2]ext.Pub { return deriveMinBI12x012L(a, b) }
var use_I12x012L_sort = func(l [][][2]ext.Pub) [][][2]ext.Pub { return deriveSortI12x012L(l) }
var use_I12x012L_takewhile = func(p func([][2]ext.Pub) bool, l [][][2]ext.Pub) [][][2]ext.Pub { return deriveTakeWhileI12x012L(p, l) }
var use_I12x012L_union = func(a, b [][][2]ext.Pub) [][][2]ext.Pub { return deriveUnionI12x012L(a, b) }
var use_I12x012L_unique = func(l [][][2]ext.Pub) [][][2]ext.Pub { return deriveUniqueI12x012L(l) }
var use_I12x013_clone_a *W7
var use_I12x013_clone_v = deriveCloneI12x013(use_I12x013_clone_a)
var use_I12x013_compare_a *W7
var use_I12x013_compare_b *W7
var use_I12x013_compare_v = deriveCompareI12x013(use_I12x013_compare_a, use_I12x013_compare_b)
var use_I12x013_comparec_a *W7
var use_I12x013_comparec_b *W7
var use_I12x013_comparec_v = deriveCompareCI12x013(use_I12x013_comparec_a)(use_I12x013_comparec_b)
var use_I12x013_deepcopy_a *W7
var use_I12x013_deepcopy_b *W7
func init() { deriveDeepCopyI12x013(use_I12x013_deepcopy_a, use_I12x013_deepcopy_b) }
var use_I12x013_equal_a *W7
var use_I12x013_equal_b *W7
var use_I12x013_equal_v = deriveEqualI12x013(use_I12x013_equal_a, use_I12x013_equal_b)
var use_I12x013_equalc_a *W7
var use_I12x013_equalc_b *W7
var use_I12x013_equalc_v = deriveEqualCI12x013(use_I12x013_equalc_a)(use_I12x013_equalc_b)
var use_I12x013_equalclone_a *W7
var use_I12x013_equalclone_v = deriveEqualI12x013(deriveCloneI12x013(use_I12x013_equalclone_a), use_I12x013_equalclone_a)
var use_I12x013_gostring_a *W7
var use_I12x013_gostring_v = deriveGoStringI12x013(use_I12x013_gostring_a)
var use_I12x013_hash_a *W7
var use_I12x013_hash_v = deriveHashI12x013(use_I12x013_hash_a)
func use_I12x014_clone(a map[NInt]int) map[NInt]int { return deriveCloneI12x014(a) }
func use_I12x014_compare(a, b map[NInt]int) int { return deriveCompareI12x014(a, b) }
func use_I12x014_comparec(a, b map[NInt]int) int { return deriveCompareCI12x014(a)(b) }
func use_I12x014_deepcopy(a, b map[NInt]int)  { deriveDeepCopyI12x014(a, b) }
func use_I12x014_equal(a, b map[NInt]int) bool { return deriveEqualI12x014(a, b) }
func use_I12x014_equalc(a, b map[NInt]int) bool { return deriveEqualCI12x014(a)(b) }
func use_I12x014_equalclone(a map[NInt]int) bool { return deriveEqualI12x014(deriveCloneI12x014(a), a) }
func use_I12x014_gostring(a map[NInt]int) string { return deriveGoStringI12x014(a) }
func use_I12x014_hash(a map[NInt]int) uint64 { return deriveHashI12x014(a) }
func use_I12x014_keys(m map[NInt]int) int { return len(deriveKeysI12x014(m)) }
func use_I12x014_sortkeys(m map[NInt]int) int { return len(deriveSortI12x014(deriveKeysI12x014(m))) }
var use_I12x014L_all = func(p func(map[NInt]int) bool, l []map[NInt]int) bool { return deriveAllI12x014L(p, l) }
var use_I12x014L_any = func(p func(map[NInt]int) bool, l []map[NInt]int) bool { return deriveAnyI12x014L(p, l) }
var use_I12x014L_contains = func(l []map[NInt]int, x map[NInt]int) bool { return deriveContainsI12x014L(l, x) }
var use_I12x014L_filter = func(p func(map[NInt]int) bool, l []map[NInt]int) []map[NInt]int { return deriveFilterI12x014L(p, l) }
var use_I12x014L_intersect = func(a, b []map[NInt]int) []map[NInt]int { return deriveIntersectI12x014L(a, b) }
var use_I12x014L_max = func(l []map[NInt]int, d map[NInt]int) map[NInt]int { return deriveMaxI12x014L(l, d) }
var use_I12x014L_max2 = func(a, b map[NInt]int) map[NInt]int { return deriveMaxBI12x014L(a, b) }
var use_I12x014L_min = func(l []map[NInt]int, d map[NInt]int) map[NInt]int { return deriveMinI12x014L(l, d) }
var use_I12x014L_min2 = func(a, b map[NInt]int) map[NInt]int { return deriveMinBI12x014L(a, b) }
var use_I12x014L_sort = func(l []map[NInt]int) []map[NInt]int { return deriveSortI12x014L(l) }
var use_I12x014L_takewhile = func(p func(map[NInt]int) bool, l []map[NInt]int) []map[NInt]int { return deriveTakeWhileI12x014L(p, l) }
var use_I12x014L_union = func(a, b []map[NInt]int) []map[NInt]int { return deriveUnionI12x014L(a, b) }
var use_I12x014L_unique = func(l []map[NInt]int) []map[NInt]int { return deriveUniqueI12x014L(l) }
func use_I12x015_clone(a *W8) *W8 { return deriveCloneI12x015(a) }
func use_I12x015_compare(a, b *W8) int { return deriveCompareI12x015(a, b) }
func use_I12x015_comparec(a, b *W8) int { return deriveCompareCI12x015(a)(b) }
func use_I12x015_deepcopy(a, b *W8)  { deriveDeepCopyI12x015(a, b) }
func use_I12x015_equal(a, b *W8) bool { return deriveEqualI12x015(a, b) }
func use_I12x015_equalc(a, b *W8) bool { return deriveEqualCI12x015(a)(b) }
func use_I12x015_equalclone(a *W8) bool { return deriveEqualI12x015(deriveCloneI12x015(a), a) }
func use_I12x015_gostring(a *W8) string { return deriveGoStringI12x015(a) }
func use_I12x015_hash(a *W8) uint64 { return deriveHashI12x015(a) }
var use_I12x016_clone_a uint32
var use_I12x016_clone_v = deriveCloneI12x016(use_I12x016_clone_a)
var use_I12x016_compare_a uint32
var use_I12x016_compare_b uint32
var use_I12x016_compare_v = deriveCompareI12x016(use_I12x016_compare_a, use_I12x016_compare_b)
var use_I12x016_comparec_a uint32
var use_I12x016_comparec_b uint32
var use_I12x016_comparec_v = deriveCompareCI12x016(use_I12x016_comparec_a)(use_I12x016_comparec_b)
var use_I12x016_equal_a uint32
var use_I12x016_equal_b uint32
var use_I12x016_equal_v = deriveEqualI12x016(use_I12x016_equal_a, use_I12x016_equal_b)
var use_I12x016_equalc_a uint32
var use_I12x016_equalc_b uint32
var use_I12x016_equalc_v = deriveEqualCI12x016(use_I12x016_equalc_a)(use_I12x016_equalc_b)
var use_I12x016_equalclone_a uint32
var use_I12x016_equalclone_v = deriveEqualI12x016(deriveCloneI12x016(use_I12x016_equalclone_a), use_I12x016_equalclone_a)
var use_I12x016_gostring_a uint32
var use_I12x016_gostring_v = deriveGoStringI12x016(use_I12x016_gostring_a)
var use_I12x016_hash_a uint32
var use_I12x016_hash_v = deriveHashI12x016(use_I12x016_hash_a)
func use_I12x016L_all(p func(uint32) bool, l []uint32) bool { return deriveAllI12x016L(p, l) }
func use_I12x016L_any(p func(uint32) bool, l []uint32) bool { return deriveAnyI12x016L(p, l) }
func use_I12x016L_contains(l []uint32, x uint32) bool { return deriveContainsI12x016L(l, x) }
func use_I12x016L_filter(p func(uint32) bool, l []uint32) []uint32 { return deriveFilterI12x016L(p, l) }
func use_I12x016L_intermap(a, b map[uint32]struct{}) map[uint32]struct{} { return deriveIntersectMI12x016L(a, b) }
func use_I12x016L_intersect(a, b []uint32) []uint32 { return deriveIntersectI12x016L(a, b) }
func use_I12x016L_max(l []uint32, d uint32) uint32 { return deriveMaxI12x016L(l, d) }
func use_I12x016L_max2(a, b uint32) uint32 { return deriveMaxBI12x016L(a, b) }
func use_I12x016L_min(l []uint32, d uint32) uint32 { return deriveMinI12x016L(l, d) }
func use_I12x016L_min2(a, b uint32) uint32 { return deriveMinBI12x016L(a, b) }
func use_I12x016L_set(l []uint32) map[uint32]struct{} { return deriveSetI12x016L(l) }
func use_I12x016L_sort(l []uint32) []uint32 { return deriveSortI12x016L(l) }
func use_I12x016L_takewhile(p func(uint32) bool, l []uint32) []uint32 { return deriveTakeWhileI12x016L(p, l) }
func use_I12x016L_union(a, b []uint32) []uint32 { return deriveUnionI12x016L(a, b) }
func use_I12x016L_unionmap(a, b map[uint32]struct{}) map[uint32]struct{} { return deriveUnionMI12x016L(a, b) }
func use_I12x016L_unique(l []uint32) []uint32 { return deriveUniqueI12x016L(l) }
var use_I12x017_clone_a *W9
var use_I12x017_clone_v = deriveCloneI12x017(use_I12x017_clone_a)
var use_I12x017_compare_a *W9
var use_I12x017_compare_b *W9
var use_I12x017_compare_v = deriveCompareI12x017(use_I12x017_compare_a, use_I12x017_compare_b)
var use_I12x017_comparec_a *W9
var use_I12x017_comparec_b *W9
var use_I12x017_comparec_v = deriveCompareCI12x017(use_I12x017_comparec_a)(use_I12x017_comparec_b)
var use_I12x017_deepcopy_a *W9
var use_I12x017_deepcopy_b *W9
func init() { deriveDeepCopyI12x017(use_I12x017_deepcopy_a, use_I12x017_deepcopy_b) }
var use_I12x017_equal_a *W9
var use_I12x017_equal_b *W9
var use_I12x017_equal_v = deriveEqualI12x017(use_I12x017_equal_a, use_I12x017_equal_b)
var use_I12x017_equalc_a *W9
var use_I12x017_equalc_b *W9
var use_I12x017_equalc_v = deriveEqualCI12x017(use_I12x017_equalc_a)(use_I12x017_equalc_b)
var use_I12x017_equalclone_a *W9
var use_I12x017_equalclone_v = deriveEqualI12x017(deriveCloneI12x017(use_I12x017_equalclone_a), use_I12x017_equalclone_a)
var use_I12x017_gostring_a *W9
var use_I12x017_gostring_v = deriveGoStringI12x017(use_I12x017_gostring_a)
var use_I12x017_hash_a *W9
var use_I12x017_hash_v = deriveHashI12x017(use_I12x017_hash_a)
var use_I12x018_clone = func(a *[2]bool) *[2]bool { return deriveCloneI12x018(a) }
var use_I12x018_compare = func(a, b *[2]bool) int { return deriveCompareI12x018(a, b) }
var use_I12x018_comparec = func(a, b *[2]bool) int { return deriveCompareCI12x018(a)(b) }
var use_I12x018_deepcopy = func(a, b *[2]bool)  { deriveDeepCopyI12x018(a, b) }
var use_I12x018_equal = func(a, b *[2]bool) bool { return deriveEqualI12x018(a, b) }
var use_I12x018_equalc = func(a, b *[2]bool) bool { return deriveEqualCI12x018(a)(b) }
var use_I12x018_equalclone = func(a *[2]bool) bool { return deriveEqualI12x018(deriveCloneI12x018(a), a) }
var use_I12x018_gostring = func(a *[2]bool) string { return deriveGoStringI12x018(a) }
var use_I12x018_hash = func(a *[2]bool) uint64 { return deriveHashI12x018(a) }
var use_I12x018L_all = func(p func(*[2]bool) bool, l []*[2]bool) bool { return deriveAllI12x018L(p, l) }
var use_I12x018L_any = func(p func(*[2]bool) bool, l []*[2]bool) bool { return deriveAnyI12x018L(p, l) }
var use_I12x018L_contains = func(l []*[2]bool, x *[2]bool) bool { return deriveContainsI12x018L(l, x) }
var use_I12x018L_filter = func(p func(*[2]bool) bool, l []*[2]bool) []*[2]bool { return deriveFilterI12x018L(p, l) }
var use_I12x018L_intersect = func(a, b []*[2]bool) []*[2]bool { return deriveIntersectI12x018L(a, b) }
var use_I12x018L_max = func(l []*[2]bool, d *[2]bool) *[2]bool { return deriveMaxI12x018L(l, d) }
var use_I12x018L_max2 = func(a, b *[2]bool) *[2]bool { return deriveMaxBI12x018L(a, b) }
var use_I12x018L_min = func(l []*[2]bool, d *[2]bool) *[2]bool { return deriveMinI12x018L(l, d) }
var use_I12x018L_min2 = func(a, b *[2]bool) *[2]bool { return deriveMinBI12x018L(a, b) }
var use_I12x018L_sort = func(l []*[2]bool) []*[2]bool { return deriveSortI12x018L(l) }
var use_I12x018L_takewhile = func(p func(*[2]bool) bool, l []*[2]bool) []*[2]bool { return deriveTakeWhileI12x018L(p, l) }
var use_I12x018L_union = func(a, b []*[2]bool) []*[2]bool { return deriveUnionI12x018L(a, b) }
var use_I12x018L_unique = func(l []*[2]bool) []*[2]bool { return deriveUniqueI12x018L(l) }
var use_I12x020_clone = func(a NFloat) NFloat { return deriveCloneI12x020(a) }
var use_I12x020_compare = func(a, b NFloat) int { return deriveCompareI12x020(a, b) }
var use_I12x020_comparec = func(a, b NFloat) int { return deriveCompareCI12x020(a)(b) }
var use_I12x020_equal = func(a, b NFloat) bool { return deriveEqualI12x020(a, b) }
var use_I12x020_equalc = func(a, b NFloat) bool { return deriveEqualCI12x020(a)(b) }
var use_I12x020_equalclone = func(a NFloat) bool { return deriveEqualI12x020(deriveCloneI12x020(a), a) }
var use_I12x020_gostring = func(a NFloat) string { return deriveGoStringI12x020(a) }
var use_I12x020_hash = func(a NFloat) uint64 { return deriveHashI12x020(a) }
var use_I12x020L_all = func(p func(NFloat) bool, l []NFloat) bool { return deriveAllI12x020L(p, l) }
var use_I12x020L_any = func(p func(NFloat) bool, l []NFloat) bool { return deriveAnyI12x020L(p, l) }
var use_I12x020L_contains = func(l []NFloat, x NFloat) bool { return deriveContainsI12x020L(l, x) }
var use_I12x020L_filter = func(p func(NFloat) bool, l []NFloat) []NFloat { return deriveFilterI12x020L(p, l) }
var use_I12x020L_intermap = func(a, b map[NFloat]struct{}) map[NFloat]struct{} { return deriveIntersectMI12x020L(a, b) }
var use_I12x020L_intersect = func(a, b []NFloat) []NFloat { return deriveIntersectI12x020L(a, b) }
var use_I12x020L_max = func(l []NFloat, d NFloat) NFloat { return deriveMaxI12x020L(l, d) }
var use_I12x020L_max2 = func(a, b NFloat) NFloat { return deriveMaxBI12x020L(a, b) }
var use_I12x020L_min = func(l []NFloat, d NFloat) NFloat { return deriveMinI12x020L(l, d) }
var use_I12x020L_min2 = func(a, b NFloat) NFloat { return deriveMinBI12x020L(a, b) }
var use_I12x020L_set = func(l []NFloat) map[NFloat]struct{} { return deriveSetI12x020L(l) }
var use_I12x020L_sort = func(l []NFloat) []NFloat { return deriveSortI12x020L(l) }
var use_I12x020L_takewhile = func(p func(NFloat) bool, l []NFloat) []NFloat { return deriveTakeWhileI12x020L(p, l) }
var use_I12x020L_union = func(a, b []NFloat) []NFloat { return deriveUnionI12x020L(a, b) }
var use_I12x020L_unionmap = func(a, b map[NFloat]struct{}) map[NFloat]struct{} { return deriveUnionMI12x020L(a, b) }
var use_I12x020L_unique = func(l []NFloat) []NFloat { return deriveUniqueI12x020L(l) }
func use_I12x023_clone(a *W12) *W12 { return deriveCloneI12x023(a) }
func use_I12x023_compare(a, b *W12) int { return deriveCompareI12x023(a, b) }
func use_I12x023_comparec(a, b *W12) int { return deriveCompareCI12x023(a)(b) }
func use_I12x023_deepcopy(a, b *W12)  { deriveDeepCopyI12x023(a, b) }
func use_I12x023_equal(a, b *W12) bool { return deriveEqualI12x023(a, b) }
func use_I12x023_equalc(a, b *W12) bool { return deriveEqualCI12x023(a)(b) }
func use_I12x023_equalclone(a *W12) bool { return deriveEqualI12x023(deriveCloneI12x023(a), a) }
func use_I12x023_gostring(a *W12) string { return deriveGoStringI12x023(a) }
func use_I12x023_hash(a *W12) uint64 { return deriveHashI12x023(a) }
