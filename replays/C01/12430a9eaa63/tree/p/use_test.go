package p

import (
	"testing"
)

func TestNothing(t *testing.T) {}

func use_I12x004_clone(a map[string]rune) map[string]rune { return deriveCloneI12x004(a) }
func use_I12x004_compare(a, b map[string]rune) int { return deriveCompareI12x004(a, b) }
func use_I12x004_comparec(a, b map[string]rune) int { return deriveCompareCI12x004(a)(b) }
func use_I12x004_deepcopy(a, b map[string]rune)  { deriveDeepCopyI12x004(a, b) }
func use_I12x004_equal(a, b map[string]rune) bool { return deriveEqualI12x004(a, b) }
func use_I12x004_equalc(a, b map[string]rune) bool { return deriveEqualCI12x004(a)(b) }
func use_I12x004_equalclone(a map[string]rune) bool { return deriveEqualI12x004(deriveCloneI12x004(a), a) }
func use_I12x004_gostring(a map[string]rune) string { return deriveGoStringI12x004(a) }
func use_I12x004_hash(a map[string]rune) uint64 { return deriveHashI12x004(a) }
func use_I12x004_keys(m map[string]rune) int { return len(deriveKeysI12x004(m)) }
func use_I12x004_sortkeys(m map[string]rune) int { return len(deriveSortI12x004(deriveKeysI12x004(m))) }
func use_I12x005_clone(a *W3) *W3 { return deriveCloneI12x005(a) }
func use_I12x005_compare(a, b *W3) int { return deriveCompareI12x005(a, b) }
func use_I12x005_comparec(a, b *W3) int { return deriveCompareCI12x005(a)(b) }
func use_I12x005_deepcopy(a, b *W3)  { deriveDeepCopyI12x005(a, b) }
func use_I12x005_equal(a, b *W3) bool { return deriveEqualI12x005(a, b) }
func use_I12x005_equalc(a, b *W3) bool { return deriveEqualCI12x005(a)(b) }
func use_I12x005_equalclone(a *W3) bool { return deriveEqualI12x005(deriveCloneI12x005(a), a) }
func use_I12x005_gostring(a *W3) string { return deriveGoStringI12x005(a) }
func use_I12x005_hash(a *W3) uint64 { return deriveHashI12x005(a) }
func use_I12x006_clone(a map[[2]int]SP) map[[2]int]SP { return deriveCloneI12x006(a) }
func use_I12x006_compare(a, b map[[2]int]SP) int { return deriveCompareI12x006(a, b) }
func use_I12x006_comparec(a, b map[[2]int]SP) int { return deriveCompareCI12x006(a)(b) }
func use_I12x006_deepcopy(a, b map[[2]int]SP)  { deriveDeepCopyI12x006(a, b) }
func use_I12x006_equal(a, b map[[2]int]SP) bool { return deriveEqualI12x006(a, b) }
func use_I12x006_equalc(a, b map[[2]int]SP) bool { return deriveEqualCI12x006(a)(b) }
func use_I12x006_equalclone(a map[[2]int]SP) bool { return deriveEqualI12x006(deriveCloneI12x006(a), a) }
func use_I12x006_gostring(a map[[2]int]SP) string { return deriveGoStringI12x006(a) }
func use_I12x006_hash(a map[[2]int]SP) uint64 { return deriveHashI12x006(a) }
func use_I12x006_keys(m map[[2]int]SP) int { return len(deriveKeysI12x006(m)) }
func use_I12x006_sortkeys(m map[[2]int]SP) int { return len(deriveSortI12x006(deriveKeysI12x006(m))) }
func use_I12x008_clone(a [2]SR) [2]SR { return deriveCloneI12x008(a) }
func use_I12x008_compare(a, b [2]SR) int { return deriveCompareI12x008(a, b) }
func use_I12x008_comparec(a, b [2]SR) int { return deriveCompareCI12x008(a)(b) }
func use_I12x008_equal(a, b [2]SR) bool { return deriveEqualI12x008(a, b) }
func use_I12x008_equalc(a, b [2]SR) bool { return deriveEqualCI12x008(a)(b) }
func use_I12x008_equalclone(a [2]SR) bool { return deriveEqualI12x008(deriveCloneI12x008(a), a) }
func use_I12x008_gostring(a [2]SR) string { return deriveGoStringI12x008(a) }
func use_I12x008_hash(a [2]SR) uint64 { return deriveHashI12x008(a) }
func use_I12x019_clone(a *W10) *W10 { return deriveCloneI12x019(a) }
func use_I12x019_compare(a, b *W10) int { return deriveCompareI12x019(a, b) }
func use_I12x019_comparec(a, b *W10) int { return deriveCompareCI12x019(a)(b) }
func use_I12x019_deepcopy(a, b *W10)  { deriveDeepCopyI12x019(a, b) }
func use_I12x019_equal(a, b *W10) bool { return deriveEqualI12x019(a, b) }
func use_I12x019_equalc(a, b *W10) bool { return deriveEqualCI12x019(a)(b) }
func use_I12x019_equalclone(a *W10) bool { return deriveEqualI12x019(deriveCloneI12x019(a), a) }
func use_I12x019_gostring(a *W10) string { return deriveGoStringI12x019(a) }
func use_I12x019_hash(a *W10) uint64 { return deriveHashI12x019(a) }
func use_I12x021_clone(a *W11) *W11 { return deriveCloneI12x021(a) }
func use_I12x021_compare(a, b *W11) int { return deriveCompareI12x021(a, b) }
func use_I12x021_comparec(a, b *W11) int { return deriveCompareCI12x021(a)(b) }
func use_I12x021_deepcopy(a, b *W11)  { deriveDeepCopyI12x021(a, b) }
func use_I12x021_equal(a, b *W11) bool { return deriveEqualI12x021(a, b) }
func use_I12x021_equalc(a, b *W11) bool { return deriveEqualCI12x021(a)(b) }
func use_I12x021_equalclone(a *W11) bool { return deriveEqualI12x021(deriveCloneI12x021(a), a) }
func use_I12x021_gostring(a *W11) string { return deriveGoStringI12x021(a) }
func use_I12x021_hash(a *W11) uint64 { return deriveHashI12x021(a) }
func use_I12x022_clone(a map[float64]string) map[float64]string { return deriveCloneI12x022(a) }
func use_I12x022_compare(a, b map[float64]string) int { return deriveCompareI12x022(a, b) }
func use_I12x022_comparec(a, b map[float64]string) int { return deriveCompareCI12x022(a)(b) }
func use_I12x022_deepcopy(a, b map[float64]string)  { deriveDeepCopyI12x022(a, b) }
func use_I12x022_equal(a, b map[float64]string) bool { return deriveEqualI12x022(a, b) }
func use_I12x022_equalc(a, b map[float64]string) bool { return deriveEqualCI12x022(a)(b) }
func use_I12x022_equalclone(a map[float64]string) bool { return deriveEqualI12x022(deriveCloneI12x022(a), a) }
func use_I12x022_gostring(a map[float64]string) string { return deriveGoStringI12x022(a) }
func use_I12x022_hash(a map[float64]string) uint64 { return deriveHashI12x022(a) }
func use_I12x022_keys(m map[float64]string) int { return len(deriveKeysI12x022(m)) }
func use_I12x022_sortkeys(m map[float64]string) int { return len(deriveSortI12x022(deriveKeysI12x022(m))) }
func use_I12x022L_all(p func(map[float64]string) bool, l []map[float64]string) bool { return deriveAllI12x022L(p, l) }
func use_I12x022L_any(p func(map[float64]string) bool, l []map[float64]string) bool { return deriveAnyI12x022L(p, l) }
func use_I12x022L_contains(l []map[float64]string, x map[float64]string) bool { return deriveContainsI12x022L(l, x) }
func use_I12x022L_filter(p func(map[float64]string) bool, l []map[float64]string) []map[float64]string { return deriveFilterI12x022L(p, l) }
func use_I12x022L_intersect(a, b []map[float64]string) []map[float64]string { return deriveIntersectI12x022L(a, b) }
func use_I12x022L_max(l []map[float64]string, d map[float64]string) map[float64]string { return deriveMaxI12x022L(l, d) }
func use_I12x022L_max2(a, b map[float64]string) map[float64]string { return deriveMaxBI12x022L(a, b) }
func use_I12x022L_min(l []map[float64]string, d map[float64]string) map[float64]string { return deriveMinI12x022L(l, d) }
func use_I12x022L_min2(a, b map[float64]string) map[float64]string { return deriveMinBI12x022L(a, b) }
func use_I12x022L_sort(l []map[float64]string) []map[float64]string { return deriveSortI12x022L(l) }
func use_I12x022L_takewhile(p func(map[float64]string) bool, l []map[float64]string) []map[float64]string { return deriveTakeWhileI12x022L(p, l) }
func use_I12x022L_union(a, b []map[float64]string) []map[float64]string { return deriveUnionI12x022L(a, b) }
func use_I12x022L_unique(l []map[float64]string) []map[float64]string { return deriveUniqueI12x022L(l) }
