package p


