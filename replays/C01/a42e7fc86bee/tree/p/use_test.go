package p

import (
	"testing"
)

func TestNothing(t *testing.T) {}

func use_I03x014_clone(a map[NStr]NPtr) map[NStr]NPtr { return deriveCloneI03x014(a) }
func use_I03x014_compare(a, b map[NStr]NPtr) int { return deriveCompareI03x014(a, b) }
func use_I03x014_comparec(a, b map[NStr]NPtr) int { return deriveCompareCI03x014(a)(b) }
func use_I03x014_deepcopy(a, b map[NStr]NPtr)  { deriveDeepCopyI03x014(a, b) }
func use_I03x014_equal(a, b map[NStr]NPtr) bool { return deriveEqualI03x014(a, b) }
func use_I03x014_equalc(a, b map[NStr]NPtr) bool { return deriveEqualCI03x014(a)(b) }
func use_I03x014_equalclone(a map[NStr]NPtr) bool { return deriveEqualNI03x014(deriveCloneNI03x014(a), a) }
func use_I03x014_gostring(a map[NStr]NPtr) string { return deriveGoStringI03x014(a) }
func use_I03x014_hash(a map[NStr]NPtr) uint64 { return deriveHashI03x014(a) }
func use_I03x014_keys(m map[NStr]NPtr) int { return len(deriveKeysI03x014(m)) }
func use_I03x014_sortkeys(m map[NStr]NPtr) int { return len(deriveSortI03x014(deriveKeysI03x014(m))) }
