package p


func use_I08x012_clone(a *NStr) *NStr { return deriveCloneI08x012(a) }
func use_I08x012_compare(a, b *NStr) int { return deriveCompareI08x012(a, b) }
func use_I08x012_comparec(a, b *NStr) int { return deriveCompareCI08x012(a)(b) }
func use_I08x012_deepcopy(a, b *NStr)  { deriveDeepCopyI08x012(a, b) }
func use_I08x012_equal(a, b *NStr) bool { return deriveEqualI08x012(a, b) }
func use_I08x012_equalc(a, b *NStr) bool { return deriveEqualCI08x012(a)(b) }
func use_I08x012_equalclone(a *NStr) bool { return deriveEqualNI08x012(deriveCloneNI08x012(a), a) }
func use_I08x012_gostring(a *NStr) string { return deriveGoStringI08x012(a) }
func use_I08x012_hash(a *NStr) uint64 { return deriveHashI08x012(a) }
