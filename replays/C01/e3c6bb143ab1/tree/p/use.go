package p


var use_I01x018_clone = func(a SP) SP { return deriveCloneI01x018(a) }
var use_I01x018_compare = func(a, b SP) int { return deriveCompareI01x018(a, b) }
var use_I01x018_comparec = func(a, b SP) int { return deriveCompareCI01x018(a)(b) }
var use_I01x018_equal = func(a, b SP) bool { return deriveEqualI01x018(a, b) }
var use_I01x018_equalc = func(a, b SP) bool { return deriveEqualCI01x018(a)(b) }
var use_I01x018_equalclone = func(a SP) bool { return deriveEqualNI01x018(deriveCloneNI01x018(a), a) }
var use_I01x018_gostring = func(a SP) string { return deriveGoStringI01x018(a) }
var use_I01x018_hash = func(a SP) uint64 { return deriveHashI01x018(a) }
