package p


func use_I05x008_clone(a map[string]map[string]bool) map[string]map[string]bool { return deriveCloneI05x008(a) }
func use_I05x008_compare(a, b map[string]map[string]bool) int { return deriveCompareI05x008(a, b) }
func use_I05x008_comparec(a, b map[string]map[string]bool) int { return deriveCompareCI05x008(a)(b) }
func use_I05x008_deepcopy(a, b map[string]map[string]bool)  { deriveDeepCopyI05x008(a, b) }
func use_I05x008_equal(a, b map[string]map[string]bool) bool { return deriveEqualI05x008(a, b) }
func use_I05x008_equalc(a, b map[string]map[string]bool) bool { return deriveEqualCI05x008(a)(b) }
func use_I05x008_equalclone(a map[string]map[string]bool) bool { return deriveEqualNI05x008(deriveCloneNI05x008(a), a) }
func use_I05x008_gostring(a map[string]map[string]bool) string { return deriveGoStringI05x008(a) }
func use_I05x008_hash(a map[string]map[string]bool) uint64 { return deriveHashI05x008(a) }
func use_I05x008_keys(m map[string]map[string]bool) int { return len(deriveKeysI05x008(m)) }
func use_I05x008_sortkeys(m map[string]map[string]bool) int { return len(deriveSortI05x008(deriveKeysI05x008(m))) }
