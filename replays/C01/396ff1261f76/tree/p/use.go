package p


func use_I14x022_clone(a map[int][2]rune) map[int][2]rune { return deriveCloneI14x022(a) }
func use_I14x022_compare(a, b map[int][2]rune) int { return deriveCompareI14x022(a, b) }
func use_I14x022_comparec(a, b map[int][2]rune) int { return deriveCompareCI14x022(a)(b) }
func use_I14x022_deepcopy(a, b map[int][2]rune)  { deriveDeepCopyI14x022(a, b) }
func use_I14x022_equal(a, b map[int][2]rune) bool { return deriveEqualI14x022(a, b) }
func use_I14x022_equalc(a, b map[int][2]rune) bool { return deriveEqualCI14x022(a)(b) }
func use_I14x022_equalclone(a map[int][2]rune) bool { return deriveEqualNI14x022(deriveCloneNI14x022(a), a) }
func use_I14x022_gostring(a map[int][2]rune) string { return deriveGoStringI14x022(a) }
func use_I14x022_hash(a map[int][2]rune) uint64 { return deriveHashI14x022(a) }
func use_I14x022_keys(m map[int][2]rune) int { return len(deriveKeysI14x022(m)) }
func use_I14x022_sortkeys(m map[int][2]rune) int { return len(deriveSortI14x022(deriveKeysI14x022(m))) }
