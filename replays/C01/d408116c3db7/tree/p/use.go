package p


var use_I18x006_clone = func(a []map[string]bool) []map[string]bool { return deriveCloneI18x006(a) }
var use_I18x006_compare = func(a, b []map[string]bool) int { return deriveCompareI18x006(a, b) }
var use_I18x006_comparec = func(a, b []map[string]bool) int { return deriveCompareCI18x006(a)(b) }
var use_I18x006_deepcopy = func(a, b []map[string]bool)  { deriveDeepCopyI18x006(a, b) }
var use_I18x006_equal = func(a, b []map[string]bool) bool { return deriveEqualI18x006(a, b) }
var use_I18x006_equalc = func(a, b []map[string]bool) bool { return deriveEqualCI18x006(a)(b) }
var use_I18x006_equalclone = func(a []map[string]bool) bool { return deriveEqualNI18x006(deriveCloneNI18x006(a), a) }
var use_I18x006_gostring = func(a []map[string]bool) string { return deriveGoStringI18x006(a) }
var use_I18x006_hash = func(a []map[string]bool) uint64 { return deriveHashI18x006(a) }
