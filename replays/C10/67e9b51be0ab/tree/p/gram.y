%{ yacc source %}
