//line gram.y:3
package p

type A struct {
	X int
	L []string
}

type B struct {
	Y string
	M map[string]int
}

type C struct {
	Z *A
}

//line gram.y:40
func e1(a, b *A) bool { return deriveEqualLongerName(a, b) } // first user

// e2 collides with e1 on the name
func e2(a, b *B) bool {
	/* before */ return deriveEqualLongerName(a, b) /* after */
}
