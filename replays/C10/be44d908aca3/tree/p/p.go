//go:build !never

// Package p has a build tag and a doc comment.
package p

type A struct {
	X int
	L []string
}

type B struct {
	Y string
	M map[string]int
}

type C struct {
	Z *A
}

func e1(a, b *A) bool { return deriveEqualQ(a, b) }

func e2(a, b *B) bool { return deriveEqualQ(a, b) }

func e3(a, b *B) bool { return deriveEqualR(a, b) }

func e4(a, b *C) bool { return deriveEqualR(a, b) && deriveEqualQ(a.Z, b.Z) }

// trailing comment at the very end of the file
