package p   

type A struct  {   
  X int   
  L []string   
}   

type B struct  {   
  Y string   
  M map[string]int   
}   

type C struct  {   
  Z *A   
}   

func e1(a,  b *A) bool  { return deriveEqualAB(a,  b) }   

func e2(a,  b *B) bool  { return deriveEqualAB(a,  b) }   

func e3(a,  b *B) bool  { return deriveEqual_(a,  b) }   

func e4(a,  b *C) bool  { return deriveEqual_(a,  b) && deriveEqualAB(a.Z,  b.Z) }   

// trailing comment at the very end of the file

