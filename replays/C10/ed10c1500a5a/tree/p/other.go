package p

// file without any derive call, deliberately not gofmt-formatted
func   helper( a int,b int )int{
        return a+b }
