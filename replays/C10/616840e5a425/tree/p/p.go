package p   

type A struct  {   
  X int   
  L []string   
}   

type B struct  {   
  Y string   
  M map[string]int   
}   

type C struct  {   
  Z *A   
}   

func e1(a,  b *A) bool  { return deriveEqual(a,  b) }   

func e2(a,  b *A) bool  { return deriveEqualLongerName(a,  b) && deriveEqualLongerName(b,  a) }   

var v=deriveEqualLongerName(&A{},  &A{}) // package-level   

func e3() func(a,  b *A) bool  { return func(a,  b *A) bool  { return deriveEqualLongerName(a,  b) } }   

// trailing comment at the very end of the file

