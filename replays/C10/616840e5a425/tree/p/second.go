package p

// second.go has a derive call that keeps its name
func hashB(b *B) uint64 { return deriveHash(b) }
