package p

type A struct {
	X int
	L []string
}

type B struct {
	Y string
	M map[string]int
}

type C struct {
	Z *A
}

func e1(a, b *A) bool { return deriveEqualQ(a, b) }

// the argument type of this call is only known after a first generation pass
func e2(m map[string]int, want []string) bool {
	return deriveEqualQ(deriveSort(deriveKeys(m)), want) // nested
}

// trailing comment at the very end of the file
