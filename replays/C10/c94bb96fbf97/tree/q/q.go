package q

// a bystander package: not gofmt-formatted, never addressed
func   Q( a,b int )int{return a+b}
