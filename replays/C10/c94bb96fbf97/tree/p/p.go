package p   

type A struct  {   
  X int   
  L []string   
}   

type B struct  {   
  Y string   
  M map[string]int   
}   

type C struct  {   
  Z *A   
}   

func e1(a,  b *A) bool  { return deriveEqualQ(a,  b) } // first user   

// e2 collides with e1 on the name
func e2(a,  b *B) bool  {   
  /* before */ return deriveEqualQ(a,  b) /* after */   
}   

// trailing comment at the very end of the file

