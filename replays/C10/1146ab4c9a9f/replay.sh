#!/bin/sh
# Replays one recorded case: exits non-zero if the violation reproduces.
set -u
HERE=$(cd "$(dirname "$0")" && pwd)
REPO=${VERIF_REPO:-/repo}
GR=$(cd "$REPO" && GOPROXY=off GOFLAGS= go env GOROOT)
export PATH=$GR/bin:$PATH GOTOOLCHAIN=local GOPROXY=off GOSUMDB=off
W=$(mktemp -d)
trap 'rm -rf "$W"' EXIT
(cd "$REPO" && GOFLAGS= go build -tags verif -o "$W/goderive" .) || exit 3
cp -r "$HERE/tree" "$W/m"
cd "$W/m"
export GOFLAGS=-mod=mod
"$W/goderive" -autoname ./p
echo "goderive exit=$?"
for f in p/*.go; do [ "$f" = p/derived.gen.go ] && continue; gofmt -e "$f" >/dev/null || exit 1; done
cd "$HERE/tree" && for f in $(find . -type f ! -name derived.gen.go); do cmp -s "$f" "$W/m/$f" || echo "changed: $f"; done
exit 0
