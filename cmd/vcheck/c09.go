package main

import (
	"fmt"
	"go/parser"
	"go/token"
	"os"
	"path/filepath"
	"regexp"
	"strings"

	"verif/internal/grun"
	"verif/internal/pgen"
	"verif/internal/report"
)

func init() { register("C09", "exploration", checkC09) }

// rawCase is a package given as literal source.
type rawCase struct {
	Name      string
	Class     string            // case class for distinct counting / finding keys
	Files     map[string]string // module tree
	Flags     []string
	WellTyped bool     // user code (minus the derive calls) is well-typed: a successful run must compile
	Names     []string // identifiers / type words one of which a diagnostic should mention
	Desc      string
	Args      []string // package arguments (default ./p)
}

type rawOutcome struct {
	Case    rawCase
	Gen     grun.Result
	Dir     string
	Parse   error
	Build   grun.Result
	Built   bool
	Touched []string
	Derived string
}

func (c *Ctx) runRaw(rc rawCase) *rawOutcome {
	dir := c.Env.Dir(rc.Name)
	files := map[string]string{"go.mod": pgen.GoMod}
	for k, v := range rc.Files {
		files[k] = v
	}
	grun.WriteTree(dir, files)
	before := grun.Snapshot(dir)
	pkgArgs := rc.Args
	if len(pkgArgs) == 0 {
		pkgArgs = []string{"./p"}
	}
	g := c.Goderive(dir, append(append([]string{}, rc.Flags...), pkgArgs...))
	after := grun.Snapshot(dir)
	cr, del, ch := grun.Diff(before, after)
	oc := &rawOutcome{Case: rc, Gen: g, Dir: dir}
	for _, p := range append(append(cr, del...), ch...) {
		if p != "p/derived.gen.go" {
			oc.Touched = append(oc.Touched, p)
		}
	}
	if b, err := os.ReadFile(filepath.Join(dir, "p", "derived.gen.go")); err == nil {
		oc.Derived = string(b)
		_, oc.Parse = parser.ParseFile(token.NewFileSet(), "derived.gen.go", b, 0)
	}
	if g.Exit == 0 && oc.Parse == nil && rc.WellTyped {
		oc.Build = c.Go(dir, "build", "./p")
		oc.Built = true
	}
	return oc
}

var reIdent = regexp.MustCompile(`derive[A-Za-z0-9_]+`)

// cleanDiagnostic implements the (deliberately lenient) message rule: a non-empty message other
// than progress lines that names the call, the plugin, or a type / kind.
func cleanDiagnostic(oc *rawOutcome) (bool, string) {
	var lines []string
	for _, ln := range strings.Split(oc.Gen.Stderr, "\n") {
		ln = strings.TrimSpace(ln)
		if ln == "" || strings.HasPrefix(ln, "could not yet generate") || strings.HasPrefix(ln, "warning: GOCOVERDIR") || strings.HasPrefix(ln, "changing function call name") {
			continue
		}
		lines = append(lines, ln)
	}
	if len(lines) == 0 {
		return false, "exit status != 0 with no diagnostic message"
	}
	msg := strings.Join(lines, "\n")
	if reIdent.MatchString(msg) {
		return true, ""
	}
	words := append([]string{"chan", "func", "interface", "unsafe.Pointer", "struct", "map[", "[]", "bool", "int", "string", "float", "complex", "type", "argument", "p.go", ".go:"}, oc.Case.Names...)
	for _, w := range words {
		if w != "" && strings.Contains(msg, w) {
			return true, ""
		}
	}
	return false, "diagnostic names neither the call nor a type: " + trunc(msg, 200)
}

func (c *Ctx) judgeC09(oc *rawOutcome, nsample *int) {
	rc := oc.Case
	c.Run.Eval(1)
	outcome := "rejected"
	viol := func(sym, detail string) {
		c.Run.Violate(report.Violation{
			Key:     rc.Class + "|" + sym,
			Summary: fmt.Sprintf("%s: %s", rc.Desc, sym),
			Detail:  detail,
			Files:   treeFiles(oc.Dir, "tree"),
			Replay:  replayScript(strings.Join(append(append([]string{}, rc.Flags...), "./p"), " "), "gofmt -e p/derived.gen.go >/dev/null 2>&1 || { [ -f p/derived.gen.go ] && echo 'derived.gen.go does not parse' && exit 1; }\ngo build ./p 2>&1 | head -5\nexit 0"),
		})
	}
	switch {
	case oc.Gen.Crash != "":
		viol("crash", trunc(oc.Gen.Stderr, 2500))
		return
	case oc.Gen.CPUKill:
		viol("hang", fmt.Sprintf("goderive burnt %v CPU and was stopped by RLIMIT_CPU", oc.Gen.CPU))
		return
	case oc.Gen.TimedOut:
		c.Run.Inconclusive(rc.Name + ": wall-clock watchdog fired (cpu " + oc.Gen.CPU.String() + ")")
		return
	case oc.Gen.Signal != "":
		viol("killed-by-signal", "goderive was killed by "+oc.Gen.Signal+"\n"+trunc(oc.Gen.Stderr, 1500))
		return
	case oc.Gen.Exit != 0:
		if strings.HasPrefix(rc.Class, "broken:") {
			// user package is itself broken: only "no crash, no hang, some message" is demanded
			if strings.TrimSpace(oc.Gen.Stderr) == "" {
				viol("bad-diagnostic", "exit status != 0 with empty stderr")
				return
			}
		} else if ok, why := cleanDiagnostic(oc); !ok {
			viol("bad-diagnostic", why+"\nstderr:\n"+trunc(oc.Gen.Stderr, 1500))
			return
		}
		// a failed run must not leave an unparsable file behind either
		if oc.Derived != "" && oc.Parse != nil {
			viol("failed-run-leaves-unparsable-file", oc.Parse.Error()+"\nstderr:\n"+trunc(oc.Gen.Stderr, 800))
			return
		}
	default:
		outcome = "accepted"
		if strings.HasPrefix(rc.Class, "multi:") {
			// one of the named packages cannot be generated: the run as a whole must not report success,
			// whatever order the packages are processed in
			viol("failing-package-hidden-by-successful-ones", "goderive "+strings.Join(rc.Args, " ")+" exited 0 although package bad cannot be generated; stderr: "+trunc(oc.Gen.Stderr, 600))
			return
		}
		if mustReject(rc.Class) {
			// "An argument type outside a plugin's supported set is always reported": chan / func / interface
			// constituents are documented as unsupported by every type-directed plugin
			viol("unsupported-constituent-accepted", "goderive exited 0 for a type with a documented-unsupported constituent; stderr: "+trunc(oc.Gen.Stderr, 400)+"\n--- derived.gen.go (head) ---\n"+trunc(oc.Derived, 1200))
			return
		}
		if oc.Derived != "" && oc.Parse != nil {
			viol("exit0-unparsable-file", oc.Parse.Error()+"\n--- derived.gen.go (head) ---\n"+trunc(oc.Derived, 1500))
			return
		}
		if oc.Built && oc.Build.Exit != 0 {
			viol("exit0-does-not-typecheck", trunc(oc.Build.Stderr+oc.Build.Stdout, 2000))
			return
		}
	}
	c.Run.Distinct(rc.Class + "|" + outcome)
	c.Run.Count("outcome:"+outcome, 1)
	if len(oc.Touched) > 0 {
		c.Run.Count("c10_class_observations_files_touched", int64(len(oc.Touched)))
	}
	if *nsample < 6 {
		*nsample++
		c.Run.Sample(map[string]any{"case": rc.Desc, "class": rc.Class, "exit": oc.Gen.Exit, "stderr": trunc(strings.TrimSpace(oc.Gen.Stderr), 200)})
	}
}

func checkC09(c *Ctx) {
	c.Anchors = []string{"derive", "plugin/equal", "plugin/compare", "plugin/hash", "plugin/deepcopy", "plugin/clone", "plugin/gostring", "plugin/sort", "plugin/min", "plugin/max", "plugin/fmap", "plugin/join", "plugin/compose", "plugin/curry", "plugin/flip", "plugin/apply", "plugin/mem", "plugin/do"}
	c.Run.Rule = "cases = singleton packages, each its own goderive execution: every type-directed plugin x an unsupported constituent (chan, func, interface, unsafe.Pointer, unnamed non-comparable struct, pointer/chan/interface map key) injected at every position of an otherwise supported shape (top level, pointer target, slice/array element, map value, struct field, nested); min/max/sort over unordered types; every plugin called with no / wrong-kind / too many / mismatched arguments and variadic function arguments; user packages with syntax errors, type errors, missing imports and calls to undefined non-derive functions. Oracle: no panic / runtime fatal in stderr, CPU time < 90 s, and either exit != 0 with a diagnostic naming the call, plugin or a type, or exit 0 with a derived.gen.go that parses and (for well-typed user code) compiles. distinct_nontrivial = distinct (plugin, injected kind, position | argument-shape class, outcome)"
	c.Run.Assume = []string{"the message rule is lenient: wording is not specified by the property", "hangs are judged on CPU time (RLIMIT_CPU 90 s), wall-clock only as an inconclusive watchdog"}
	c.Run.Floor = 60
	cases := c09Cases(c)
	outs := make([]*rawOutcome, len(cases))
	parallel(len(cases), 14, func(i int) { outs[i] = c.runRaw(cases[i]) })
	ns := 0
	for _, oc := range outs {
		c.judgeC09(oc, &ns)
	}
}

func c09Cases(c *Ctx) []rawCase {
	var out []rawCase
	n := 0
	add := func(class, desc, src string, wellTyped bool, names ...string) {
		n++
		out = append(out, rawCase{Name: fmt.Sprintf("c09-%04d", n), Class: class, Desc: desc, Files: map[string]string{"p/p.go": src}, WellTyped: wellTyped, Names: names})
	}
	// ---- unsupported constituents ---------------------------------------------------------------
	type bad struct{ name, expr, imp string }
	bads := []bad{{"chan", "chan int", ""}, {"func", "func()", ""}, {"interface", "interface{}", ""}, {"unsafeptr", "unsafe.Pointer", "unsafe"},
		{"anonstruct", "struct{ S []int }", ""}, {"errorface", "error", ""}, {"recvchan", "<-chan string", ""},
		{"anonchan", "struct {\n\tName string\n\tDone chan bool\n\tTries int\n}", ""}}
	type ctxt struct {
		name string
		mk   func(b string) (decl string, typ string)
	}
	ctxs := []ctxt{
		{"top", func(b string) (string, string) { return "", b }},
		{"ptr", func(b string) (string, string) { return "", "*" + b }},
		{"slice-elem", func(b string) (string, string) { return "", "[]" + b }},
		{"array-elem", func(b string) (string, string) { return "", "[2]" + b }},
		{"map-value", func(b string) (string, string) { return "", "map[string]" + b }},
		{"struct-field", func(b string) (string, string) {
			return "type S struct {\n\tA int\n\tX " + b + "\n\tB string\n}\n", "*S"
		}},
		{"struct-value", func(b string) (string, string) { return "type S struct {\n\tA int\n\tX " + b + "\n}\n", "S" }},
		{"field-slice", func(b string) (string, string) { return "type S struct {\n\tX []" + b + "\n}\n", "*S" }},
		{"field-ptr", func(b string) (string, string) { return "type S struct {\n\tX *" + b + "\n}\n", "*S" }},
		{"field-array", func(b string) (string, string) { return "type S struct {\n\tX [3]" + b + "\n}\n", "*S" }},
		{"field-map-value", func(b string) (string, string) { return "type S struct {\n\tX map[int]" + b + "\n}\n", "*S" }},
		{"nested-struct", func(b string) (string, string) {
			return "type In struct {\n\tX " + b + "\n}\n\ntype S struct {\n\tI In\n\tP *In\n\tL []In\n}\n", "*S"
		}},
		{"slice-of-struct", func(b string) (string, string) { return "type S struct {\n\tX " + b + "\n}\n", "[]S" }},
		{"map-of-ptr-struct", func(b string) (string, string) {
			return "type S struct {\n\tX map[string][]" + b + "\n}\n", "map[string]*S"
		}},
	}
	type opd struct {
		name string
		call func(T string) string // body of a function with parameters a, b T
	}
	ops := []opd{
		{"equal", func(T string) string { return "func use(a, b " + T + ") bool { return deriveEqual(a, b) }" }},
		{"equalc", func(T string) string { return "func use(a, b " + T + ") bool { return deriveEqual(a)(b) }" }},
		{"compare", func(T string) string { return "func use(a, b " + T + ") int { return deriveCompare(a, b) }" }},
		{"hash", func(T string) string { return "func use(a " + T + ") uint64 { return deriveHash(a) }" }},
		{"clone", func(T string) string { return "func use(a " + T + ") " + T + " { return deriveClone(a) }" }},
		{"deepcopy", func(T string) string { return "func use(a, b " + T + ") { deriveDeepCopy(a, b) }" }},
		{"gostring", func(T string) string { return "func use(a " + T + ") string { return deriveGoString(a) }" }},
		{"contains", func(T string) string {
			return "func use(l []" + T + ", a " + T + ") bool { return deriveContains(l, a) }"
		}},
		{"unique", func(T string) string { return "func use(l []" + T + ") []" + T + " { return deriveUnique(l) }" }},
		{"sort", func(T string) string { return "func use(l []" + T + ") []" + T + " { return deriveSort(l) }" }},
		{"min", func(T string) string {
			return "func use(l []" + T + ", a " + T + ") " + T + " { return deriveMin(l, a) }"
		}},
		{"max2", func(T string) string { return "func use(a, b " + T + ") " + T + " { return deriveMax(a, b) }" }},
		{"union", func(T string) string { return "func use(a, b []" + T + ") []" + T + " { return deriveUnion(a, b) }" }},
		{"intersect", func(T string) string {
			return "func use(a, b []" + T + ") []" + T + " { return deriveIntersect(a, b) }"
		}},
		{"mem", func(T string) string {
			return "func f(a " + T + ") int { return 1 }\n\nfunc use() func(" + T + ") int { return deriveMem(f) }"
		}},
	}
	heavy := map[string]bool{"equal": true, "compare": true, "hash": true, "clone": true, "deepcopy": true, "gostring": true}
	for _, b := range bads {
		for ci, cx := range ctxs {
			for _, op := range ops {
				if !heavy[op.name] && ci > 5 {
					continue // list helpers: first positions only
				}
				if c.Quick && !heavy[op.name] && (ci+len(b.name)+len(op.name))%3 != int(c.Seed%3) {
					continue
				}
				decl, T := cx.mk(b.expr)
				if op.name == "deepcopy" && !(strings.HasPrefix(T, "*") || strings.HasPrefix(T, "[]") || strings.HasPrefix(T, "map[")) {
					continue
				}
				imp := ""
				if b.imp != "" {
					imp = "import \"" + b.imp + "\"\n\n"
				}
				src := "package p\n\n" + imp + decl + "\n" + op.call(T) + "\n"
				add("unsupported:"+op.name+":"+b.name+"@"+cx.name, fmt.Sprintf("%s on %s (%s at %s)", op.name, T, b.name, cx.name), src, true, "S", "In", op.name)
			}
		}
	}
	// pointer / interface / chan map keys
	for _, k := range []string{"*int", "interface{}", "chan int", "*S"} {
		for _, op := range ops[:7] {
			T := "map[" + k + "]string"
			if op.name == "gostring" && false {
				continue
			}
			src := "package p\n\ntype S struct{ A int }\n\n" + op.call(T) + "\n"
			add("unsupported:"+op.name+":mapkey:"+strings.Fields(k)[0], fmt.Sprintf("%s on %s", op.name, T), src, true, "S", op.name)
		}
	}
	// unordered types under min/max/sort
	for _, T := range []string{"bool", "complex128", "complex64", "NB", "NC", "[]bool", "*bool", "struct{ A bool }"} {
		decl := "type NB bool\n\ntype NC complex128\n\n"
		for _, form := range []string{"min2", "max2", "minl", "maxl", "sort"} {
			var body string
			switch form {
			case "min2":
				body = "func use(a, b " + T + ") " + T + " { return deriveMin(a, b) }"
			case "max2":
				body = "func use(a, b " + T + ") " + T + " { return deriveMax(a, b) }"
			case "minl":
				body = "func use(l []" + T + ", d " + T + ") " + T + " { return deriveMin(l, d) }"
			case "maxl":
				body = "func use(l []" + T + ", d " + T + ") " + T + " { return deriveMax(l, d) }"
			case "sort":
				body = "func use(l []" + T + ") []" + T + " { return deriveSort(l) }"
			}
			add("unordered:"+form+":"+strings.NewReplacer(" ", "", "{", "", "}", "").Replace(T), form+" over "+T, "package p\n\n"+decl+body+"\n", true, "NB", "NC", "min", "max", "sort")
		}
	}
	// ---- types that are not ==-comparable for a reason other than a slice/map/func field proper ------
	// (a blank field, an array of length 0, a nested struct): plugins that choose between a Go map key
	// and the hash/equal path must take the latter, or say why not
	ncDecl := "type KBlank struct {\n\tA int\n\t_ [0]func()\n}\n\ntype KZeroArr struct {\n\tA string\n\tZ [0][]int\n}\n\ntype KNested struct {\n\tA int\n\tIn struct{ _ []byte }\n}\n\n"
	for _, T := range []string{"KBlank", "KZeroArr", "KNested"} {
		for _, nc := range []struct{ name, body string }{
			{"mem", "func f(k " + T + ") int { return k.A0() }\n\nfunc (k " + T + ") A0() int { return 1 }\n\nfunc use() func(" + T + ") int { return deriveMem(f) }"},
			{"unique", "func use(l []" + T + ") []" + T + " { return deriveUnique(l) }"},
			{"contains", "func use(l []" + T + ", x " + T + ") bool { return deriveContains(l, x) }"},
			{"union", "func use(a, b []" + T + ") []" + T + " { return deriveUnion(a, b) }"},
			{"intersect", "func use(a, b []" + T + ") []" + T + " { return deriveIntersect(a, b) }"},
			{"equal", "func use(a, b " + T + ") bool { return deriveEqual(a, b) }"},
			{"hash", "func use(a " + T + ") uint64 { return deriveHash(a) }"},
			{"clone", "func use(a []" + T + ") []" + T + " { return deriveClone(a) }"},
			{"compare", "func use(a, b " + T + ") int { return deriveCompare(a, b) }"},
			{"gostring", "func use(a " + T + ") string { return deriveGoString(a) }"},
			{"deepcopy", "func use(a, b *" + T + ") { deriveDeepCopy(a, b) }"},
			{"sort", "func use(a []" + T + ") []" + T + " { return deriveSort(a) }"},
			{"set", "func use(a []" + T + ") int { return len(deriveSet(a)) }"},
		} {
			add("noncomparable:"+nc.name+":"+T, nc.name+" over the non-comparable struct "+T, "package p\n\n"+ncDecl+nc.body+"\n", true, nc.name, T)
		}
	}
	// ---- argument shapes for every plugin ------------------------------------------------------
	plugins := []string{"All", "Any", "Apply", "Clone", "Compare", "Compose", "Contains", "Curry", "DeepCopy", "Do", "Dup", "Equal", "Filter", "Flip", "Fmap", "GoString", "Hash", "Intersect", "Join", "Keys", "Max", "Mem", "Min", "Pipeline", "Set", "Sort", "TakeWhile", "ToError", "Traverse", "Tuple", "Uncurry", "Union", "Unique"}
	argShapes := []struct{ name, args, pre string }{
		{"noargs", "", ""},
		{"int", "1", ""},
		{"string-int", `"x", 2`, ""},
		{"three", "a, a, a", "var a = []int{1}\n"},
		{"nil", "nil", ""},
		{"func-int", "f, 3", "func f(x int) int { return x }\n"},
		{"int-func", "3, f", "func f(x int) int { return x }\n"},
		{"variadic", "v", "func v(a int, rest ...string) int { return a }\n"},
		{"variadic2", "v, 1", "func v(a int, rest ...string) int { return a }\n"},
		{"variadic3", "v3", "func v3(a int, b string, rest ...int) int { return a }\n"},
		{"variadic3-arg", "v3, 1", "func v3(a int, b string, rest ...int) int { return a }\n"},
		{"variadic4-same", "v4", "func v4(a, b, c int, rest ...int) (int, error) { return a, nil }\n"},
		{"variadic-only", "vo", "func vo(rest ...int) int { return len(rest) }\n"},
		{"variadic-literal", "func(a string, b bool, rest ...float64) bool { return b }", ""},
		{"x-nil", "a, nil", "var a = []int{1}\n"},
		{"nil-x", "nil, a", "var a = []int{1}\n"},
		{"x-x-nil", "a, a, nil", "var a = []int{1}\n"},
		{"ptr-nil", "q, nil", "type A struct{ X int }\nvar q *A\n"},
		{"func-nil", "f, nil", "func f(x int) int { return x }\n"},
		// argument pairs that are assignable to each other but not identical
		{"assignable-iface", "pn, ids", "type Namer interface{ Name() string }\ntype ID int\nfunc (ID) Name() string { return \"\" }\nvar ids []ID\nfunc pn(n Namer) bool { return true }\n"},
		{"assignable-named-elem", "pr, rows", "type Row []int\nvar rows [][]int\nfunc pr(r Row) bool { return true }\n"},
		{"assignable-named-list", "pi, nl", "type Ints []int\nvar nl Ints\nfunc pi(x int) bool { return true }\n"},
		{"assignable-item", "rows, r", "type Row []int\nvar rows [][]int\nvar r Row\n"},
		{"assignable-two-lists", "rows, nrows", "type Row []int\nvar rows [][]int\nvar nrows []Row\n"},
		{"func-noresult", "g", "func g(x, y int) {}\n"},
		{"func-noparam", "h", "func h() {}\n"},
		// a function without results (or without parameters) in every argument position, next to an error / a value
		// (round 6: toerror indexed results[len-1] of a function with no results)
		{"err-func-noresult", "e, g1", "var e error\nfunc g1(s string) {}\n"},
		{"err-func-noparam-noresult", "e, h", "var e error\nfunc h() {}\n"},
		{"func-noresult-err", "g1, e", "var e error\nfunc g1(s string) {}\n"},
		{"func-noresult-int", "g, 1", "func g(x, y int) {}\n"},
		{"int-func-noresult", "1, g", "func g(x, y int) {}\n"},
		{"func-noresult-list", "g1, l", "var l = []string{\"a\"}\nfunc g1(s string) {}\n"},
		{"two-funcs-noresult", "g1, g1", "func g1(s string) {}\n"},
		{"func-noresult-func", "g1, f", "func g1(s string) {}\nfunc f(x int) string { return \"\" }\n"},
		{"func-func-noresult", "f, g1", "func g1(s string) {}\nfunc f(x int) string { return \"\" }\n"},
		{"two-funcs-mismatch", "f, k", "func f(x int) (int, error) { return x, nil }\nfunc k(s string) (string, error) { return s, nil }\n"},
		{"chan", "ch", "var ch chan int\n"},
		{"slice-mismatch", "l, \"s\"", "var l = []int{1}\n"},
		{"map", "m", "var m = map[string]int{}\n"},
		{"struct", "s, s", "type S struct{ A int }\nvar s S\n"},
		{"method-value", "s.M", "type S struct{ A int }\nfunc (s S) M(a, b int) int { return a }\nvar s S\n"},
		{"func-literal", "func(a, b int) int { return a }", ""},
	}
	for pi, pl := range plugins {
		for si, sh := range argShapes {
			if c.Quick && (pi+si)%2 != int(c.Seed%2) && si > 2 && !strings.HasPrefix(sh.name, "variadic") && !strings.HasPrefix(sh.name, "assignable-") && !strings.Contains(sh.name, "nil") && !strings.Contains(sh.name, "noresult") {
				continue
			}
			src := "package p\n\n" + sh.pre + "\nfunc use() { derive" + pl + "(" + sh.args + ") }\n"
			// whether the emitted function's results are used does not matter; the call is a statement
			// a call whose only argument is a (variadic) function value type-checks against whatever function
			// goderive agrees to emit for it: accepted means the package must compile
			wellTyped := strings.HasPrefix(sh.name, "variadic") && !strings.Contains(sh.args, ",") || sh.name == "variadic-literal" || strings.HasPrefix(sh.name, "assignable-")
			add("args:"+strings.ToLower(pl)+":"+sh.name, fmt.Sprintf("derive%s(%s)", pl, sh.args), src, wellTyped, strings.ToLower(pl), "derive"+pl)
		}
	}
	// ---- two named types with the same underlying type under one plugin ------------------------------
	// (a plugin that registers the underlying instead of the named type marks the wrong function as
	// generated and never terminates; a clean diagnostic or working code are both fine)
	named := "type IDsA []int64\n\ntype IDsB []int64\n\ntype MapA map[string]int\n\ntype MapB map[string]int\n\ntype LolA [][]int\n\ntype LolB [][]int\n\ntype StrsA []string\n\ntype StrsB []string\n\nfunc pred(x int64) bool { return x > 0 }\n\nfunc conv(x int64) (string, error) { return \"\", nil }\n\nfunc str(x int64) string { return \"\" }\n\n"
	for _, nc := range []struct{ name, body string }{
		{"sort", "func f1(a IDsA) IDsA { return deriveSortA(a) }\n\nfunc f2(b IDsB) IDsB { return deriveSortB(b) }"},
		{"keys", "func f1(a MapA) []string { return deriveKeysA(a) }\n\nfunc f2(b MapB) []string { return deriveKeysB(b) }"},
		{"unique", "func f1(a IDsA) IDsA { return deriveUniqueA(a) }\n\nfunc f2(b IDsB) IDsB { return deriveUniqueB(b) }"},
		{"contains", "func f1(a IDsA) bool { return deriveContainsA(a, 1) }\n\nfunc f2(b IDsB) bool { return deriveContainsB(b, 1) }"},
		{"min", "func f1(a IDsA) int64 { return deriveMinA(a, 0) }\n\nfunc f2(b IDsB) int64 { return deriveMinB(b, 0) }"},
		{"max", "func f1(a IDsA) int64 { return deriveMaxA(a, 0) }\n\nfunc f2(b IDsB) int64 { return deriveMaxB(b, 0) }"},
		{"union", "func f1(a IDsA) IDsA { return deriveUnionA(a, a) }\n\nfunc f2(b IDsB) IDsB { return deriveUnionB(b, b) }"},
		{"intersect", "func f1(a IDsA) IDsA { return deriveIntersectA(a, a) }\n\nfunc f2(b IDsB) IDsB { return deriveIntersectB(b, b) }"},
		{"set", "func f1(a IDsA) map[int64]struct{} { return deriveSetA(a) }\n\nfunc f2(b IDsB) map[int64]struct{} { return deriveSetB(b) }"},
		{"filter", "func f1(a IDsA) IDsA { return deriveFilterA(pred, a) }\n\nfunc f2(b IDsB) IDsB { return deriveFilterB(pred, b) }"},
		{"takewhile", "func f1(a IDsA) IDsA { return deriveTakeWhileA(pred, a) }\n\nfunc f2(b IDsB) IDsB { return deriveTakeWhileB(pred, b) }"},
		{"all", "func f1(a IDsA) bool { return deriveAllA(pred, a) }\n\nfunc f2(b IDsB) bool { return deriveAllB(pred, b) }"},
		{"any", "func f1(a IDsA) bool { return deriveAnyA(pred, a) }\n\nfunc f2(b IDsB) bool { return deriveAnyB(pred, b) }"},
		{"fmap", "func f1(a IDsA) []string { return deriveFmapA(str, a) }\n\nfunc f2(b IDsB) []string { return deriveFmapB(str, b) }"},
		{"traverse", "func f1(a IDsA) ([]string, error) { return deriveTraverseA(conv, a) }\n\nfunc f2(b IDsB) ([]string, error) { return deriveTraverseB(conv, b) }"},
		{"join", "func f1(a LolA) []int { return deriveJoinA(a) }\n\nfunc f2(b LolB) []int { return deriveJoinB(b) }"},
		{"joinstr", "func f1(a StrsA) string { return deriveJoinA(a) }\n\nfunc f2(b StrsB) string { return deriveJoinB(b) }"},
		{"equal", "func f1(a, b IDsA) bool { return deriveEqualA(a, b) }\n\nfunc f2(a, b IDsB) bool { return deriveEqualB(a, b) }"},
		{"compare", "func f1(a, b MapA) int { return deriveCompareA(a, b) }\n\nfunc f2(a, b MapB) int { return deriveCompareB(a, b) }"},
		{"hash", "func f1(a MapA) uint64 { return deriveHashA(a) }\n\nfunc f2(a MapB) uint64 { return deriveHashB(a) }"},
		{"clone", "func f1(a MapA) MapA { return deriveCloneA(a) }\n\nfunc f2(a MapB) MapB { return deriveCloneB(a) }"},
		{"gostring", "func f1(a IDsA) string { return deriveGoStringA(a) }\n\nfunc f2(a IDsB) string { return deriveGoStringB(a) }"},
	} {
		add("named-pair:"+nc.name, "two named types with the same underlying type under "+nc.name, "package p\n\n"+named+nc.body+"\n", true, nc.name, "IDsA", "IDsB", "MapA", "MapB")
	}
	// ---- an undeclared type at every depth of an argument type ------------------------------------------
	for _, pos := range []struct{ name, decl, typ string }{
		{"named-field", "type S struct {\n\tA int\n\tK Missing\n}\n", "*S"},
		{"anon-struct-field", "type S struct {\n\tA int\n\tIn struct {\n\t\tL    []int\n\t\tKind Missing\n\t}\n}\n", "*S"},
		{"anon-struct-comparable", "type S struct {\n\tA int\n\tIn struct {\n\t\tN    int\n\t\tKind Missing\n\t}\n}\n", "*S"},
		{"map-value", "type S struct{ M map[string]Missing }\n", "*S"},
		{"map-key", "type S struct{ M map[Missing]int }\n", "*S"},
		{"slice-of-ptr", "type S struct{ L []*Missing }\n", "*S"},
		{"array", "type S struct{ L [2]Missing }\n", "S"},
		{"nested-named", "type In struct{ K Missing }\n\ntype S struct{ P *In }\n", "*S"},
		{"embedded", "type S struct {\n\tMissing\n\tA int\n}\n", "*S"},
	} {
		for _, pl := range []struct{ name, body string }{
			{"equal", "func use(a, b %s) bool { return deriveEqual(a, b) }"},
			{"compare", "func use(a, b %s) int { return deriveCompare(a, b) }"},
			{"hash", "func use(a %s) uint64 { return deriveHash(a) }"},
			{"clone", "func use(a %s) %s { return deriveClone(a) }"},
			{"gostring", "func use(a %s) string { return deriveGoString(a) }"},
			{"mem", "func f(a %s) int { return 1 }\n\nfunc use() func(%s) int { return deriveMem(f) }"},
			{"unique", "func use(l []%s) []%s { return deriveUnique(l) }"},
		} {
			body := strings.ReplaceAll(pl.body, "%s", pos.typ)
			n++
			out = append(out, rawCase{Name: fmt.Sprintf("c09-%04d", n), Class: "broken:undeclared-type:" + pos.name + ":" + pl.name, Desc: pl.name + " over a type with an undeclared type at " + pos.name,
				Files: map[string]string{"p/p.go": "package p\n\n" + pos.decl + "\n" + body + "\n"}, WellTyped: false})
		}
	}
	// ---- several packages in one invocation, one of which cannot be generated ------------------------------
	goodPkg := func(name string) string {
		return "package " + name + "\n\ntype T struct {\n\tA int\n\tB []string\n}\n\nfunc eq(a, b *T) bool { return deriveEqual(a, b) }\n\nfunc h(a *T) uint64 { return deriveHash(a) }\n"
	}
	multi := map[string]string{"bad/b.go": "package bad\n\ntype T struct {\n\tA   int\n\tRun func() error\n}\n\nfunc eq(a, b *T) bool { return deriveEqual(a, b) }\n"}
	for _, g := range []string{"p", "ga", "gb", "gc", "gd", "ge", "gf", "gg"} {
		multi[g+"/g.go"] = goodPkg(g)
	}
	for i := 0; i < tierN(c, 10, 30); i++ {
		n++
		args := []string{"./..."}
		if i%3 == 1 {
			args = []string{"./bad", "./p", "./ga", "./gb", "./gc"}
		} else if i%3 == 2 {
			args = []string{"./gd", "./ge", "./bad", "./gf", "./gg"}
		}
		out = append(out, rawCase{Name: fmt.Sprintf("c09-%04d", n), Class: fmt.Sprintf("multi:one-bad-package:%s", strings.Join(args, ",")), Desc: "eight good packages and one that cannot be generated, run " + fmt.Sprint(i),
			Files: multi, WellTyped: false, Args: args, Names: []string{"bad", "func"}})
	}
	// ---- broken user files ----------------------------------------------------------------------
	good := "package p\n\ntype T struct {\n\tA int\n\tB []string\n}\n\nfunc eq(a, b *T) bool { return deriveEqual(a, b) }\n"
	addFiles := func(class, desc string, files map[string]string) {
		n++
		out = append(out, rawCase{Name: fmt.Sprintf("c09-%04d", n), Class: class, Desc: desc, Files: files, WellTyped: false})
	}
	addFiles("broken:syntax-error-other-file", "second file has a syntax error", map[string]string{"p/p.go": good, "p/q.go": "package p\n\nfunc broken( {\n"})
	addFiles("broken:syntax-error-same-file", "file with the derive call has a syntax error after it", map[string]string{"p/p.go": good + "\nfunc oops() { return 1 +\n"})
	addFiles("broken:type-error", "type error elsewhere in the package", map[string]string{"p/p.go": good, "p/q.go": "package p\n\nfunc bad() int { return \"s\" }\n"})
	addFiles("broken:missing-import", "use of an unimported package", map[string]string{"p/p.go": good, "p/q.go": "package p\n\nfunc bad() string { return strings.ToUpper(\"s\") }\n"})
	addFiles("broken:undefined-nonderive", "call to an undefined non-derive function", map[string]string{"p/p.go": good + "\nfunc other() int { return computeSomething(3) }\n"})
	addFiles("broken:undefined-arg-type", "derive call whose argument has an undefined type", map[string]string{"p/p.go": "package p\n\nvar limits map[Region]int\n\nfunc k() int { return len(deriveKeys(limits)) }\n"})
	addFiles("broken:undefined-arg-elem", "derive call whose argument element type is undefined", map[string]string{"p/p.go": "package p\n\nvar xs []Missing\n\nfunc k(a, b []Missing) bool { return deriveEqual(a, b) }\n"})
	addFiles("broken:undefined-field-type", "struct with a field of undefined type", map[string]string{"p/p.go": "package p\n\ntype T struct {\n\tA Missing\n\tB int\n}\n\nfunc k(a, b *T) bool { return deriveEqual(a, b) }\n"})
	addFiles("broken:wrong-package-clause", "two files with different package names", map[string]string{"p/p.go": good, "p/q.go": "package other\n"})
	addFiles("broken:empty-file", "an empty go file next to a good one", map[string]string{"p/p.go": good, "p/q.go": ""})
	addFiles("broken:import-cycle", "package importing itself", map[string]string{"p/p.go": "package p\n\nimport _ \"scratch/p\"\n\ntype T struct{ A int }\n\nfunc k(a, b *T) bool { return deriveEqual(a, b) }\n"})
	addFiles("broken:missing-dependency", "import of a package that does not exist", map[string]string{"p/p.go": "package p\n\nimport \"scratch/nowhere\"\n\ntype T struct{ A nowhere.X }\n\nfunc k(a, b *T) bool { return deriveEqual(a, b) }\n"})
	addFiles("broken:derive-result-misused", "derive result used with the wrong type", map[string]string{"p/p.go": "package p\n\ntype T struct{ A int }\n\nfunc k(a, b *T) string { return deriveEqual(a, b) }\n"})
	addFiles("broken:recursive-derive-arg", "derive call that can never be typed (argument is an undefined non-derive call)", map[string]string{"p/p.go": "package p\n\nfunc k() bool { return deriveEqual(nothing(), nothing()) }\n"})
	return out
}

// mustReject: the case injects a constituent that every type-directed plugin documents as
// unsupported (chan, func, interface) under one of those plugins.
func mustReject(class string) bool {
	if !strings.HasPrefix(class, "unsupported:") {
		return false
	}
	f := strings.Split(strings.TrimPrefix(class, "unsupported:"), ":")
	if len(f) < 2 {
		return false
	}
	op, kind := f[0], strings.SplitN(f[1], "@", 2)[0]
	switch op {
	case "equal", "equalc", "compare", "hash", "clone", "deepcopy", "gostring":
	default:
		return false
	}
	switch kind {
	case "chan", "func", "interface", "errorface", "recvchan", "anonchan":
		return true
	}
	return false
}
