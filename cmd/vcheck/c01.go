package main

import (
	"fmt"
	"math/rand"
	"regexp"
	"strings"

	"verif/internal/grun"
	"verif/internal/pgen"
	"verif/internal/report"
)

func init() { register("C01", "exploration", checkC01) }

// typeOpsFor lists the type-directed ops that are *supported* for a shape (C01's grammar
// intersected with each plugin's documented support).
func typeOpsFor(t *pgen.Type, form string) []string {
	ops := []string{"equal", "equalc", "compare", "comparec", "hash", "clone"}
	// gostring: documented unsupported: private fields of external structs
	if !t.Has(func(x *pgen.Type) bool {
		if x.K == pgen.KNamed && x.Pkg != "" && x.Under.K == pgen.KStruct {
			for _, f := range x.Under.Fields {
				if f.Name != "" && f.Name[0] >= 'a' && f.Name[0] <= 'z' {
					return true
				}
			}
		}
		return false
	}) {
		ops = append(ops, "gostring")
	}
	switch t.Underlying().K {
	case pgen.KPtr, pgen.KSlice, pgen.KMap:
		ops = append(ops, "deepcopy")
	}
	if t.K == pgen.KMap {
		ops = append(ops, "keys", "sortkeys", "fmapkeys")
	} else if t.Underlying().K == pgen.KMap {
		ops = append(ops, "keys", "sortkeys")
	}
	ops = append(ops, "equalclone")
	return ops
}

// listOpsFor lists the list/set helper ops for element type t.
func listOpsFor(t *pgen.Type) []string {
	ops := []string{"contains", "unique", "union", "intersect", "filter", "takewhile", "all", "any"}
	unordered := t.K == pgen.KBasic && (t.Basic == "bool" || t.Basic == "complex64" || t.Basic == "complex128")
	if !unordered {
		// bool and complex have no natural <: min/max/sort over them is outside the supported set (C09)
		ops = append(ops, "sort", "min", "max", "min2", "max2")
	}
	if t.Comparable() && t.PointerFree() {
		ops = append(ops, "set", "unionmap", "intermap")
	}
	return ops
}

func containsCustom(t *pgen.Type) bool {
	return t.Has(func(x *pgen.Type) bool {
		return x.K == pgen.KNamed && (strings.HasPrefix(x.EqualMethod, "custom") || strings.HasPrefix(x.CompareMethod, "custom"))
	})
}

func checkC01(c *Ctx) {
	c.Anchors = []string{"derive", "plugin/equal", "plugin/compare", "plugin/hash", "plugin/deepcopy", "plugin/clone", "plugin/gostring", "plugin/sort", "plugin/keys", "plugin/min", "plugin/max", "plugin/contains", "plugin/unique", "plugin/set", "plugin/union", "plugin/intersect", "plugin/filter", "plugin/takewhile", "plugin/all", "plugin/any",
		"plugin/fmap", "plugin/join", "plugin/compose", "plugin/curry", "plugin/uncurry", "plugin/flip", "plugin/apply", "plugin/tuple", "plugin/toerror", "plugin/traverse", "plugin/mem", "plugin/do", "plugin/dup", "plugin/pipeline"}
	c.Run.Rule = "cases = packages of supported derive calls: type-directed plugins x type shapes (bounded-exhaustive to constructor depth 2 over 15 leaf classes + seeded random deeper shapes, at top level and as a struct field) x call forms (function body, closure, package-level var, in-package _test file, nested derive calls that only type after a first pass, curried form), functional plugins x generated signatures, and configurations (two imports with the same package name, imported structs with unexported fields, recursive types, user functions named like would-be helpers, an external _test package in the same directory). Oracle: goderive exit status 0 and the Go compiler accepts package + derived.gen.go (+ tests); failures are delta-isolated to one (plugin, shape, form). distinct_nontrivial counts distinct (op, type shape, form) triples that were generated and compiled"
	c.Run.Assume = []string{"'supported' = the grammar of C01's quantifier intersected with each plugin's documented supported types", "the Go compiler is the type-check oracle (it also enforces 'imports exactly what it uses')"}
	c.Run.Floor = 100

	var cases []PlainCase
	// ---- type-directed part -------------------------------------------------------------------
	sel := shapeSel{ExtraTypes: commonExtras, Forms: []string{"top", "field"}, QuickDeep: 50, QuickRand: 30, ThorRand: 600, BatchSize: 24,
		Ops: func(t *pgen.Type, form string) []string { return []string{"x"} }}
	batches := c.buildTypeBatches(sel)
	forms := []string{"body", "closure", "var", "test", "conv"}
	fr := rand.New(rand.NewSource(c.Seed*97 + 1))
	for _, b := range batches {
		pc := PlainCase{Name: "c01-" + b.Name, U: b.U}
		dd := dedupe{}
		for _, it := range b.Items {
			form := forms[fr.Intn(len(forms))]
			base := it.T
			isField := it.HasTag("form:field")
			if isField {
				base = it.T.Elem.Under.Fields[1].T
			}
			ops := typeOpsFor(it.T, "")
			if topIsCustom(it.T) {
				ops = []string{"clone", "hash"}
			}
			pi := pgen.PItem{TItem: it, Form: form}
			pi.Ops = dd.filter(ops, it.T)
			pc.Items = append(pc.Items, pi)
			if !isField && !containsCustom(base) {
				// the element-type helpers, once per shape
				li := pgen.PItem{TItem: it, Form: forms[fr.Intn(len(forms))]}
				li.ID = it.ID + "L"
				li.Ops = dd.filter(listOpsFor(base), base)
				li.Tags = append(append([]string{}, it.Tags...), "list-helpers")
				pc.Items = append(pc.Items, li)
			}
		}
		cases = append(cases, pc)
	}
	// ---- configurations ------------------------------------------------------------------------
	cases = append(cases, c01Configs(c)...)

	results := make([][]*PlainOutcome, len(cases))
	parallel(len(cases), 10, func(i int) { results[i] = c.runPlainCase(cases[i], true) })
	nsample := 0
	for _, rs := range results {
		for _, oc := range rs {
			c.judgeC01(oc, &nsample)
		}
	}
	// ---- functional and concurrent plugins: generated signatures, compile only ------------------
	var fitems []pgen.FItem
	fitems = append(fitems, c15Items(c)...)
	fitems = append(fitems, c16Items(c)...)
	fitems = append(fitems, c17Items(c)...)
	fitems = append(fitems, c18Items(c)...)
	for _, oc := range c.runFuncBatchesOpt(fitems, 30, false, 0, true) {
		c.Run.Eval(1)
		if oc.Stage == "ok" {
			c.Run.Distinct("func|" + oc.Item.Shape)
			continue
		}
		sym := "exit0-does-not-compile:" + symptom(oc.Stderr)
		if oc.Stage == "generate" {
			sym = "generation-fails:" + symptom(oc.Stderr)
		}
		c.Run.Violate(report.Violation{Key: "op=" + oc.Item.Kind + "|" + sym, Summary: fmt.Sprintf("supported functional call rejected or miscompiled (%s): item %s %s", oc.Stage, oc.Item.ID, oc.Item.Shape),
			Detail: trunc(oc.Stderr, 2000) + "\n--- item source ---\n" + trunc(oc.Item.Src, 1500), Files: persistTree(oc.Dir), Replay: replayScript("./p", "go build ./p || exit 1\nexit 0")})
	}
	// channel combinators and Do: the fixed packages of C19/C20
	for name, files := range map[string]map[string]string{
		"chan": {"go.mod": pgen.GoMod, "pa/pa.go": chanPkgA, "pb/pb.go": chanPkgB},
		"do":   {"go.mod": pgen.GoMod, "pa/pa.go": doPkg},
	} {
		dir := c.Env.Dir("c01-" + name)
		grun.WriteTree(dir, files)
		WriteMon(dir)
		g := c.Goderive(dir, []string{"./..."})
		c.Run.Eval(1)
		msg, stage := g.Stderr, "generate"
		if g.Exit == 0 {
			bl := c.Go(dir, "build", "./...")
			msg, stage = bl.Stderr+bl.Stdout, "compile"
			if bl.Exit == 0 {
				c.Run.Distinct("func|concurrent-" + name)
				continue
			}
		}
		c.Run.Violate(report.Violation{Key: "op=concurrent-" + name + "|" + stage + ":" + symptom(msg), Summary: "the channel / Do helpers are rejected or miscompiled (" + stage + ")", Detail: trunc(msg, 2000), Files: persistTree(dir)})
	}
}

func (c *Ctx) judgeC01(oc *PlainOutcome, nsample *int) {
	for _, it := range oc.Case.Items {
		for _, op := range it.Ops {
			c.Run.Eval(1)
			if oc.Stage == "ok" {
				c.Run.Distinct(op + "|" + it.T.Shape() + "|" + it.Form)
			}
		}
	}
	if len(oc.Touched) > 0 {
		c.Run.Count("c10_class_observations_files_touched", int64(len(oc.Touched)))
	}
	if oc.Stage == "ok" {
		if *nsample < 5 {
			*nsample++
			c.Run.Sample(map[string]any{"case": oc.Case.Name, "items": len(oc.Case.Items), "first": describePlain(oc), "goderive_cpu_ms": oc.Gen.CPU.Milliseconds()})
		}
		return
	}
	if oc.Stage == "timeout" {
		c.Run.Inconclusive("case " + oc.Case.Name + ": wall-clock watchdog fired (goderive or go build)")
		return
	}
	msg := oc.Gen.Stderr
	sym := "generation-fails:" + symptom(oc.Gen.Stderr)
	if oc.Stage == "compile" {
		msg = oc.Build.Stderr + oc.Build.Stdout
		sym = "exit0-does-not-compile:" + symptom(msg)
	}
	if oc.Gen.Crash != "" {
		sym = "crash:" + symptom(oc.Gen.Crash)
	}
	op := "multi"
	if len(oc.Case.Items) == 1 && len(oc.Case.Items[0].Ops) == 1 {
		op = oc.Case.Items[0].Ops[0]
	}
	c.Run.Violate(report.Violation{
		Key:     "op=" + op + "|" + sym,
		Summary: fmt.Sprintf("supported package rejected or miscompiled (%s): %s", oc.Stage, describePlain(oc)),
		Detail:  trunc(strings.TrimSpace(msg), 2500),
		Files:   plainFiles(oc),
		Replay:  plainReplay(oc),
	})
}

// c01Configs are hand-shaped configurations named in the property statement.
func c01Configs(c *Ctx) []PlainCase {
	var out []PlainCase
	mk := func(name string, build func(u *pgen.Universe, s *pgen.Std) ([]pgen.PItem, map[string]string)) {
		u := pgen.NewUniverse("p")
		s := pgen.NewStd(u)
		items, extra := build(u, s)
		for i := range items {
			if items[i].ID == "" {
				items[i].ID = fmt.Sprintf("K%s%d", strings.ReplaceAll(name, "-", ""), i)
			}
			items[i].Tags = append(items[i].Tags, "config:"+name)
			if items[i].Form == "" {
				items[i].Form = "body"
			}
		}
		out = append(out, PlainCase{Name: "c01-cfg-" + name, U: u, Items: items, Extra: extra})
	}
	all := []string{"equal", "compare", "hash", "clone", "gostring", "deepcopy"}
	// two imports with the same package name in one generated file
	mk("samename", func(u *pgen.Universe, s *pgen.Std) ([]pgen.PItem, map[string]string) {
		t := u.DeclareAs("", "Both", pgen.StructOf(pgen.F("A", s.XDupA), pgen.F("B", pgen.Ptr(s.XDupB)), pgen.F("C", pgen.Slice(s.XDupA)), pgen.F("D", pgen.Map(pgen.B("string"), s.XDupB))))
		return []pgen.PItem{{TItem: pgen.TItem{T: pgen.Ptr(t), Ops: all}}, {TItem: pgen.TItem{T: pgen.Slice(s.XDupB), Ops: []string{"equal", "hash", "clone", "gostring", "compare"}}}}, nil
	})
	// imported structs with unexported fields (reflect + unsafe path)
	mk("unexported", func(u *pgen.Universe, s *pgen.Std) ([]pgen.PItem, map[string]string) {
		t := u.DeclareAs("", "HasPriv", pgen.StructOf(pgen.F("P", s.XU), pgen.F("Q", pgen.Ptr(s.XU)), pgen.F("L", pgen.Slice(s.XU))))
		return []pgen.PItem{{TItem: pgen.TItem{T: pgen.Ptr(t), Ops: []string{"equal", "compare", "hash", "clone", "deepcopy"}}},
			{TItem: pgen.TItem{T: pgen.Ptr(s.XU), Ops: []string{"equal", "compare", "hash", "clone", "deepcopy"}}}}, nil
	})
	// recursive types through pointer, slice and map
	mk("recursive", func(u *pgen.Universe, s *pgen.Std) ([]pgen.PItem, map[string]string) {
		return []pgen.PItem{{TItem: pgen.TItem{T: pgen.Ptr(s.SR), Ops: all}}, {TItem: pgen.TItem{T: s.SR, Ops: []string{"equal", "compare", "hash", "clone", "gostring"}}},
			{TItem: pgen.TItem{T: pgen.Slice(s.SR), Ops: []string{"equal", "compare", "hash", "clone", "gostring", "deepcopy"}}}}, nil
	})
	// user functions whose names are exactly the names goderive would mint for helpers
	mk("reserved", func(u *pgen.Universe, s *pgen.Std) ([]pgen.PItem, map[string]string) {
		t := u.DeclareAs("", "Res", pgen.StructOf(pgen.F("M", pgen.Map(pgen.B("string"), pgen.Slice(pgen.B("int")))), pgen.F("P", pgen.Ptr(s.SP))))
		user := `package p

// hand-written functions that occupy the names goderive would pick for its own helpers
func deriveKeys(x int) int            { return x }
func deriveSort(x int) int            { return x }
func deriveEqual_(x int) int          { return x }
func deriveCompare_(x int) int        { return x }
func deriveHash_(x int) int           { return x }
func deriveHash_s(x int) int          { return x }
func deriveDeepCopy_(x int) int       { return x }
func deriveGoString_(x int) int       { return x }

var _ = deriveKeys(1) + deriveSort(1) + deriveEqual_(1) + deriveCompare_(1) + deriveHash_(1) + deriveHash_s(1) + deriveDeepCopy_(1) + deriveGoString_(1)
`
		return []pgen.PItem{{TItem: pgen.TItem{T: pgen.Ptr(t), Ops: all}}}, map[string]string{"p/user.go": user}
	})
	// an external test package in the same directory (it contains no derive calls itself)
	mk("xtest", func(u *pgen.Universe, s *pgen.Std) ([]pgen.PItem, map[string]string) {
		xt := "package p_test\n\nimport \"testing\"\n\nfunc TestExternal(t *testing.T) {}\n"
		return []pgen.PItem{{TItem: pgen.TItem{T: pgen.Ptr(s.SP), Ops: all}, Form: "test"}, {TItem: pgen.TItem{T: pgen.Ptr(s.SE), Ops: all}}}, map[string]string{"p/ext_test.go": xt}
	})
	// named composites and pointer-bearing struct keys (inside C01's grammar: "maps with value keys")
	mk("named-composites", func(u *pgen.Universe, s *pgen.Std) ([]pgen.PItem, map[string]string) {
		var items []pgen.PItem
		for _, t := range []*pgen.Type{s.NSlice, s.NMap, s.NArr, s.NPtr, s.SE, s.SEq} {
			items = append(items, pgen.PItem{TItem: pgen.TItem{T: t, Ops: typeOpsFor(t, "")}})
		}
		return items, nil
	})
	// one plugin at a time over imported structs: a helper of another plugin must not be what makes
	// an import "used"
	for _, op := range []string{"equal", "compare", "hash", "clone", "deepcopy", "gostring"} {
		op := op
		mk("single"+op, func(u *pgen.Universe, s *pgen.Std) ([]pgen.PItem, map[string]string) {
			var items []pgen.PItem
			for _, t := range []*pgen.Type{pgen.Ptr(s.XT), pgen.Ptr(s.XE), pgen.Slice(s.XT), pgen.Map(pgen.B("string"), pgen.Ptr(s.XDupA))} {
				items = append(items, pgen.PItem{TItem: pgen.TItem{T: t, Ops: []string{op}}})
			}
			if op != "gostring" {
				items = append(items, pgen.PItem{TItem: pgen.TItem{T: pgen.Ptr(s.XU), Ops: []string{op}}})
			}
			return items, nil
		})
	}
	// calls that only type in a later pass and carry the BARE plugin prefix as their name, next to named
	// calls whose transitive helpers are minted before that (the helper must not take the bare name, and
	// the late call must be registered for its own argument types)
	mk("late-bare-names", func(u *pgen.Universe, s *pgen.Std) ([]pgen.PItem, map[string]string) {
		late := `package p

type LInner struct {
	Name string
	Tags []string
}

type LOuter struct {
	ID int
	In *LInner
	M  map[string]*LInner
}

func lateEq(a, b *LOuter) bool { return deriveEqualLOuter(a, b) }

func lateEqK(m1, m2 map[string]int) bool {
	return deriveEqual(deriveSort(deriveKeys(m1)), deriveSort(deriveKeys(m2)))
}

func lateCmp(a, b *LOuter) int { return deriveCompareLOuter(a, b) }

func lateCmpK(m1, m2 map[string]int) int {
	return deriveCompare(deriveSort(deriveKeys(m1)), deriveSort(deriveKeys(m2)))
}

func lateHash(a *LOuter) uint64 { return deriveHashLOuter(a) }

func lateHashK(m map[string]int) uint64 { return deriveHash(deriveSort(deriveKeys(m))) }

func lateClone(a *LOuter) *LOuter { return deriveCloneLOuter(a) }

func lateCloneK(m map[string]int) []string { return deriveClone(deriveSort(deriveKeys(m))) }

func lateGoString(a *LOuter) string { return deriveGoStringLOuter(a) }

func lateGoStringK(m map[string]int) string { return deriveGoString(deriveSort(deriveKeys(m))) }

func lateUnique(l []*LInner) []*LInner { return deriveUniqueL(l) }

func lateContains(m map[string]int, k string) bool { return deriveContains(deriveKeys(m), k) }
`
		return []pgen.PItem{{TItem: pgen.TItem{T: pgen.Ptr(s.SV), Ops: []string{"gostring"}}}}, map[string]string{"p/late.go": late}
	})
	// structs that are not ==-comparable because of a blank field (or a zero-length array of a non-comparable
	// type): helpers that choose between a Go map and the hash / equal path must take the latter
	mk("noncomparable-blank", func(u *pgen.Universe, s *pgen.Std) ([]pgen.PItem, map[string]string) {
		src := `package p

type KBlank struct {
	A int
	_ [0]func()
}

type KBytes struct {
	A string
	_ []byte
}

type KZero struct {
	A int
	Z [0][]int
}

func nbUnique(l []KBlank) []KBlank { return deriveUniqueKB(l) }

func nbContains(l []KBytes, x KBytes) bool { return deriveContainsKB(l, x) }

func nbUnion(a, b []KZero) []KZero { return deriveUnionKZ(a, b) }

func nbIntersect(a, b []KBlank) []KBlank { return deriveIntersectKB(a, b) }

func nbF(k KBlank) int { return k.A }

func nbMem() func(KBlank) int { return deriveMemKB(nbF) }

func nbG(k KBytes, n int) string { return k.A }

func nbMem2() func(KBytes, int) string { return deriveMemKB2(nbG) }
`
		return []pgen.PItem{{TItem: pgen.TItem{T: pgen.Ptr(s.SV), Ops: []string{"hash"}}}}, map[string]string{"p/noncomparable.go": src}
	})
	// user types named like the parameters and variables generated code introduces: inside a generated
	// body such a name no longer denotes the type
	for _, nm := range hostileTypeNames {
		nm := nm
		mk("typename-"+nm, func(u *pgen.Universe, s *pgen.Std) ([]pgen.PItem, map[string]string) {
			t := u.DeclareAs("", nm, pgen.StructOf())
			t.Under.Fields = []pgen.Field{pgen.F("A", pgen.Slice(pgen.B("int"))), pgen.F("P", pgen.Ptr(t)), pgen.F("M", pgen.Map(pgen.B("string"), pgen.Ptr(t))), pgen.F("L", pgen.Slice(t)), pgen.F("R", pgen.Array(2, pgen.Ptr(t)))}
			return []pgen.PItem{{TItem: pgen.TItem{T: pgen.Ptr(t), Ops: []string{"equal", "equalc", "compare", "comparec", "hash", "clone", "gostring", "deepcopy"}}},
				{TItem: pgen.TItem{T: pgen.Ptr(t), Ops: []string{"contains", "unique", "union", "intersect", "sort", "min", "max"}}, Form: "closure"}}, nil
		})
	}
	mk("ptr-key", func(u *pgen.Universe, s *pgen.Std) ([]pgen.PItem, map[string]string) {
		sk := u.DeclareAs("", "SK", pgen.StructOf(pgen.F("P", pgen.Ptr(pgen.B("int"))), pgen.F("N", pgen.B("int"))))
		m := pgen.Map(sk, pgen.B("string"))
		return []pgen.PItem{{TItem: pgen.TItem{T: m, Ops: []string{"equal", "hash", "clone", "deepcopy", "keys"}, Tags: []string{"map-key-has-pointer"}}}}, nil
	})
	return out
}

var hostileTypeNames = []string{"this", "that", "src", "dst", "buf", "h", "list", "keys", "v", "res", "out", "in"}

// dedupe keeps the explicit derive calls of one package free of *duplicates* in goderive's sense
// (two different names for the same plugin and mutually assignable argument types are rejected by
// design, see C11): an op is dropped when one of the (plugin, argument types) it registers was
// already registered by another item of the package.
type dedupe map[string]bool

func assignKey(t *pgen.Type) string {
	// a named non-struct type and the unnamed type identical to its underlying type are mutually assignable
	// (predeclared basic types are named types themselves: NInt and int64 are NOT mutually assignable)
	if t.K == pgen.KNamed && t.Under.K != pgen.KStruct && t.Under.K != pgen.KBasic {
		return reAliasBasic.ReplaceAllStringFunc(t.Under.Expr("", nil), unaliasBasic)
	}
	return reAliasBasic.ReplaceAllStringFunc(t.Expr("", nil), unaliasBasic)
}

// rune and byte are aliases: []rune and []int32 are the same argument type for goderive
var reAliasBasic = regexp.MustCompile(`\b(rune|byte)\b`)

func unaliasBasic(s string) string {
	if s == "rune" {
		return "int32"
	}
	return "uint8"
}

func opPlugins(op string, t *pgen.Type) []string {
	k := assignKey(t)
	// list helpers register either the slice type or the element type: key on the element up to assignability
	lk := "[]" + k
	sk := "map[" + k + "]struct{}"
	switch op {
	case "x":
		return nil
	case "equal":
		return []string{"equal2|" + k}
	case "equalc":
		return []string{"equal1|" + k}
	case "compare":
		return []string{"compare2|" + k}
	case "comparec":
		return []string{"compare1|" + k}
	case "hash", "clone", "gostring", "deepcopy", "keys":
		return []string{op + "|" + k}
	case "sortkeys":
		return []string{"keys|" + k, "sort|[]" + assignKey(t.Underlying().Key)}
	case "fmapkeys":
		return []string{"keys|" + k, "fmap|func(" + assignKey(t.Underlying().Key) + ")bool,[]" + assignKey(t.Underlying().Key)}
	case "equalclone":
		return []string{"equal2|" + k, "clone|" + k}
	case "min2", "max2":
		return []string{op + "|" + k}
	case "unionmap":
		return []string{"union|" + sk}
	case "intermap":
		return []string{"intersect|" + sk}
	case "filter", "takewhile", "all", "any":
		return []string{op + "|" + lk}
	default: // list helpers over []T
		return []string{op + "|" + lk}
	}
}

func (d dedupe) filter(ops []string, t *pgen.Type) []string {
	var out []string
	own := map[string]bool{}
	// a type whose Equal / Compare METHOD is implemented by a derived function (the idiom) already
	// registers that function for [*T *T]: an explicit call over *T under another name would be a duplicate
	idiom := map[string]bool{}
	if t.K == pgen.KPtr && t.Elem.K == pgen.KNamed {
		if t.Elem.EqualMethod == "derived" {
			idiom["equal2|"+assignKey(t)] = true
		}
		if t.Elem.CompareMethod == "derived" {
			idiom["compare2|"+assignKey(t)] = true
		}
	}
	for _, op := range ops {
		ok := true
		for _, k := range opPlugins(op, t) {
			if d[k] && !own[k] || idiom[k] {
				ok = false
			}
		}
		if !ok {
			continue
		}
		for _, k := range opPlugins(op, t) {
			d[k] = true
			own[k] = true
		}
		out = append(out, op)
	}
	return out
}
