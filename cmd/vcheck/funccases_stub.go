package main

func funcCasesC01(c *Ctx) []PlainCase { return nil }
