package main

import (
	"encoding/json"
	"fmt"
	"os"
	"path/filepath"
	"sort"
	"strings"
	"time"

	"github.com/anishathalye/porcupine"

	"verif/internal/grun"
	"verif/internal/instr"
	"verif/internal/pgen"
	"verif/internal/report"
)

func init() {
	register("C19", "exploration", checkC19)
	register("C20", "exploration", checkC20)
}

// Two packages: the chan-of-chan forms `<-chan <-chan int` and `chan <-chan int` are mutually
// assignable, so goderive (by design) refuses to derive both in one package.
const chanPkgA = `package pa

import "scratch/mon"

// bump is the function mapped over the channel: it shifts the item id, so that applying it zero or
// two times shows in the received ids, and counts its applications.
func bump(x int) int { mon.FmapCalls.Add(1); return x + mon.FmapShift }

func init() {
	mon.RegComb(&mon.Comb{Name: "fmap-chan", Fmap: func(in <-chan int) <-chan int { return deriveFmap(bump, in) }})
	mon.RegComb(&mon.Comb{Name: "join-recvchan-of-chan", JoinChanR: func(in <-chan (<-chan int)) <-chan int { return deriveJoin(in) }})
	mon.RegComb(&mon.Comb{Name: "join-slice-of-recvchan", JoinSliceR: func(in []<-chan int) <-chan int { return deriveJoinS(in) }})
	mon.RegComb(&mon.Comb{Name: "join-variadic-2", JoinVar2: func(a, b chan int) <-chan int { return deriveJoinV2(a, b) }})
	mon.RegComb(&mon.Comb{Name: "join-variadic-3", JoinVar3: func(a, b, c chan int) <-chan int { return deriveJoinV3(a, b, c) }})
	mon.RegComb(&mon.Comb{Name: "join-variadic-5", NVar: 5, JoinVarN: func(c []chan int) <-chan int { return deriveJoinV5(c[0], c[1], c[2], c[3], c[4]) }})
	mon.RegComb(&mon.Comb{Name: "join-variadic-6", NVar: 6, JoinVarN: func(c []chan int) <-chan int { return deriveJoinV6(c[0], c[1], c[2], c[3], c[4], c[5]) }})
	mon.RegComb(&mon.Comb{Name: "pipeline", Pipeline: func(f func(int) <-chan int, g func(int) <-chan int) func(int) <-chan int { return derivePipeline(f, g) }})
	mon.RegComb(&mon.Comb{Name: "dup-recvchan", Dup: func(in <-chan int) (<-chan int, <-chan int) { return deriveDup(in) }})
}
`

const chanPkgB = `package pb

import "scratch/mon"

func init() {
	mon.RegComb(&mon.Comb{Name: "join-chan-of-chan", JoinChanB: func(in chan (<-chan int)) <-chan int { return deriveJoin(in) }})
	mon.RegComb(&mon.Comb{Name: "join-slice-of-chan", JoinSliceB: func(in []chan int) <-chan int { return deriveJoinS(in) }})
	mon.RegComb(&mon.Comb{Name: "join-variadic-2-recv", JoinVar2R: func(a, b <-chan int) <-chan int { return deriveJoinV2(a, b) }})
	mon.RegComb(&mon.Comb{Name: "dup-chan", DupB: func(in chan int) (<-chan int, <-chan int) { return deriveDupB(in) }})
}
`

const doPkg = `package pa

import "scratch/mon"

func init() {
	mon.RegDo(&mon.DoComb{N: 2, Run: func(fs []func() (int, error)) ([]int, error) {
		a, b, err := deriveDo2(fs[0], fs[1])
		return []int{a, b}, err
	}})
	mon.RegDo(&mon.DoComb{N: 3, Run: func(fs []func() (int, error)) ([]int, error) {
		a, b, c, err := deriveDo3(fs[0], fs[1], fs[2])
		return []int{a, b, c}, err
	}})
	mon.RegDo(&mon.DoComb{N: 4, Run: func(fs []func() (int, error)) ([]int, error) {
		a, b, c, d, err := deriveDo4(fs[0], fs[1], fs[2], fs[3])
		return []int{a, b, c, d}, err
	}})
}
`

const concMain = "package main\n\nimport (\n\t\"scratch/mon\"\n\t_ \"scratch/pa\"\n\t_ \"scratch/pb\"\n)\n\nfunc main() { mon.Main() }\n"

type concBuild struct {
	name  string
	race  bool
	yield bool
	gover string // go directive of the scratch module ("" = 1.24): 1.21 has per-loop (shared) loop variables
}

type concResult struct {
	build   concBuild
	results []ItemResult
	crash   string // stderr of a process-fatal event
	// timedOut: the monitor process ran into the wall-clock watchdog (inconclusive for what it had not reported)
	timedOut bool
	crashAt  string // progress file content
	genErr   string
	dir      string
	sites    int
}

// runConc generates, (optionally) instruments, builds and runs the concurrent harness.
func (c *Ctx) runConc(files map[string]string, b concBuild, env []string) concResult {
	res := concResult{build: b}
	dir := c.Env.Dir(strings.ToLower(c.Prop) + "-" + b.name)
	res.dir = dir
	if b.gover != "" {
		f2 := map[string]string{}
		for k, v := range files {
			f2[k] = v
		}
		f2["go.mod"] = "module scratch\n\ngo " + b.gover + "\n"
		files = f2
	}
	grun.WriteTree(dir, files)
	WriteMon(dir)
	var pkgs []string
	for _, p := range []string{"pa", "pb"} {
		if _, ok := files[p+"/"+p+".go"]; ok {
			pkgs = append(pkgs, "./"+p)
		}
	}
	g := c.Goderive(dir, pkgs)
	if g.Exit != 0 || g.Crash != "" {
		res.genErr = "goderive: " + g.Stderr
		return res
	}
	if b.yield {
		for _, p := range pkgs {
			path := filepath.Join(dir, p, "derived.gen.go")
			src, err := os.ReadFile(path)
			if err != nil {
				continue
			}
			out, n, err := instr.Yieldify(src, "scratch/mon")
			if err != nil {
				res.genErr = "yield instrumentation failed: " + err.Error()
				return res
			}
			res.sites += n
			os.WriteFile(path, out, 0o644)
		}
	}
	args := []string{"build"}
	if b.race {
		args = append(args, "-race")
	}
	args = append(args, "-o", "h", "./cmd/h")
	if bl := c.Go(dir, args...); bl.Exit != 0 {
		res.genErr = "harness does not compile: " + bl.Stderr + bl.Stdout
		return res
	}
	prog := filepath.Join(dir, "progress")
	hargs := []string{"-prop", c.Prop, "-seed", fmt.Sprint(c.Seed), "-tier", c.Tier, "-progress", prog}
	e := append([]string{"GORACE=halt_on_error=1 exitcode=66"}, env...)
	if b.yield {
		e = append(e, "VERIF_YIELD=1")
	}
	r := grun.Run(filepath.Join(dir, "h"), hargs, grun.Opts{Dir: dir, Env: c.Env.ScratchEnv(e...), Wall: 40 * time.Minute})
	for _, ln := range strings.Split(r.Stdout, "\n") {
		var ir ItemResult
		if json.Unmarshal([]byte(ln), &ir) == nil && ir.ID != "" {
			res.results = append(res.results, ir)
		}
	}
	if r.TimedOut {
		res.timedOut = true
	} else if r.Exit != 0 {
		res.crash = tailLines(r.Stderr, 80)
		b, _ := os.ReadFile(prog)
		res.crashAt = string(b)
	}
	return res
}

func (c *Ctx) judgeConc(res concResult) {
	b := res.build
	if res.genErr != "" {
		c.Run.Eval(1)
		c.Run.Violate(report.Violation{Key: b.name + "|harness-generation", Summary: "the derived concurrent helpers could not be obtained (" + b.name + " build)", Detail: trunc(res.genErr, 2500), Files: persistTree(res.dir)})
		return
	}
	for _, ir := range res.results {
		c.Run.Eval(ir.Evals)
		for cl, n := range ir.Classes {
			if cl == "inconclusive" {
				for i := int64(0); i < n; i++ {
					c.Run.Inconclusive(ir.ID + ": watchdog / settle inconclusive (" + b.name + " build)")
				}
				continue
			}
			c.Run.Distinct(ir.ID + "|" + cl)
		}
		c.Run.Count("executions:"+b.name, ir.Evals)
		if ir.Extra != nil {
			if v, ok := ir.Extra["interleaving_signatures"].(float64); ok && b.yield {
				c.Run.Count("distinct_interleaving_signatures:"+ir.ID, int64(v))
			}
			if v, ok := ir.Extra["events"].(float64); ok {
				c.Run.Count("history_events:"+b.name, int64(v))
			}
		}
		seen := map[string]bool{}
		for _, v := range ir.Viols {
			k := ir.ID + "|" + v.Class
			if seen[k] {
				continue
			}
			seen[k] = true
			c.Run.Violate(report.Violation{Key: k, Summary: fmt.Sprintf("%s (%s build): %s (%d violating executions)", ir.ID, b.name, v.Class, ir.NViol), Detail: v.Detail, Files: persistTree(res.dir),
				Replay: concReplay(c.Prop, b)})
		}
	}
	if res.timedOut {
		c.Run.Inconclusive("monitor process (" + b.name + " build): wall-clock watchdog fired")
	}
	if res.crash != "" {
		c.Run.Eval(1)
		sym := "process-fatal"
		switch {
		case strings.Contains(res.crash, "DATA RACE"):
			sym = "data-race"
		case strings.Contains(res.crash, "send on closed channel"):
			sym = "send-on-closed-channel"
		case strings.Contains(res.crash, "close of closed channel"):
			sym = "close-of-closed-channel"
		case strings.Contains(res.crash, "negative WaitGroup counter"):
			sym = "negative-waitgroup-counter"
		case strings.Contains(res.crash, "all goroutines are asleep"):
			sym = "deadlock"
		}
		comb := strings.Fields(res.crashAt + " ?")[0]
		inDerived := strings.Contains(res.crash, "derived.gen.go")
		if !inDerived && sym == "process-fatal" {
			c.Run.Inconclusive("harness process died outside derived code: " + firstLine(res.crash))
			return
		}
		c.Run.Violate(report.Violation{Key: comb + "|" + sym, Summary: fmt.Sprintf("%s (%s build): the process died: %s", comb, b.name, sym), Detail: "while running: " + trunc(res.crashAt, 400) + "\n" + res.crash, Files: persistTree(res.dir),
			Replay: concReplay(c.Prop, b)})
	}
}

func concReplay(prop string, b concBuild) string {
	r := ""
	if b.race {
		r = "-race "
	}
	note := ""
	if b.yield {
		note = "echo 'note: the violation was found in the yield-instrumented build; replay through `vcheck " + prop + "`'\n"
	}
	return replayScript("./pa ./pb 2>/dev/null || \"$W/goderive\" ./pa", note+"go build "+r+"-o h ./cmd/h || exit 1\n./h -prop "+prop+" -seed ${VERIF_SEED:-1} > out.jsonl 2> err.txt || { tail -30 err.txt; exit 1; }\ngrep -q '\"nviol\":[1-9]' out.jsonl && exit 1\nexit 0")
}

// ---- porcupine models ---------------------------------------------------------------------------

type hEv struct {
	Call, Ret int64
	Kind      string
	Ch, ID    int
	Proc      int
}

type chanIn struct {
	Kind string // send | close | recv
	Ch   int
	ID   int
}

type chanOut struct {
	ID     int
	Closed bool
}

// bagState: per-input FIFO queues + closed flags, encoded as a string for porcupine's Equal.
type bagState struct {
	q      map[int][]int
	closed map[int]bool
	nIn    int
}

func (s bagState) clone() bagState {
	n := bagState{q: map[int][]int{}, closed: map[int]bool{}, nIn: s.nIn}
	for k, v := range s.q {
		n.q[k] = append([]int{}, v...)
	}
	for k, v := range s.closed {
		n.closed[k] = v
	}
	return n
}

func (s bagState) key() string {
	var ks []int
	for k := range s.q {
		ks = append(ks, k)
	}
	sort.Ints(ks)
	var sb strings.Builder
	for _, k := range ks {
		fmt.Fprintf(&sb, "%d:%v;", k, s.q[k])
	}
	var cs []int
	for k, v := range s.closed {
		if v {
			cs = append(cs, k)
		}
	}
	sort.Ints(cs)
	fmt.Fprintf(&sb, "closed=%v", cs)
	return sb.String()
}

// bagModel: the combinator seen from its clients is linearizable w.r.t. a bag of per-input FIFO
// queues with close: send(ch,id) enqueues, recv returns the head of SOME queue (per-producer queues
// when several producers share an input), and reports closed only when every input is closed and
// every queue is empty.
func bagModel(nIn int, queueOf func(id int) int) porcupine.Model {
	return porcupine.Model{
		Init: func() interface{} { return bagState{q: map[int][]int{}, closed: map[int]bool{}, nIn: nIn} },
		Step: func(st, in, out interface{}) (bool, interface{}) {
			s := st.(bagState)
			i := in.(chanIn)
			switch i.Kind {
			case "send":
				n := s.clone()
				n.q[queueOf(i.ID)] = append(n.q[queueOf(i.ID)], i.ID)
				return true, n
			case "close":
				n := s.clone()
				n.closed[i.Ch] = true
				return true, n
			default:
				o := out.(chanOut)
				if o.Closed {
					for _, q := range s.q {
						if len(q) > 0 {
							return false, s
						}
					}
					for c := 0; c < s.nIn; c++ {
						if !s.closed[c] {
							return false, s
						}
					}
					return true, s
				}
				q := s.q[queueOf(o.ID)]
				if len(q) == 0 || q[0] != o.ID {
					return false, s
				}
				n := s.clone()
				n.q[queueOf(o.ID)] = q[1:]
				return true, n
			}
		},
		Equal: func(a, b interface{}) bool { return a.(bagState).key() == b.(bagState).key() },
	}
}

// checkLinearizable checks the recorded histories of one combinator output by output.
func (c *Ctx) checkLinearizable(comb string, hists [][]hEv) (ok, illegal, unknown int, witness string) {
	for _, h := range hists {
		nIn := 0
		outs := map[int]bool{}
		for _, e := range h {
			if (e.Kind == "send" || e.Kind == "close") && e.Ch < 1000 && e.Ch+1 > nIn {
				nIn = e.Ch + 1
			}
			if e.Kind == "recv" || e.Kind == "closed" {
				outs[e.Ch] = true
			}
		}
		if comb == "pipeline" {
			continue // inner channels are created by the clients inside derived goroutines; the sequence oracles cover it
		}
		for o := range outs {
			var ops []porcupine.Operation
			for _, e := range h {
				switch e.Kind {
				case "send":
					ops = append(ops, porcupine.Operation{ClientId: e.Proc, Input: chanIn{"send", e.Ch, e.ID}, Output: chanOut{}, Call: e.Call, Return: e.Ret})
				case "close":
					ops = append(ops, porcupine.Operation{ClientId: e.Proc, Input: chanIn{"close", e.Ch, 0}, Output: chanOut{}, Call: e.Call, Return: e.Ret})
				case "recv":
					if e.Ch == o {
						ops = append(ops, porcupine.Operation{ClientId: e.Proc, Input: chanIn{"recv", e.Ch, 0}, Output: chanOut{ID: e.ID}, Call: e.Call, Return: e.Ret})
					}
				case "closed":
					if e.Ch == o {
						ops = append(ops, porcupine.Operation{ClientId: e.Proc, Input: chanIn{"recv", e.Ch, 0}, Output: chanOut{Closed: true}, Call: e.Call, Return: e.Ret})
					}
				}
			}
			// porcupine wants small client ids
			ids := map[int]int{}
			for i := range ops {
				if _, ok := ids[ops[i].ClientId]; !ok {
					ids[ops[i].ClientId] = len(ids)
				}
				ops[i].ClientId = ids[ops[i].ClientId]
			}
			m := bagModel(nIn, func(id int) int { return id / 10000 })
			switch porcupine.CheckOperationsTimeout(m, ops, 30*time.Second) {
			case porcupine.Ok:
				ok++
			case porcupine.Illegal:
				illegal++
				if witness == "" {
					b, _ := json.Marshal(h)
					witness = string(b)
				}
			default:
				unknown++
			}
		}
	}
	return
}

func (c *Ctx) porcupineOver(res concResult) {
	for _, ir := range res.results {
		if ir.Extra == nil {
			continue
		}
		raw, _ := json.Marshal(ir.Extra["histories"])
		var hists [][]hEv
		if json.Unmarshal(raw, &hists) != nil || len(hists) == 0 {
			continue
		}
		ok, ill, unk, wit := c.checkLinearizable(ir.ID, hists)
		c.Run.Eval(int64(ok + ill + unk))
		c.Run.Count("porcupine_ok", int64(ok))
		c.Run.Count("porcupine_unknown", int64(unk))
		if ok > 0 {
			c.Run.Distinct(ir.ID + "|linearizable")
		}
		for i := 0; i < unk; i++ {
			c.Run.Inconclusive(ir.ID + ": linearizability checker timed out")
		}
		if ill > 0 {
			c.Run.Violate(report.Violation{Key: ir.ID + "|not-linearizable", Summary: fmt.Sprintf("%s: %d recorded histories are not linearizable w.r.t. a bag of per-input FIFO queues with close", ir.ID, ill), Detail: trunc(wit, 3000), Files: persistTree(res.dir)})
		}
		if len(hists) > 0 {
			c.Run.Sample(map[string]any{"combinator": ir.ID, "build": res.build.name, "history": hists[0]})
		}
	}
}

func checkC19(c *Ctx) {
	c.Anchors = []string{"plugin/join", "plugin/fmap", "plugin/pipeline", "plugin/dup"}
	c.Run.Rule = "executions of the emitted channel combinators (Fmap over a channel; Join of <-chan <-chan T, chan <-chan T, []<-chan T, []chan T, 2 and 3 variadic channels; Pipeline; Dup for both directions) under seeded scenarios: 0-4 input channels, 0-5 items each (some with 10-40), buffer capacities 0-2 on inputs and on the chan-of-chan carrier, 1-3 producers per input, every order of input closes (sequenced by tokens), inputs already closed before the call, fast / yielding / sleeping consumers, GOMAXPROCS 1/2/4/16; each scenario repeated, in two builds of the same generated package: (a) race build: emitted code untouched under the Go race detector, perturbation only at the client boundary; (b) yield build: a yield point before every emitted statement (no-op / Gosched / 10-200us sleep chosen by hash(seed, site, count)), whose trace hash is the interleaving signature. Every unique item id is recorded at the client boundary with a logical clock. Oracles per execution: exactly-once per output, per-(input,producer) order, exactly one close per output after all items and not before the last input close was called, no panic (send on / close of closed channel), deadlock and goroutine leak decided on two goroutine dumps, race reports; recorded histories are checked by porcupine against a bag of per-input FIFO queues with close. distinct_nontrivial = distinct (combinator, configuration class)"
	c.Run.Assume = []string{"'under every interleaving' is sampled: held on the executions and interleaving signatures reported, not on all schedules", "wall-clock watchdogs only trigger a goroutine-dump decision; runnable goroutines make the case inconclusive"}
	c.Run.Floor = 30
	files := map[string]string{"go.mod": pgen.GoMod, "pa/pa.go": chanPkgA, "pb/pb.go": chanPkgB, "cmd/h/main.go": concMain}
	// the third build compiles the same emitted code in a module that says `go 1.21`: loop variables are
	// shared between iterations there, so a goroutine capturing one without a copy misbehaves
	builds := []concBuild{{"race", true, false, ""}, {"yield", false, true, ""}, {"race-go1.21", true, false, "1.21"}}
	results := make([]concResult, len(builds))
	parallel(len(builds), 3, func(i int) {
		var env []string
		if builds[i].gover != "" {
			env = []string{"VERIF_SCEN=24", "VERIF_REPS=10"}
			if !c.Quick {
				env = []string{"VERIF_SCEN=80", "VERIF_REPS=30"}
			}
		}
		results[i] = c.runConc(files, builds[i], env)
	})
	for _, r := range results {
		c.judgeConc(r)
		c.porcupineOver(r)
		if r.build.yield {
			c.Run.Extra("yield_sites", r.sites)
		}
	}
}

func checkC20(c *Ctx) {
	c.Anchors = []string{"plugin/do"}
	c.Run.Rule = "executions of the emitted deriveDo for 2, 3 and 4 functions: every failing subset x EVERY completion order (enforced by token passing between the functions, so the order is logical, not timed) = 440 scenarios, each repeated with and without rendezvous (every function waits until all functions have started) at GOMAXPROCS 1/2/4/16, in a race build (emitted code untouched, Go race detector), the same in a module declaring go 1.21, and a yield build (yield point before every emitted statement); failing functions return errors of three different dynamic types; plus, per arity, scenarios of TWO OVERLAPPING CALLS of the same derived Do from two goroutines (random failing subsets per call, a random common completion order of all 2n functions, with and without a per-call rendezvous), each call judged on its own values, its own error and its own functions having finished. The function that finishes last lingers until Do has returned or a bound passes, so a Do that returns early is observed. Oracles: all functions started and finished before Do returned, values positionally equal, err nil iff no function failed else identical to one injected error, rendezvous scenarios complete (otherwise two goroutine dumps decide deadlock), no goroutine left in derived code, no race report. distinct_nontrivial = distinct (n, #failing, rendezvous, completion order)"
	c.Run.Assume = []string{"schedules are sampled; the completion-order dimension is exhaustive for n<=4"}
	c.Run.Floor = 30
	files := map[string]string{"go.mod": pgen.GoMod, "pa/pa.go": doPkg, "cmd/h/main.go": strings.Replace(concMain, "\t_ \"scratch/pb\"\n", "", 1)}
	// the third build compiles the same emitted code in a module that says `go 1.21` (loop variables shared
	// between iterations: a goroutine started in a loop over the functions must not capture the variable)
	builds := []concBuild{{"race", true, false, ""}, {"yield", false, true, ""}, {"race-go1.21", true, false, "1.21"}}
	results := make([]concResult, len(builds))
	parallel(len(builds), 3, func(i int) { results[i] = c.runConc(files, builds[i], nil) })
	for _, r := range results {
		c.judgeConc(r)
		if r.build.yield {
			c.Run.Extra("yield_sites", r.sites)
		}
		for _, ir := range r.results {
			c.Run.Sample(map[string]any{"item": ir.ID, "build": r.build.name, "executions": ir.Evals, "extra": ir.Extra})
		}
	}
}
