package main

import (
	"verif/internal/pgen"
)

func init() {
	register("C13", "exploration", checkC13)
	register("C14", "exploration", checkC14)
}

func unorderedBasic(t *pgen.Type) bool {
	return t.K == pgen.KBasic && (t.Basic == "bool" || t.Basic == "complex64" || t.Basic == "complex128")
}

// dedupeBatches drops ops that would register a duplicate (same plugin, mutually assignable types).
func dedupeBatches(batches []TypeBatch) {
	for bi := range batches {
		dd := dedupe{}
		for ii := range batches[bi].Items {
			it := &batches[bi].Items[ii]
			it.Ops = dd.filter(it.Ops, it.T)
		}
	}
}

func checkC13(c *Ctx) {
	c.Anchors = []string{"plugin/sort", "plugin/keys", "plugin/min", "plugin/max"}
	c.Run.Rule = "items = supported element types (basic, named basic, structs, pointers, slices, arrays, maps; bounded-exhaustive to depth 2 + random) and map types for Keys; per element type lists built from a boundary-biased value pool: nil, empty, singletons, duplicates, equal-but-not-identical copies, already sorted and reversed (under the derived Compare), nil elements, random lists of length 2-40. Oracles: Sort = multiset of canonical encodings preserved and adjacent elements non-decreasing under the DERIVED Compare of the same package (and under < for basic kinds); Keys = exact multiset of the map's keys; Min/Max list form = result is an element no other element precedes/follows under derived Compare, default for empty lists, list unmodified; two-value forms over all pool pairs. distinct_nontrivial = distinct (element type shape, helper, list class)"
	c.Run.Assume = []string{"the order is the derived Compare of the same package (C03 decides whether that one is right)"}
	c.Run.Floor = 40
	sel := shapeSel{
		// the order is whatever the derived Compare says, so element types with hand-written Compare
		// methods below the top level are in scope here: one that is case-insensitive (an order different
		// from the structural one) and one that returns differences instead of -1/0/+1
		ExtraTypes: func(s *pgen.Std) []*pgen.Type {
			return append(commonExtras(s), s.SCi, s.SCv, s.SD, pgen.Ptr(s.SD), pgen.Slice(s.SD), pgen.Array(2, s.SD), pgen.Map(pgen.B("string"), s.SD))
		},
		Forms: []string{"top"}, QuickDeep: 50, QuickRand: 16, ThorRand: 300, BatchSize: 22,
		KeepShape: func(t *pgen.Type) bool { return behaviouralShape(t) },
		Ops: func(t *pgen.Type, form string) []string {
			var ops []string
			if t.Underlying().K == pgen.KMap {
				ops = append(ops, "keys")
			}
			return ops
		},
	}
	// two item kinds per shape: ordering helpers over []T, and Keys for map shapes
	batches := c.buildTypeBatchesMulti(sel, func(t *pgen.Type) [][]string {
		var out [][]string
		if !unorderedBasic(t) {
			out = append(out, []string{"compare", "sort", "min", "max", "min2", "max2"})
		}
		if t.Underlying().K == pgen.KMap {
			out = append(out, []string{"keys"})
		}
		return out
	})
	dedupeBatches(batches)
	rememberUniverses(batches)
	outs := c.runTypeBatches(batches, eopts{Race: true, PoolN: tierN(c, 8, 12)})
	c.judgeTypeOutcomes(outs, judgeOpts{Race: true, OwnOps: func(it *pgen.TItem) []string {
		var own []string
		for _, o := range it.Ops {
			if o != "compare" {
				own = append(own, o)
			}
		}
		return own
	}})
}

func checkC14(c *Ctx) {
	c.Anchors = []string{"plugin/contains", "plugin/unique", "plugin/set", "plugin/union", "plugin/intersect", "plugin/filter", "plugin/takewhile", "plugin/all", "plugin/any"}
	c.Run.Rule = "items = supported element types (==-comparable and not); per element type lists built from a boundary-biased pool (nil, empty, singletons, duplicates, Equal-but-not-identical copies, strings colliding under the 31-fold hash, nil elements, random lists up to 40) and pairs of such lists. Reference list/set model parameterised by the DERIVED Equal of the same package: Contains iff some element is Equal; Unique pairwise non-Equal, covering, nothing invented, first occurrences in order for non-comparable elements; Set/Union/Intersect on maps exact key sets; on lists: first list verbatim then new items of the second in order / subsequence of the first consisting of the items present in the second; Filter/TakeWhile/All/Any against the textbook result with 6 predicates (2 of them stateful) whose call log must be exactly the expected prefix of the input in order. distinct_nontrivial = distinct (element type shape, helper, list class)"
	c.Run.Assume = []string{"membership is judged by the derived Equal of the same package (C02 decides whether that one is right); the structural reference is a recorded cross-check"}
	c.Run.Floor = 40
	sel := shapeSel{ExtraTypes: commonExtras, Forms: []string{"top"}, QuickDeep: 50, QuickRand: 16, ThorRand: 120, BatchSize: 22,
		KeepShape: func(t *pgen.Type) bool { return behaviouralShape(t) && !containsCustom(t) }}
	batches := c.buildTypeBatchesMulti(sel, func(t *pgen.Type) [][]string {
		ops := []string{"equal", "contains", "unique", "union", "intersect", "filter", "takewhile", "all", "any"}
		if t.Comparable() && t.PointerFree() {
			ops = append(ops, "set", "unionmap", "intermap")
		}
		return [][]string{ops}
	})
	dedupeBatches(batches)
	rememberUniverses(batches)
	outs := c.runTypeBatches(batches, eopts{Race: true, PoolN: tierN(c, 8, 12)})
	c.judgeTypeOutcomes(outs, judgeOpts{Race: true, OwnOps: func(it *pgen.TItem) []string {
		var own []string
		for _, o := range it.Ops {
			if o != "equal" {
				own = append(own, o)
			}
		}
		return own
	}})
}
