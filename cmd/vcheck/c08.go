package main

import (
	"fmt"
	"math/rand"
	"os"
	"path/filepath"
	"sort"
	"strings"

	"verif/internal/grun"
	"verif/internal/pgen"
	"verif/internal/report"
)

func init() { register("C08", "exploration", checkC08) }

// c08Ambiguous is a package in which an unnamed type is assignable to two registered named types
// of every type-directed plugin, so that a name lookup by assignability has two candidates.
const c08Ambiguous = `package p

type IntsA []int

type IntsB []int

type IntsC []int

type MapA map[string]int

type MapB map[string]int

type PtrA *string

type PtrB *string

type Holder struct {
	L []int
	M map[string]int
	P *string
}

func h1(a IntsA) uint64 { return deriveHashA(a) }
func h2(a IntsB) uint64 { return deriveHashB(a) }
func h3(a IntsC) uint64 { return deriveHashC(a) }
func h4(a MapA) uint64  { return deriveHashMA(a) }
func h5(a MapB) uint64  { return deriveHashMB(a) }
func h6(a *Holder) uint64 { return deriveHashH(a) }

func e1(a, b IntsA) bool { return deriveEqualA(a, b) }
func e2(a, b IntsB) bool { return deriveEqualB(a, b) }
func e3(a, b MapA) bool  { return deriveEqualMA(a, b) }
func e4(a, b MapB) bool  { return deriveEqualMB(a, b) }
func e5(a, b PtrA) bool  { return deriveEqualPA(a, b) }
func e6(a, b PtrB) bool  { return deriveEqualPB(a, b) }
func e7(a, b *Holder) bool { return deriveEqualH(a, b) }

func c1(a, b IntsA) int { return deriveCompareA(a, b) }
func c2(a, b IntsB) int { return deriveCompareB(a, b) }
func c3(a, b MapA) int  { return deriveCompareMA(a, b) }
func c4(a, b MapB) int  { return deriveCompareMB(a, b) }
func c5(a, b *Holder) int { return deriveCompareH(a, b) }

func g1(a IntsA) string { return deriveGoStringA(a) }
func g2(a IntsB) string { return deriveGoStringB(a) }
func g3(a MapA) string  { return deriveGoStringMA(a) }
func g4(a MapB) string  { return deriveGoStringMB(a) }
func g5(a *Holder) string { return deriveGoStringH(a) }

func d1(a, b IntsA) { deriveDeepCopyA(a, b) }
func d2(a, b IntsB) { deriveDeepCopyB(a, b) }
func d3(a, b MapA)  { deriveDeepCopyMA(a, b) }
func d4(a, b MapB)  { deriveDeepCopyMB(a, b) }
func d5(a, b *Holder) { deriveDeepCopyH(a, b) }
`

func checkC08(c *Ctx) {
	c.Anchors = []string{"derive"}
	c.Run.Rule = "cases = (module tree, invocation) pairs. Repeats: large generated packages with >= 6 imports and dozens of helpers per plugin are generated 8x, a package built so that an unnamed type is assignable to several registered named types of every plugin (two candidates in a name lookup) 64x (quick) / 256x (thorough) - a 2-entry Go map deviates from insertion order in only ~1/8 of runs; every run is a fresh process, so map iteration order is re-randomised. Invocation variants on a 4-package module (one package imported by another): all orderings of the package arguments, one invocation vs separate invocations, relative path / ./... / import path spelling, subsets. Oracle: sha256 of each package's derived.gen.go must be identical across all repeats and variants. distinct_nontrivial = distinct (package, invocation variant) with identical bytes"
	c.Run.Assume = []string{"identical bytes across N fresh processes stand for 'on every run'; a dependence that shows in fewer than 1/N runs is missed"}
	c.Run.Floor = 10
	r := rand.New(rand.NewSource(c.Seed*211 + 17))

	// ---- repeated runs --------------------------------------------------------------------------
	type rep struct {
		name  string
		files map[string]string
		n     int
		args  []string
	}
	var reps []rep
	sel := shapeSel{Forms: []string{"top", "field"}, QuickDeep: 30, QuickRand: 10, ThorRand: 80, BatchSize: 30,
		Ops: func(t *pgen.Type, form string) []string { return []string{"x"} }}
	batches := c.buildTypeBatches(sel)
	r.Shuffle(len(batches), func(i, j int) { batches[i], batches[j] = batches[j], batches[i] })
	nb := tierN(c, 3, 12)
	if len(batches) > nb {
		batches = batches[:nb]
	}
	for _, b := range batches {
		dd := dedupe{}
		var items []pgen.PItem
		for _, it := range b.Items {
			base := it.T
			isField := it.HasTag("form:field")
			if isField {
				base = it.T.Elem.Under.Fields[1].T
			}
			if containsCustom(base) {
				continue
			}
			pi := pgen.PItem{TItem: it, Form: "body"}
			pi.Ops = dd.filter(typeOpsFor(it.T, ""), it.T)
			items = append(items, pi)
			if !isField {
				li := pgen.PItem{TItem: it, Form: "closure"}
				li.ID = it.ID + "L"
				li.Ops = dd.filter(listOpsFor(base), base)
				items = append(items, li)
			}
		}
		reps = append(reps, rep{"big-" + b.Name, pgen.RenderPlainPackage(b.U, items), 8, []string{"./p"}})
	}
	reps = append(reps, rep{"ambiguous", map[string]string{"go.mod": pgen.GoMod, "p/p.go": c08Ambiguous}, tierN(c, 64, 256), []string{"./p"}})
	reps = append(reps, rep{"functional", map[string]string{"go.mod": pgen.GoMod, "p/p.go": c12Functional}, 16, []string{"./p"}})
	// two imported packages with the same name, used as named non-pointer argument types by several
	// plugins: which of the two gets the short import alias must not depend on map iteration order
	reps = append(reps, rep{"samename", map[string]string{"go.mod": pgen.GoMod,
		"old/model/m.go": "package model\n\ntype Item struct {\n\tN int\n\tS []string\n}\n\ntype Items []Item\n\ntype ID int64\n",
		"new/model/m.go": "package model\n\ntype Item struct {\n\tK string\n\tP *int\n}\n\ntype Items []Item\n\ntype ID string\n",
		"p/p.go":         "package p\n\nimport (\n\tnewmodel \"scratch/new/model\"\n\toldmodel \"scratch/old/model\"\n)\n\nfunc e(a, b oldmodel.Items) bool { return deriveEqual(a, b) }\n\nfunc d(a, b newmodel.Items) { deriveDeepCopy(a, b) }\n\nfunc h(a oldmodel.Item) uint64 { return deriveHash(a) }\n\nfunc c(a, b newmodel.Item) int { return deriveCompare(a, b) }\n\nfunc g(a newmodel.Items) string { return deriveGoString(a) }\n\nfunc k(m map[oldmodel.ID]newmodel.ID) []oldmodel.ID { return deriveSort(deriveKeys(m)) }\n\nfunc cl(a oldmodel.Items) oldmodel.Items { return deriveClone(a) }\n\nfunc u(l []newmodel.ID) []newmodel.ID { return deriveUnique(l) }\n"},
		tierN(c, 32, 128), []string{"./p"}})
	// one plugin, two functions whose parameter lists are assignable but not identical (an implementation
	// and the interface it satisfies; a channel and its receive-only view), the specific one first in the
	// source and the general one with the smaller name
	reps = append(reps, rep{"assignable", map[string]string{"go.mod": pgen.GoMod,
		"p/p.go": "package p\n\ntype NotFound struct{ Key string }\n\nfunc (e *NotFound) Error() string { return e.Key }\n\nfunc t1(n int, e *NotFound) func() (int, *NotFound) { return deriveTupleNotFound(n, e) }\n\nfunc t2(n int, e error) func() (int, error) { return deriveTupleErr(n, e) }\n\nfunc d1(c chan int) (<-chan int, <-chan int) { return deriveDupZ(c) }\n\nfunc d2(c <-chan int) (<-chan int, <-chan int) { return deriveDupA(c) }\n"},
		tierN(c, 48, 160), []string{"./p"}})

	for _, rp := range reps {
		sums := make([]string, rp.n)
		outs := make([]string, rp.n)
		exits := make([]int, rp.n)
		parallel(rp.n, 12, func(i int) {
			dir := c.Env.Dir("c08-" + rp.name)
			defer os.RemoveAll(dir)
			grun.WriteTree(dir, rp.files)
			g := c.Goderive(dir, rp.args)
			exits[i] = g.Exit
			b, _ := os.ReadFile(filepath.Join(dir, "p", "derived.gen.go"))
			outs[i] = string(b)
			sums[i] = grun.Sum(filepath.Join(dir, "p", "derived.gen.go"))
		})
		if exits[0] != 0 {
			c.Run.Inconclusive("repeat package " + rp.name + ": generation fails (left to C01)")
			continue
		}
		distinct := map[string]int{}
		for _, s := range sums {
			distinct[s]++
		}
		c.Run.Eval(int64(rp.n))
		c.Run.Count("repeated_runs", int64(rp.n))
		if len(distinct) != 1 {
			// find two differing outputs
			var a, b string
			for i := range outs {
				if sums[i] != sums[0] {
					a, b = outs[0], outs[i]
					break
				}
			}
			files := mapWithPrefix(rp.files, "tree/")
			files["run_a.derived.gen.go"], files["run_b.derived.gen.go"] = a, b
			c.Run.Violate(report.Violation{Key: "repeat:" + strings.SplitN(rp.name, "-", 2)[0] + "|bytes-vary-between-runs",
				Summary: fmt.Sprintf("package %s: %d identical invocations produced %d different derived.gen.go (%v)", rp.name, rp.n, len(distinct), counts(distinct)),
				Detail:  firstDiff(a, b), Files: files,
				Replay: replayScript("./p", "cp p/derived.gen.go /tmp/$$.first; i=0; while [ $i -lt 200 ]; do \"$W/goderive\" ./p 2>/dev/null; cmp -s p/derived.gen.go /tmp/$$.first || { rm -f /tmp/$$.first; echo differs at run $i; exit 1; }; i=$((i+1)); done; rm -f /tmp/$$.first\nexit 0")})
			continue
		}
		c.Run.Distinct("repeat|" + rp.name)
		c.Run.Sample(map[string]any{"package": rp.name, "runs": rp.n, "distinct_sha256": len(distinct), "bytes": len(outs[0])})
	}

	// ---- invocation variants ----------------------------------------------------------------------
	mod := map[string]string{"go.mod": pgen.GoMod,
		"a/a.go":   "package a\n\nimport \"scratch/px\"\n\ntype A struct {\n\tX px.P\n\tL []px.P\n}\n\nfunc eq(a, b *A) bool { return deriveEqual(a, b) }\n\nfunc h(a *A) uint64 { return deriveHash(a) }\n\nfunc c(a, b *A) int { return deriveCompare(a, b) }\n\n// hand-written functions named like the first helpers goderive would mint (reserved in THIS package only)\nfunc deriveEqual_(x int) int { return x }\n\nfunc deriveHash_(x int) int { return x }\n\nfunc deriveCompare_(x int) int { return x }\n\nvar _ = deriveEqual_(1) + deriveHash_(1) + deriveCompare_(1)\n",
		"px/px.go": "package px\n\ntype Label string\n\ntype P struct {\n\tN Label\n\tq []int\n}\n\nfunc eq(a, b *P) bool { return deriveEqual(a, b) }\n\nfunc cl(a *P) *P { return deriveClone(a) }\n\nfunc s(a struct {\n\tN Label\n\tM []int\n}) uint64 {\n\treturn deriveHash(a)\n}\n",
		"d/d.go":   "package d\n\nimport (\n\t\"scratch/a\"\n\t\"scratch/px\"\n)\n\ntype D struct {\n\tA *a.A\n\tM map[string]px.P\n}\n\nfunc eq(x, y *D) bool { return deriveEqual(x, y) }\n\nfunc g(x *D) *D { return deriveClone(x) }\n\nfunc s(a, b struct {\n\tN px.Label\n\tM []int\n}) bool {\n\treturn deriveEqualS(a, b)\n}\n",
		"z/z.go":   "package z\n\ntype Z struct{ K map[int][]string }\n\nfunc ks(z *Z) []int { return deriveSort(deriveKeys(z.K)) }\n\nfunc e(a, b *Z) bool { return deriveEqual(a, b) }\n",
	}
	// two imported packages with the same name: "both" needs an alias for one of them, "only2" imports
	// just the second and must get the same bytes whichever packages are processed alongside it
	mod["v1/model/m.go"] = "package model\n\ntype Item struct {\n\tN int\n\tS []string\n}\n"
	mod["v2/model/m.go"] = "package model\n\ntype Item struct {\n\tK string\n\tP *int\n}\n"
	mod["both/b.go"] = "package both\n\nimport (\n\tm1 \"scratch/v1/model\"\n\tm2 \"scratch/v2/model\"\n)\n\ntype Mig struct {\n\tOld m1.Item\n\tNew m2.Item\n}\n\nfunc e(a, b *Mig) bool { return deriveEqual(a, b) }\n\nfunc c(a *Mig) *Mig { return deriveClone(a) }\n\nfunc e1(a, b []m1.Item) bool { return deriveEqualOld(a, b) }\n\nfunc e2(a, b []m2.Item) bool { return deriveEqualNew(a, b) }\n"
	mod["only2/o.go"] = "package only2\n\nimport \"scratch/v2/model\"\n\nfunc e(a, b []model.Item) bool { return deriveEqual(a, b) }\n\nfunc c(a map[string]model.Item) map[string]model.Item { return deriveClone(a) }\n\nfunc h(a *model.Item) uint64 { return deriveHash(a) }\n"
	// two packages with the same name, one's path a suffix of the other's
	mod["codec/c.go"] = "package codec\n\ntype Frame struct {\n\tID int\n\tBody []byte\n}\n\nfunc e(a, b *Frame) bool { return deriveEqual(a, b) }\n"
	mod["internal/codec/c.go"] = "package codec\n\ntype Header struct {\n\tK string\n\tV []string\n}\n\nfunc e(a, b *Header) bool { return deriveEqual(a, b) }\n\nfunc c(a *Header) *Header { return deriveClone(a) }\n"
	// a second package whose pending (second-pass) call is textually identical to z's, and a directory that
	// holds nothing but an external test package
	mod["z2/z.go"] = "package z2\n\ntype Z struct{ K map[string]bool }\n\nfunc ks(z *Z) []string { return deriveSort(deriveKeys(z.K)) }\n"
	mod["itest/itest_test.go"] = "package itest_test\n\nimport \"testing\"\n\nfunc TestNothing(t *testing.T) {}\n"
	pkgs := []string{"a", "px", "d", "z", "both", "only2", "codec", "internal/codec", "z2"}
	type variant struct {
		name string
		runs [][]string // each inner slice = args of one invocation
	}
	var variants []variant
	variants = append(variants, variant{"dotdotdot", [][]string{{"./..."}}})
	variants = append(variants, variant{"separate-relative", [][]string{{"./a"}, {"./px"}, {"./d"}, {"./z"}, {"./both"}, {"./only2"}, {"./codec"}, {"./internal/codec"}, {"./z2"}}})
	variants = append(variants, variant{"separate-importpath", [][]string{{"scratch/only2"}, {"scratch/z"}, {"scratch/d"}, {"scratch/px"}, {"scratch/a"}, {"scratch/both"}, {"scratch/internal/codec"}, {"scratch/codec"}, {"scratch/z2"}}})
	perm := []string{"./a", "./px", "./d", "./z", "./both", "./only2", "./codec", "./internal/codec", "./z2", "./itest"}
	for i := 0; i < tierN(c, 4, 24); i++ {
		p := append([]string{}, perm...)
		r.Shuffle(len(p), func(i, j int) { p[i], p[j] = p[j], p[i] })
		variants = append(variants, variant{"grouped-order-" + strings.Join(p, ","), [][]string{p}})
	}
	for i := 0; i < tierN(c, 3, 12); i++ {
		p := []string{"scratch/a", "scratch/px", "scratch/d", "scratch/z", "scratch/both", "scratch/only2", "scratch/codec", "scratch/internal/codec", "scratch/z2", "scratch/itest"}
		r.Shuffle(len(p), func(i, j int) { p[i], p[j] = p[j], p[i] })
		for j := range p {
			if r.Intn(2) == 0 {
				p[j] = "./" + strings.TrimPrefix(p[j], "scratch/")
			}
		}
		variants = append(variants, variant{"mixed-spelling-" + strings.Join(p, ","), [][]string{p}})
	}
	for i := 0; i < tierN(c, 8, 32); i++ {
		// the loader hands packages over in map order: the same grouped invocation is repeated
		variants = append(variants, variant{fmt.Sprintf("dotdotdot-repeat-%d", i), [][]string{{"./..."}}})
	}
	variants = append(variants, variant{"subset-d-then-rest", [][]string{{"./d"}, {"./px", "./a"}, {"./z", "./both", "./only2"}, {"./internal/codec", "./codec"}, {"./z2", "./z", "./itest"}}})
	variants = append(variants, variant{"subset-importpath-pairs", [][]string{{"scratch/px", "scratch/d"}, {"scratch/a", "./z"}, {"scratch/both", "scratch/only2"}, {"scratch/codec", "./internal/codec"}, {"scratch/z", "scratch/z2"}}})
	variants = append(variants, variant{"samename-pair-both-first", [][]string{{"./a", "./px", "./d", "./z", "./z2", "./codec", "./internal/codec"}, {"./both", "./only2"}}})
	variants = append(variants, variant{"samename-pair-only2-first", [][]string{{"./a", "./px", "./d", "./itest", "./z2", "./z", "./internal/codec", "./codec"}, {"./only2", "./both"}}})
	type vres struct {
		sums map[string]string
		outs map[string]string
		err  string
	}
	vr := make([]vres, len(variants))
	parallel(len(variants), 10, func(i int) {
		dir := c.Env.Dir("c08-var")
		defer os.RemoveAll(dir)
		grun.WriteTree(dir, mod)
		res := vres{sums: map[string]string{}, outs: map[string]string{}}
		for _, args := range variants[i].runs {
			g := c.Goderive(dir, args)
			if g.Exit != 0 {
				res.err = fmt.Sprintf("goderive %v: exit %d: %s", args, g.Exit, firstLine(g.Stderr))
			}
		}
		for _, p := range pkgs {
			b, _ := os.ReadFile(filepath.Join(dir, p, "derived.gen.go"))
			res.outs[p] = string(b)
			res.sums[p] = grun.Sum(filepath.Join(dir, p, "derived.gen.go"))
		}
		vr[i] = res
	})
	for i, v := range variants {
		c.Run.Eval(1)
		if vr[i].err != "" {
			c.Run.Violate(report.Violation{Key: "variant|run-fails", Summary: "invocation variant " + v.name + " fails although ./... succeeds", Detail: vr[i].err, Files: mapWithPrefix(mod, "tree/")})
			continue
		}
		bad := false
		for _, p := range pkgs {
			if vr[i].outs[p] == "" {
				// every package of the module has derive calls: a run that names it must leave its file
				bad = true
				c.Run.Violate(report.Violation{Key: "variant|package-not-generated", Summary: fmt.Sprintf("package %s: no derived.gen.go after variant %s although the package was named in it", p, v.name), Files: mapWithPrefix(mod, "tree/")})
				continue
			}
			if vr[i].sums[p] != vr[0].sums[p] {
				bad = true
				files := mapWithPrefix(mod, "tree/")
				files["reference.derived.gen.go"], files["variant.derived.gen.go"] = vr[0].outs[p], vr[i].outs[p]
				c.Run.Violate(report.Violation{Key: "variant|bytes-depend-on-invocation", Summary: fmt.Sprintf("package %s: derived.gen.go differs between `goderive ./...` and variant %s", p, v.name),
					Detail: firstDiff(vr[0].outs[p], vr[i].outs[p]), Files: files})
			}
		}
		if !bad {
			c.Run.Distinct("variant|" + v.name)
		}
	}
	c.Run.Sample(map[string]any{"variants": len(variants), "packages": pkgs, "reference": "goderive ./..."})
}

func counts(m map[string]int) []int {
	var out []int
	for _, n := range m {
		out = append(out, n)
	}
	sort.Sort(sort.Reverse(sort.IntSlice(out)))
	return out
}
