package main

import (
	"bufio"
	"encoding/json"
	"fmt"
	"os"
	"path/filepath"
	"strings"
	"time"

	"verif/internal/grun"
	"verif/internal/pgen"
)

// ItemResult mirrors mon.ItemResult.
type ItemResult struct {
	ID      string           `json:"id"`
	Prop    string           `json:"prop"`
	Shape   string           `json:"shape"`
	Evals   int64            `json:"evals"`
	Classes map[string]int64 `json:"classes"`
	Viols   []struct {
		Class  string `json:"class"`
		Detail string `json:"detail"`
	} `json:"viols"`
	NViol   int            `json:"nviol"`
	Skipped string         `json:"skipped"`
	Extra   map[string]any `json:"extra"`
}

// Outcome of one item after the pipeline.
type Outcome struct {
	Item     *pgen.TItem
	Stage    string // "ok", "generate", "compile", "crash", "missing"
	Stderr   string
	Res      *ItemResult
	Res2     *ItemResult // second process (C04)
	Dir      string      // scratch module the verdict was obtained in
	GenExit  int
	Isolated bool
}

// TypeBatch is a set of items rendered into one package.
type TypeBatch struct {
	Name  string
	U     *pgen.Universe
	Items []pgen.TItem
	// Extra files added to the module (relative path -> content)
	Extra map[string]string
}

type eopts struct {
	Race      bool
	PoolN     int
	MaxMut    int
	TwoRuns   bool // run the harness twice (cross-process repeatability)
	BuildOnly bool // stop after compiling the package (C01)
	Workers   int
}

// runTypeBatches drives goderive + build + harness for every batch, splitting failing batches
// into singleton packages so that every verdict is about one item.
func (c *Ctx) runTypeBatches(batches []TypeBatch, o eopts) []*Outcome {
	if o.Workers == 0 {
		o.Workers = 6
	}
	results := make([][]*Outcome, len(batches))
	parallel(len(batches), o.Workers, func(i int) {
		results[i] = c.runOneBatch(batches[i], o)
	})
	var out []*Outcome
	for _, r := range results {
		out = append(out, r...)
	}
	return out
}

func (c *Ctx) runOneBatch(b TypeBatch, o eopts) []*Outcome {
	dir := c.Env.Dir(b.Name)
	files := pgen.RenderTypePackage(b.U, b.Items)
	for k, v := range b.Extra {
		files[k] = v
	}
	if err := grun.WriteTree(dir, files); err != nil {
		panic(err)
	}
	if err := WriteMon(dir); err != nil {
		panic(err)
	}
	fail := func(stage, stderr string, exit int) []*Outcome {
		if len(b.Items) > 1 {
			// delta isolation: every item in its own package
			var outs []*Outcome
			subs := make([][]*Outcome, len(b.Items))
			parallel(len(b.Items), 4, func(i int) {
				sb := TypeBatch{Name: fmt.Sprintf("%s-s%d", b.Name, i), U: b.U, Items: b.Items[i : i+1], Extra: b.Extra}
				subs[i] = c.runOneBatch(sb, o)
				for _, x := range subs[i] {
					x.Isolated = true
				}
			})
			anyFail := false
			for _, s := range subs {
				outs = append(outs, s...)
				for _, x := range s {
					if x.Stage != "ok" {
						anyFail = true
					}
				}
			}
			if !anyFail {
				// every item is fine on its own: the failure needs the combination (e.g. two imports
				// with the same package name in one generated file). Report the combination itself.
				it := b.Items[0]
				it.Tags = append(append([]string{}, it.Tags...), "combination-of-items")
				outs = append(outs, &Outcome{Item: &it, Stage: stage, Stderr: "only in combination with the other items of the batch (each item alone is fine):\n" + stderr, Dir: dir, GenExit: exit})
				return outs
			}
			os.RemoveAll(dir)
			return outs
		}
		it := b.Items[0]
		return []*Outcome{{Item: &it, Stage: stage, Stderr: stderr, Dir: dir, GenExit: exit}}
	}
	g := c.Goderive(dir, []string{"./p"})
	if g.TimedOut && g.Crash == "" {
		// wall-clock watchdog (the CPU limit gives the verdict on hangs): inconclusive
		return fail("timeout", "goderive: wall-clock watchdog fired after "+g.CPU.String()+" of CPU time", g.Exit)
	}
	if g.Exit != 0 || g.Crash != "" {
		return fail("generate", g.Stderr, g.Exit)
	}
	if o.BuildOnly {
		bl := c.Go(dir, "build", "./p")
		if bl.TimedOut {
			return fail("timeout", "go build: wall-clock watchdog fired", 0)
		}
		if bl.Exit != 0 {
			return fail("compile", bl.Stderr+bl.Stdout, 0)
		}
		var outs []*Outcome
		for i := range b.Items {
			outs = append(outs, &Outcome{Item: &b.Items[i], Stage: "ok", Dir: dir})
		}
		return outs
	}
	args := []string{"build"}
	if o.Race {
		args = append(args, "-race")
	}
	args = append(args, "-o", "h", "./cmd/h")
	bl := c.Go(dir, args...)
	if bl.TimedOut {
		return fail("timeout", "go build: wall-clock watchdog fired", 0)
	}
	if bl.Exit != 0 {
		return fail("compile", bl.Stderr+bl.Stdout, 0)
	}
	ids := make([]string, len(b.Items))
	byID := map[string]*pgen.TItem{}
	for i := range b.Items {
		ids[i] = b.Items[i].ID
		byID[ids[i]] = &b.Items[i]
	}
	outs := map[string]*Outcome{}
	runHarness := func(only []string, second bool) {
		remaining := only
		for len(remaining) > 0 {
			prog := filepath.Join(dir, "progress")
			os.Remove(prog)
			hargs := []string{"-prop", c.Prop, "-seed", fmt.Sprint(c.Seed), "-pool", fmt.Sprint(o.PoolN), "-mut", fmt.Sprint(o.MaxMut),
				"-progress", prog, "-tier", c.Tier, "-only", strings.Join(remaining, ",")}
			env := c.Env.ScratchEnv("GORACE=halt_on_error=1 exitcode=66")
			r := grun.Run(filepath.Join(dir, "h"), hargs, grun.Opts{Dir: dir, Env: env, Wall: 40 * time.Minute})
			done := map[string]bool{}
			sc := bufio.NewScanner(strings.NewReader(r.Stdout))
			sc.Buffer(make([]byte, 1<<20), 64<<20)
			for sc.Scan() {
				var ir ItemResult
				if json.Unmarshal(sc.Bytes(), &ir) != nil || ir.ID == "" {
					continue
				}
				done[ir.ID] = true
				irc := ir
				if second {
					if oc := outs[ir.ID]; oc != nil {
						oc.Res2 = &irc
					}
				} else {
					outs[ir.ID] = &Outcome{Item: byID[ir.ID], Stage: "ok", Res: &irc, Dir: dir}
				}
			}
			var rest []string
			for _, id := range remaining {
				if !done[id] {
					rest = append(rest, id)
				}
			}
			if r.Exit == 0 || len(rest) == 0 {
				for _, id := range rest {
					if !second {
						outs[id] = &Outcome{Item: byID[id], Stage: "missing", Stderr: "harness exited 0 without reporting the item", Dir: dir}
					}
				}
				break
			}
			if r.TimedOut {
				// the monitor process ran into the wall-clock watchdog: no verdict for what it had not reported yet
				for _, id := range rest {
					if !second {
						outs[id] = &Outcome{Item: byID[id], Stage: "timeout", Stderr: "monitor process: wall-clock watchdog fired", Dir: dir}
					}
				}
				break
			}
			// the process died: attribute to the item in the progress file
			cur, _ := os.ReadFile(prog)
			crashed := strings.TrimSpace(string(cur))
			if crashed == "" || done[crashed] {
				crashed = rest[0]
			}
			if !second {
				outs[crashed] = &Outcome{Item: byID[crashed], Stage: "crash", Stderr: tailLines(r.Stderr, 60), Dir: dir}
			}
			var next []string
			for _, id := range rest {
				if id != crashed {
					next = append(next, id)
				}
			}
			remaining = next
		}
	}
	runHarness(ids, false)
	if o.TwoRuns {
		var ok []string
		for _, id := range ids {
			if oc := outs[id]; oc != nil && oc.Stage == "ok" {
				ok = append(ok, id)
			}
		}
		runHarness(ok, true)
	}
	var res []*Outcome
	for _, id := range ids {
		if oc := outs[id]; oc != nil {
			res = append(res, oc)
		}
	}
	return res
}

func tailLines(s string, n int) string {
	ls := strings.Split(s, "\n")
	if len(ls) > n {
		ls = append(ls[:20:20], append([]string{"…"}, ls[len(ls)-(n-20):]...)...)
	}
	return strings.Join(ls, "\n")
}

// chunk splits items into batches of size n.
func chunk(items []pgen.TItem, n int) [][]pgen.TItem {
	var out [][]pgen.TItem
	for len(items) > 0 {
		k := n
		if k > len(items) {
			k = len(items)
		}
		out = append(out, items[:k])
		items = items[k:]
	}
	return out
}
