package main

import (
	"encoding/json"
	"fmt"
	"os"
	"path/filepath"
	"regexp"
	"sort"
	"strconv"
	"strings"

	"verif/internal/pgen"
	"verif/internal/report"
)

func init() { register("C06", "exploration", checkC06) }

// exportedOnly: every struct reachable has exported fields only (the text must compile outside the package).
func exportedOnly(t *pgen.Type) bool {
	return !t.Has(func(x *pgen.Type) bool {
		if x.K == pgen.KStruct {
			for _, f := range x.Fields {
				n := f.Name
				if f.Embedded {
					e := f.T
					for e.K == pgen.KPtr {
						e = e.Elem
					}
					n = e.Name
				}
				if n == "_" && !f.Embedded {
					continue // blank fields are no part of the value: the go string simply leaves them out
				}
				if n == "" || !(n[0] >= 'A' && n[0] <= 'Z') {
					return true
				}
			}
		}
		return false
	})
}

func importsOf(t *pgen.Type) []string {
	m := map[string]bool{}
	t.Expr("", m)
	// also types nested in named structs of the package under test
	t.Has(func(x *pgen.Type) bool {
		if x.K == pgen.KNamed && x.Pkg != "" {
			m[x.Pkg] = true
		}
		return false
	})
	var out []string
	for p := range m {
		if p != "unsafe" {
			out = append(out, p)
		}
	}
	sort.Strings(out)
	return out
}

type c06rec struct {
	Item  *pgen.TItem
	Idx   int
	Text  string
	Canon string
	File  string
	Line  int // first line of the record's function in File
	End   int
}

func checkC06(c *Ctx) {
	c.Anchors = []string{"plugin/gostring", "derive"}
	c.Run.Rule = "items = exported supported type shapes (exported fields only) as in C02, at top level and as a struct field; stage 1 (harness inside the package): for every value of a boundary-biased pool (strings with quotes, backquotes, newlines, invalid UTF-8, NUL; extreme integers; finite floats incl. denormals, float32, -0; nil / empty / non-empty containers; pointer chains; struct-keyed maps; named basics) record deriveGoString(v) and an independent canonical encoding of v; stage 2: a separate `package main` importing the type's package(s) by their own names is assembled with one function per record returning the text as an expression, compiled (compile errors are mapped back to records and the rest recompiled) and executed; each evaluated value's canonical encoding must equal the original's. distinct_nontrivial = distinct (type shape, value index) records that went through both stages"
	c.Run.Assume = []string{"canonical encoding identifies +0 and -0 (like ==)", "records whose type needs two imported packages of the same name are skipped: no importing package can name both"}
	c.Run.Floor = 40
	sel := shapeSel{
		// maps whose keys hold pointers are printed too (each key an expression that allocates): in scope
		// here as in C05; the canonical encoding compares such maps by the contents their keys point to
		ExtraTypes: func(s *pgen.Std) []*pgen.Type {
			sk := s.U.DeclareAs("", "SKP", pgen.StructOf(pgen.F("P", pgen.Ptr(pgen.B("int"))), pgen.F("N", pgen.B("int"))))
			return append(commonExtras(s), pgen.Map(pgen.Ptr(pgen.B("int")), pgen.B("string")), pgen.Map(sk, pgen.B("int")), pgen.Map(pgen.Ptr(s.SV), pgen.Slice(pgen.B("int"))))
		},
		Forms: []string{"top", "field"}, QuickDeep: 60, QuickRand: 20, ThorRand: 300, BatchSize: 44,
		KeepShape: func(t *pgen.Type) bool {
			if !exportedOnly(t) {
				return false
			}
			seenDup := 0
			for _, p := range importsOf(t) {
				if strings.HasSuffix(p, "/dup") {
					seenDup++
				}
			}
			return seenDup < 2
		},
		Ops: func(t *pgen.Type, form string) []string { return []string{"gostring"} },
	}
	batches := c.buildTypeBatches(sel)
	rememberUniverses(batches)
	outs := c.runTypeBatches(batches, eopts{Race: false, PoolN: tierN(c, 10, 16)})
	// stage-1 verdicts (panics, modified arguments, generation failures)
	c.judgeTypeOutcomes(outs, judgeOpts{})
	// group ok outcomes by scratch dir
	byDir := map[string][]*Outcome{}
	for _, oc := range outs {
		if oc.Stage == "ok" && oc.Res != nil && oc.Res.Extra != nil {
			byDir[oc.Dir] = append(byDir[oc.Dir], oc)
		}
	}
	dirs := sortedKeys(byDir)
	results := make([][]string, len(dirs)) // violations as lines are reported inside
	parallel(len(dirs), 6, func(i int) { c.stage2(dirs[i], byDir[dirs[i]]) })
	_ = results
}

var reErrLine = regexp.MustCompile(`cmd/s2/(v_\w+\.go):(\d+):\d+: (.*)`)

func (c *Ctx) stage2(dir string, ocs []*Outcome) {
	var recs []*c06rec
	for _, oc := range ocs {
		raw, _ := json.Marshal(oc.Res.Extra["records"])
		var rs []map[string]string
		json.Unmarshal(raw, &rs)
		for i, r := range rs {
			recs = append(recs, &c06rec{Item: oc.Item, Idx: i, Text: r["text"], Canon: r["canon"]})
		}
	}
	s2 := filepath.Join(dir, "cmd", "s2")
	excluded := map[*c06rec]string{}
	for round := 0; round < 4; round++ {
		os.RemoveAll(s2)
		os.MkdirAll(s2, 0o755)
		var mainSB strings.Builder
		mainSB.WriteString("package main\n\nimport (\n\t\"fmt\"\n\t\"reflect\"\n\t\"scratch/mon\"\n)\n\ntype rec struct {\n\tid string\n\tidx int\n\tf func() any\n\tcanon string\n}\n\nvar recs []rec\n\nfunc main() {\n\tfor _, r := range recs {\n\t\tfunc() {\n\t\t\tdefer func() {\n\t\t\t\tif e := recover(); e != nil {\n\t\t\t\t\tfmt.Printf(\"PANIC %s %d %v\\n\", r.id, r.idx, e)\n\t\t\t\t}\n\t\t\t}()\n\t\t\tgot := mon.Canon(reflect.ValueOf(r.f()))\n\t\t\tif got != r.canon {\n\t\t\t\tfmt.Printf(\"MISMATCH %s %d %q\\n\", r.id, r.idx, got)\n\t\t\t} else {\n\t\t\t\tfmt.Printf(\"OK %s %d\\n\", r.id, r.idx)\n\t\t\t}\n\t\t}()\n\t}\n}\n")
		os.WriteFile(filepath.Join(s2, "main.go"), []byte(mainSB.String()), 0o644)
		byItem := map[string][]*c06rec{}
		for _, r := range recs {
			if _, ex := excluded[r]; !ex {
				byItem[r.Item.ID] = append(byItem[r.Item.ID], r)
			}
		}
		for id, rs := range byItem {
			var body strings.Builder
			all := ""
			for _, r := range rs {
				all += r.Text
			}
			imps := []string{"scratch/p"}
			imps = append(imps, importsOf(rs[0].Item.T)...)
			var hdr strings.Builder
			hdr.WriteString("package main\n\n")
			seen := map[string]bool{}
			var impLines []string
			for _, p := range imps {
				name := p[strings.LastIndexByte(p, '/')+1:]
				if seen[p] || !regexp.MustCompile(`(^|[^\w."])`+name+`\.[A-Z]`).MatchString(all) {
					continue
				}
				seen[p] = true
				impLines = append(impLines, fmt.Sprintf("\t%s %q\n", name, p))
			}
			if len(impLines) > 0 {
				hdr.WriteString("import (\n" + strings.Join(impLines, "") + ")\n\n")
			}
			nline := strings.Count(hdr.String(), "\n")
			file := "v_" + id + ".go"
			for _, r := range rs {
				r.File = file
				r.Line = nline + 1
				fn := fmt.Sprintf("func v_%s_%d() any {\n\treturn %s\n}\n\n", id, r.Idx, strings.TrimRight(r.Text, "\n"))
				body.WriteString(fn)
				nline += strings.Count(fn, "\n")
				r.End = nline
			}
			fmt.Fprintf(&body, "func init() {\n")
			for _, r := range rs {
				fmt.Fprintf(&body, "\trecs = append(recs, rec{%q, %d, v_%s_%d, %s})\n", id, r.Idx, id, r.Idx, strconv.Quote(r.Canon))
			}
			body.WriteString("}\n")
			src := hdr.String() + body.String()
			os.WriteFile(filepath.Join(s2, file), []byte(src), 0o644)
		}
		// no optimisation, no inlining for the stage-2 package: its thousands of literal-building closures
		// make the optimising compiler need gigabytes
		bl := c.Go(dir, "build", "-gcflags=-N -l", "-o", "s2bin", "./cmd/s2")
		if bl.Exit == 0 {
			break
		}
		// map compile errors back to records
		found := 0
		for _, ln := range strings.Split(bl.Stderr+bl.Stdout, "\n") {
			m := reErrLine.FindStringSubmatch(ln)
			if m == nil {
				continue
			}
			line, _ := strconv.Atoi(m[2])
			for _, r := range recs {
				if _, ex := excluded[r]; ex {
					continue
				}
				if r.File == m[1] && line >= r.Line && line <= r.End {
					excluded[r] = m[3]
					found++
				}
			}
		}
		if found == 0 {
			c.Run.Inconclusive("stage-2 program does not compile and the errors cannot be mapped to records: " + trunc(bl.Stderr+bl.Stdout, 600))
			return
		}
	}
	for r, why := range excluded {
		c.Run.Eval(1)
		c.Run.Violate(report.Violation{
			Key:     "stage2-does-not-compile|" + featureKey(r.Item),
			Summary: fmt.Sprintf("item %s type %s value #%d: the GoString text does not compile in an importing package: %s", r.Item.ID, r.Item.T.Expr("", nil), r.Idx, why),
			Detail:  "text:\n" + trunc(r.Text, 1500) + "\noriginal (canonical): " + trunc(r.Canon, 400),
			Files:   persistTree(dir),
		})
	}
	run := c.Go(dir, "run", "./cmd/s2") // already built; `go run` reuses the cache
	lines := strings.Split(run.Stdout, "\n")
	seen := 0
	idx := map[string]*c06rec{}
	for _, r := range recs {
		idx[fmt.Sprintf("%s %d", r.Item.ID, r.Idx)] = r
	}
	for _, ln := range lines {
		f := strings.SplitN(ln, " ", 4)
		if len(f) < 3 {
			continue
		}
		r := idx[f[1]+" "+f[2]]
		if r == nil {
			continue
		}
		seen++
		c.Run.Eval(1)
		switch f[0] {
		case "OK":
			c.Run.Distinct(r.Item.T.Shape() + "|" + fmt.Sprint(r.Idx))
			c.Run.Count("roundtrips_ok", 1)
		case "MISMATCH", "PANIC":
			got := ""
			if len(f) > 3 {
				got = f[3]
			}
			c.Run.Violate(report.Violation{
				Key:     "roundtrip-mismatch|" + featureKey(r.Item),
				Summary: fmt.Sprintf("item %s type %s value #%d: the compiled GoString text evaluates to a different value (%s)", r.Item.ID, r.Item.T.Expr("", nil), r.Idx, f[0]),
				Detail:  "original : " + trunc(r.Canon, 600) + "\nevaluated: " + trunc(got, 600) + "\ntext:\n" + trunc(r.Text, 1200),
				Files:   persistTree(dir),
			})
		}
	}
	if run.Exit != 0 && seen == 0 {
		c.Run.Inconclusive("stage-2 program failed to run: " + firstLine(run.Stderr))
	}
}
