package main

import (
	"fmt"
	"strings"

	"verif/internal/pgen"
	"verif/internal/report"
)

func init() {
	register("C02", "exploration", checkC02)
	register("C03", "exploration", checkC03)
	register("C04", "exploration", checkC04)
	register("C05", "exploration", checkC05)
}

func tierN(c *Ctx, quick, thorough int) int {
	if c.Quick {
		return quick
	}
	return thorough
}

// behaviouralShape excludes shapes the behavioural monitors do not define an answer for.
func behaviouralShape(t *pgen.Type) bool {
	// map keys holding pointers: Go's key equality is identity there (compile-level only, C01)
	return !t.Has(func(x *pgen.Type) bool { return x.K == pgen.KMap && !x.Key.PointerFree() })
}

func checkC02(c *Ctx) {
	c.Anchors = []string{"plugin/equal", "derive"}
	c.Run.Rule = "items = supported type shapes (bounded-exhaustive to constructor depth 2 over 15 leaf classes, each at top level and as a struct field, plus seeded random deeper shapes); per item a boundary-biased pool of values: all ordered pairs, fresh deep copies, re-spared/re-inserted copies, +0/-0 flips and every single-position mutant (leaf, nil-ness, length, key set) are compared by the generated deriveEqual and by the reflective structural reference; distinct_nontrivial counts distinct (type shape, pair class) combinations actually evaluated"
	c.Run.Assume = []string{"the reflective reference mon.RefEqual is the specification of structural equality", "values are acyclic and NaN-free by construction", "go build -race (checkptr) instruments the emitted unsafe field access"}
	c.Run.Floor = 50
	sel := shapeSel{
		ExtraTypes: commonExtras,
		Forms:      []string{"top", "field"}, QuickDeep: 70, QuickRand: 24, ThorRand: 400, BatchSize: 44,
		KeepShape: behaviouralShape,
		Ops: func(t *pgen.Type, form string) []string {
			if form == "top" && topIsCustom(t) {
				return nil
			}
			return []string{"equal", "equalc"}
		},
	}
	batches := c.buildTypeBatches(sel)
	rememberUniverses(batches)
	outs := c.runTypeBatches(batches, eopts{Race: true, PoolN: tierN(c, 10, 16), MaxMut: tierN(c, 14, 40)})
	c.judgeTypeOutcomes(outs, judgeOpts{Race: true})
}

func checkC03(c *Ctx) {
	c.Anchors = []string{"plugin/compare", "plugin/sort", "plugin/keys"}
	c.Run.Rule = "items as in C02; per item all ordered pairs and all triples of a boundary-biased pool plus fresh copies, +0/-0 flips and single-position mutants: result range, antisymmetry, transitivity, compare==0 iff the DERIVED Equal of the same package, natural direction of single-leaf / single-nil-ness mutants outside map keys and outside components with user methods, curried == binary; distinct_nontrivial counts distinct (type shape, case class)"
	c.Run.Assume = []string{"the link to Equal is evaluated against the derived Equal of the same package (C02 decides whether that one is right)", "direction is asserted only where the property defines it"}
	c.Run.Floor = 50
	sel := shapeSel{
		ExtraTypes: commonExtras,
		Forms:      []string{"top", "field"}, QuickDeep: 70, QuickRand: 24, ThorRand: 400, BatchSize: 36,
		KeepShape: behaviouralShape,
		Ops: func(t *pgen.Type, form string) []string {
			if form == "top" && topIsCustom(t) {
				return nil
			}
			return []string{"compare", "comparec", "equal"}
		},
	}
	batches := c.buildTypeBatches(sel)
	rememberUniverses(batches)
	outs := c.runTypeBatches(batches, eopts{Race: true, PoolN: tierN(c, 10, 14), MaxMut: tierN(c, 14, 40)})
	c.judgeTypeOutcomes(outs, judgeOpts{Race: true, OwnOps: func(it *pgen.TItem) []string { return []string{"compare", "comparec"} }})
}

func noCustom(t *pgen.Type) bool {
	return !t.Has(func(x *pgen.Type) bool { return x.K == pgen.KNamed && strings.HasPrefix(x.EqualMethod, "custom") })
}

func checkC04(c *Ctx) {
	c.Anchors = []string{"plugin/hash", "plugin/sort", "plugin/keys"}
	c.Run.Rule = "items as in C02 (types with a hand-written Equal carry a hand-written Hash consistent with it); per item every pair that the DERIVED Equal judges equal must hash equal: pool pairs, fresh deep copies, copies with spare capacity and maps re-inserted in reverse key order, +0/-0 flips, and every single-position mutant that Equal ignores; each value is hashed 9 times in-process; the harness binary is executed twice and the per-value hash tables of the two processes are compared; arguments are snapshotted before/after"
	c.Run.Assume = []string{"'equal' is the derived Equal of the same package (relative property)", "two executions of the same binary stand for 'across processes'"}
	c.Run.Floor = 50
	sel := shapeSel{
		ExtraTypes: commonExtras,
		Forms:      []string{"top", "field"}, QuickDeep: 70, QuickRand: 24, ThorRand: 400, BatchSize: 44,
		// types with a hand-written Equal also have a hand-written Hash consistent with it: at component
		// positions both methods decide; at the top level both derived functions are structural
		KeepShape: behaviouralShape,
		Ops: func(t *pgen.Type, form string) []string {
			if form == "top" && topIsCustom(t) {
				return nil
			}
			return []string{"hash", "equal"}
		},
	}
	batches := c.buildTypeBatches(sel)
	rememberUniverses(batches)
	outs := c.runTypeBatches(batches, eopts{Race: true, PoolN: tierN(c, 10, 16), MaxMut: tierN(c, 14, 40), TwoRuns: true})
	c.judgeTypeOutcomes(outs, judgeOpts{Race: true, OwnOps: func(it *pgen.TItem) []string { return []string{"hash"} },
		OnOK: func(oc *Outcome) {
			if oc.Res2 == nil {
				c.Run.Inconclusive("item " + oc.Item.ID + ": no second process result")
				return
			}
			h1 := fmt.Sprint(oc.Res.Extra["hashes"])
			h2 := fmt.Sprint(oc.Res2.Extra["hashes"])
			c.Run.Eval(1)
			c.Run.Distinct(oc.Item.T.Shape() + "|cross-process")
			if h1 != h2 {
				c.Run.Violate(report.Violation{
					Key:     "cross-process|" + featureKey(oc.Item),
					Summary: fmt.Sprintf("item %s type %s: two processes of the same binary computed different hashes for the same values", oc.Item.ID, oc.Item.T.Expr("", nil)),
					Detail:  "process 1: " + trunc(h1, 600) + "\nprocess 2: " + trunc(h2, 600),
					Files:   persistTree(oc.Dir),
					Replay:  harnessReplay(c.Prop, oc.Item.ID, true),
				})
			}
		}})
}

func checkC05(c *Ctx) {
	c.Anchors = []string{"plugin/deepcopy", "plugin/clone"}
	c.Run.Rule = "items as in C02; per item every source value of a boundary-biased pool (incl. internally shared substructure) is cloned (deriveClone) and, for pointer/slice/map types, deep-copied into 7 prior destination states (zero, all-empty, full, nil-below-top, 3 random; tree-shaped and disjoint from the source, asserted); three monitors per call: structural+canonical equality incl. nil-ness and unchanged source, address disjointness of all reachable pointer targets / backing arrays (cap-aware) / maps, and behavioural independence by scribbling over every location reachable from one side (slices up to capacity, maps incl. a new key) and re-reading the other side, in both directions"
	c.Run.Assume = []string{"string data is immutable and may be shared", "zero-size allocations are not memory"}
	c.Run.Floor = 50
	sel := shapeSel{
		// maps whose keys hold pointers are copied too (fresh keys with equal pointees): they are in scope
		// here and nowhere else (no derived Equal / Compare / Hash exists for them)
		ExtraTypes: func(s *pgen.Std) []*pgen.Type {
			sk := s.U.DeclareAs("", "SKP", pgen.StructOf(pgen.F("P", pgen.Ptr(pgen.B("int"))), pgen.F("N", pgen.B("int"))))
			return append(commonExtras(s), pgen.Map(pgen.Ptr(pgen.B("int")), pgen.B("string")), pgen.Map(pgen.Array(2, pgen.Ptr(pgen.B("int"))), pgen.B("int")),
				pgen.Map(sk, pgen.Slice(pgen.B("int"))), pgen.Map(pgen.Ptr(s.SV), pgen.Ptr(s.SV)))
		},
		Forms: []string{"top", "field"}, QuickDeep: 70, QuickRand: 24, ThorRand: 400, BatchSize: 44,
		KeepShape: func(t *pgen.Type) bool {
			return behaviouralShape(t) || !t.Has(func(x *pgen.Type) bool { return x.K == pgen.KMap && !x.Key.PointerFree() && x.Key.K == pgen.KMap })
		},
		Ops: func(t *pgen.Type, form string) []string {
			ops := []string{"clone"}
			tt := t
			if form == "field" {
				return []string{"clone", "deepcopy"} // *W
			}
			switch tt.Underlying().K {
			case pgen.KPtr, pgen.KSlice, pgen.KMap:
				ops = append(ops, "deepcopy")
			}
			return ops
		},
	}
	batches := c.buildTypeBatches(sel)
	rememberUniverses(batches)
	outs := c.runTypeBatches(batches, eopts{Race: true, PoolN: tierN(c, 8, 14)})
	c.judgeTypeOutcomes(outs, judgeOpts{Race: true})
}
